(* C18: the LRU bound under arbitrary interleavings of the atomic sections. *)
From CJ Require Import Common.Base C18.Model C18.Proofs C18.ModelConc.
From Coq Require Import Lia ZifyN ZifyNat ZifyBool.

Definition cinv (c : config) : Prop :=
  let '(s, ths) := c in
  NoDup (sh_keys s) /\ NoDup (sh_list s) /\ N.of_nat (length (sh_list s)) <= sh_cap s /\ 1 <= sh_cap s /\
  (forall x, In x (sh_keys s) -> In x (sh_list s) \/ In x (flat_map pending ths)).

Lemma kadd_in x k l : In x (kadd k l) <-> x = k \/ In x l.
Proof.
  unfold kadd. destruct (mem k l) eqn:E.
  - apply mem_in in E. split; [auto|]. intros [->|H]; auto.
  - cbn. split; intros [H|H]; auto.
Qed.

Lemma nodup_kadd k l : NoDup l -> NoDup (kadd k l).
Proof.
  unfold kadd. destruct (mem k l) eqn:E; auto. intros H. constructor; auto. apply mem_false; auto.
Qed.

Lemma nth_split (ths : list thread) i t : nth_error ths i = Some t ->
  ths = firstn i ths ++ t :: skipn (S i) ths.
Proof.
  revert i. induction ths as [|a r IH]; intros [|i]; cbn; try discriminate.
  - intros [= ->]. auto.
  - intros H. f_equal. apply IH. auto.
Qed.

Lemma pend_split pre t post x :
  In x (flat_map pending (pre ++ t :: post)) <->
  In x (flat_map pending pre) \/ In x (pending t) \/ In x (flat_map pending post).
Proof. rewrite flat_map_app. cbn. rewrite !in_app_iff. tauto. Qed.

Lemma pending_after_lru ev rest prog x :
  In x (pending (mkTh (after_lru ev rest) prog)) <-> ev = Some x.
Proof.
  unfold after_lru, pending. destruct ev as [e|]; cbn.
  - split; [intros [->|[]]; auto|intros [= ->]; auto].
  - destruct rest; cbn; split; try tauto; discriminate.
Qed.

Lemma pending_idle_or_clearing rest prog :
  pending (mkTh (match rest with [] => Idle | _ => Clearing rest end) prog) = [].
Proof. destruct rest; auto. Qed.

Lemma cinv_step c i : cinv c -> cinv (cstep c i).
Proof.
  destruct c as [s ths]. unfold cstep. destruct (nth_error ths i) as [t|] eqn:En; auto.
  destruct (tstep s t) as [[s' t']|] eqn:Et; auto.
  pose proof (nth_split _ _ _ En) as Hsp.
  set (pre := firstn i ths) in *. set (post := skipn (S i) ths) in *.
  intros (K1 & K2 & K3 & K4 & K5). rewrite Hsp in K5.
  unfold tstep in Et. destruct t as [p prog]. cbn [t_pc t_prog] in Et.
  destruct p as [|k|k|ks|e rest].
  - (* Idle *)
    destruct prog as [|[k|k f|ks] r]; try discriminate; injection Et as <- <-; cbn [cinv sh_keys sh_list sh_cap].
    + repeat split; auto; [apply nodup_kadd; auto|].
      intros x Hx. apply kadd_in in Hx. rewrite pend_split. cbn [pending t_pc].
      destruct Hx as [->|Hx]; [right; right; left; left; auto|].
      destruct (K5 _ Hx) as [H|H]; auto. apply pend_split in H. cbn in H. tauto.
    + repeat split; auto. intros x Hx. destruct (K5 _ Hx) as [H|H]; auto.
      right. apply pend_split in H. apply pend_split. cbn in H. tauto.
    + repeat split; auto. intros x Hx. destruct (K5 _ Hx) as [H|H]; auto.
      right. apply pend_split in H. apply pend_split. cbn in H. tauto.
  - (* AddMapped k *)
    destruct (lru_touch k (sh_list s) (sh_cap s)) as [l' ev] eqn:El. injection Et as <- <-.
    destruct (lru_touch_spec _ _ _ _ _ K2 K3 K4 El) as (T1 & T2 & T3 & T4 & T5 & T6 & T7).
    cbn [cinv sh_keys sh_list sh_cap]. repeat split; auto.
    intros x Hx. rewrite pend_split, pending_after_lru.
    destruct (K5 _ Hx) as [H|H].
    + destruct (T5 _ H); auto.
    + apply pend_split in H. cbn [pending t_pc] in H. destruct H as [H|[[<-|[]]|H]]; auto.
  - (* LookRead k *)
    destruct (lru_touch k (sh_list s) (sh_cap s)) as [l' ev] eqn:El. injection Et as <- <-.
    destruct (lru_touch_spec _ _ _ _ _ K2 K3 K4 El) as (T1 & T2 & T3 & T4 & T5 & T6 & T7).
    cbn [cinv sh_keys sh_list sh_cap]. repeat split; auto.
    intros x Hx. rewrite pend_split, pending_after_lru.
    destruct (K5 _ Hx) as [H|H].
    + destruct (T5 _ H); auto.
    + apply pend_split in H. cbn [pending t_pc] in H. destruct H as [H|[[]|H]]; auto.
  - (* Clearing *)
    destruct ks as [|k rest].
    + injection Et as <- <-. cbn [cinv]. repeat split; auto. intros x Hx.
      destruct (K5 _ Hx) as [H|H]; auto. right. apply pend_split in H. apply pend_split. cbn in H. tauto.
    + destruct (lru_remove k (sh_list s)) as [l' ev] eqn:El. injection Et as <- <-.
      destruct (lru_remove_spec _ _ _ _ K2 El) as (R1 & R2 & R3 & R4 & R5 & R6).
      cbn [cinv sh_keys sh_list sh_cap]. repeat split; auto; [lia|].
      intros x Hx. rewrite pend_split, pending_after_lru.
      destruct (K5 _ Hx) as [H|H].
      * destruct R4 as [->| ->].
        -- destruct (N.eq_dec x k) as [->|Hn]; auto. left. apply R3. split; auto.
        -- left. apply R3. split; auto. discriminate.
      * apply pend_split in H. cbn [pending t_pc] in H. destruct H as [H|[[]|H]]; auto.
  - (* Callback e rest *)
    injection Et as <- <-. cbn [cinv sh_keys sh_list sh_cap]. repeat split; auto; [apply nodup_lremove; auto|].
    intros x Hx. apply lremove_in in Hx. destruct Hx as [Hx Hne].
    rewrite pend_split, pending_idle_or_clearing.
    destruct (K5 _ Hx) as [H|H]; auto.
    apply pend_split in H. cbn [pending t_pc] in H. destruct H as [H|[[<-|[]]|H]]; auto. congruence.
Qed.

Lemma cinv_init cp progs : 1 <= cp -> cinv (cinit cp progs).
Proof.
  intros H. unfold cinit, cinv. cbn [sh_keys sh_list sh_cap].
  split; [constructor|split; [constructor|split; [cbn; lia|split; [auto|intros x []]]]].
Qed.

Lemma cinv_run sched : forall c, cinv c -> cinv (crun c sched).
Proof.
  induction sched as [|i r IH]; intros c H; auto. unfold crun. cbn [fold_left]. fold (crun (cstep c i) r).
  apply IH. apply cinv_step. auto.
Qed.

Lemma cinv_bound c : cinv c ->
  let '(s, ths) := c in N.of_nat (length (sh_keys s)) <= sh_cap s + N.of_nat (in_flight ths).
Proof.
  destruct c as [s ths]. intros (K1 & K2 & K3 & K4 & K5).
  assert (length (sh_keys s) <= length (sh_list s ++ flat_map pending ths))%nat.
  { apply NoDup_incl_length; auto. intros x Hx. apply in_or_app. auto. }
  rewrite app_length in H. unfold in_flight. lia.
Qed.

(* every thread carries at most one key *)
Lemma pending_le1 t : (length (pending t) <= 1)%nat.
Proof. unfold pending. destruct (t_pc t); cbn; lia. Qed.

Lemma in_flight_le ths : (in_flight ths <= length ths)%nat.
Proof.
  unfold in_flight. induction ths as [|t r IH]; cbn; auto.
  rewrite app_length. pose proof (pending_le1 t). lia.
Qed.

Lemma in_flight_quiescent ths : quiescent ths -> in_flight ths = 0%nat.
Proof.
  unfold in_flight, quiescent. induction ths as [|t r IH]; cbn; auto. intros H.
  rewrite app_length, IH by (intros t' Ht'; apply H; right; auto).
  unfold pending. rewrite (H t) by (left; auto). auto.
Qed.

Lemma cstep_nthreads c i : length (snd (cstep c i)) = length (snd c).
Proof.
  destruct c as [s ths]. unfold cstep. destruct (nth_error ths i) as [t|] eqn:En; auto.
  destruct (tstep s t) as [[s' t']|]; auto. cbn [snd].
  rewrite (nth_split _ _ _ En) at 3. rewrite !app_length. cbn. auto.
Qed.

Lemma crun_nthreads sched : forall c, length (snd (crun c sched)) = length (snd c).
Proof.
  induction sched as [|i r IH]; intros c; auto. unfold crun. cbn [fold_left]. fold (crun (cstep c i) r).
  rewrite IH. apply cstep_nthreads.
Qed.

Lemma cstep_cap c i : sh_cap (fst (cstep c i)) = sh_cap (fst c).
Proof.
  destruct c as [s ths]. unfold cstep. destruct (nth_error ths i) as [t|] eqn:En; auto.
  destruct (tstep s t) as [[s' t']|] eqn:Et; auto. cbn [fst].
  unfold tstep in Et. destruct (t_pc t) as [|k|k|ks|e rest].
  - destruct (t_prog t) as [|[k|k f|ks] r]; try discriminate; injection Et as <- _; auto.
  - destruct (lru_touch k (sh_list s) (sh_cap s)). injection Et as <- _. auto.
  - destruct (lru_touch k (sh_list s) (sh_cap s)). injection Et as <- _. auto.
  - destruct ks as [|k rest]; [injection Et as <- _; auto|].
    destruct (lru_remove k (sh_list s)). injection Et as <- _. auto.
  - injection Et as <- _. auto.
Qed.

Lemma crun_cap sched : forall c, sh_cap (fst (crun c sched)) = sh_cap (fst c).
Proof.
  induction sched as [|i r IH]; intros c; auto. unfold crun. cbn [fold_left]. fold (crun (cstep c i) r).
  rewrite IH. apply cstep_cap.
Qed.

(* the theorem: for every capacity, every set of thread programs and every schedule *)
Lemma lru_bounded_concurrent cp progs sched : 1 <= cp ->
  let '(s, ths) := crun (cinit cp progs) sched in
  N.of_nat (length (sh_keys s)) <= cp + N.of_nat (in_flight ths) /\
  (in_flight ths <= length progs)%nat /\
  (quiescent ths -> N.of_nat (length (sh_keys s)) <= cp).
Proof.
  intros Hcp. pose proof (cinv_run sched _ (cinv_init cp progs Hcp)) as HI.
  pose proof (crun_nthreads sched (cinit cp progs)) as Hn.
  pose proof (crun_cap sched (cinit cp progs)) as Hc.
  destruct (crun (cinit cp progs) sched) as [s ths]. cbn [fst snd] in *.
  pose proof (cinv_bound _ HI) as Hb. cbn in Hb. unfold cinit in Hn, Hc. cbn in Hn, Hc.
  rewrite map_length in Hn. rewrite Hc in Hb. repeat split; auto.
  - rewrite <- Hn. apply in_flight_le.
  - intros Hq. rewrite (in_flight_quiescent _ Hq) in Hb. lia.
Qed.

(* the map never holds a key that is neither in the recency list nor carried by a thread:
   nothing is leaked for good by any interleaving *)
Lemma no_leak_concurrent cp progs sched : 1 <= cp ->
  let '(s, ths) := crun (cinit cp progs) sched in
  forall x, In x (sh_keys s) -> In x (sh_list s) \/ In x (flat_map pending ths).
Proof.
  intros Hcp. pose proof (cinv_run sched _ (cinv_init cp progs Hcp)) as HI.
  destruct (crun (cinit cp progs) sched) as [s ths]. destruct HI as (_ & _ & _ & _ & K5). auto.
Qed.
