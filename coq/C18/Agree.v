(* C18: below capacity the LRU cache and the map cache are indistinguishable
   through the cache interface, as long as Add is only called for absent keys. *)
From CJ Require Import Common.Base C18.Model C18.Proofs C18.ModelAgree.
From Coq Require Import Lia ZifyN ZifyNat ZifyBool.

Definition same_entries (c1 c2 : cache) : Prop :=
  wf_cache c1 /\ wf_cache c2 /\ c_ttl c1 = c_ttl c2 /\ forall k, c_find k c1 = c_find k c2.

Lemma same_len c1 c2 : same_entries c1 c2 -> c_len c1 = c_len c2.
Proof.
  intros (W1 & W2 & _ & Hf).
  assert (N1 : NoDup (akeys (c_map c1))) by (destruct c1; cbn in *; [auto|apply W1]).
  assert (N2 : NoDup (akeys (c_map c2))) by (destruct c2; cbn in *; [auto|apply W2]).
  assert (Hin : forall k, In k (akeys (c_map c1)) <-> In k (akeys (c_map c2))).
  { intros k. rewrite !in_akeys_afind. unfold c_find in Hf. rewrite Hf. tauto. }
  assert (length (akeys (c_map c1)) = length (akeys (c_map c2))).
  { apply Nat.le_antisymm; apply NoDup_incl_length; auto; intros k Hk; apply Hin; auto. }
  unfold c_len. unfold akeys in H. rewrite !map_length in H. lia.
Qed.

Lemma lookup_agree now k c1 c2 b1 c1' e1 b2 c2' e2 : same_entries c1 c2 ->
  c_lookup now k c1 = (b1, c1', e1) -> c_lookup now k c2 = (b2, c2', e2) ->
  b1 = b2 /\ same_entries c1' c2'.
Proof.
  intros (W1 & W2 & Ht & Hf) L1 L2.
  destruct (c_lookup_spec _ _ _ _ _ _ W1 L1) as (A1 & A2 & A3 & _ & A5 & _).
  destruct (c_lookup_spec _ _ _ _ _ _ W2 L2) as (B1 & B2 & B3 & _ & B5 & _).
  split.
  - destruct b1, b2; auto.
    + assert (false = true); [|discriminate]. apply B5. rewrite <- Hf, <- Ht. apply A5. auto.
    + assert (false = true); [|discriminate]. apply A5. rewrite Hf, Ht. apply B5. auto.
  - unfold same_entries. repeat split; auto; [congruence|]. intros k'. unfold c_find. rewrite A3, B3. apply Hf.
Qed.

Lemma clear_agree now c1 c2 c1' e1 c2' e2 : same_entries c1 c2 ->
  c_clear now c1 = (c1', e1) -> c_clear now c2 = (c2', e2) -> same_entries c1' c2'.
Proof.
  intros (W1 & W2 & Ht & Hf) L1 L2.
  destruct (c_clear_spec _ _ _ _ W1 L1) as (A1 & A2 & A3 & A4 & _).
  destruct (c_clear_spec _ _ _ _ W2 L2) as (B1 & B2 & B3 & B4 & _).
  unfold same_entries. repeat split; auto; [congruence|]. intros k.
  destruct (c_find k c1') as [t|] eqn:E1.
  - apply A3 in E1. destruct E1 as [E1 O1]. symmetry. apply B4; [rewrite <- Hf; auto|rewrite <- Ht; auto].
  - destruct (c_find k c2') as [t|] eqn:E2; auto.
    apply B3 in E2. destruct E2 as [E2 O2]. rewrite <- Hf in E2. rewrite <- Ht in O2.
    rewrite (A4 _ _ E2 O2) in E1. discriminate.
Qed.

(* an LRU add that does not evict *)
Lemma l_add_no_evict k t c : wf_lru c ->
  (In k (llist c) \/ N.of_nat (S (length (llist c))) <= lcap c) -> snd (l_add k t c) = [].
Proof.
  intros Hwf H. unfold l_add, lru_touch.
  destruct (mem k (llist c)) eqn:Em; [auto|].
  apply mem_false in Em. destruct H as [H|H]; [contradiction|].
  destruct (lcap c <? N.of_nat (length (k :: llist c))) eqn:E; auto. cbn [length] in E. lia.
Qed.

Lemma add_agree now k c1 c2 c1' e1 c2' e2 : same_entries c1 c2 ->
  c_find k c1 = None -> e1 = [] -> e2 = [] ->
  c_add now k c1 = (c1', e1) -> c_add now k c2 = (c2', e2) -> same_entries c1' c2'.
Proof.
  intros (W1 & W2 & Ht & Hf) Hn -> -> L1 L2.
  destruct (c_add_spec _ _ _ _ _ W1 L1) as (A1 & A2 & _ & _ & A5 & _ & A7 & _).
  destruct (c_add_spec _ _ _ _ _ W2 L2) as (B1 & B2 & _ & _ & B5 & _ & B7 & _).
  unfold same_entries. repeat split; auto; [congruence|]. intros k'.
  destruct (N.eq_dec k' k) as [->|Hne].
  - rewrite (A5 Hn), (B5 (eq_trans (eq_sym (Hf k)) Hn)). auto.
  - rewrite A7, B7; auto.
Qed.

Definition is_map (c : cache) : Prop := match c with CMap _ _ => True | _ => False end.
Definition lru_room (c : cache) (keys : list N) : Prop :=
  match c with
  | CMap _ _ => True
  | CLru _ l => forall ks, NoDup ks -> incl ks (llist l ++ keys) -> N.of_nat (length ks) <= lcap l
  end.

Lemma c_add_map_ev now k c c' e : is_map c -> c_add now k c = (c', e) -> e = [] /\ is_map c'.
Proof. destruct c; cbn; [|tauto]. intros _ [= <- <-]. cbn. auto. Qed.

Lemma agree_gen h : forall now c1 c2,
  same_entries c1 c2 -> is_map c1 -> lru_room c2 (added_keys h) ->
  adds_absent now c1 h = true -> krun now c1 h = krun now c2 h.
Proof.
  induction h as [|o r IH]; intros now c1 c2 HS HM HR HA; cbn [krun]; auto.
  cbn [adds_absent] in HA. apply andb_prop in HA. destruct HA as [HA1 HA2].
  destruct o as [k|k| |d]; cbn [kstep] in *.
  - (* lookup *)
    destruct (c_lookup now k c1) as [[b1 c1'] e1] eqn:L1.
    destruct (c_lookup now k c2) as [[b2 c2'] e2] eqn:L2.
    destruct (lookup_agree _ _ _ _ _ _ _ _ _ _ HS L1 L2) as [<- HS'].
    rewrite (same_len _ _ HS'). f_equal. apply IH; auto.
    + destruct c1; [|contradiction]. cbn in L1. injection L1 as _ <- _. exact I.
    + destruct HS as (_ & W2 & _). destruct (c_lookup_spec _ _ _ _ _ _ W2 L2) as (L1' & _ & _ & _ & _ & _ & L7).
      destruct c2 as [|ttl l]; destruct c2' as [|ttl' l']; try contradiction; cbn; auto.
      cbn in L2. destruct (l_lookup now ttl k l) as [[b0 l0] ev0] eqn:El. inversion L2; subst.
      destruct (l_lookup_wf _ _ _ _ _ _ _ W2 El) as (Wl & _ & Hm & _).
      cbn in HR |- *. intros ks Hnd Hinc. rewrite L7. apply HR; auto.
      intros x Hx. apply Hinc in Hx. apply in_app_or in Hx. apply in_or_app.
      destruct Hx as [Hx|Hx]; auto. left.
      destruct W2 as (_ & _ & S2 & _). destruct Wl as (_ & _ & S1 & _).
      apply S2. rewrite <- Hm. apply S1. auto.
  - (* add *)
    destruct (c_find k c1) eqn:Ef; [discriminate|].
    destruct (c_add now k c1) as [c1' e1] eqn:L1.
    destruct (c_add now k c2) as [c2' e2] eqn:L2.
    destruct (c_add_map_ev _ _ _ _ _ HM L1) as [He1 HM'].
    assert (He2 : e2 = [] /\ lru_room c2' (added_keys r)).
    { destruct HS as (_ & W2 & _ & Hf). destruct c2 as [ttl m|ttl l]; cbn in L2.
      - injection L2 as <- <-. cbn. auto.
      - destruct (l_add k now l) as [l' ev] eqn:El. injection L2 as <- <-. cbn in W2, HR.
        assert (Hev : ev = []).
        { change ev with (snd (l', ev)). rewrite <- El. apply l_add_no_evict; auto.
          destruct (in_dec N.eq_dec k (llist l)) as [Hi|Hi]; auto. right.
          assert (NoDup (k :: llist l)) by (constructor; auto; apply W2).
          specialize (HR (k :: llist l) H). cbn [length] in HR. apply HR.
          intros x [<-|Hx]; apply in_or_app; [right; cbn; auto|auto]. }
        split; auto. cbn.
        destruct (l_add_wf _ _ _ _ _ W2 El) as (Wl & Hc & _).
        intros ks Hnd Hinc. rewrite Hc. apply HR; auto.
        intros x Hx. apply Hinc in Hx. apply in_app_or in Hx. apply in_or_app.
        destruct Hx as [Hx|Hx]; [|right; cbn; right; auto].
        (* keys of the new list: k or an old one *)
        unfold l_add in El. destruct (lru_touch k (llist l) (lcap l)) as [l2 ev2] eqn:Et. injection El as <- _.
        destruct W2 as (_ & N2 & _ & Hlen & Hcap).
        destruct (lru_touch_spec _ _ _ _ _ N2 Hlen Hcap Et) as (_ & _ & _ & T4 & _). cbn in Hx.
        destruct (T4 _ Hx) as [->|Ho]; [right; cbn; auto|left; auto]. }
    destruct He2 as [He2 HR'].
    pose proof (add_agree _ _ _ _ _ _ _ _ HS Ef He1 He2 L1 L2) as HS'.
    rewrite (same_len _ _ HS'). f_equal. apply IH; auto.
  - (* clear *)
    destruct (c_clear now c1) as [c1' e1] eqn:L1.
    destruct (c_clear now c2) as [c2' e2] eqn:L2.
    pose proof (clear_agree _ _ _ _ _ _ _ HS L1 L2) as HS'.
    rewrite (same_len _ _ HS'). f_equal. apply IH; auto.
    + destruct c1; [|contradiction]. cbn in L1. injection L1 as <- _. exact I.
    + destruct HS as (_ & W2 & _).
      destruct c2 as [|ttl l]; cbn in L2; [injection L2 as <- _; exact I|].
      destruct (l_clear now ttl l) as [l' ev] eqn:El. injection L2 as <- _. cbn in HR |- *.
      unfold l_clear in El. destruct (l_remove_all_wf _ _ _ _ W2 El) as (Wl & Hc & R3 & _).
      intros ks Hnd Hinc. rewrite Hc. apply HR; auto.
      intros x Hx. apply Hinc in Hx. apply in_app_or in Hx. apply in_or_app.
      destruct Hx as [Hx|Hx]; auto. left.
      destruct W2 as (_ & _ & S2 & _). destruct Wl as (_ & _ & S1 & _).
      apply S2. apply S1 in Hx. apply in_akeys_afind in Hx. destruct Hx as [t Hx].
      apply R3 in Hx. apply in_akeys_afind. destruct Hx. eauto.
  - (* advance *)
    rewrite (same_len _ _ HS). f_equal. apply IH; auto.
Qed.

Lemma map_lru_agree_below_capacity ttl cp h : 1 <= cp ->
  N.of_nat (length (nodup N.eq_dec (added_keys h))) <= cp ->
  adds_absent 0 (CMap ttl []) h = true ->
  krun 0 (CMap ttl []) h = krun 0 (CLru ttl (mkLru [] [] cp)) h.
Proof.
  intros Hcp Hd Ha. apply agree_gen; auto.
  - unfold same_entries. cbn. repeat split; auto; try constructor; try tauto. cbn. lia.
  - exact I.
  - cbn. intros ks Hnd Hinc.
    assert (length ks <= length (nodup N.eq_dec (added_keys h)))%nat.
    { apply NoDup_incl_length; auto. intros x Hx. apply nodup_In. apply Hinc. auto. }
    lia.
Qed.
