(* C18: the concurrent model, run by a single thread, is the sequential lruCache of Model.v
   (projected to key sets and the recency list).  This ties ModelConc.v to the model that
   the correspondence check compares with the code. *)
From CJ Require Import Common.Base C18.Model C18.Proofs C18.ModelConc C18.Conc.
From Coq Require Import Lia ZifyN ZifyNat ZifyBool.

Definition proj (c : lru) : shared := mkSh (akeys (lmap c)) (llist c) (lcap c).
Definition same_keys (a b : list N) : Prop := forall x, In x a <-> In x b.
Definition matches (s : shared) (c : lru) : Prop :=
  same_keys (sh_keys s) (akeys (lmap c)) /\ sh_list s = llist c /\ sh_cap s = lcap c.

Lemma akeys_aset x k t m : In x (akeys (aset k t m)) <-> x = k \/ In x (akeys m).
Proof.
  unfold aset. cbn. rewrite akeys_adel_in. split.
  - intros [H|[H _]]; auto.
  - intros [->|H]; auto. destruct (N.eq_dec x k); auto.
Qed.

Lemma akeys_on_evict x ev m : In x (akeys (on_evict ev m)) <-> In x (akeys m) /\ ev <> Some x.
Proof.
  destruct ev as [e|]; cbn.
  - rewrite akeys_adel_in. split; intros [H1 H2]; split; auto; congruence.
  - split; [intros H; split; auto; discriminate|tauto].
Qed.

(* run the single thread of a one-thread configuration for n atomic sections *)
Definition solo (s : shared) (prog : list cop) (n : nat) : config :=
  crun (s, [mkTh Idle prog]) (repeat 0%nat n).

Lemma cstep_solo s t : cstep (s, [t]) 0 = match tstep s t with Some (s', t') => (s', [t']) | None => (s, [t]) end.
Proof. unfold cstep. cbn. destruct (tstep s t) as [[s' t']|]; auto. Qed.

(* Add *)
Lemma solo_add s c k t : matches s c -> wf_lru c ->
  let '(s', ths) := solo s [CAdd k] 3 in
  matches s' (fst (l_add k t c)) /\ ths = [mkTh Idle []].
Proof.
  intros (Hk & Hl & Hc) Hwf. unfold solo. cbn [repeat crun fold_left].
  rewrite cstep_solo. cbn [tstep t_pc t_prog]. rewrite cstep_solo. cbn [tstep t_pc t_prog sh_list sh_cap].
  unfold l_add. rewrite Hl, Hc.
  destruct (lru_touch k (llist c) (lcap c)) as [l' ev] eqn:Et.
  destruct ev as [e|]; cbn [after_lru]; rewrite cstep_solo; cbn [tstep t_pc t_prog sh_keys sh_list sh_cap fst].
  - split; auto. unfold matches. cbn [sh_keys sh_list sh_cap lmap llist lcap fst]. split; [|split; auto].
    intros x. rewrite lremove_in, kadd_in, akeys_on_evict, akeys_aset, (Hk x).
    split; intros [H1 H2]; split; auto; congruence.
  - split; auto. unfold matches. cbn [sh_keys sh_list sh_cap lmap llist lcap fst on_evict]. split; [|split; auto].
    intros x. rewrite kadd_in, akeys_aset, (Hk x). tauto.
Qed.

(* Lookup: the freshness bit of the operation is the one the sequential Lookup computes *)
Definition fresh_bit (now : N) (ttl : Z) (k : N) (c : lru) : bool :=
  match afind k (lmap c) with Some t => fresh now t ttl | None => false end.

Lemma solo_lookup s c now ttl k : matches s c -> wf_lru c ->
  let '(s', ths) := solo s [CLookup k (fresh_bit now ttl k c)] 3 in
  matches s' (snd (fst (l_lookup now ttl k c))) /\ ths = [mkTh Idle []].
Proof.
  intros (Hk & Hl & Hc) Hwf. unfold solo. cbn [repeat crun fold_left].
  rewrite cstep_solo. cbn [tstep t_pc t_prog]. unfold fresh_bit, l_lookup.
  destruct (afind k (lmap c)) as [t|] eqn:Ef.
  - assert (Hm : mem k (sh_keys s) = true).
    { apply mem_in. apply Hk. apply in_akeys_afind. eauto. }
    rewrite Hm. cbn [andb]. destruct (fresh now t ttl).
    + rewrite cstep_solo. cbn [tstep t_pc t_prog sh_list sh_cap]. rewrite Hl, Hc.
      destruct (lru_touch k (llist c) (lcap c)) as [l' ev] eqn:Et.
      destruct ev as [e|]; cbn [after_lru]; rewrite cstep_solo; cbn [tstep t_pc t_prog sh_keys sh_list sh_cap fst snd].
      * split; auto. unfold matches. cbn [sh_keys sh_list sh_cap lmap llist lcap]. split; [|split; auto].
        intros x. rewrite lremove_in, akeys_on_evict, (Hk x). split; intros [H1 H2]; split; auto; congruence.
      * split; auto. unfold matches. cbn [sh_keys sh_list sh_cap lmap llist lcap on_evict]. auto.
    + rewrite !cstep_solo. cbn [tstep t_pc t_prog fst snd]. split; auto. unfold matches. auto.
  - rewrite Bool.andb_false_r. rewrite !cstep_solo. cbn [tstep t_pc t_prog fst snd]. split; auto. unfold matches. auto.
Qed.

(* ClearExpired: the thread works through the keys it read; 2 atomic sections per key suffice *)
Lemma idle_done s n : crun (s, [mkTh Idle []]) (repeat 0%nat n) = (s, [mkTh Idle []]).
Proof.
  induction n as [|n IH]; [reflexivity|]. cbn [repeat]. unfold crun in *. cbn [fold_left].
  rewrite cstep_solo. cbn [tstep t_pc t_prog]. exact IH.
Qed.

Definition clearing_pc (ks : list N) : pc := match ks with [] => Idle | _ => Clearing ks end.

Lemma solo_clearing ks : forall s c n, matches s c -> wf_lru c -> (2 * length ks <= n)%nat ->
  let '(s', ths) := crun (s, [mkTh (clearing_pc ks) []]) (repeat 0%nat n) in
  matches s' (fst (l_remove_all ks c)) /\ ths = [mkTh Idle []].
Proof.
  induction ks as [|k rest IH]; intros s c n HM Hwf Hn.
  - cbn [clearing_pc l_remove_all fst]. rewrite idle_done. auto.
  - cbn [clearing_pc]. destruct n as [|n]; [cbn in Hn; lia|]. cbn [repeat]. unfold crun. cbn [fold_left].
    fold (crun (cstep (s, [mkTh (Clearing (k :: rest)) []]) 0) (repeat 0%nat n)).
    rewrite cstep_solo. cbn [tstep t_pc t_prog]. destruct HM as (Hk & Hl & Hc).
    cbn [l_remove_all]. rewrite Hl.
    destruct (lru_remove k (llist c)) as [l' ev] eqn:Er.
    destruct Hwf as (W1 & W2 & W3 & W4 & W5).
    destruct (lru_remove_spec _ _ _ _ W2 Er) as (R1 & R2 & R3 & R4 & R5 & R6).
    assert (Hwf2 : wf_lru (mkLru (on_evict ev (lmap c)) l' (lcap c))).
    { unfold wf_lru; cbn [lmap llist lcap]. repeat split; auto.
      - destruct ev; cbn; [apply nodup_adel|]; auto.
      - intros Hx. apply R3. destruct R4 as [->| ->]; cbn in Hx.
        + apply akeys_adel_in in Hx. destruct Hx. split; [apply W3; auto|auto].
        + split; [apply W3; auto|discriminate].
      - intros Hx. apply R3 in Hx. destruct Hx as [Hx1 Hx2]. destruct R4 as [->| ->]; cbn.
        + apply akeys_adel_in. split; [apply W3; auto|auto].
        + apply W3; auto.
      - lia. }
    destruct (l_remove_all rest (mkLru (on_evict ev (lmap c)) l' (lcap c))) as [c2 evs] eqn:Erec.
    cbn [fst].
    destruct R4 as [->| ->]; cbn [after_lru].
    + (* the key was in the list: callback section, then continue *)
      destruct n as [|n]; [cbn in Hn; lia|]. cbn [repeat]. unfold crun. cbn [fold_left].
      rewrite cstep_solo. cbn [tstep t_pc t_prog sh_keys sh_list sh_cap].
      fold (crun (mkSh (lremove k (sh_keys s)) l' (sh_cap s), [mkTh (clearing_pc rest) []]) (repeat 0%nat n)).
      assert (HM2 : matches (mkSh (lremove k (sh_keys s)) l' (sh_cap s)) (mkLru (on_evict (Some k) (lmap c)) l' (lcap c))).
      { unfold matches. cbn [sh_keys sh_list sh_cap lmap llist lcap]. split; [|split; auto].
        intros x. rewrite lremove_in, akeys_on_evict, (Hk x). split; intros [H1 H2]; split; auto; congruence. }
      specialize (IH _ _ n HM2 Hwf2). rewrite Erec in IH. cbn [fst] in IH. apply IH. cbn [length] in Hn. lia.
    + (* not in the list: nothing to delete *)
      change (match rest with [] => Idle | _ :: _ => Clearing rest end) with (clearing_pc rest).
      fold (crun (mkSh (sh_keys s) l' (sh_cap s), [mkTh (clearing_pc rest) []]) (repeat 0%nat n)).
      assert (HM2 : matches (mkSh (sh_keys s) l' (sh_cap s)) (mkLru (on_evict None (lmap c)) l' (lcap c))).
      { unfold matches. cbn [sh_keys sh_list sh_cap lmap llist lcap on_evict]. auto. }
      specialize (IH _ _ n HM2 Hwf2). rewrite Erec in IH. cbn [fst] in IH. apply IH. cbn [length] in Hn. lia.
Qed.

Lemma solo_clear s c now ttl : matches s c -> wf_lru c ->
  let ks := l_expired now ttl (lmap c) in
  let '(s', ths) := solo s [CClear ks] (1 + 2 * length ks) in
  matches s' (fst (l_clear now ttl c)) /\ ths = [mkTh Idle []].
Proof.
  intros HM Hwf. cbn zeta. unfold solo, l_clear. cbn [Nat.add repeat]. unfold crun. cbn [fold_left].
  rewrite cstep_solo. cbn [tstep t_pc t_prog].
  change (match l_expired now ttl (lmap c) with [] => Idle | _ :: _ => Clearing (l_expired now ttl (lmap c)) end)
    with (clearing_pc (l_expired now ttl (lmap c))).
  apply (solo_clearing (l_expired now ttl (lmap c)) s c (2 * length (l_expired now ttl (lmap c)))); auto.
Qed.
