(* C18: evaluation of the model on recorded histories (correspondence check). *)
From CJ Require Import Common.Base C18.Model.

(* what the driver observes after every operation:
   output, cumulative number of probe-function calls, Len() of the live and the non-live cache *)
Definition obs := (lout * N * N * N)%type.

Definition lout_eqb (a b : lout) : bool :=
  match a, b with
  | Cached x, Cached y => Bool.eqb x y
  | Probed x e, Probed y f => Bool.eqb x y && (e =? f)
  | NoOut, NoOut => true
  | _, _ => false
  end.

Definition obs_eqb (a b : obs) : bool :=
  let '(o1, p1, l1, n1) := a in let '(o2, p2, l2, n2) := b in
  lout_eqb o1 o2 && (p1 =? p2) && (l1 =? l2) && (n1 =? n2).

Fixpoint model_obs (s : st) (h : list lop) : list obs :=
  match h with
  | [] => []
  | o :: h' => let '(s1, x) := step s o in (x, s_probes s1, size true s1, size false s1) :: model_obs s1 h'
  end.

(* cache kinds as constructed: 0 = nil interface, 1 = map, 2 + size = LRU of that size *)
Definition kind_code (oc : option cache) : N :=
  match oc with
  | None => 0
  | Some (CMap _ _) => 1
  | Some (CLru _ l) => 2 + lcap l
  end.

Definition chk (c : cfg * (N * N) * list lop * list obs) : bool :=
  let '(cf, (kl, kn), h, o) := c in
  let s0 := init_caches cf in
  (kind_code (s_live s0) =? kl) && (kind_code (s_nonlive s0) =? kn) &&
  list_eqb obs_eqb (model_obs s0 h) o.
