(* C18: evaluation of the model on recorded histories (correspondence check). *)
From CJ Require Import Common.Base C18.Model.

(* what the driver observes after every operation:
   output, cumulative number of probe-function calls, Len() of the live and the non-live cache *)
Definition obs := (lout * N * N * N)%type.

Definition lout_eqb (a b : lout) : bool :=
  match a, b with
  | Cached x, Cached y => Bool.eqb x y
  | Probed x e, Probed y f => Bool.eqb x y && (e =? f)
  | NoOut, NoOut => true
  | _, _ => false
  end.

Definition obs_eqb (a b : obs) : bool :=
  let '(o1, p1, l1, n1) := a in let '(o2, p2, l2, n2) := b in
  lout_eqb o1 o2 && (p1 =? p2) && (l1 =? l2) && (n1 =? n2).

Fixpoint model_obs (s : st) (h : list lop) : list obs :=
  match h with
  | [] => []
  | o :: h' => let '(s1, x) := step s o in (x, s_probes s1, size true s1, size false s1) :: model_obs s1 h'
  end.

(* cache kinds as constructed: 0 = nil interface, 1 = map, 2 + size = LRU of that size *)
Definition kind_code (oc : option cache) : N :=
  match oc with
  | None => 0
  | Some (CMap _ _) => 1
  | Some (CLru _ l) => 2 + lcap l
  end.

Definition chk (c : cfg * (N * N) * list lop * list obs) : bool :=
  let '(cf, (kl, kn), h, o) := c in
  let s0 := init_caches cf in
  (kind_code (s_live s0) =? kl) && (kind_code (s_nonlive s0) =? kn) &&
  list_eqb obs_eqb (model_obs s0 h) o.

(* ---- order of the atomic sections (second observation of the driver) ----
   state: verdict map {0, 1}, recency list [1; 0] (0 oldest), capacity 2, key 1 overdue.
   op 0 = Add 2, 1 = Lookup 0 (fresh), 2 = ClearExpired (reads [1]).
   observed: (list changed, map changed, returned) while the driver held the map lock, and
   whether the operation's key is in the map / in the list after it completed. *)
From CJ Require Import C18.ModelConc.
Definition sec_state : shared := mkSh [0; 1] [1; 0] 2.
Definition sec_op (o : N) : cop * N :=
  match o with 0 => (CAdd 2, 2) | 1 => (CLookup 0 true, 0) | _ => (CClear [1], 1) end.
Definition chk_sections (c : N * (bool * bool * bool) * (bool * bool)) : bool :=
  let '(o, (lch, mch, ret), (inmap, inlist)) := c in
  let '(op, key) := sec_op o in
  let blocked := match section_lock (mkTh Idle [op]) with Some LMap => true | _ => false end in
  let '(s', _) := crun (sec_state, [mkTh Idle [op]]) (repeat 0%nat 6) in
  (* first section needs the map lock => nothing may have happened while it was held *)
  Bool.eqb blocked (negb (lch || mch || ret)) &&
  Bool.eqb (mem key (sh_keys s')) inmap && Bool.eqb (mem key (sh_list s')) inlist.
