(* C18 model: pkg/station/liveness  (cache_map.go, cache_lru.go, cached.go,
   liveness.go New/Init).  Definitions only; executable.

   Time is an absolute clock `now : N` (nanoseconds); entries carry the clock
   value at which they were stored (cacheElement.cachedTime); lifetimes are
   `Z` because time.ParseDuration accepts "0s" and negative durations. *)
From CJ Require Export Common.Base.

(* ---------- comparisons of the code ---------- *)
(* Lookup:        time.Since(cachedTime) <  expiration   (fresh)
   ClearExpired:  time.Since(cachedTime) >  expiration   (removed)          *)
Definition age (now t : N) : N := now - t.
Definition fresh (now t : N) (ttl : Z) : bool := (Z.of_N (age now t) <? ttl)%Z.
Definition overdue (now t : N) (ttl : Z) : bool := (ttl <? Z.of_N (age now t))%Z.

(* ---------- Go map[string]*cacheElement as association list ---------- *)
Definition amap := list (N * N).           (* key, cachedTime *)
Fixpoint afind (k : N) (m : amap) : option N :=
  match m with
  | [] => None
  | (k', t) :: r => if k =? k' then Some t else afind k r
  end.
Fixpoint adel (k : N) (m : amap) : amap :=
  match m with
  | [] => []
  | (k', t) :: r => if k =? k' then adel k r else (k', t) :: adel k r
  end.
Definition aset (k t : N) (m : amap) : amap := (k, t) :: adel k m.
Definition akeys (m : amap) : list N := map fst m.

(* ---------- mapCache (cache_map.go) ---------- *)
Definition m_lookup (now : N) (ttl : Z) (k : N) (m : amap) : bool :=
  match afind k m with Some t => fresh now t ttl | None => false end.
(* "Do not overwrite if already in cache" *)
Definition m_add (k t : N) (m : amap) : amap :=
  match afind k m with Some _ => m | None => (k, t) :: m end.
Definition m_clear (now : N) (ttl : Z) (m : amap) : amap :=
  filter (fun e => negb (overdue now (snd e) ttl)) m.

(* ---------- hashicorp simplelru list: front = most recently used ---------- *)
Definition mem (k : N) (l : list N) : bool := existsb (N.eqb k) l.
Fixpoint lremove (k : N) (l : list N) : list N :=
  match l with
  | [] => []
  | x :: r => if k =? x then lremove k r else x :: lremove k r
  end.
(* lru.Add(key): known key -> move to front; new key -> push front and, when
   the list is longer than the size, remove the oldest (returned: the key the
   eviction callback is invoked with). *)
Definition lru_touch (k : N) (l : list N) (cap : N) : list N * option N :=
  if mem k l then (k :: lremove k l, None)
  else let l' := k :: l in
       if cap <? N.of_nat (length l') then (removelast l', Some (last l' 0)) else (l', None).
(* lru.Remove(key): callback only if the key was present *)
Definition lru_remove (k : N) (l : list N) : list N * option N :=
  if mem k l then (lremove k l, Some k) else (l, None).

(* ---------- lruCache (cache_lru.go) ---------- *)
Record lru := mkLru { lmap : amap; llist : list N; lcap : N }.
Definition defaultSizeLRU : N := 100000.
(* onEvict: delete(lc.ipCache, key) *)
Definition on_evict (ev : option N) (m : amap) : amap :=
  match ev with Some e => adel e m | None => m end.
Definition ev_list (ev : option N) : list N := match ev with Some e => [e] | None => [] end.

(* every operation also returns the keys the eviction callback ran on (ghost) *)
Definition l_add (k t : N) (c : lru) : lru * list N :=
  let m1 := aset k t (lmap c) in
  let '(l', ev) := lru_touch k (llist c) (lcap c) in
  (mkLru (on_evict ev m1) l' (lcap c), ev_list ev).

Definition l_lookup (now : N) (ttl : Z) (k : N) (c : lru) : bool * lru * list N :=
  match afind k (lmap c) with
  | Some t =>
      if fresh now t ttl then
        let '(l', ev) := lru_touch k (llist c) (lcap c) in
        (true, mkLru (on_evict ev (lmap c)) l' (lcap c), ev_list ev)
      else (false, c, [])
  | None => (false, c, [])
  end.

Definition l_expired (now : N) (ttl : Z) (m : amap) : list N :=
  akeys (filter (fun e => overdue now (snd e) ttl) m).
Fixpoint l_remove_all (ks : list N) (c : lru) : lru * list N :=
  match ks with
  | [] => (c, [])
  | k :: r =>
      let '(l', ev) := lru_remove k (llist c) in
      let '(c2, evs) := l_remove_all r (mkLru (on_evict ev (lmap c)) l' (lcap c)) in
      (c2, ev_list ev ++ evs)
  end.
Definition l_clear (now : N) (ttl : Z) (c : lru) : lru * list N :=
  l_remove_all (l_expired now ttl (lmap c)) c.

(* ---------- the `cache` interface ---------- *)
Inductive cache := CMap (ttl : Z) (m : amap) | CLru (ttl : Z) (c : lru).
Definition c_ttl (c : cache) : Z := match c with CMap t _ | CLru t _ => t end.
Definition c_map (c : cache) : amap := match c with CMap _ m => m | CLru _ l => lmap l end.
Definition c_find (k : N) (c : cache) : option N := afind k (c_map c).
Definition c_len (c : cache) : N := N.of_nat (length (c_map c)).
Definition c_lookup (now k : N) (c : cache) : bool * cache * list N :=
  match c with
  | CMap ttl m => (m_lookup now ttl k m, c, [])
  | CLru ttl l => let '(b, l', ev) := l_lookup now ttl k l in (b, CLru ttl l', ev)
  end.
Definition c_add (now k : N) (c : cache) : cache * list N :=
  match c with
  | CMap ttl m => (CMap ttl (m_add k now m), [])
  | CLru ttl l => let '(l', ev) := l_add k now l in (CLru ttl l', ev)
  end.
Definition c_clear (now : N) (c : cache) : cache * list N :=
  match c with
  | CMap ttl m => (CMap ttl (m_clear now ttl m), [])
  | CLru ttl l => let '(l', ev) := l_clear now ttl l in (CLru ttl l', ev)
  end.

(* ---------- configuration (liveness.Config after ParseDuration) ---------- *)
Record cfg := mkCfg {
  dur_live : option Z;     (* cache_expiration_time, None = "" *)
  cap_live : Z;            (* cache_capacity (Go int) *)
  dur_nonlive : option Z;  (* cache_expiration_nonlive *)
  cap_nonlive : Z          (* cache_capacity_nonlive *)
}.
Definition new_lru (ttl cap : Z) : cache :=
  CLru ttl (mkLru [] [] (if (cap <=? 0)%Z then defaultSizeLRU else Z.to_N cap)).
(* Init: each side picks LRU or map by ITS OWN capacity (fixed code) *)
Definition init_cache (dur : option Z) (cap : Z) : option cache :=
  match dur with
  | None => None
  | Some ttl => Some (if (cap =? 0)%Z then CMap ttl [] else new_lru ttl cap)
  end.

(* ---------- CachedLivenessTester (and the uncached one: both sides None) ---------- *)
Record st := mkSt { s_live : option cache; s_nonlive : option cache; s_now : N; s_probes : N }.
Definition init_caches (c : cfg) : st :=
  mkSt (init_cache (dur_live c) (cap_live c)) (init_cache (dur_nonlive c) (cap_nonlive c)) 0 0.

Inductive lop := Query (addr : N) (probe_says_live : bool) (probe_err : N) | Adv (ns : N) | ClearExpired.
Inductive lout := Cached (live : bool) | Probed (live : bool) (err : N) | NoOut.

Definition o_lookup (now k : N) (oc : option cache) : bool * option cache * list N :=
  match oc with
  | None => (false, None, [])
  | Some c => let '(b, c', ev) := c_lookup now k c in (b, Some c', ev)
  end.
Definition o_add (now k : N) (oc : option cache) : option cache * list N :=
  match oc with None => (None, []) | Some c => let '(c', ev) := c_add now k c in (Some c', ev) end.
Definition o_clear (now : N) (oc : option cache) : option cache * list N :=
  match oc with None => (None, []) | Some c => let '(c', ev) := c_clear now c in (Some c', ev) end.

(* ghost record of callback invocations: (evicted from live, evicted from non-live) *)
Definition evs := (list N * list N)%type.

Definition step_ev (s : st) (o : lop) : st * lout * evs :=
  match o with
  | Adv d => (mkSt (s_live s) (s_nonlive s) (s_now s + d) (s_probes s), NoOut, ([], []))
  | ClearExpired =>
      let '(l', e1) := o_clear (s_now s) (s_live s) in
      let '(n', e2) := o_clear (s_now s) (s_nonlive s) in
      (mkSt l' n' (s_now s) (s_probes s), NoOut, (e1, e2))
  | Query a pl pe =>
      let '(hl, l', e1) := o_lookup (s_now s) a (s_live s) in
      if hl then (mkSt l' (s_nonlive s) (s_now s) (s_probes s), Cached true, (e1, []))
      else
        let '(hn, n', e2) := o_lookup (s_now s) a (s_nonlive s) in
        if hn then (mkSt l' n' (s_now s) (s_probes s), Cached false, (e1, e2))
        else if pl then
          let '(l'', e3) := o_add (s_now s) a l' in
          (mkSt l'' n' (s_now s) (s_probes s + 1), Probed pl pe, (e1 ++ e3, e2))
        else
          let '(n'', e3) := o_add (s_now s) a n' in
          (mkSt l' n'' (s_now s) (s_probes s + 1), Probed pl pe, (e1, e2 ++ e3))
  end.
Definition step (s : st) (o : lop) : st * lout := fst (step_ev s o).

(* run a history; the result is the final state and the observable trace *)
Fixpoint run (s : st) (h : list lop) : st * list (lop * lout) :=
  match h with
  | [] => (s, [])
  | o :: h' => let '(s1, x) := step s o in
               let '(s2, tr) := run s1 h' in (s2, (o, x) :: tr)
  end.
Definition after (c : cfg) (h : list lop) : st := fst (run (init_caches c) h).
Definition trace (c : cfg) (h : list lop) : list (lop * lout) := snd (run (init_caches c) h).
Definition outs (c : cfg) (h : list lop) : list lout := map snd (trace c h).

Definition side (v : bool) (s : st) : option cache := if v then s_live s else s_nonlive s.
Definition dur (c : cfg) (v : bool) : option Z := if v then dur_live c else dur_nonlive c.
Definition cap (c : cfg) (v : bool) : Z := if v then cap_live c else cap_nonlive c.
Definition size (v : bool) (s : st) : N := match side v s with Some c => c_len c | None => 0 end.

(* ---------- ghost: the last measurement of an address, from the observable
   trace alone (no reference to the caches): its verdict and how long ago ---------- *)
Definition lm_step (a : N) (acc : option (bool * N)) (e : lop * lout) : option (bool * N) :=
  match e with
  | (Query a' _ _, Probed v _) => if a' =? a then Some (v, 0) else acc
  | (Adv d, _) => match acc with Some (v, g) => Some (v, g + d) | None => None end
  | _ => acc
  end.
Definition last_measured (tr : list (lop * lout)) (a : N) : option (bool * N) :=
  fold_left (lm_step a) tr None.

(* ---------- the ideal per-address cache (spec used by the completeness results) ---------- *)
Definition ideal_step (c : cfg) (tr : list (lop * lout)) (o : lop) : lout :=
  match o with
  | Query a pl pe =>
      match last_measured tr a with
      | Some (v, g) => match dur c v with
                       | Some ttl => if (Z.of_N g <? ttl)%Z then Cached v else Probed pl pe
                       | None => Probed pl pe
                       end
      | None => Probed pl pe
      end
  | _ => NoOut
  end.
Fixpoint ideal_run (c : cfg) (tr : list (lop * lout)) (h : list lop) : list (lop * lout) :=
  match h with
  | [] => tr
  | o :: h' => ideal_run c (tr ++ [(o, ideal_step c tr o)]) h'
  end.
