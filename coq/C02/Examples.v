(* C02 non-vacuity: concrete registries, streams and oracle functions that meet the hypotheses of
   the theorems in Props.v, with every outcome class produced by the model. *)
From CJ Require Import Common.Base Common.BaseProofs C02.Model C02.Spec C02.Proofs C02.ProofsWrap C02.ProofsTop C02.Props C02.Run.
From Coq Require Import Lia Permutation.

(* ---- oracle functions used in the examples *)
Definition reveal_ex (k : N) (c : bytes) : option bytes := if k =? 0 then Some (canon c) else None.
Definition mark_ex (id rep : bytes) : bytes := take 8 id ++ take 8 rep.
Definition good_hs : bytes := lcg_bytes 5 109.
Definition hs_ex (id d : bytes) : bool := bytes_eqb (take 109 d) good_hs.

Lemma reveal_ex_sensitive : reveal_sensitive reveal_ex.
Proof.
  intros k c c' id _ _ Hc. unfold reveal_ex. destruct (k =? 0); [|discriminate].
  intros [= <-] [= E]. auto.
Qed.

Lemma hs_ex_binds_109 id d d' : take 109 d <> take 109 d' -> hs_ex id d = true -> hs_ex id d' = false.
Proof.
  unfold hs_ex. intros Hd H. apply bytes_eqb_eq in H. destruct (bytes_eqb (take 109 d') good_hs) eqn:E; auto.
  apply bytes_eqb_eq in E. congruence.
Qed.

(* ---- a registry over two phantoms: validated, unvalidated, expired, re-tracked *)
Definition tagA : bytes := lcg_bytes 11 64.        (* obfuscated tag of registration A, prefix 1 *)
Definition idA : bytes := canon tagA.
Definition minB : bytes := lcg_bytes 12 32.        (* min identifier of registration B *)
Definition tagB : bytes := lcg_bytes 13 64.        (* B's min identifier wrapped as a prefix tag *)
Definition idC : bytes := lcg_bytes 14 32.         (* tracked, never validated *)
Definition idD : bytes := lcg_bytes 15 32.         (* validated, then expired *)
Definition idO : bytes := lcg_bytes 16 52.         (* obfs4 registration *)
Definition rA := R 1 tt_prefix (PPrefix 1%Z).
Definition rA2 := R 2 tt_prefix (PPrefix 0%Z).      (* re-registration of A under another prefix: not stored *)
Definition rB := R 3 tt_min PGeneric.
Definition rBt := R 4 tt_min PGeneric.            (* B's min registration, reachable through a prefix tag *)
Definition rC := R 5 tt_min PGeneric.
Definition rD := R 6 tt_min PGeneric.
Definition rO := R 7 tt_obfs4 PGeneric.
Definition rN := R 8 tt_prefix PAbsent.           (* Prefix registration ingested without params *)
Definition tagN : bytes := lcg_bytes 17 64.

Definition ops_ex : list rop :=
  [ Track 1 idA rA; Validate 1 idA rA; Track 1 idA rA2; Validate 1 minB rB; Validate 1 (canon tagB) rBt;
    Track 1 idC rC; Validate 1 idD rD; Sweep; Expire 1 idD; Validate 1 idO rO; Validate 2 idD rD;
    Validate 1 (canon tagN) rN ].
Definition v1 := Eval vm_compute in get_regs (run ops_ex) 1.
Definition v2 := Eval vm_compute in get_regs (run ops_ex) 2.

Definition table_ex : list pfx :=
  [ P 0%Z [] 0 64 64; P 1%Z [71; 69; 84] 3 67 67; P 2%Z [80; 79] 2 66 66 ].
Lemma table_ex_wf : table_wf table_ex = true. Proof. reflexivity. Qed.

(* ---- registry view *)
Example ex_view_sizes : length v1 = 5%nat /\ length v2 = 1%nat /\ count_regs (run ops_ex) 1 = 6.
Proof. vm_compute. auto. Qed.
Example ex_view_live : key_state ops_ex 1 idA = Some (1, true) /\ validated_live ops_ex 1 idA.
Proof. split; [|exists 1]; vm_compute; reflexivity. Qed.
(* a Validate by another object than the stored one validates nothing *)
Example ex_validate_foreign_object :
  key_state [Track 1 idA rA; Validate 1 idA rA2] 1 idA = Some (1, false) /\
  get_regs (run [Track 1 idA rA; Validate 1 idA rA2]) 1 = [].
Proof. vm_compute. auto. Qed.
Example ex_view_expired_not_visible : lookup idD v1 = None /\ lookup idC v1 = None /\ lookup idD v2 <> None.
Proof. vm_compute. repeat split; discriminate. Qed.

Example ex_not_live :
  ~ validated_live ops_ex 1 idD /\ ~ validated_live ops_ex 1 idC /\ ~ validated_live ops_ex 2 idA /\
  validated_live ops_ex 2 idD /\ validated_live ops_ex 1 minB.
Proof.
  unfold validated_live. vm_compute. repeat split; try (intros [n H]; discriminate H); eexists; reflexivity.
Qed.
Example ex_never_found_applies : forall r c, wrap_min (get_regs (run ops_ex) 1) (idD ++ [1]) <> Found r c.
Proof.
  apply C02_not_registered_never_found_min. unfold validated_live. vm_compute. intros [n H]. discriminate H.
Qed.

(* ---- min: genuine, other phantom, unvalidated, expired, truncated, one byte altered *)
Definition set_valid_true (r : reginfo) := set_valid true r.
Example ex_min_found : wrap_min v1 (minB ++ [1; 2; 3]) = Found (set_valid_true rB) 32.
Proof. vm_compute. reflexivity. Qed.
Example ex_min_other_phantom : wrap_min v2 (minB ++ [1; 2; 3]) = NotTransport.
Proof. vm_compute. reflexivity. Qed.
Example ex_min_unvalidated : wrap_min v1 idC = NotTransport. Proof. vm_compute. reflexivity. Qed.
Example ex_min_expired : wrap_min v1 idD = NotTransport /\ wrap_min v2 idD = Found (set_valid_true rD) 32.
Proof. vm_compute. auto. Qed.
Example ex_min_truncated : wrap_min v1 (take 31 minB) = TryAgain. Proof. vm_compute. reflexivity. Qed.
Example ex_min_bitflip : wrap_min v1 (xbit 77 minB) = NotTransport /\ nth_error (xbit 77 minB) 9 <> nth_error minB 9.
Proof. vm_compute. split; [reflexivity|discriminate]. Qed.

(* ---- prefix: every outcome class *)
Definition GET : bytes := [71; 69; 84].
Example ex_prefix_found :
  wrap_prefix_ord reveal_ex table_ex [1; 0] v1 (GET ++ tagA ++ [9]) = Found (set_valid_true rA) 67.
Proof. vm_compute. reflexivity. Qed.
Example ex_prefix_wrong_prefix :
  wrap_prefix_ord reveal_ex table_ex [0] v1 ([80; 79] ++ tagA) = ErrIncorrectPrefix /\
  wrap_prefix_ord reveal_ex (rev table_ex) [0] v1 tagA = ErrIncorrectPrefix.
Proof. vm_compute. auto. Qed.
Example ex_prefix_min_tag_as_prefix_flight :
  wrap_prefix_ord reveal_ex table_ex [0] v1 (GET ++ tagB) = ErrIncorrectTransport.
Proof. vm_compute. reflexivity. Qed.
Example ex_prefix_absent_params_rejected :
  wrap_prefix_ord reveal_ex table_ex [0] v1 tagN = ErrIncorrectPrefix /\
  wrap_prefix_ord reveal_ex table_ex [0] v1 (GET ++ tagN) = ErrIncorrectPrefix.
Proof. vm_compute. auto. Qed.
Example ex_prefix_other_phantom :
  wrap_prefix_ord reveal_ex table_ex [0] v2 (GET ++ tagA) = NotTransport.
Proof. vm_compute. reflexivity. Qed.
Example ex_prefix_other_key :
  wrap_prefix_ord reveal_ex table_ex [1] v1 (GET ++ tagA) = NotTransport.
Proof. vm_compute. reflexivity. Qed.
Example ex_prefix_tryagain :
  wrap_prefix_ord reveal_ex table_ex [0] v1 (take 66 (GET ++ tagA)) = TryAgain /\
  wrap_prefix_ord reveal_ex table_ex [0] v1 (take 63 (GET ++ tagA)) = TryAgain.
Proof. vm_compute. auto. Qed.
Example ex_prefix_pad_bits_are_not_tag :
  wrap_prefix_ord reveal_ex table_ex [0] v1 (GET ++ xbit 255 tagA) = Found (set_valid_true rA) 67 /\
  canon (xbit 255 tagA) = canon tagA /\
  wrap_prefix_ord reveal_ex table_ex [0] v1 (GET ++ xbit 253 tagA) = NotTransport /\
  canon (xbit 253 tagA) <> canon tagA.
Proof. vm_compute. repeat split; try reflexivity. discriminate. Qed.
Example ex_prefix_allowed_is_singleton :
  wrap_prefix_allowed reveal_ex table_ex [0] v1 (GET ++ tagA) = [Found (set_valid_true rA) 67].
Proof. vm_compute. reflexivity. Qed.

(* two terminal verdicts in one stream (a min tag at offset 0 and a prefix tag behind "PO"): the outcome
   depends on the iteration order, and both are in the allowed set *)
Definition tagB' : bytes := [80; 79] ++ drop 2 tagB.       (* starts with the static bytes of prefix 2 *)
Definition rBt' := R 9 tt_min PGeneric.
Definition rE := R 10 tt_prefix (PPrefix 2%Z).
Definition tagE : bytes := drop 2 tagB' ++ [7; 7].
Definition v3 : view := [(canon tagB', set_valid_true rBt'); (canon tagE, set_valid_true rE)].
Example ex_prefix_order_dependent :
  wrap_prefix_ord reveal_ex table_ex [0] v3 (tagB' ++ [7; 7]) = ErrIncorrectTransport /\
  wrap_prefix_ord reveal_ex (rev table_ex) [0] v3 (tagB' ++ [7; 7]) = Found (set_valid_true rE) 66 /\
  wrap_prefix_allowed reveal_ex table_ex [0] v3 (tagB' ++ [7; 7]) = [ErrIncorrectTransport; Found (set_valid_true rE) 66].
Proof. vm_compute. auto. Qed.

(* hypotheses of found_unique_prefix hold for the genuine stream *)
Example ex_one_identifier : one_identifier reveal_ex table_ex [0] v1 (GET ++ tagA).
Proof.
  intros p1 p2 k1 k2 id1 id2 Hp1 Hp2 Hk1 Hk2 R1 R2 I1 I2.
  destruct Hk1 as [<-|[]]. destruct Hk2 as [<-|[]].
  assert (H : forall p id, In p table_ex -> reveal_ex 0 (tag_at p (GET ++ tagA)) = Some id -> In id (ids v1) -> id = idA).
  { intros p id Hp. repeat (destruct Hp as [<-|Hp]); try destruct Hp; vm_compute; intros [= <-] Hin;
      repeat (destruct Hin as [Hin|Hin]; [try discriminate Hin; try reflexivity|]); try destruct Hin. }
  rewrite (H p1 id1), (H p2 id2); auto.
Qed.
Lemma v1_nodup : NoDup (ids v1).
Proof.
  vm_compute.
  repeat (constructor; [intros H; repeat (destruct H as [H|H]; [discriminate H|]); exact H|]). constructor.
Qed.
Example ex_found_unique_prefix_applies :
  forall o1 o2 r1 c1 r2 c2, Permutation o1 table_ex -> Permutation o2 table_ex ->
    wrap_prefix_ord reveal_ex o1 [0] v1 (GET ++ tagA) = Found r1 c1 ->
    wrap_prefix_ord reveal_ex o2 [0] v1 (GET ++ tagA) = Found r2 c2 -> r1 = r2 /\ c1 = c2.
Proof.
  intros o1 o2 r1 c1 r2 c2 P1 P2 H1 H2.
  exact (C02_found_unique_prefix reveal_ex table_ex [0] v1 _ o1 o2 r1 c1 r2 c2 table_ex_wf v1_nodup P1 P2
           ex_one_identifier H1 H2).
Qed.

(* ---- obfs4 *)
Definition rep_ex : bytes := take 32 good_hs.
Definition hs_stream : bytes := good_hs ++ mark_ex idO rep_ex ++ lcg_bytes 6 16.     (* 141 bytes *)
Example ex_obfs4_found : wrap_obfs4_ord mark_ex hs_ex v1 hs_stream = Found (set_valid_true rO) 141.
Proof. vm_compute. reflexivity. Qed.
Example ex_obfs4_other_phantom : wrap_obfs4_ord mark_ex hs_ex v2 hs_stream = TryAgain.
Proof. vm_compute. reflexivity. Qed.
Example ex_obfs4_short : wrap_obfs4_ord mark_ex hs_ex v1 (take 140 hs_stream) = TryAgain /\
                         wrap_obfs4_ord mark_ex hs_ex v1 (take 63 hs_stream) = TryAgain.
Proof. vm_compute. auto. Qed.
Example ex_obfs4_mark_flip : wrap_obfs4_ord mark_ex hs_ex v1 (xbit (8 * 110) hs_stream) = TryAgain.
Proof. vm_compute. reflexivity. Qed.
Example ex_obfs4_mac_or_pad_flip : wrap_obfs4_ord mark_ex hs_ex v1 (xbit (8 * 50) hs_stream) = ErrHandshake (set_valid_true rO).
Proof. vm_compute. reflexivity. Qed.
Example ex_obfs4_no_mark_in_8192 : wrap_obfs4_ord mark_ex hs_ex v1 (lcg_bytes 3 8192) = NotTransport.
Proof. vm_compute. reflexivity. Qed.
Example ex_marks_distinct : marks_distinct mark_ex v1 hs_stream.
Proof.
  intros id1 id2 H1 H2. vm_compute in H1, H2.
  repeat (destruct H1 as [<-|H1]); try destruct H1; repeat (destruct H2 as [<-|H2]); try destruct H2;
    vm_compute; intros E; try reflexivity; discriminate E.
Qed.
