(* C02: specification-side definitions used in the theorem statements (ghost predicates over
   histories, stream alterations).  Definitions only. *)
From CJ Require Export Common.Base C02.Model.

(* the registry holds registration object r under (phantom, identifier) *)
Definition has_entry (st : registry) (ph : phantom) (id : ident) (r : reginfo) : Prop :=
  In {| e_ph := ph; e_id := id; e_reg := r |} st.

(* r is the object r0 that was handed to Track / Validate (the Valid flag apart) *)
Definition same_object (r r0 : reginfo) : Prop :=
  r_name r = r_name r0 /\ r_transport r = r_transport r0 /\ r_params r = r_params r0.

(* ghost, defined on the history alone, one key at a time: which object is stored under
   (phantom, identifier) and whether it has been validated, since the last expiry of that key *)
Definition kstate := option (N * bool).
Definition key_is (ph : phantom) (id : ident) (ph' : phantom) (id' : ident) : bool :=
  (ph' =? ph) && bytes_eqb id' id.
Definition kstep (ph : phantom) (id : ident) (s : kstate) (op : rop) : kstate :=
  match op with
  | Track ph' id' r =>
    if key_is ph id ph' id' then match s with None => Some (r_name r, false) | Some x => Some x end else s
  | Validate ph' id' r =>
    if key_is ph id ph' id'
    then match s with
         | None => Some (r_name r, true)
         | Some (n, v) => if n =? r_name r then Some (n, true) else Some (n, v)
         end
    else s
  | Expire ph' id' => if key_is ph id ph' id' then None else s
  | Sweep => s
  | ExpireAll => None
  end.
Definition key_state (ops : list rop) (ph : phantom) (id : ident) : kstate := fold_left (kstep ph id) ops None.

(* (phantom, identifier) is validated and has not expired since *)
Definition validated_live (ops : list rop) (ph : phantom) (id : ident) : Prop :=
  exists n, key_state ops ph id = Some (n, true).

(* a necessary condition in words: some Validate of that key, with no Expire of it afterwards *)
Definition validated_since (ops : list rop) (ph : phantom) (id : ident) : Prop :=
  exists a r b, ops = a ++ Validate ph id r :: b /\ forall op, In op b -> op <> Expire ph id /\ op <> ExpireAll.

(* what "a validated, unexpired registration of that phantom" means for a returned object r:
   r is the object stored under the key, it is validated, and it is an object that was handed to
   Track / Validate for exactly this phantom and identifier *)
Definition registered (ops : list rop) (ph : phantom) (id : ident) (r : reginfo) : Prop :=
  r_valid r = true /\
  key_state ops ph id = Some (r_name r, true) /\
  exists r0, (In (Track ph id r0) ops \/ In (Validate ph id r0) ops) /\ same_object r r0.

Definition ids (v : view) : list ident := map fst v.

(* the two padding bits of the Elligator representative (byte 31, bits 6 and 7) are cleared by
   TryReveal before use: tags are compared up to them *)
Definition canon (c : bytes) : bytes :=
  match skipn 31 c with
  | [] => c
  | b :: r => firstn 31 c ++ N.land b 63 :: r
  end.

(* the window of the stream that findMarkMac compares with the mark *)
Definition mark_window (data : bytes) : bytes :=
  take o_mark_len (drop (N.min (blen data) o_max_hs - (o_mark_len + o_mac_len)) data).

