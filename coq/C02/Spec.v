(* C02: specification-side definitions used in the theorem statements (ghost predicates over
   histories, stream alterations).  Definitions only. *)
From CJ Require Export Common.Base C02.Model.

(* the registry holds registration object r under (phantom, identifier) *)
Definition has_entry (st : registry) (ph : phantom) (id : ident) (r : reginfo) : Prop :=
  In {| e_ph := ph; e_id := id; e_reg := r |} st.

(* r is the object r0 that was handed to Track / Validate (the Valid flag apart) *)
Definition same_object (r r0 : reginfo) : Prop :=
  r_name r = r_name r0 /\ r_transport r = r_transport r0 /\ r_params r = r_params r0.

(* ghost, defined on the history alone: (phantom, identifier) has been validated and has not
   expired since *)
Definition validated_live (ops : list rop) (ph : phantom) (id : ident) : Prop :=
  exists a r b, ops = a ++ Validate ph id r :: b /\ forall op, In op b -> op <> Expire ph id.

(* what "a validated, unexpired registration of that phantom" means for a returned object *)
Definition registered (ops : list rop) (ph : phantom) (id : ident) (r : reginfo) : Prop :=
  r_valid r = true /\
  validated_live ops ph id /\
  exists r0, (In (Track ph id r0) ops \/ In (Validate ph id r0) ops) /\ same_object r r0.

Definition ids (v : view) : list ident := map fst v.

(* the two padding bits of the Elligator representative (byte 31, bits 6 and 7) are cleared by
   TryReveal before use: tags are compared up to them *)
Definition canon (c : bytes) : bytes :=
  match skipn 31 c with
  | [] => c
  | b :: r => firstn 31 c ++ N.land b 63 :: r
  end.

(* the window of the stream that findMarkMac compares with the mark *)
Definition mark_window (data : bytes) : bytes :=
  take o_mark_len (drop (N.min (blen data) o_max_hs - (o_mark_len + o_mac_len)) data).

(* the same ghost as a function of the history alone (decidable form of validated_live) *)
Definition vstep (ph : phantom) (id : ident) (acc : bool) (op : rop) : bool :=
  match op with
  | Validate ph' id' _ => if (ph' =? ph) && bytes_eqb id' id then true else acc
  | Expire ph' id' => if (ph' =? ph) && bytes_eqb id' id then false else acc
  | _ => acc
  end.
Definition vlive_b (ops : list rop) (ph : phantom) (id : ident) : bool := fold_left (vstep ph id) ops false.
