(* C02: the timed registry is not vacuous; the seeded class (a duplicate restarts the clock) differs from it. *)
From CJ Require Import Common.Base C02.Model C02.ModelTime C02.Run.

Definition rA := R 1 1 PGeneric.
Definition idA : bytes := [1; 2; 3].
Definition idB : bytes := [4; 5; 6].
Definition hist (dup : list top) : list top :=
  [TO (Track 0 idA rA); TO (Validate 0 idA rA); TO (Validate 0 idB (R 2 1 PGeneric)); TAge 540] ++ dup ++ [TAge 120; TSweep].

(* 9 min, duplicate, 2 min, sweep: gone - exactly as without the duplicate *)
Example dup_then_lifetime_unused :
  get_regs (run (flat (hist [TO (Track 0 idA rA)]))) 0 = [] /\ get_regs (run (flat (hist []))) 0 = [].
Proof. vm_compute. split; reflexivity. Qed.
Example dup_validate_then_lifetime_unused :
  get_regs (run (flat (hist [TO (Validate 0 idA rA)]))) 0 = [].
Proof. vm_compute. reflexivity. Qed.
Example erase_removes_the_duplicates :
  erase (hist [TO (Track 0 idA rA); TO (Validate 0 idA rA)]) = hist [].
Proof. vm_compute. reflexivity. Qed.
(* a used registration lives on after the same history; 6 h later it is gone as well *)
Example dup_then_lifetime_used :
  map fst (get_regs (run (flat ([TO (Validate 0 idA rA); TUse 0 idA; TAge 540; TO (Track 0 idA rA); TAge 120; TSweep]))) 0) = [idA] /\
  get_regs (run (flat ([TO (Validate 0 idA rA); TUse 0 idA; TAge 21000; TO (Track 0 idA rA); TAge 700; TSweep]))) 0 = [].
Proof. vm_compute. split; reflexivity. Qed.
(* within the lifetime nothing goes *)
Example within_lifetime_stays :
  map fst (get_regs (run (flat [TO (Validate 0 idA rA); TAge 540; TO (Track 0 idA rA); TAge 50; TSweep])) 0) = [idA].
Proof. vm_compute. reflexivity. Qed.
(* a re-registration AFTER expiry is a new registration with a new clock, not a duplicate *)
Example reregistration_after_expiry_is_new :
  map fst (get_regs (run (flat [TO (Validate 0 idA rA); TAge 700; TSweep; TO (Validate 0 idA rA); TAge 500; TSweep])) 0) = [idA].
Proof. vm_compute. reflexivity. Qed.
