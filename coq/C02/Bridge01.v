(* C02 x C01: end to end, positive direction.  The first flight that C01's client model builds from
   a shared secret is matched by WrapConnection to exactly the registration that C01's station
   model stored for that secret - and to no registration of another secret or transport label.

   hm is the PRF of C01's derivations (HMAC-SHA256 in the concrete instance C01.Model.station /
   client); its two laws used here are named hypotheses:
     hm_len32          the output is 32 bytes
     hm_collision_free different (key, message) pairs give different outputs
   For the prefix transport, obf/reveal are Obfuscate / TryReveal with the law reveal (obf m) = m
   (X25519 agreement, Elligator inverse, AES-CTR involution). *)
From CJ Require Import Common.Base Common.BaseProofs.
From CJ Require C14.Model C01.Model.
From CJ Require Import C02.Model C02.Spec C02.Proofs C02.ProofsWrap C02.ProofsTop.
From Coq Require Import Lia ZifyN ZifyNat ZifyBool.

Module D := C01.Model.
Module L := C14.Model.

Section EndToEnd.
  Variable hm : bytes -> bytes -> bytes.
  Variable src : Type.
  Variable src_seed : Z -> src.
  Variable src_int63 : src -> N * src.
  Variable sorter : list L.group -> list L.group.

  Notation station := (D.station_derive hm src src_seed src_int63 sorter).
  Notation client := (D.client_derive hm src src_seed src_int63 sorter).

  Definition hm_len32 : Prop := forall k m, blen (hm k m) = 32.
  Definition hm_collision_free : Prop := forall k m k' m', hm k m = hm k' m' -> k = k' /\ m = m'.

  (* whatever else they derive, both sides take the transport identifier from ident_of *)
  Lemma station_ident lv secret cfg f t wire d :
    station lv secret cfg f t wire = Ok d -> exists rd, D.ident_of hm t secret rd = Ok (D.d_ident d).
  Proof.
    unfold D.station_derive. destruct (D.station_keys hm lv secret) as [[seed rd]|]; [|discriminate].
    destruct (D.lift_sel _) as [ph| |]; try discriminate.
    destruct (D.station_parse_params t lv wire) as [p| |]; try discriminate.
    destruct (D.station_port hm t p seed lv (L.p_rand_port ph)) as [port| |]; try discriminate.
    destruct (D.ident_of hm t secret rd) as [i| |] eqn:E; try discriminate.
    intros [= <-]. exists rd. exact E.
  Qed.

  Lemma client_ident lv secret cfg f t sess d :
    client lv secret cfg f t sess = Ok d -> exists rd, D.ident_of hm t secret rd = Ok (D.d_ident d).
  Proof.
    unfold D.client_derive. destruct (D.client_keys hm lv secret) as [[seed rd]|]; [|discriminate].
    destruct (D.lift_sel _) as [ph| |]; try discriminate.
    destruct (D.client_port hm t sess seed lv (L.p_rand_port ph)) as [port| |]; try discriminate.
    destruct (D.ident_of hm t secret rd) as [i| |] eqn:E; try discriminate.
    intros [= <-]. exists rd. exact E.
  Qed.

  Lemma ident_min secret rd i : D.ident_of hm D.TMin secret rd = Ok i -> i = D.IdTag (hm secret D.label_min).
  Proof. cbn. intros [= <-]. reflexivity. Qed.
  Lemma ident_prefix secret rd i : D.ident_of hm D.TPrefix secret rd = Ok i -> i = D.IdTag (hm secret D.label_prefix).
  Proof. cbn. intros [= <-]. reflexivity. Qed.

  (* the station-side identifier under which the registration is stored (Transport.GetIdentifier)
     and the tag the client sends (ClientTransport.PrepareKeys), both from C01's derivations *)
  Definition tag_bytes (i : D.ident) : bytes := match i with D.IdTag t => t | D.IdObfs4 _ => [] end.

  Lemma take_app_len (a b : bytes) n : blen a = n -> take n (a ++ b) = a.
  Proof.
    unfold take, blen. intros H. replace (N.to_nat n) with (length a + 0)%nat by lia.
    rewrite firstn_app_2. cbn. apply app_nil_r.
  Qed.

  (* ---------------------------------------------------------------- min *)
  (* the min client's first flight: the tag, then application data *)
  Definition min_flight (tag extra : bytes) : bytes := tag ++ extra.

  Theorem e2e_min lv secret cfg f wire sess ds dc ops ph n extra :
    hm_len32 ->
    station lv secret cfg f D.TMin wire = Ok ds ->
    client lv secret cfg f D.TMin sess = Ok dc ->
    key_state ops ph (tag_bytes (D.d_ident ds)) = Some (n, true) ->
    exists r,
      wrap_min (get_regs (run ops) ph) (min_flight (tag_bytes (D.d_ident dc)) extra) = Found r min_tag_len /\
      r_name r = n /\ registered ops ph (tag_bytes (D.d_ident ds)) r.
  Proof.
    intros HL Hs Hc K.
    apply station_ident in Hs as (rd & Hs). apply ident_min in Hs.
    apply client_ident in Hc as (rd' & Hc). apply ident_min in Hc.
    rewrite Hs in *. rewrite Hc. cbn [tag_bytes] in *.
    destruct (view_complete _ _ _ _ K) as (r & Hin & Hn). exists r. split; [|split; auto].
    - apply min_complete.
      + apply view_ids_nodup.
      + unfold min_flight. rewrite blen_app, HL. unfold min_tag_len. lia.
      + unfold min_flight. rewrite take_app_len by apply HL. exact Hin.
    - apply view_sound. exact Hin.
  Qed.

  (* ... and it is matched to nothing else: whatever is returned is the entry stored under that very
     identifier, which no other (secret, label) pair produces *)
  Theorem e2e_min_only lv secret cfg f sess dc v extra r c :
    hm_len32 -> hm_collision_free ->
    client lv secret cfg f D.TMin sess = Ok dc ->
    wrap_min v (min_flight (tag_bytes (D.d_ident dc)) extra) = Found r c ->
    In (hm secret D.label_min, r) v /\
    forall secret' label', (secret', label') <> (secret, D.label_min) -> hm secret' label' <> hm secret D.label_min.
  Proof.
    intros HL CF Hc H. apply client_ident in Hc as (rd' & Hc). apply ident_min in Hc. rewrite Hc in H. cbn in H.
    apply min_found in H as (_ & _ & Hin). unfold min_flight in Hin. rewrite take_app_len in Hin by apply HL.
    split; auto. intros s' l' N E. apply CF in E as [-> ->]. apply N. reflexivity.
  Qed.

  (* ---------------------------------------------------------------- prefix *)
  Variable reveal : N -> bytes -> option bytes.
  Variable obf : N -> bytes -> bytes -> bytes.     (* station key index, client randomness, plaintext *)
  Definition obf_reveals : Prop :=
    forall k rnd m, blen (obf k rnd m) = ptag_len /\ reveal k (obf k rnd m) = Some m.

  (* the prefix client's first flight: the prefix bytes, the obfuscated tag, then application data *)
  Definition prefix_flight (p : pfx) (k : N) (rnd tag extra : bytes) : bytes :=
    p_static p ++ obf k rnd tag ++ extra.

  Lemma drop_app_len (a b : bytes) n : blen a = n -> drop n (a ++ b) = b.
  Proof.
    unfold drop, blen. intros H. replace (N.to_nat n) with (length a + 0)%nat by lia.
    rewrite skipn_app, Nat.add_comm, Nat.add_sub. cbn. rewrite skipn_all2 by lia. reflexivity.
  Qed.

  Lemma tag_at_flight p k rnd tag extra :
    obf_reveals -> pfx_wf p = true -> tag_at p (prefix_flight p k rnd tag extra) = obf k rnd tag.
  Proof.
    intros OR W. apply pfx_wf_spec in W as (W1 & _). unfold tag_at, prefix_flight.
    rewrite drop_app_len by (symmetry; exact W1). apply take_app_len. apply OR.
  Qed.

  Lemma static_ok_flight p k rnd tag extra : static_ok p (prefix_flight p k rnd tag extra) = true.
  Proof.
    unfold static_ok, prefix_flight. destruct (blen (p_static p) =? 0) eqn:Z; [reflexivity|]. cbn.
    apply bytes_eqb_eq. rewrite blen_app.
    replace (N.min (blen (p_static p)) (blen (p_static p) + blen (obf k rnd tag ++ extra))) with (blen (p_static p)) by lia.
    rewrite take_app_len by reflexivity. unfold take, blen. rewrite Nat2N.id. apply firstn_all.
  Qed.

  (* whatever the iteration order: if the flight is accepted at all it is accepted for the registration
     stored under the secret's prefix identifier, provided the stream reveals no other identifier of
     the view (one_identifier: the crypto assumption of found_unique) *)
  Theorem e2e_prefix_only lv secret cfg f sess dc table order keys v p k rnd extra r c :
    hm_len32 -> obf_reveals -> table_wf table = true -> NoDup (ids v) ->
    (forall q, In q order -> In q table) -> In p table -> In k keys ->
    client lv secret cfg f D.TPrefix sess = Ok dc ->
    one_identifier reveal table keys v (prefix_flight p k rnd (tag_bytes (D.d_ident dc)) extra) ->
    In (hm secret D.label_prefix) (ids v) ->
    wrap_prefix_ord reveal order keys v (prefix_flight p k rnd (tag_bytes (D.d_ident dc)) extra) = Found r c ->
    In (hm secret D.label_prefix, r) v /\ r_transport r = tt_prefix.
  Proof.
    intros HL OR W ND Sub Hp Hk Hc One Hid H.
    apply client_ident in Hc as (rd' & Hc). apply ident_prefix in Hc. rewrite Hc in *. cbn [tag_bytes] in *.
    assert (Wp : pfx_wf p = true).
    { unfold table_wf in W. apply andb_true_iff in W as [W _]. rewrite forallb_forall in W. auto. }
    apply prefix_found in H as (_ & q & Hq & S & Lq & C & T & Pm & k' & id & Hk' & Rv & Hin).
    assert (E : id = hm secret D.label_prefix).
    { apply (One q p k' k id (hm secret D.label_prefix)); auto.
      - rewrite tag_at_flight by auto. apply OR.
      - eapply in_ids; eauto. }
    subst id. auto.
  Qed.

  (* the positive direction for a single-row order (the row the client used) and the station key the client
     encrypted to: Found, for exactly the stored registration, consuming prefix and tag *)
  Theorem e2e_prefix lv secret cfg f wire sess ds dc ops ph n p k rnd extra r0 :
    hm_len32 -> obf_reveals -> pfx_wf p = true ->
    station lv secret cfg f D.TPrefix wire = Ok ds ->
    client lv secret cfg f D.TPrefix sess = Ok dc ->
    key_state ops ph (tag_bytes (D.d_ident ds)) = Some (n, true) ->
    In (tag_bytes (D.d_ident ds), r0) (get_regs (run ops) ph) ->
    r_transport r0 = tt_prefix -> r_params r0 = PPrefix (p_id p) ->
    wrap_prefix_ord reveal [p] [k] (get_regs (run ops) ph)
                    (prefix_flight p k rnd (tag_bytes (D.d_ident dc)) extra) = Found r0 (p_offset p + ptag_len) /\
    r_name r0 = n.
  Proof.
    intros HL OR W Hs Hc K Hin T Pm.
    apply station_ident in Hs as (rd & Hs). apply ident_prefix in Hs.
    apply client_ident in Hc as (rd' & Hc). apply ident_prefix in Hc.
    rewrite Hs in *. rewrite Hc. cbn [tag_bytes] in *.
    pose proof (pfx_wf_spec _ W) as (W1 & W2 & W3).
    set (data := prefix_flight p k rnd (hm secret D.label_prefix) extra).
    assert (Ld : blen data = blen (p_static p) + ptag_len + blen extra).
    { unfold data, prefix_flight. rewrite !blen_app. destruct (OR k rnd (hm secret D.label_prefix)) as [-> _]. lia. }
    split.
    - unfold wrap_prefix_ord. destruct (blen data <? ptag_len) eqn:E; [unfold ptag_len in *; lia|].
      cbn [prefix_loop]. rewrite prefix_verdict_reached.
      + unfold data. rewrite tag_at_flight by auto. cbn [get_reg].
        destruct (OR k rnd (hm secret D.label_prefix)) as [_ ->].
        rewrite (lookup_nodup _ _ _ (view_ids_nodup ops ph) Hin).
        unfold prefix_accept. rewrite T, N.eqb_refl, Pm, Z.eqb_refl. reflexivity.
      + apply static_ok_flight.
      + unfold long_enough. lia.
    - apply view_sound in Hin as (_ & Ks & _). rewrite K in Ks. inversion Ks. reflexivity.
  Qed.
End EndToEnd.
