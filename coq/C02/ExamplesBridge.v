(* C02 x C08 non-vacuity: a C08 history in real time, its view, and WrapConnection over it. *)
From CJ Require Import Common.Base.
From CJ Require C08.Model.
From CJ Require Import C02.Model C02.Spec C02.Bridge08 C02.Sim08 C02.PropsBridge.

Definition enc_ex (id : R.ident) : bytes := lcg_bytes (tr_code (fst id) + 10 * snd id) 32.
Definition name_ex (k : R.regkey) : N := 100 * R.k_ph k + R.k_secret k.
Definition params_ex (k : R.regkey) : params := PGeneric.
Definition kA : R.regkey := {| R.k_secret := 7; R.k_tr := R.Min; R.k_ph := 1 |}.
Definition kB : R.regkey := {| R.k_secret := 8; R.k_tr := R.Min; R.k_ph := 1 |}.   (* validated, never used *)
Definition kA6 : R.regkey := {| R.k_secret := 7; R.k_tr := R.Min; R.k_ph := 2 |}.  (* A's twin on another phantom, tracked only *)
Definition minute : N := 60 * 1000000000.

(* A and B are validated; A carries a connection after 5 min; 11 min after registration the sweep runs *)
Definition h_ex : list R.rop :=
  [R.Track kA; R.Validate kA; R.TrackNX kB; R.Validate kB; R.Track kA6; R.Advance (5 * minute); R.MarkActive kA;
   R.Advance (6 * minute); R.Sweep].
Definition tagA_ex : bytes := enc_ex (R.ident_of kA).
Definition tagB_ex : bytes := enc_ex (R.ident_of kB).

Example ex_rt_found :
  wrap_min (view_of enc_ex name_ex params_ex (R.run h_ex) 1) (tagA_ex ++ [1; 2]) = Found (info name_ex params_ex kA) 32 /\
  R.ghost h_ex kA = Some (11 * minute, true).
Proof. vm_compute. auto. Qed.
(* B was validated too, but is past its 10 minutes without a connection: swept, not matched *)
Example ex_rt_expired :
  wrap_min (view_of enc_ex name_ex params_ex (R.run h_ex) 1) tagB_ex = NotTransport /\ R.ghost h_ex kB = None /\
  wrap_min (view_of enc_ex name_ex params_ex (R.run (removelast h_ex)) 1) tagB_ex = Found (info name_ex params_ex kB) 32.
Proof. vm_compute. auto. Qed.
(* the twin on phantom 2 was never validated: A's tag is not accepted there *)
Example ex_rt_other_phantom :
  wrap_min (view_of enc_ex name_ex params_ex (R.run (removelast h_ex)) 2) tagA_ex = NotTransport.
Proof. vm_compute. reflexivity. Qed.
(* 6 h 1 min after registration even the used registration is gone *)
Example ex_rt_expired_used :
  wrap_min (view_of enc_ex name_ex params_ex (R.run (h_ex ++ [R.Advance (350 * minute); R.Sweep])) 1) tagA_ex = NotTransport.
Proof. vm_compute. reflexivity. Qed.
(* the translated history: C02's registry holds the same *)
Example ex_translate :
  translate enc_ex name_ex params_ex h_ex =
  [Track 1 tagA_ex (info name_ex params_ex kA); Validate 1 tagA_ex (info name_ex params_ex kA);
   Track 1 tagB_ex (info name_ex params_ex kB); Validate 1 tagB_ex (info name_ex params_ex kB);
   Track 2 tagA_ex (info name_ex params_ex kA6); Expire 2 tagA_ex; Expire 1 tagB_ex] \/
  translate enc_ex name_ex params_ex h_ex =
  [Track 1 tagA_ex (info name_ex params_ex kA); Validate 1 tagA_ex (info name_ex params_ex kA);
   Track 1 tagB_ex (info name_ex params_ex kB); Validate 1 tagB_ex (info name_ex params_ex kB);
   Track 2 tagA_ex (info name_ex params_ex kA6); Expire 1 tagB_ex; Expire 2 tagA_ex].
Proof. vm_compute. auto. Qed.
Example ex_translate_view :
  map fst (get_regs (run (translate enc_ex name_ex params_ex h_ex)) 1) = [tagA_ex] /\
  map fst (view_of enc_ex name_ex params_ex (R.run h_ex) 1) = [tagA_ex].
Proof. vm_compute. auto. Qed.
