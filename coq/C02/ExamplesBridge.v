(* C02 x C08 non-vacuity: a C08 history in real time, its view, and WrapConnection over it. *)
From CJ Require Import Common.Base.
From CJ Require C08.Model.
From CJ Require Import C02.Model C02.Spec C02.Bridge08 C02.Sim08 C02.ModelConn C02.ConnGen C02.BridgeConn08 C02.PropsBridge.

Definition enc_ex (id : R.ident) : bytes := lcg_bytes (tr_code (fst id) + 10 * snd id) 32.
Definition name_ex (k : R.regkey) : N := 100 * R.k_ph k + R.k_secret k.
Definition params_ex (k : R.regkey) : params := PGeneric.
Definition kA : R.regkey := {| R.k_secret := 7; R.k_tr := R.Min; R.k_ph := 1 |}.
Definition kB : R.regkey := {| R.k_secret := 8; R.k_tr := R.Min; R.k_ph := 1 |}.   (* validated, never used *)
Definition kA6 : R.regkey := {| R.k_secret := 7; R.k_tr := R.Min; R.k_ph := 2 |}.  (* A's twin on another phantom, tracked only *)
Definition minute : N := 60 * 1000000000.

(* A and B are validated; A carries a connection after 5 min; 11 min after registration the sweep runs *)
Definition h_ex : list R.rop :=
  [R.Track kA; R.Validate kA; R.TrackNX kB; R.Validate kB; R.Track kA6; R.Advance (5 * minute); R.MarkActive kA;
   R.Advance (6 * minute); R.Sweep].
Definition tagA_ex : bytes := enc_ex (R.ident_of kA).
Definition tagB_ex : bytes := enc_ex (R.ident_of kB).

Example ex_rt_found :
  wrap_min (view_of enc_ex name_ex params_ex (R.run h_ex) 1) (tagA_ex ++ [1; 2]) = Found (info name_ex params_ex kA) 32 /\
  R.ghost h_ex kA = Some (11 * minute, true).
Proof. vm_compute. auto. Qed.
(* B was validated too, but is past its 10 minutes without a connection: swept, not matched *)
Example ex_rt_expired :
  wrap_min (view_of enc_ex name_ex params_ex (R.run h_ex) 1) tagB_ex = NotTransport /\ R.ghost h_ex kB = None /\
  wrap_min (view_of enc_ex name_ex params_ex (R.run (removelast h_ex)) 1) tagB_ex = Found (info name_ex params_ex kB) 32.
Proof. vm_compute. auto. Qed.
(* the twin on phantom 2 was never validated: A's tag is not accepted there *)
Example ex_rt_other_phantom :
  wrap_min (view_of enc_ex name_ex params_ex (R.run (removelast h_ex)) 2) tagA_ex = NotTransport.
Proof. vm_compute. reflexivity. Qed.
(* 6 h 1 min after registration even the used registration is gone *)
Example ex_rt_expired_used :
  wrap_min (view_of enc_ex name_ex params_ex (R.run (h_ex ++ [R.Advance (350 * minute); R.Sweep])) 1) tagA_ex = NotTransport.
Proof. vm_compute. reflexivity. Qed.
(* the translated history: C02's registry holds the same *)
Example ex_translate :
  translate enc_ex name_ex params_ex h_ex =
  [Track 1 tagA_ex (info name_ex params_ex kA); Validate 1 tagA_ex (info name_ex params_ex kA);
   Track 1 tagB_ex (info name_ex params_ex kB); Validate 1 tagB_ex (info name_ex params_ex kB);
   Track 2 tagA_ex (info name_ex params_ex kA6); Expire 2 tagA_ex; Expire 1 tagB_ex] \/
  translate enc_ex name_ex params_ex h_ex =
  [Track 1 tagA_ex (info name_ex params_ex kA); Validate 1 tagA_ex (info name_ex params_ex kA);
   Track 1 tagB_ex (info name_ex params_ex kB); Validate 1 tagB_ex (info name_ex params_ex kB);
   Track 2 tagA_ex (info name_ex params_ex kA6); Expire 1 tagB_ex; Expire 2 tagA_ex].
Proof. vm_compute. auto. Qed.
Example ex_translate_view :
  map fst (get_regs (run (translate enc_ex name_ex params_ex h_ex)) 1) = [tagA_ex] /\
  map fst (view_of enc_ex name_ex params_ex (R.run h_ex) 1) = [tagA_ex].
Proof. vm_compute. auto. Qed.

(* ---- connection level over real time: the same registrations, one open connection to phantom 1 *)
Definition no_reveal (k : N) (c : bytes) : option bytes := None.
Definition no_mark (id rep : bytes) : bytes := lcg_bytes 1 16.
Definition no_hs (id d : bytes) : bool := false.
Definition chx : choice := {| ch_torder := [TMin; TObfs4; TPrefix]; ch_porder := []; ch_oorder := [] |}.
Notation rt_run_ex := (rt_run enc_ex name_ex params_ex no_reveal no_mark no_hs [] []).
Definition G (o : R.rop) : gev R.rop := GReg R.rop o.
Definition flightB_ex : bytes := tagB_ex ++ [9; 9].

(* B (validated, never used) is 4 minutes old when the connection arrives and sends 10 bytes; 7 more minutes pass and the
   sweeper runs while the connection is still being classified; the rest of B's genuine flight arrives afterwards: no match *)
Definition c_ex : list (gev R.rop) :=
  [G (R.TrackNX kB); G (R.Validate kB); G (R.Advance (4 * minute)); GAccept R.rop; GRead R.rop (take 10 flightB_ex) chx;
   G (R.Advance (7 * minute)); G R.Sweep; GRead R.rop (drop 10 flightB_ex) chx].
Example ex_rt_conn_expired_while_classifying :
  snd (rt_run_ex 1 c_ex) = CReading flightB_ex [TObfs4; TPrefix] /\
  snd (rt_run_ex 1 (removelast (removelast (removelast c_ex)) ++ [GRead R.rop (drop 10 flightB_ex) chx]))
  = CMatched TMin (info name_ex params_ex kB) 32 flightB_ex.
Proof. vm_compute. auto. Qed.
(* A carried a connection before (MarkActive): 11 minutes old at the sweep, still alive, matched, within its lifetime *)
Definition c_ex2 : list (gev R.rop) :=
  map G h_ex ++ [GAccept R.rop; GRead R.rop (take 5 tagA_ex) chx; G R.Sweep; GRead R.rop (drop 5 tagA_ex) chx].
Example ex_rt_conn_used_survives :
  snd (rt_run_ex 1 c_ex2) = CMatched TMin (info name_ex params_ex kA) 32 tagA_ex.
Proof. vm_compute. reflexivity. Qed.
(* the hypothesis of the two connection-level theorems is met by this history *)
Example ex_rt_conn_theorems_apply :
  (exists pre chunk ch post buf poss,
      c_ex2 = pre ++ GRead R.rop chunk ch :: post /\
      snd (rt_run_ex 1 pre) = CReading buf poss /\ tagA_ex = buf ++ chunk /\ mem_tk TMin poss = true /\
      carried_rt enc_ex name_ex params_ex no_reveal no_mark no_hs [] [] (rt_ops pre) 1 TMin tagA_ex 32 (info name_ex params_ex kA)) /\
  (exists pre chunk ch post,
      c_ex2 = pre ++ GRead R.rop chunk ch :: post /\
      forall h0 tl, rt_ops pre = h0 ++ R.Sweep :: tl -> no_time tl ->
        exists k a u, R.k_ph k = 1 /\ info name_ex params_ex kA = info name_ex params_ex k /\
          R.ghost (rt_ops pre) k = Some (a, u) /\ (a <= R.ten_min \/ (u = true /\ a <= R.six_h))).
Proof.
  split.
  - exact (C02_rt_conn_match_is_registered_at_match_step enc_ex name_ex params_ex no_reveal no_mark no_hs [] [] 1 c_ex2
             TMin (info name_ex params_ex kA) 32 tagA_ex ex_rt_conn_used_survives).
  - exact (C02_rt_conn_match_within_lifetime enc_ex name_ex params_ex no_reveal no_mark no_hs [] [] 1 c_ex2
             TMin (info name_ex params_ex kA) 32 tagA_ex ex_rt_conn_used_survives).
Qed.
