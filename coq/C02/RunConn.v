(* C02, connection level: evaluation of the handler model on recorded connections (correspondence check).

   A recorded connection is a history of registry operations interleaved with the steps of one real
   handleNewTCPConn: arrival, every Read of the handler (the bytes it returned, the WrapConnection calls the
   handler made on them - transport, outcome class, registration, bytes consumed - and whether a covert
   listener had a connection afterwards), read error.  The replay follows the observed calls through the
   model: every observed outcome must be one the model allows for that transport on the bytes received so
   far AGAINST THE REGISTRY OF THAT STEP (the iteration orders Go leaves open are covered by the allowed
   sets of Model.v, proved exact there), the bookkeeping (possible transports, terminal outcomes) must be
   the model's, a Read without terminal outcome must have asked every transport still possible, and the
   tunnel observed after a step must be the registration the model is matched to.
   ProofsReplay.v proves that whatever this checker accepts is a run of the step function `cstep` of
   ModelConn.v for some choice of the iteration orders (C02_conn_replay_is_model_run). *)
From CJ Require Import Common.Base C02.Model C02.ModelConn C02.Run.

Definition tk_of (c : N) : tk := match c with 0 => TMin | 1 => TPrefix | _ => TObfs4 end.

Definition ocall := (N * obs)%type.          (* transport code of Run.v (0 min, 1 prefix, 2 obfs4), outcome *)

Inductive xev :=
| XReg (op : rop)
| XAccept
| XRead (chunk : bytes) (calls : list ocall) (tunnel : N)   (* tunnel: name of the object whose covert listener got a connection in this step, 0 = none *)
| XErr.

Inductive rstate :=
| RIdle | RReading (buf : bytes) (poss : list tk) | RDiscard | RGaveUp | RMatched (name : N) | RClosed
| RBad (why : N).

Section Replay.
  Variable reveal : N -> bytes -> option bytes.
  Variable mark : bytes -> bytes -> bytes.
  Variable hs : bytes -> bytes -> bool.
  Variable table : list pfx.
  Variable keys : list N.

  Definition allowed_tk (t : tk) (v : view) (buf : bytes) : list obs :=
    match t with
    | TMin => [proj (wrap_min v buf)]
    | TPrefix => map proj (wrap_prefix_allowed reveal table keys v buf)
    | TObfs4 => map proj (wrap_obfs4_allowed mark hs v buf)
    end.

  Definition cls (o : obs) : N := let '(c, _, _) := o in c.
  Definition nm (o : obs) : N := let '(_, n, _) := o in n.
  Definition nonterminal (o : obs) : bool := (cls o =? 0) || (cls o =? 1).

  Fixpoint replay_calls (v : view) (buf : bytes) (poss : list tk) (calls : list ocall) : rstate :=
    match calls with
    | [] => match poss with [] => RDiscard | _ => RReading buf poss end
    | (tc, o) :: rest =>
      let t := tk_of tc in
      if negb (mem_tk t poss) then RBad 1
      else if negb (existsb (obs_eqb o) (allowed_tk t v buf)) then RBad 2
      else if cls o =? 0 then replay_calls v buf poss rest
      else if cls o =? 1 then replay_calls v buf (remove_tk t poss) rest
      else match rest with
           | [] => if cls o =? 4 then RMatched (nm o) else RGaveUp
           | _ => RBad 3
           end
    end.

  Definition has_terminal (calls : list ocall) : bool := existsb (fun c => negb (nonterminal (snd c))) calls.
  Definition asked (calls : list ocall) : list tk := map (fun c => tk_of (fst c)) calls.
  Fixpoint nodup_tk (l : list tk) : bool :=
    match l with [] => true | x :: r => negb (mem_tk x r) && nodup_tk r end.

  (* one iteration of the read loop, as observed: `range possibleTransports` asks every transport still possible
     exactly once, unless an earlier one ends the classification *)
  Definition read_obs (v : view) (b : bytes) (poss : list tk) (calls : list ocall) : rstate :=
    if negb (nodup_tk (asked calls)) then RBad 10
    else if negb (has_terminal calls) && negb (forallb (fun t => mem_tk t (asked calls)) poss) then RBad 9
    else replay_calls v b poss calls.

  Definition xstep (ph : phantom) (s : registry * rstate) (e : xev) : registry * rstate :=
    let (st, rs) := s in
    match e with
    | XReg op => (step st op, rs)
    | XAccept => (st, match rs with
                      | RIdle => if count_regs st ph <? 1 then RDiscard else RReading [] all_tk
                      | _ => rs
                      end)
    | XRead chunk calls tun =>
      (st, match rs with
           | RReading buf poss =>
             match read_obs (get_regs st ph) (buf ++ chunk) poss calls with
             | RMatched n => if tun =? n then RMatched n else RBad 5
             | RBad w => RBad w
             | rs' => if tun =? 0 then rs' else RBad 6
             end
           | RBad w => RBad w
           | _ => match calls with [] => if (tun =? 0) then rs else RBad 7 | _ => RBad 8 end
           end)
    | XErr => (st, match rs with RReading _ _ | RDiscard => RClosed | _ => rs end)
    end.

  Definition xrun (ph : phantom) (evs : list xev) : registry * rstate := fold_left (xstep ph) evs ([], RIdle).
End Replay.

(* table, number of station keys, phantom, reveal table (over the whole stream), mark table, whole stream, history *)
Definition ccase := (list pfx * N * N * rtab * mtab * bytes * list xev)%type.

Definition final_state (c : ccase) : rstate :=
  let '(table, nkeys, ph, rt, mt, stream, evs) := c in
  snd (xrun (reveal_of rt stream) (mark_of mt) (hs_of mt) table (range (N.to_nat nkeys)) ph evs).

Definition chk_conn (c : ccase) : bool :=
  match final_state c with RBad _ => false | _ => true end.

(* for the failure report: the state after every event *)
Definition show_conn (c : ccase) : list rstate :=
  let '(table, nkeys, ph, rt, mt, stream, evs) := c in
  let step := xstep (reveal_of rt stream) (mark_of mt) (hs_of mt) table (range (N.to_nat nkeys)) ph in
  map (fun r => match r with RReading b p => RReading [blen b] p | x => x end)
      (snd (fold_left (fun acc e => let s := step (fst acc) e in (s, snd acc ++ [snd s])) evs (([], RIdle), []))).
