(* C02 property theorems: statements + `exact lemma` only.
   reveal (TagObfuscator.TryReveal), mark (obfs4 generateMark) and hs (the obfs4 library's server
   handshake) are universally quantified: nothing is assumed about them except where a hypothesis
   (reveal_sensitive, hs_binds, one_identifier, marks_distinct) is written in the statement. *)
From CJ Require Import Common.Base C02.Model C02.Spec C02.Proofs C02.ProofsWrap C02.ProofsTop.
From Coq Require Import Permutation.

(* ---- the registry view: only validated, unexpired registrations of that phantom; exact; keys unique *)
Theorem C02_view_only_validated_unexpired :
  forall ops ph id r, In (id, r) (get_regs (run ops) ph) -> registered ops ph id r.
Proof. exact view_sound. Qed.
Print Assumptions C02_view_only_validated_unexpired.

Theorem C02_view_exact :
  forall ops ph id n,
    key_state ops ph id = Some (n, true) -> exists r, In (id, r) (get_regs (run ops) ph) /\ r_name r = n.
Proof. exact view_complete. Qed.
Print Assumptions C02_view_exact.

Theorem C02_registry_refines_key_automaton :
  forall ops ph id, find_key (run ops) ph id = key_state ops ph id.
Proof. exact find_key_run. Qed.
Print Assumptions C02_registry_refines_key_automaton.

Theorem C02_live_needs_validate_after_last_expiry :
  forall ops ph id, validated_live ops ph id -> validated_since ops ph id.
Proof. exact live_needs_validate. Qed.
Print Assumptions C02_live_needs_validate_after_last_expiry.

Theorem C02_expiry_forgets :
  forall ops ph id, key_state (ops ++ [Expire ph id]) ph id = None.
Proof. exact expire_kills. Qed.
Print Assumptions C02_expiry_forgets.

Theorem C02_lifetime_elapsed_forgets_everything :
  forall ops ph id, key_state (ops ++ [ExpireAll]) ph id = None /\ get_regs (run (ops ++ [ExpireAll])) ph = [].
Proof. exact expire_all_forgets. Qed.
Print Assumptions C02_lifetime_elapsed_forgets_everything.

Theorem C02_other_keys_irrelevant :
  forall ops ph id op,
    (forall r, op <> Track ph id r) -> (forall r, op <> Validate ph id r) -> op <> Expire ph id -> op <> ExpireAll ->
    key_state (ops ++ [op]) ph id = key_state ops ph id.
Proof. exact other_phantom_irrelevant. Qed.
Print Assumptions C02_other_keys_irrelevant.

Theorem C02_identifiers_unique_per_phantom :
  forall ops ph, NoDup (ids (get_regs (run ops) ph)).
Proof. exact view_ids_nodup. Qed.
Print Assumptions C02_identifiers_unique_per_phantom.

(* ---- found_implies_registered, for every history, stream and map order *)
Theorem C02_found_implies_registered_min :
  forall ops ph data r c,
    wrap_min (get_regs (run ops) ph) data = Found r c ->
    min_tag_len <= blen data /\ c = min_tag_len /\ registered ops ph (take min_tag_len data) r.
Proof. exact top_found_min. Qed.
Print Assumptions C02_found_implies_registered_min.

Theorem C02_found_implies_registered_prefix :
  forall reveal order keys ops ph data r c,
    wrap_prefix_ord reveal order keys (get_regs (run ops) ph) data = Found r c ->
    exists p k id,
      In p order /\ In k keys /\ static_ok p data = true /\
      p_offset p + ptag_len <= blen data /\ c = p_offset p + ptag_len /\
      reveal k (tag_at p data) = Some id /\ registered ops ph id r /\
      r_transport r = tt_prefix /\ r_params r = PPrefix (p_id p).
Proof. exact top_found_prefix. Qed.
Print Assumptions C02_found_implies_registered_prefix.

Theorem C02_found_implies_registered_obfs4 :
  forall mark hs order ops ph data r c,
    incl order (get_regs (run ops) ph) ->
    wrap_obfs4_ord mark hs order data = Found r c ->
    exists id,
      blen id = o_id_len /\ registered ops ph id r /\
      o_start + o_mark_len + o_mac_len <= blen data /\
      mark_window data = mark id (take o_rep_len data) /\ hs id data = true.
Proof. exact top_found_obfs4. Qed.
Print Assumptions C02_found_implies_registered_obfs4.

(* ---- the negative forms: a stream that carries no identifier validated and unexpired on this phantom
        (replayed on another phantom, aimed at an unvalidated or expired registration) is never accepted *)
Theorem C02_not_registered_never_found_min :
  forall ops ph data,
    ~ validated_live ops ph (take min_tag_len data) ->
    forall r c, wrap_min (get_regs (run ops) ph) data <> Found r c.
Proof. exact top_never_min. Qed.
Print Assumptions C02_not_registered_never_found_min.

Theorem C02_not_registered_never_found_prefix :
  forall reveal order keys ops ph data,
    (forall p k id, In p order -> In k keys -> reveal k (tag_at p data) = Some id -> ~ validated_live ops ph id) ->
    forall r c, wrap_prefix_ord reveal order keys (get_regs (run ops) ph) data <> Found r c.
Proof. exact top_never_prefix. Qed.
Print Assumptions C02_not_registered_never_found_prefix.

Theorem C02_not_registered_never_found_obfs4 :
  forall mark hs order ops ph data,
    incl order (get_regs (run ops) ph) ->
    (forall id, mark_window data = mark id (take o_rep_len data) -> ~ validated_live ops ph id) ->
    forall r c, wrap_obfs4_ord mark hs order data <> Found r c.
Proof. exact top_never_obfs4. Qed.
Print Assumptions C02_not_registered_never_found_obfs4.

(* ---- found_unique *)
Theorem C02_found_unique_same_identifier :
  forall (v : view) id r1 r2, NoDup (ids v) -> In (id, r1) v -> In (id, r2) v -> r1 = r2.
Proof. exact nodup_ids_functional. Qed.
Print Assumptions C02_found_unique_same_identifier.

Theorem C02_found_unique_prefix :
  forall reveal table keys v data o1 o2 r1 c1 r2 c2,
    table_wf table = true -> NoDup (ids v) ->
    Permutation o1 table -> Permutation o2 table ->
    one_identifier reveal table keys v data ->
    wrap_prefix_ord reveal o1 keys v data = Found r1 c1 ->
    wrap_prefix_ord reveal o2 keys v data = Found r2 c2 ->
    r1 = r2 /\ c1 = c2.
Proof. exact top_unique_prefix. Qed.
Print Assumptions C02_found_unique_prefix.

Theorem C02_found_unique_obfs4 :
  forall mark hs v data o1 o2 r1 c1 r2 c2,
    NoDup (ids v) -> incl o1 v -> incl o2 v ->
    marks_distinct mark v data ->
    wrap_obfs4_ord mark hs o1 data = Found r1 c1 ->
    wrap_obfs4_ord mark hs o2 data = Found r2 c2 ->
    r1 = r2 /\ c1 = c2.
Proof. exact top_unique_obfs4. Qed.
Print Assumptions C02_found_unique_obfs4.

(* ---- prefix_requires_matching_transport_and_id *)
Theorem C02_prefix_requires_matching_transport_and_id :
  forall reveal order keys v data r c,
    wrap_prefix_ord reveal order keys v data = Found r c ->
    r_transport r = tt_prefix /\
    exists p, In p order /\ r_params r = PPrefix (p_id p) /\ c = p_offset p + ptag_len /\ static_ok p data = true.
Proof. exact top_prefix_requires. Qed.
Print Assumptions C02_prefix_requires_matching_transport_and_id.

Theorem C02_prefix_without_prefix_id_never_found :
  forall reveal order keys v data r c,
    (forall z, r_params r <> PPrefix z) -> wrap_prefix_ord reveal order keys v data <> Found r c.
Proof. exact top_prefix_no_prefix_params. Qed.
Print Assumptions C02_prefix_without_prefix_id_never_found.

Theorem C02_prefix_other_prefix_never_found :
  forall reveal order keys v data r c z,
    r_params r = PPrefix z -> (forall p, In p order -> static_ok p data = true -> p_id p <> z) ->
    wrap_prefix_ord reveal order keys v data <> Found r c.
Proof. exact top_prefix_unlisted_id. Qed.
Print Assumptions C02_prefix_other_prefix_never_found.

Theorem C02_prefix_other_transport_is_error :
  forall reveal keys v data p r,
    ptag_len <= blen data -> static_ok p data = true -> long_enough p data ->
    get_reg reveal keys v (tag_at p data) = Some r -> r_transport r <> tt_prefix ->
    wrap_prefix_ord reveal [p] keys v data = ErrIncorrectTransport.
Proof. exact prefix_single_other_transport. Qed.
Print Assumptions C02_prefix_other_transport_is_error.

Theorem C02_prefix_other_id_is_error :
  forall reveal keys v data p r,
    ptag_len <= blen data -> static_ok p data = true -> long_enough p data ->
    get_reg reveal keys v (tag_at p data) = Some r -> r_transport r = tt_prefix -> r_params r <> PPrefix (p_id p) ->
    wrap_prefix_ord reveal [p] keys v data = ErrIncorrectPrefix.
Proof. exact prefix_single_other_id. Qed.
Print Assumptions C02_prefix_other_id_is_error.

(* ---- bitflip_rejected (structural part; the crypto enters as the named hypotheses) *)
Theorem C02_bitflip_rejected_min :
  forall v data data' r c i,
    NoDup (ids v) ->
    wrap_min v data = Found r c ->
    (i < 32)%nat -> nth_error data' i <> nth_error data i ->
    (forall r' c', wrap_min v data' = Found r' c' ->
       In (take min_tag_len data', r') v /\ take min_tag_len data' <> take min_tag_len data) /\
    (~ In (take min_tag_len data') (ids v) -> forall r' c', wrap_min v data' <> Found r' c').
Proof. exact top_bitflip_min. Qed.
Print Assumptions C02_bitflip_rejected_min.

Theorem C02_bitflip_rejected_prefix_partial :
  forall reveal p k v data data' r c,
    reveal_sensitive reveal ->
    wrap_prefix_ord reveal [p] [k] v data = Found r c ->
    canon (tag_at p data') <> canon (tag_at p data) ->
    exists id, reveal k (tag_at p data) = Some id /\ In (id, r) v /\
      forall r' c', wrap_prefix_ord reveal [p] [k] v data' = Found r' c' ->
        exists id', reveal k (tag_at p data') = Some id' /\ In (id', r') v /\ id' <> id.
Proof. exact top_bitflip_prefix. Qed.
Print Assumptions C02_bitflip_rejected_prefix_partial.

Definition C02_bitflip_rejected_prefix_full_statement : Prop :=
  forall reveal p k v data data' r c,
    reveal_sensitive reveal ->
    wrap_prefix_ord reveal [p] [k] v data = Found r c ->
    tag_at p data' <> tag_at p data ->
    exists id, reveal k (tag_at p data) = Some id /\ In (id, r) v /\
      forall r' c', wrap_prefix_ord reveal [p] [k] v data' = Found r' c' ->
        exists id', reveal k (tag_at p data') = Some id' /\ In (id', r') v /\ id' <> id.

Theorem C02_bitflip_rejected_obfs4_mark :
  forall mark hs data data' e r c,
    take o_rep_len data' = take o_rep_len data ->
    mark_window data' <> mark_window data ->
    obfs4_verdict mark hs data e = OTerm (Found r c) ->
    obfs4_verdict mark hs data' e = OSkip.
Proof. exact top_bitflip_obfs4_mark. Qed.
Print Assumptions C02_bitflip_rejected_obfs4_mark.

Theorem C02_bitflip_rejected_obfs4 :
  forall mark hs v o1 o2 data data' r c,
    hs_binds hs -> incl o1 v -> incl o2 v ->
    blen data' = blen data -> take o_max_hs data' <> take o_max_hs data ->
    wrap_obfs4_ord mark hs o1 data = Found r c ->
    exists id, In (id, r) v /\ hs id data = true /\
      forall r' c', wrap_obfs4_ord mark hs o2 data' = Found r' c' ->
        exists id', In (id', r') v /\ id' <> id.
Proof. exact top_bitflip_obfs4. Qed.
Print Assumptions C02_bitflip_rejected_obfs4.

(* ---- Go's map iteration order: the outcomes compared in the correspondence run are exactly those of
        the ordered loops; a well-formed (regenerated) prefix table excludes the out-of-range slice *)
Theorem C02_prefix_orders_exact :
  forall reveal table keys v data w,
    In w (wrap_prefix_allowed reveal table keys v data) <->
    exists order, Permutation order table /\ wrap_prefix_ord reveal order keys v data = w.
Proof. exact top_prefix_orders. Qed.
Print Assumptions C02_prefix_orders_exact.

Theorem C02_obfs4_orders_exact :
  forall mark hs v data w,
    In w (wrap_obfs4_allowed mark hs v data) <->
    exists order, Permutation order v /\ wrap_obfs4_ord mark hs order data = w.
Proof. exact top_obfs4_orders. Qed.
Print Assumptions C02_obfs4_orders_exact.

Theorem C02_prefix_table_wf_no_panic :
  forall reveal table order keys v data,
    table_wf table = true -> Permutation order table ->
    wrap_prefix_ord reveal order keys v data <> WPanic.
Proof. exact top_prefix_no_panic. Qed.
Print Assumptions C02_prefix_table_wf_no_panic.
