(* C02 model, connection level: the read loop of handleNewTCPConn (cmd/application/conns.go) as a
   step function over (registry, connection state), interleaved with registry operations.
   Definitions only; executable.

   A history is a list of events: registry operations (register / validate / expire / sweep, the
   operations of Model.v), the arrival of the TCP connection (EAccept), one Read of the handler that
   returned data (ERead), a Read that failed (EReadErr: EOF, reset, deadline).  Every classification
   attempt - each call of a transport's WrapConnection inside one iteration of the read loop - looks the
   phantom's registrations up in the registry AS IT IS AT THAT EVENT (`get_regs st ph` with the current
   st): the handler passes the live registration manager to the transports, it holds no copy.

   What Go leaves open is part of the event (`choice`): the order in which `range possibleTransports`
   visits the transports, the order of the prefix table (a map) and the order of the registrations
   (a map) inside the obfs4 loop. *)
From CJ Require Export Common.Base C02.Model.

Inductive tk := TMin | TObfs4 | TPrefix.

Definition tk_eqb (a b : tk) : bool :=
  match a, b with TMin, TMin | TObfs4, TObfs4 | TPrefix, TPrefix => true | _, _ => false end.
Definition mem_tk (t : tk) (l : list tk) : bool := existsb (tk_eqb t) l.
Definition remove_tk (t : tk) (l : list tk) : list tk := filter (fun x => negb (tk_eqb t x)) l.

(* regManager.GetWrappingTransports() of a station with the three wrapping transports enabled *)
Definition all_tk : list tk := [TMin; TObfs4; TPrefix].

(* the elements of l at the given positions (positions beyond the list are skipped): a sub-multiset
   of l in any order, by construction *)
Definition pick {A} (idx : list nat) (l : list A) : list A :=
  flat_map (fun i => match nth_error l i with Some x => [x] | None => [] end) idx.

Record choice := { ch_torder : list tk;      (* range possibleTransports *)
                   ch_porder : list nat;     (* range SupportedPrefixes, as positions in the table *)
                   ch_oorder : list nat }.   (* range GetRegistrations(phantom), as positions in the view *)

Inductive cstate :=
| CIdle                                          (* no connection yet *)
| CReading (buf : bytes) (poss : list tk)        (* in the read loop: bytes received, transports not yet excluded *)
| CDiscard                                       (* io.Copy(io.Discard, conn): nothing tracked at accept, or every transport excluded *)
| CGaveUp (t : tk) (w : wres)                    (* a transport returned an unexpected error: sleep, then close *)
| CMatched (t : tk) (r : reginfo) (consumed : N) (buf : bytes)   (* MarkActive(reg); Proxy(reg, wrapped) *)
| CClosed.

Inductive cev :=
| EReg (op : rop)
| EAccept
| ERead (chunk : bytes) (ch : choice)
| EReadErr.

Section Conn.
  Variable reveal : N -> bytes -> option bytes.
  Variable mark : bytes -> bytes -> bytes.
  Variable hs : bytes -> bytes -> bool.
  Variable table : list pfx.         (* prefix.Transport.SupportedPrefixes *)
  Variable keys : list N.            (* prefix.Transport.Privkeys *)

  (* t.WrapConnection(&received, clientConn, originalDstIP, regManager) with v = what
     regManager.GetRegistrations(originalDstIP) returns during that call *)
  Definition wrap_tk (t : tk) (ch : choice) (v : view) (buf : bytes) : wres :=
    match t with
    | TMin => wrap_min v buf
    | TPrefix => wrap_prefix_ord reveal (pick (ch_porder ch) table) keys v buf
    | TObfs4 => wrap_obfs4_ord mark hs (pick (ch_oorder ch) v) buf
    end.

  (* the `transports:` loop of one iteration of readLoop *)
  Fixpoint try_ts (v : view) (buf : bytes) (ch : choice) (order poss : list tk) : cstate :=
    match order with
    | [] => match poss with [] => CDiscard | _ => CReading buf poss end
    | t :: rest =>
      if negb (mem_tk t poss) then try_ts v buf ch rest poss
      else match wrap_tk t ch v buf with
           | TryAgain => try_ts v buf ch rest poss
           | NotTransport => try_ts v buf ch rest (remove_tk t poss)
           | Found r c => CMatched t r c buf
           | w => CGaveUp t w
           end
    end.

  (* every transport still possible is asked once per iteration: those the choice does not list are
     asked after the listed ones (asking a transport again with the same bytes changes nothing) *)
  Definition read_step (st : registry) (ph : phantom) (buf : bytes) (poss : list tk) (chunk : bytes) (ch : choice) : cstate :=
    try_ts (get_regs st ph) (buf ++ chunk) ch (ch_torder ch ++ all_tk) poss.

  Definition cstep (ph : phantom) (s : registry * cstate) (e : cev) : registry * cstate :=
    let (st, cs) := s in
    match e with
    | EReg op => (step st op, cs)
    | EAccept =>
      (st, match cs with
           | CIdle => if count_regs st ph <? 1 then CDiscard else CReading [] all_tk
           | _ => cs
           end)
    | ERead chunk ch =>
      (st, match cs with
           | CReading buf poss => read_step st ph buf poss chunk ch
           | _ => cs
           end)
    | EReadErr =>
      (st, match cs with
           | CReading _ _ | CDiscard => CClosed
           | _ => cs
           end)
    end.

  Definition crun (ph : phantom) (evs : list cev) : registry * cstate := fold_left (cstep ph) evs ([], CIdle).
  Definition cstate_of (ph : phantom) (evs : list cev) : cstate := snd (crun ph evs).

  (* ---- a handler that looks the phantom's registrations up once, when the connection arrives, and hands
          that copy to the transports: NOT the model of the code; kept to show (Examples) that the theorems
          about `cstep` separate the two *)
  Inductive sstate := SIdle | SConn (snap : view) (cs : cstate).
  Definition sstep (ph : phantom) (s : registry * sstate) (e : cev) : registry * sstate :=
    let (st, ss) := s in
    match e with
    | EReg op => (step st op, ss)
    | EAccept =>
      (st, match ss with
           | SIdle => SConn (get_regs st ph) (if count_regs st ph <? 1 then CDiscard else CReading [] all_tk)
           | _ => ss
           end)
    | ERead chunk ch =>
      (st, match ss with
           | SConn snap (CReading buf poss) => SConn snap (try_ts snap (buf ++ chunk) ch (ch_torder ch ++ all_tk) poss)
           | _ => ss
           end)
    | EReadErr => (st, ss)
    end.
  Definition srun (ph : phantom) (evs : list cev) : registry * sstate := fold_left (sstep ph) evs ([], SIdle).
End Conn.

(* the registry operations of a history, in order *)
Definition reg_ops (evs : list cev) : list rop :=
  flat_map (fun e => match e with EReg op => [op] | _ => [] end) evs.

(* the bytes the handler has received: the chunks of the Reads after the connection arrived *)
Fixpoint stream_after (accepted : bool) (evs : list cev) : bytes :=
  match evs with
  | [] => []
  | EAccept :: r => stream_after true r
  | ERead chunk _ :: r => (if accepted then chunk else []) ++ stream_after accepted r
  | _ :: r => stream_after accepted r
  end.
Definition stream_of (evs : list cev) : bytes := stream_after false evs.
