(* C02 model, registry with its timeout bookkeeping over virtual time.

   Source: pkg/station/lib/registration.go - track / TrackIfNotExists (the duplicate branch: an already
   tracked (phantom, identifier) keeps the stored object AND its DecoyTimeout record), register, markActive,
   getExpiredRegistrations / removeRegistration (RemoveOldRegistrations), decoysTimeouts.

   State: the registry of Model.v plus one record per tracked (phantom, identifier):
   (phantom, identifier, age in seconds since the record was created, used).  Time passes only through
   TAge; no other operation touches an age - in particular not the duplicate reception of a registration. *)
From CJ Require Import Common.Base C02.Model.

Definition trec := (phantom * ident * N * bool)%type.
Definition tstate := (registry * list trec)%type.

Definition t_unused : N := 600.            (* defaultUnusedTimeout, 10 min, in seconds *)
Definition t_active : N := 21600.          (* defaultActiveTimeout, 6 h *)

Inductive top :=
| TO (op : rop)                            (* Track / Validate / Expire / Sweep(no time passed) / ExpireAll *)
| TUse (ph : phantom) (id : ident)         (* markActive *)
| TAge (d : N)                             (* d seconds pass *)
| TSweep.                                  (* RemoveOldRegistrations at the present time *)

Definition rec_key_eqb (ph : phantom) (id : ident) (t : trec) : bool :=
  let '(p, i, _, _) := t in (p =? ph) && bytes_eqb i id.

(* getExpiredRegistrations: unused and older than timeoutUnused, or older than timeoutActive *)
Definition rec_expired (t : trec) : bool :=
  let '(_, _, age, used) := t in
  (negb used && (t_unused <? age)) || (t_active <? age).

Definition rec_op (t : trec) : rop := let '(p, i, _, _) := t in Expire p i.

(* the registry operations a timed operation amounts to, in the present state *)
Definition emit (s : tstate) (op : top) : list rop :=
  match op with
  | TO o => [o]
  | TUse _ _ => []
  | TAge _ => []
  | TSweep => map rec_op (filter rec_expired (snd s))
  end.

Definition recs_next (s : tstate) (op : top) : list trec :=
  let '(st, ts) := s in
  match op with
  | TO (Track ph id _) | TO (Validate ph id _) =>
      if tracked st ph id then ts else ts ++ [(ph, id, 0, false)]
  | TO (Expire ph id) => filter (fun t => negb (rec_key_eqb ph id t)) ts
  | TO Sweep => ts
  | TO ExpireAll => []
  | TUse ph id => map (fun t => if rec_key_eqb ph id t then let '(p, i, a, _) := t in (p, i, a, true) else t) ts
  | TAge d => map (fun t => let '(p, i, a, u) := t in (p, i, a + d, u)) ts
  | TSweep => filter (fun t => negb (rec_expired t)) ts
  end.

Definition tstep (s : tstate) (op : top) : tstate :=
  (fold_left step (emit s op) (fst s), recs_next s op).

Definition trun_from (s : tstate) (ops : list top) : tstate := fold_left tstep ops s.
Definition trun (ops : list top) : tstate := trun_from ([], []) ops.

(* the timeless history of Model.v a timed history amounts to (what Run.v evaluates) *)
Fixpoint flat_from (s : tstate) (ops : list top) : list rop :=
  match ops with
  | [] => []
  | op :: rest => emit s op ++ flat_from (tstep s op) rest
  end.
Definition flat (ops : list top) : list rop := flat_from ([], []) ops.

(* ---- the same registration is received AGAIN ---- *)

(* Track of a tracked key (TrackIfNotExists / track: the duplicate branch), and Validate by the stored
   object that is already valid (register: duplicate branch of track, Valid already true) *)
Definition stored_valid (st : registry) (ph : phantom) (id : ident) (name : N) : bool :=
  forallb (fun e => negb (key_eqb ph id e && (r_name (e_reg e) =? name)) || r_valid (e_reg e)) st.

Definition is_dup (s : tstate) (op : top) : bool :=
  match op with
  | TO (Track ph id _) => tracked (fst s) ph id
  | TO (Validate ph id r) => tracked (fst s) ph id && stored_valid (fst s) ph id (r_name r)
  | _ => false
  end.

(* the history with every duplicate erased *)
Fixpoint erase_from (s : tstate) (ops : list top) : list top :=
  match ops with
  | [] => []
  | op :: rest => if is_dup s op then erase_from s rest else op :: erase_from (tstep s op) rest
  end.
Definition erase (ops : list top) : list top := erase_from ([], []) ops.

(* every record's age is within the lifetime its status allows *)
Definition rec_within (t : trec) : bool :=
  let '(_, _, age, used) := t in if used then age <=? t_active else age <=? t_unused.
