(* C02, connection level: the replay checker of RunConn.v is sound for the step function of ModelConn.v -
   a recorded connection that the checker accepts is a run of `cstep` for some choice of the iteration orders
   Go leaves open.  So the theorems of PropsConn.v (about `cstep`, for all choices) speak about every
   recorded connection the correspondence run accepts. *)
From CJ Require Import Common.Base Common.BaseProofs C02.Model C02.Spec C02.Proofs C02.ProofsWrap C02.ProofsTop
     C02.ModelConn C02.ProofsConn C02.Run C02.RunConn.
From Coq Require Import Lia ZifyN ZifyNat ZifyBool Permutation.

(* what the checker's states stand for *)
Definition abs (cs : cstate) : rstate :=
  match cs with
  | CIdle => RIdle
  | CReading b p => RReading b p
  | CDiscard => RDiscard
  | CGaveUp _ _ => RGaveUp
  | CMatched _ r _ _ => RMatched (r_name r)
  | CClosed => RClosed
  end.

Lemma pick_surj {A} (l order : list A) : incl order l -> exists idx, pick idx l = order.
Proof.
  induction order as [|x order IH]; intros H.
  - exists []. reflexivity.
  - destruct IH as (idx & E). { intros y Hy. apply H. right. exact Hy. }
    destruct (In_nth_error l x) as (i & Hi). { apply H. left. reflexivity. }
    exists (i :: idx). unfold pick in *. cbn [flat_map]. rewrite Hi, E. reflexivity.
Qed.

Section Replay.
  Variable reveal : N -> bytes -> option bytes.
  Variable mark : bytes -> bytes -> bytes.
  Variable hs : bytes -> bytes -> bool.
  Variable table : list pfx.
  Variable keys : list N.

  Notation wrap_tk := (wrap_tk reveal mark hs table keys).
  Notation try_ts := (try_ts reveal mark hs table keys).
  Notation cstep := (cstep reveal mark hs table keys).
  Notation crun := (crun reveal mark hs table keys).
  Notation allowed_tk := (allowed_tk reveal mark hs table keys).
  Notation replay_calls := (replay_calls reveal mark hs table keys).
  Notation read_obs := (read_obs reveal mark hs table keys).
  Notation xstep := (xstep reveal mark hs table keys).
  Notation xrun := (xrun reveal mark hs table keys).

  (* an allowed outcome is the outcome of the transport for some iteration order *)
  Lemma allowed_prefix v buf o :
    In o (allowed_tk TPrefix v buf) -> exists idx, proj (wrap_prefix_ord reveal (pick idx table) keys v buf) = o.
  Proof.
    cbn [RunConn.allowed_tk]. intros H. apply in_map_iff in H as (w & <- & Hw).
    apply top_prefix_orders in Hw as (order & P & <-).
    destruct (pick_surj table order) as (idx & E).
    - intros x Hx. eapply Permutation_in; eauto.
    - exists idx. rewrite E. reflexivity.
  Qed.

  Lemma allowed_obfs4 v buf o :
    In o (allowed_tk TObfs4 v buf) -> exists idx, proj (wrap_obfs4_ord mark hs (pick idx v) buf) = o.
  Proof.
    cbn [RunConn.allowed_tk]. intros H. apply in_map_iff in H as (w & <- & Hw).
    apply top_obfs4_orders in Hw as (order & P & <-).
    destruct (pick_surj v order) as (idx & E).
    - intros x Hx. eapply Permutation_in; eauto.
    - exists idx. rewrite E. reflexivity.
  Qed.

  Lemma obs_eqb_eq a b : obs_eqb a b = true -> a = b.
  Proof.
    destruct a as [[a1 a2] a3], b as [[b1 b2] b3]. cbn [obs_eqb]. rewrite !andb_true_iff, !N.eqb_eq.
    intros [[-> ->] ->]. reflexivity.
  Qed.

  Lemma existsb_obs o l : existsb (obs_eqb o) l = true -> In o l.
  Proof. rewrite existsb_exists. intros (x & Hx & E). apply obs_eqb_eq in E. subst. exact Hx. Qed.

  Lemma tk_eqb_eq a b : tk_eqb a b = true <-> a = b.
  Proof. destruct a, b; cbn; split; intros; congruence. Qed.

  (* the choice `ch` reproduces every observed call *)
  Definition agrees (ch : choice) (v : view) (buf : bytes) (calls : list ocall) : Prop :=
    forall tc o, In (tc, o) calls -> proj (wrap_tk (tk_of tc) ch v buf) = o.

  Lemma find_call (t : tk) (calls : list ocall) :
    (exists tc o, In (tc, o) calls /\ tk_of tc = t) \/ (forall tc o, In (tc, o) calls -> tk_of tc <> t).
  Proof.
    induction calls as [|[tc o] rest IH].
    - right. intros ? ? [].
    - destruct (tk_eqb (tk_of tc) t) eqn:E.
      + left. apply tk_eqb_eq in E. exists tc, o. split; [left; reflexivity|exact E].
      + destruct IH as [(tc' & o' & Hin & Ht)|Hn].
        * left. exists tc', o'. split; [right; exact Hin|exact Ht].
        * right. intros tc' o' [[= <- <-]|Hin]; [|eauto]. intros Ht. apply tk_eqb_eq in Ht. rewrite E in Ht. discriminate.
  Qed.

  Lemma nodup_tk_unique (calls : list ocall) :
    nodup_tk (asked calls) = true ->
    forall tc o tc' o', In (tc, o) calls -> In (tc', o') calls -> tk_of tc = tk_of tc' -> o = o'.
  Proof.
    induction calls as [|[tc0 o0] rest IH]; intros N tc o tc' o' H1 H2 E; [destruct H1|].
    cbn [asked map nodup_tk fst] in N. apply andb_true_iff in N as [N1 N2]. apply negb_true_iff in N1.
    change (mem_tk (tk_of tc0) (asked rest) = false) in N1. change (nodup_tk (asked rest) = true) in N2.
    assert (Hno : forall tcx ox, In (tcx, ox) rest -> tk_of tcx <> tk_of tc0).
    { intros tcx ox Hin Et. assert (Hm : mem_tk (tk_of tc0) (asked rest) = true); [|rewrite Hm in N1; discriminate].
      apply mem_tk_in. unfold asked. apply in_map_iff. exists (tcx, ox). split; [exact Et|exact Hin]. }
    destruct H1 as [[= <- <-]|H1], H2 as [[= <- <-]|H2].
    - reflexivity.
    - exfalso. eapply Hno; eauto.
    - exfalso. eapply Hno; eauto.
    - eapply IH; eauto.
  Qed.

  Lemma agreeing_choice v buf (calls : list ocall) :
    nodup_tk (asked calls) = true ->
    (forall tc o, In (tc, o) calls -> In o (allowed_tk (tk_of tc) v buf)) ->
    exists ch, ch_torder ch = asked calls /\ agrees ch v buf calls.
  Proof.
    intros N A.
    assert (Pp : exists ip, forall tc o, In (tc, o) calls -> tk_of tc = TPrefix ->
                                          proj (wrap_prefix_ord reveal (pick ip table) keys v buf) = o).
    { destruct (find_call TPrefix calls) as [(tc & o & Hin & Ht)|Hn].
      - pose proof (A _ _ Hin) as Ha. rewrite Ht in Ha. apply allowed_prefix in Ha as (ip & E). exists ip.
        intros tc' o' Hin' Ht'. rewrite (nodup_tk_unique calls N tc' o' tc o Hin' Hin); [exact E|congruence].
      - exists []. intros tc o Hin Ht. exfalso. eapply Hn; eauto. }
    assert (Po : exists io, forall tc o, In (tc, o) calls -> tk_of tc = TObfs4 ->
                                          proj (wrap_obfs4_ord mark hs (pick io v) buf) = o).
    { destruct (find_call TObfs4 calls) as [(tc & o & Hin & Ht)|Hn].
      - pose proof (A _ _ Hin) as Ha. rewrite Ht in Ha. apply allowed_obfs4 in Ha as (io & E). exists io.
        intros tc' o' Hin' Ht'. rewrite (nodup_tk_unique calls N tc' o' tc o Hin' Hin); [exact E|congruence].
      - exists []. intros tc o Hin Ht. exfalso. eapply Hn; eauto. }
    destruct Pp as (ip & Hp), Po as (io & Ho).
    exists {| ch_torder := asked calls; ch_porder := ip; ch_oorder := io |}. split; [reflexivity|].
    intros tc o Hin. destruct (tk_of tc) eqn:Et; cbn [ModelConn.wrap_tk ch_porder ch_oorder].
    - pose proof (A _ _ Hin) as Ha. rewrite Et in Ha. cbn [RunConn.allowed_tk] in Ha. destruct Ha as [<-|[]]. reflexivity.
    - eapply Ho; eauto.
    - eapply Hp; eauto.
  Qed.

  (* outcome classes *)
  Lemma proj_cls_0 w o : proj w = o -> cls o = 0 -> w = TryAgain.
  Proof. intros <-. destruct w; cbn; intros; try discriminate; reflexivity. Qed.
  Lemma proj_cls_1 w o : proj w = o -> cls o = 1 -> w = NotTransport.
  Proof. intros <-. destruct w; cbn; intros; try discriminate; reflexivity. Qed.
  Lemma proj_cls_4 w o : proj w = o -> cls o = 4 -> exists r c, w = Found r c /\ r_name r = nm o.
  Proof. intros <-. destruct w; cbn; intros; try discriminate. eauto. Qed.

  Lemma try_ts_all_again v buf ch order : forall poss,
    (forall t, mem_tk t poss = true -> wrap_tk t ch v buf = TryAgain) ->
    try_ts v buf ch order poss = match poss with [] => CDiscard | _ => CReading buf poss end.
  Proof.
    induction order as [|t rest IH]; intros poss H; cbn [ModelConn.try_ts]; [reflexivity|].
    destruct (mem_tk t poss) eqn:M; cbn [negb]; [rewrite (H t M)|]; apply IH; exact H.
  Qed.

  Lemma mem_remove_other t t' l : mem_tk t (remove_tk t' l) = true -> mem_tk t l = true /\ t <> t'.
  Proof.
    unfold mem_tk, remove_tk. rewrite !existsb_exists. intros (x & Hx & E).
    apply filter_In in Hx as [Hx Hn]. apply tk_eqb_eq in E. subst x. split.
    - exists t. split; [exact Hx|apply tk_eqb_eq; reflexivity].
    - intros ->. assert (tk_eqb t' t' = true) by (apply tk_eqb_eq; reflexivity). rewrite H in Hn. discriminate.
  Qed.

  (* the observed calls of one iteration, replayed, are the transports loop of the model under an agreeing choice *)
  Lemma replay_calls_sound v buf ch (tail : list tk) : forall (calls : list ocall) poss,
    agrees ch v buf calls ->
    nodup_tk (asked calls) = true ->
    (has_terminal calls = true \/
     forall t, mem_tk t poss = true -> mem_tk t (asked calls) = true \/ wrap_tk t ch v buf = TryAgain) ->
    (forall w, replay_calls v buf poss calls <> RBad w) ->
    abs (try_ts v buf ch (asked calls ++ tail) poss) = replay_calls v buf poss calls.
  Proof.
    induction calls as [|[tc o] rest IH]; intros poss Ag N C NB.
    - cbn [asked map app RunConn.replay_calls]. destruct C as [C|C]; [discriminate|].
      rewrite try_ts_all_again.
      + destruct poss; reflexivity.
      + intros t M. destruct (C t M) as [F|F]; [discriminate|exact F].
    - cbn [asked map fst app ModelConn.try_ts RunConn.replay_calls] in *. set (t := tk_of tc) in *.
      apply andb_true_iff in N as [N1 N2]. apply negb_true_iff in N1.
      destruct (mem_tk t poss) eqn:M; cbn [negb] in *; [|exfalso; eapply NB; reflexivity].
      destruct (existsb (obs_eqb o) (allowed_tk t v buf)) eqn:Al; cbn [negb] in *; [|exfalso; eapply NB; reflexivity].
      pose proof (Ag tc o (or_introl eq_refl)) as Hw. fold t in Hw.
      assert (Ag' : agrees ch v buf rest) by (intros tc' o' Hin; apply Ag; right; exact Hin).
      destruct (cls o =? 0) eqn:E0.
      { (* TryAgain *)
        apply N.eqb_eq in E0. rewrite (proj_cls_0 _ _ Hw E0). apply IH; auto.
        destruct C as [C|C].
        - left. cbn [has_terminal existsb snd] in C. unfold nonterminal in C. rewrite E0 in C. cbn in C. exact C.
        - right. intros t' M'. destruct (tk_eqb t' t) eqn:E.
          + apply tk_eqb_eq in E. subst t'. right. exact (proj_cls_0 _ _ Hw E0).
          + destruct (C t' M') as [F|F]; [|right; exact F]. left.
            cbn [mem_tk existsb] in F. rewrite E in F. exact F. }
      destruct (cls o =? 1) eqn:E1.
      { (* NotTransport *)
        apply N.eqb_eq in E1. rewrite (proj_cls_1 _ _ Hw E1). apply IH; auto.
        destruct C as [C|C].
        - left. cbn [has_terminal existsb snd] in C. unfold nonterminal in C. rewrite E1 in C. cbn in C. exact C.
        - right. intros t' M'. apply mem_remove_other in M' as [M' Hne].
          destruct (C t' M') as [F|F]; [|right; exact F]. left.
          cbn [mem_tk existsb] in F. destruct (tk_eqb t' t) eqn:E; [apply tk_eqb_eq in E; congruence|exact F]. }
      destruct rest; [|exfalso; eapply NB; reflexivity].
      destruct (cls o =? 4) eqn:E4.
      + apply N.eqb_eq in E4. destruct (proj_cls_4 _ _ Hw E4) as (r & c & -> & Hn). cbn [abs]. rewrite Hn. reflexivity.
      + destruct (wrap_tk t ch v buf) eqn:W; cbn in Hw; subst o; cbn in E0, E1, E4; try discriminate; reflexivity.
  Qed.

  Lemma replay_in_allowed v buf : forall (calls : list ocall) poss,
    (forall w, replay_calls v buf poss calls <> RBad w) ->
    forall tc o, In (tc, o) calls -> In o (allowed_tk (tk_of tc) v buf).
  Proof.
    induction calls as [|[tc0 o0] rest IH]; intros poss NB tc o Hin; [destruct Hin|].
    cbn [RunConn.replay_calls] in NB.
    destruct (mem_tk (tk_of tc0) poss); cbn [negb] in NB; [|exfalso; eapply NB; reflexivity].
    destruct (existsb (obs_eqb o0) (allowed_tk (tk_of tc0) v buf)) eqn:Al; cbn [negb] in NB; [|exfalso; eapply NB; reflexivity].
    destruct Hin as [[= <- <-]|Hin]; [apply existsb_obs; exact Al|].
    destruct (cls o0 =? 0); [eapply IH; eauto|].
    destruct (cls o0 =? 1); [eapply IH; eauto|].
    destruct rest as [|c1 rest']; [destruct Hin|]. exfalso. eapply NB; reflexivity.
  Qed.

  Lemma forallb_mem poss l : forallb (fun t => mem_tk t l) poss = true -> forall t, mem_tk t poss = true -> mem_tk t l = true.
  Proof.
    rewrite forallb_forall. intros H t M. apply H. apply mem_tk_in. exact M.
  Qed.

  (* one observed iteration of the read loop *)
  Lemma read_obs_sound v buf poss (calls : list ocall) :
    (forall w, read_obs v buf poss calls <> RBad w) ->
    exists ch, abs (try_ts v buf ch (ch_torder ch ++ all_tk) poss) = read_obs v buf poss calls.
  Proof.
    unfold RunConn.read_obs. intros NB.
    destruct (nodup_tk (asked calls)) eqn:N; cbn [negb] in *; [|exfalso; eapply NB; reflexivity].
    destruct (has_terminal calls) eqn:T; cbn [negb andb] in *.
    - destruct (agreeing_choice v buf calls N (replay_in_allowed v buf calls poss NB)) as (ch & Eo & Ag).
      exists ch. rewrite Eo. apply replay_calls_sound; auto.
    - destruct (forallb (fun t => mem_tk t (asked calls)) poss) eqn:F; cbn [negb] in *; [|exfalso; eapply NB; reflexivity].
      destruct (agreeing_choice v buf calls N (replay_in_allowed v buf calls poss NB)) as (ch & Eo & Ag).
      exists ch. rewrite Eo. apply replay_calls_sound; auto.
      right. intros t M. left. eapply forallb_mem; eauto.
  Qed.

  (* ---- whole histories *)
  Definition shape (x : xev) (e : cev) : Prop :=
    match x, e with
    | XReg op, EReg op' => op = op'
    | XAccept, EAccept => True
    | XRead chunk _ _, ERead chunk' _ => chunk = chunk'
    | XErr, EReadErr => True
    | _, _ => False
    end.

  Lemma xrun_snoc ph xs x : xrun ph (xs ++ [x]) = xstep ph (xrun ph xs) x.
  Proof. unfold RunConn.xrun. rewrite fold_left_app. reflexivity. Qed.

  Lemma bad_stays ph st w x : exists w', snd (xstep ph (st, RBad w) x) = RBad w'.
  Proof. destruct x; cbn; eauto. Qed.

  Lemma replay_sound ph xs :
    (forall w, snd (xrun ph xs) <> RBad w) ->
    exists evs, Forall2 shape xs evs /\
                fst (crun ph evs) = fst (xrun ph xs) /\ abs (snd (crun ph evs)) = snd (xrun ph xs).
  Proof.
    induction xs as [|x xs IH] using rev_ind; intros NB.
    - exists []. split; [constructor|split; reflexivity].
    - rewrite xrun_snoc in *. destruct (xrun ph xs) as [st rs] eqn:Ex.
      assert (NB0 : forall w, rs <> RBad w).
      { intros w ->. destruct (bad_stays ph st w x) as (w' & Hw). eapply NB; eauto. }
      destruct (IH NB0) as (evs & Sh & Hst & Hrs). cbn [fst snd] in Hst, Hrs.
      assert (Step : forall e, shape x e ->
                fst (cstep ph (crun ph evs) e) = fst (xstep ph (st, rs) x) ->
                abs (snd (cstep ph (crun ph evs) e)) = snd (xstep ph (st, rs) x) ->
                exists evs', Forall2 shape (xs ++ [x]) evs' /\
                             fst (crun ph evs') = fst (xstep ph (st, rs) x) /\
                             abs (snd (crun ph evs')) = snd (xstep ph (st, rs) x)).
      { intros e He H1 H2. exists (evs ++ [e]). split; [apply Forall2_app; [exact Sh|constructor; [exact He|constructor]]|].
        rewrite (crun_snoc reveal mark hs table keys). split; assumption. }
      destruct (crun ph evs) as [st' cs] eqn:Ec. cbn [fst snd] in *. subst st'.
      destruct x as [op| |chunk calls tun|].
      + apply (Step (EReg op)); cbn; auto.
      + apply (Step EAccept); cbn; auto.
        destruct cs; cbn [abs] in Hrs; subst rs; cbn; auto. destruct (count_regs st ph <? 1); reflexivity.
      + destruct cs as [|buf poss| | | |]; cbn [abs] in Hrs; subst rs.
        * apply (Step (ERead chunk {| ch_torder := []; ch_porder := []; ch_oorder := [] |})); cbn; auto.
          cbn [RunConn.xstep snd] in NB. destruct calls; [destruct (tun =? 0); [reflexivity|exfalso; eapply NB; reflexivity]|exfalso; eapply NB; reflexivity].
        * cbn [RunConn.xstep snd] in NB |- *.
          assert (NBr : forall w, read_obs (get_regs st ph) (buf ++ chunk) poss calls <> RBad w).
          { intros w E. rewrite E in NB. eapply NB; reflexivity. }
          destruct (read_obs_sound _ _ _ _ NBr) as (ch & E).
          apply (Step (ERead chunk ch)); cbn [shape ModelConn.cstep RunConn.xstep fst snd]; auto.
          unfold read_step. rewrite E.
          destruct (read_obs (get_regs st ph) (buf ++ chunk) poss calls) eqn:Er;
            try (destruct (tun =? 0); [reflexivity|exfalso; eapply NB; reflexivity]).
          destruct (tun =? name); [reflexivity|exfalso; eapply NB; reflexivity].
        * apply (Step (ERead chunk {| ch_torder := []; ch_porder := []; ch_oorder := [] |})); cbn; auto.
          cbn [RunConn.xstep snd] in NB. destruct calls; [destruct (tun =? 0); [reflexivity|exfalso; eapply NB; reflexivity]|exfalso; eapply NB; reflexivity].
        * apply (Step (ERead chunk {| ch_torder := []; ch_porder := []; ch_oorder := [] |})); cbn; auto.
          cbn [RunConn.xstep snd] in NB. destruct calls; [destruct (tun =? 0); [reflexivity|exfalso; eapply NB; reflexivity]|exfalso; eapply NB; reflexivity].
        * apply (Step (ERead chunk {| ch_torder := []; ch_porder := []; ch_oorder := [] |})); cbn; auto.
          cbn [RunConn.xstep snd] in NB. destruct calls; [destruct (tun =? 0); [reflexivity|exfalso; eapply NB; reflexivity]|exfalso; eapply NB; reflexivity].
        * apply (Step (ERead chunk {| ch_torder := []; ch_porder := []; ch_oorder := [] |})); cbn; auto.
          cbn [RunConn.xstep snd] in NB. destruct calls; [destruct (tun =? 0); [reflexivity|exfalso; eapply NB; reflexivity]|exfalso; eapply NB; reflexivity].
      + apply (Step EReadErr); cbn; auto. destruct cs; cbn [abs] in Hrs; subst rs; reflexivity.
  Qed.

  (* a recorded connection that the checker accepts and that ends in a tunnel to object n: the model run it stands for
     is matched to a registration with that name, by one definite Read, registered in the history up to that Read *)
  Lemma accepted_record_matched ph xs n :
    snd (xrun ph xs) = RMatched n ->
    exists evs t r c b pre chunk ch post buf poss id,
      Forall2 shape xs evs /\ r_name r = n /\
      cstate_of reveal mark hs table keys ph evs = CMatched t r c b /\
      evs = pre ++ ERead chunk ch :: post /\
      cstate_of reveal mark hs table keys ph pre = CReading buf poss /\ b = buf ++ chunk /\
      carried reveal mark hs table keys t b c r id /\ registered (reg_ops pre) ph id r.
  Proof.
    intros H. destruct (replay_sound ph xs) as (evs & Sh & _ & Ha).
    { intros w E. rewrite H in E. discriminate. }
    rewrite H in Ha. destruct (snd (crun ph evs)) as [|? ?| |? ?|t r c b|] eqn:Ec; try discriminate.
    cbn [abs] in Ha. injection Ha as Hn.
    destruct (conn_match_step reveal mark hs table keys ph evs t r c b Ec)
      as (pre & chunk & ch & post & buf & poss & id & E1 & E2 & E3 & _ & E5 & E6).
    exists evs, t, r, c, b, pre, chunk, ch, post, buf, poss, id. repeat (split; [assumption|]). assumption.
  Qed.
End Replay.
