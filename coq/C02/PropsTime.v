(* C02 property theorems, registry over time: "unexpired" is counted from the ORIGINAL registration.
   Statements + `exact lemma` only.

   The model (ModelTime.v) is the registry of Model.v together with the timeout bookkeeping of
   RegisteredDecoys (one record per tracked (phantom, identifier): age, used) under histories of
   track / validate / expire / markActive / time passing / the real sweep.  A registration that is
   received AGAIN (the duplicate branches of TrackIfNotExists, track, register) is an operation of these
   histories like any other. *)
From CJ Require Import Common.Base C02.Model C02.ModelTime C02.ProofsTime C02.RunConn C02.RunTime.

(* receiving a tracked registration again (Track of a tracked key; Validate by the stored, already valid
   object) changes nothing: neither the registry nor any timeout record (age, used) *)
Theorem C02_duplicate_is_noop :
  forall s op, is_dup s op = true -> tstep s op = s.
Proof. exact dup_is_noop. Qed.
Print Assumptions C02_duplicate_is_noop.

Theorem C02_duplicate_keeps_every_age :
  forall s op, is_dup s op = true -> snd (tstep s op) = snd s.
Proof. exact dup_keeps_records. Qed.
Print Assumptions C02_duplicate_keeps_every_age.

(* for every history from every state: the history with all duplicates erased ends in the same state ... *)
Theorem C02_duplicates_erasable_state :
  forall ops s, trun_from s (erase_from s ops) = trun_from s ops.
Proof. exact erase_from_same. Qed.
Print Assumptions C02_duplicates_erasable_state.

(* ... hence whatever is accepted afterwards (every function of the registry: GetRegistrations,
   CountRegistrations, and through them every WrapConnection result) is the same with and without them *)
Theorem C02_duplicates_erasable :
  forall ops, run (flat (erase ops)) = run (flat ops).
Proof. exact erase_flat_run. Qed.
Print Assumptions C02_duplicates_erasable.

Theorem C02_duplicates_erasable_acceptance :
  forall ops ph data,
    get_regs (run (flat (erase ops))) ph = get_regs (run (flat ops)) ph /\
    count_regs (run (flat (erase ops))) ph = count_regs (run (flat ops)) ph /\
    wrap_min (get_regs (run (flat (erase ops))) ph) data = wrap_min (get_regs (run (flat ops)) ph) data.
Proof. intros ops ph data; rewrite erase_flat_run; repeat split; reflexivity. Qed.
Print Assumptions C02_duplicates_erasable_acceptance.

(* the timeless history the correspondence run evaluates (flat) is the registry component of the timed run *)
Theorem C02_flat_is_timed_registry :
  forall ops, run (flat ops) = fst (trun ops).
Proof. exact flat_run. Qed.
Print Assumptions C02_flat_is_timed_registry.

(* what the sweep leaves is within its lifetime: 10 min if never used, 6 h if used - of an age that only
   the passing of time has changed since the record was created *)
Theorem C02_swept_within_original_lifetime :
  forall s t, In t (snd (tstep s TSweep)) -> rec_within t = true.
Proof. exact sweep_within. Qed.
Print Assumptions C02_swept_within_original_lifetime.

(* connection lane: the registry operations of a flattened recorded history (what RunConn.v replays the real
   handleNewTCPConn against) are those of the timed model run on the history's timed operations - what a sweep
   removes in the replay is decided by the model's own records *)
Theorem C02_conn_timed_replay_registry :
  forall evs, xreg_ops (flat_x evs) = flat (tops_of evs).
Proof. exact flat_x_ops. Qed.
Print Assumptions C02_conn_timed_replay_registry.

(* every tracked entry has its timeout record, in every reachable state *)
Theorem C02_every_tracked_entry_has_its_record :
  forall ops e, In e (fst (trun ops)) -> exists a u, In (e_ph e, e_id e, a, u) (snd (trun ops)).
Proof. intros ops e H. exact (has_rec_run ops ([], []) (fun x (F : In x []) => match F with end) e H). Qed.
Print Assumptions C02_every_tracked_entry_has_its_record.

(* the oracle of the property, for every history: whatever is tracked right after a sweep - in particular whatever a
   flight can then be matched to - has a record within its lifetime, 10 min if never used, 6 h if used, the age
   being counted from the record's creation at the ORIGINAL registration (only TAge changes it; duplicates do not) *)
Theorem C02_tracked_after_sweep_within_original_lifetime :
  forall ops e, In e (fst (trun (ops ++ [TSweep]))) ->
    exists a u, In (e_ph e, e_id e, a, u) (snd (trun (ops ++ [TSweep]))) /\ rec_within (e_ph e, e_id e, a, u) = true.
Proof. exact tracked_after_sweep_within. Qed.
Print Assumptions C02_tracked_after_sweep_within_original_lifetime.
