(* C02: lemmas about the three WrapConnection classifications. *)
From CJ Require Import Common.Base Common.BaseProofs C02.Model C02.Spec C02.Proofs.
From Coq Require Import Lia ZifyN ZifyNat ZifyBool Permutation.

(* ------------------------------------------------------------------ lookup *)
Lemma lookup_In id v r : lookup id v = Some r -> In (id, r) v.
Proof.
  induction v as [|[i r'] v IH]; cbn; [discriminate|].
  destruct (bytes_eqb i id) eqn:E.
  - intros [= ->]. apply bytes_eqb_eq in E. subst. auto.
  - auto.
Qed.

Lemma lookup_None id v : lookup id v = None -> ~ In id (ids v).
Proof.
  unfold ids. induction v as [|[i r'] v IH]; cbn; [tauto|].
  destruct (bytes_eqb i id) eqn:E; [discriminate|].
  intros H [->|Hin]; [rewrite bytes_eqb_refl in E; discriminate|]. apply IH; auto.
Qed.

Lemma lookup_not_in id v : ~ In id (ids v) -> lookup id v = None.
Proof.
  intros H. destruct (lookup id v) eqn:E; auto. apply lookup_In in E. exfalso. apply H.
  unfold ids. apply in_map_iff. exists (id, r). auto.
Qed.

Lemma lookup_nodup id v r : NoDup (ids v) -> In (id, r) v -> lookup id v = Some r.
Proof.
  intros Hnd Hin. destruct (lookup id v) eqn:E.
  - apply lookup_In in E. f_equal. eapply nodup_ids_functional; eauto.
  - apply lookup_None in E. exfalso. apply E. unfold ids. apply in_map_iff. exists (id, r). auto.
Qed.

(* ------------------------------------------------------------------ min *)
Lemma min_found v data r c :
  wrap_min v data = Found r c ->
  c = min_tag_len /\ min_tag_len <= blen data /\ In (take min_tag_len data, r) v.
Proof.
  unfold wrap_min. destruct (blen data <? min_tag_len) eqn:L; [discriminate|].
  destruct (lookup (take min_tag_len data) v) eqn:E; [|discriminate].
  intros [= <- <-]. apply lookup_In in E. repeat split; auto. lia.
Qed.

Lemma min_complete v data r :
  NoDup (ids v) -> min_tag_len <= blen data -> In (take min_tag_len data, r) v ->
  wrap_min v data = Found r min_tag_len.
Proof.
  intros Hnd L Hin. unfold wrap_min. destruct (blen data <? min_tag_len) eqn:E; [lia|].
  rewrite (lookup_nodup _ _ _ Hnd Hin). reflexivity.
Qed.

Lemma min_unregistered_key v data :
  min_tag_len <= blen data -> ~ In (take min_tag_len data) (ids v) -> wrap_min v data = NotTransport.
Proof.
  intros L H. unfold wrap_min. destruct (blen data <? min_tag_len) eqn:E; [lia|].
  rewrite lookup_not_in; auto.
Qed.

(* an alteration inside the first n bytes changes take n *)
Lemma nth_error_firstn_lt {A} (l : list A) : forall n i, (i < n)%nat -> nth_error (firstn n l) i = nth_error l i.
Proof.
  induction l as [|x l IH]; intros n i Hi.
  - rewrite firstn_nil. reflexivity.
  - destruct n; [lia|]. destruct i; cbn; auto. apply IH. lia.
Qed.

Lemma take_differs n (a b : bytes) i :
  (i < N.to_nat n)%nat -> nth_error a i <> nth_error b i -> take n a <> take n b.
Proof.
  unfold take. intros Hi Hd E. apply Hd.
  rewrite <- (nth_error_firstn_lt a _ _ Hi). rewrite <- (nth_error_firstn_lt b _ _ Hi). rewrite E. reflexivity.
Qed.

Lemma prefix_accept_found p r r' c :
  prefix_accept p r = PTerm (Found r' c) ->
  r' = r /\ c = p_offset p + ptag_len /\ r_transport r = tt_prefix /\ r_params r = PPrefix (p_id p).
Proof.
  unfold prefix_accept. destruct (r_transport r =? tt_prefix) eqn:T; cbn; [|discriminate].
  apply N.eqb_eq in T. destruct (r_params r) eqn:Pm; try discriminate.
  destruct (id =? p_id p)%Z eqn:I; [|discriminate]. apply Z.eqb_eq in I. subst.
  intros [= <- <-]. auto.
Qed.

Lemma prefix_final_not_found m w r c : prefix_final m w <> Found r c.
Proof. unfold prefix_final. destruct m, w; discriminate. Qed.

Lemma existsb_perm {A} (f : A -> bool) l l' : Permutation l l' -> existsb f l = existsb f l'.
Proof.
  intros P. destruct (existsb f l) eqn:E.
  - apply existsb_exists in E as (x & Hx & Fx). symmetry. apply existsb_exists. exists x. split; auto.
    eapply Permutation_in; eauto.
  - destruct (existsb f l') eqn:E'; auto. apply existsb_exists in E' as (x & Hx & Fx).
    assert (existsb f l = true); [|congruence]. apply existsb_exists. exists x. split; auto.
    eapply Permutation_in; [apply Permutation_sym|]; eauto.
Qed.

Lemma terms_of_perm l l' : Permutation l l' -> Permutation (terms_of l) (terms_of l').
Proof. intros P. unfold terms_of. apply Permutation_flat_map. auto. Qed.

Lemma terms_of_in vs w : In w (terms_of vs) <-> In (PTerm w) vs.
Proof.
  unfold terms_of. rewrite in_flat_map. split.
  - intros (x & Hx & Hw). destruct x; cbn in Hw; try tauto. destruct Hw as [<-|[]]. auto.
  - intros H. exists (PTerm w). split; auto. left. reflexivity.
Qed.

Lemma prefix_accept_other_transport p r :
  r_transport r <> tt_prefix -> prefix_accept p r = PTerm ErrIncorrectTransport.
Proof.
  intros H. unfold prefix_accept. destruct (r_transport r =? tt_prefix) eqn:E; [apply N.eqb_eq in E; tauto|].
  reflexivity.
Qed.

Lemma prefix_accept_other_id p r :
  r_transport r = tt_prefix -> r_params r <> PPrefix (p_id p) -> prefix_accept p r = PWrong.
Proof.
  intros T H. unfold prefix_accept. rewrite T, N.eqb_refl. cbn.
  destruct (r_params r) eqn:Pm; auto. destruct (id =? p_id p)%Z eqn:E; auto.
  apply Z.eqb_eq in E. subst. tauto.
Qed.

Lemma pfx_wf_spec p : pfx_wf p = true ->
  p_offset p = blen (p_static p) /\ p_minlen p = p_offset p + ptag_len /\ p_maxlen p = p_offset p + ptag_len.
Proof. unfold pfx_wf. rewrite !andb_true_iff, !N.eqb_eq. tauto. Qed.

Lemma prefix_accept_no_panic p r : prefix_accept p r <> PTerm WPanic.
Proof.
  unfold prefix_accept. destruct (negb (r_transport r =? tt_prefix)); [discriminate|].
  destruct (r_params r); try discriminate. destruct (id =? p_id p)%Z; discriminate.
Qed.

Lemma znodup_inj (l : list pfx) : znodup (map p_id l) = true ->
  forall p q, In p l -> In q l -> p_id p = p_id q -> p = q.
Proof.
  induction l as [|x l IH]; cbn; [tauto|]. intros H p q Hp Hq E.
  apply andb_true_iff in H as [H1 H2]. apply negb_true_iff in H1.
  assert (Hx : forall y, In y l -> p_id x <> p_id y).
  { intros y Hy Exy. assert (existsb (Z.eqb (p_id x)) (map p_id l) = true); [|congruence].
    apply existsb_exists. exists (p_id y). split; [apply in_map; auto|apply Z.eqb_eq; auto]. }
  destruct Hp as [<-|Hp], Hq as [<-|Hq]; auto.
  - exfalso. eapply Hx; eauto.
  - exfalso. eapply Hx; eauto.
Qed.

Lemma find_mark_some m data pos :
  find_mark m data = Some pos ->
  o_start + o_mark_len + o_mac_len <= blen data /\ mark_window data = m.
Proof.
  unfold find_mark, mark_window. destruct (blen data <? o_start) eqn:E1; [discriminate|].
  destruct (N.min (blen data) o_max_hs - o_start <? o_mark_len + o_mac_len) eqn:E2; [discriminate|].
  destruct (bytes_eqb _ m) eqn:E3; [|discriminate]. intros _.
  apply bytes_eqb_eq in E3. split; auto. unfold o_start, o_mark_len, o_mac_len, o_max_hs in *. lia.
Qed.

Lemma find_mark_window m data :
  mark_window data <> m -> find_mark m data = None.
Proof.
  intros H. destruct (find_mark m data) eqn:E; auto. apply find_mark_some in E as [_ E]. tauto.
Qed.

Lemma obfs4_final_not_found data r c : obfs4_final data <> Found r c.
Proof. unfold obfs4_final. destruct (blen data <? o_max_hs); discriminate. Qed.

Lemma filter_perm {A} (f : A -> bool) l l' : Permutation l l' -> Permutation (filter f l) (filter f l').
Proof.
  induction 1; cbn; auto.
  - destruct (f x); auto.
  - destruct (f x), (f y); auto. apply perm_swap.
  - eapply perm_trans; eauto.
Qed.


Section PrefixProofs.
  Variable reveal : N -> bytes -> option bytes.

  Notation get_reg := (get_reg reveal).
  Notation prefix_verdict := (prefix_verdict reveal).
  Notation prefix_loop := (prefix_loop reveal).
  Notation wrap_prefix_ord := (wrap_prefix_ord reveal).
  Notation wrap_prefix_allowed := (wrap_prefix_allowed reveal).

  (* ---------------------------------------------------------------- prefix *)
  Lemma get_reg_some keys v c r :
    get_reg keys v c = Some r ->
    exists k id, In k keys /\ reveal k c = Some id /\ In (id, r) v.
  Proof.
    induction keys as [|k ks IH]; cbn; [discriminate|].
    destruct (reveal k c) as [id|] eqn:R.
    - destruct (lookup id v) eqn:L.
      + intros [= ->]. exists k, id. split; [auto|]. split; auto. apply lookup_In; auto.
      + intros H. destruct (IH H) as (k' & id' & ? & ? & ?). exists k', id'. auto.
    - intros H. destruct (IH H) as (k' & id' & ? & ? & ?). exists k', id'. auto.
  Qed.

  Lemma get_reg_none keys v c :
    get_reg keys v c = None ->
    forall k id, In k keys -> reveal k c = Some id -> ~ In id (ids v).
  Proof.
    induction keys as [|k ks IH]; cbn; [tauto|].
    destruct (reveal k c) as [id0|] eqn:R.
    - destruct (lookup id0 v) eqn:L; [discriminate|]. intros H k' id [<-|Hk] Hr.
      + rewrite R in Hr. inversion Hr; subst. apply lookup_None; auto.
      + eapply IH; eauto.
    - intros H k' id [<-|Hk] Hr; [congruence|]. eapply IH; eauto.
  Qed.

  Definition found_at (keys : list N) (v : view) (data : bytes) (p : pfx) (r : reginfo) (c : N) : Prop :=
    static_ok p data = true /\ p_offset p + ptag_len <= blen data /\ c = p_offset p + ptag_len /\
    r_transport r = tt_prefix /\ r_params r = PPrefix (p_id p) /\
    exists k id, In k keys /\ reveal k (tag_at p data) = Some id /\ In (id, r) v.

  Lemma prefix_verdict_found keys v data p r c :
    prefix_verdict keys v data p = PTerm (Found r c) -> found_at keys v data p r c.
  Proof.
    unfold prefix_verdict.
    destruct (static_ok p data) eqn:S; cbn [negb]; [|discriminate].
    destruct (blen data <? p_minlen p); [discriminate|].
    destruct ((blen data <? p_offset p + ptag_len) && (blen data <? p_maxlen p)); [discriminate|].
    destruct (blen data <? p_maxlen p); [discriminate|].
    destruct (blen data <? p_offset p + ptag_len) eqn:L; [discriminate|].
    destruct (get_reg keys v (tag_at p data)) as [r0|] eqn:G; [|discriminate].
    intros H. apply prefix_accept_found in H as (-> & -> & T & Pm).
    apply get_reg_some in G. unfold found_at. repeat split; auto. lia.
  Qed.

  Lemma prefix_loop_found keys v data order m w r c :
    prefix_loop keys v data order m w = Found r c ->
    exists p, In p order /\ prefix_verdict keys v data p = PTerm (Found r c).
  Proof.
    revert m w. induction order as [|p rest IH]; cbn; intros m w H.
    - exfalso. eapply prefix_final_not_found; eauto.
    - destruct (prefix_verdict keys v data p) eqn:V.
      + destruct (IH _ _ H) as (q & ? & ?). eauto.
      + destruct (IH _ _ H) as (q & ? & ?). eauto.
      + destruct (IH _ _ H) as (q & ? & ?). eauto.
      + subst. exists p. auto.
  Qed.

  Lemma prefix_found order keys v data r c :
    wrap_prefix_ord order keys v data = Found r c ->
    ptag_len <= blen data /\ exists p, In p order /\ found_at keys v data p r c.
  Proof.
    unfold wrap_prefix_ord. destruct (blen data <? ptag_len) eqn:L; [discriminate|].
    intros H. split; [lia|]. apply prefix_loop_found in H as (p & Hp & Hv).
    exists p. split; auto. apply prefix_verdict_found; auto.
  Qed.

  (* outcome of the ordered loop in terms of the per-prefix verdicts *)
  Lemma prefix_loop_spec keys v data order m w :
    let vs := map (prefix_verdict keys v data) order in
    (terms_of vs = [] /\
     prefix_loop keys v data order m w = prefix_final (m || existsb is_more vs) (w || existsb is_wrong vs))
    \/ In (prefix_loop keys v data order m w) (terms_of vs).
  Proof.
    revert m w. induction order as [|p rest IH]; intros m w; cbn.
    - left. rewrite !orb_false_r. auto.
    - destruct (prefix_verdict keys v data p) eqn:V; cbn.
      + apply IH.
      + destruct (IH true w) as [[E1 E2]|H]; [left|right; auto]. split; auto. rewrite E2. cbn.
        rewrite orb_true_r. reflexivity.
      + destruct (IH m true) as [[E1 E2]|H]; [left|right; auto]. split; auto. rewrite E2. cbn.
        rewrite orb_true_r. reflexivity.
      + right. left. reflexivity.
  Qed.

  Lemma prefix_order_sound table order keys v data :
    Permutation order table ->
    In (wrap_prefix_ord order keys v data) (wrap_prefix_allowed table keys v data).
  Proof.
    intros P. unfold wrap_prefix_ord, wrap_prefix_allowed.
    destruct (blen data <? ptag_len); [left; reflexivity|].
    set (f := prefix_verdict keys v data).
    assert (Pv : Permutation (map f order) (map f table)) by (apply Permutation_map; auto).
    pose proof (terms_of_perm _ _ Pv) as Pt.
    pose proof (prefix_loop_spec keys v data order false false) as Hs. cbv zeta in Hs. fold f in Hs.
    destruct Hs as [[E1 E2]|H].
    - rewrite E1 in Pt. apply Permutation_nil in Pt. rewrite Pt. left. rewrite E2. cbn.
      rewrite (existsb_perm _ _ _ Pv), (existsb_perm is_wrong _ _ Pv). reflexivity.
    - assert (Hin : In (prefix_loop keys v data order false false) (terms_of (map f table)))
        by (eapply Permutation_in; eauto).
      destruct (terms_of (map f table)); [destruct Hin|auto].
  Qed.

  Lemma prefix_order_complete table keys v data w :
    In w (wrap_prefix_allowed table keys v data) ->
    exists order, Permutation order table /\ wrap_prefix_ord order keys v data = w.
  Proof.
    unfold wrap_prefix_allowed, wrap_prefix_ord.
    destruct (blen data <? ptag_len).
    { intros [<-|[]]. exists table. split; auto. }
    set (f := prefix_verdict keys v data).
    destruct (terms_of (map f table)) eqn:T.
    - intros [<-|[]]. exists table. split; auto.
      pose proof (prefix_loop_spec keys v data table false false) as Hs. cbv zeta in Hs. fold f in Hs.
      destruct Hs as [[E1 E2]|H].
      + rewrite E2. reflexivity.
      + rewrite T in H. destruct H.
    - intros Hw. rewrite <- T in Hw. apply terms_of_in in Hw. apply in_map_iff in Hw as (p & Hp & Hin).
      apply in_split in Hin as (l1 & l2 & ->). exists (p :: l1 ++ l2). split.
      + apply Permutation_middle.
      + cbn. fold f. rewrite Hp. reflexivity.
  Qed.

  (* a stored registration of another transport, or of another prefix id, is never matched *)
  Definition long_enough (p : pfx) (data : bytes) : Prop :=
    p_minlen p <= blen data /\ p_maxlen p <= blen data /\ p_offset p + ptag_len <= blen data.

  Lemma prefix_verdict_reached keys v data p :
    static_ok p data = true -> long_enough p data ->
    prefix_verdict keys v data p =
      match get_reg keys v (tag_at p data) with None => PSkip | Some r => prefix_accept p r end.
  Proof.
    intros S (L1 & L2 & L3). unfold prefix_verdict. rewrite S. cbn [negb].
    destruct (blen data <? p_minlen p) eqn:E1; [lia|].
    destruct (blen data <? p_offset p + ptag_len) eqn:E2; [lia|].
    destruct (blen data <? p_maxlen p) eqn:E3; [lia|]. cbn. reflexivity.
  Qed.

  Lemma prefix_single_other_transport keys v data p r :
    ptag_len <= blen data -> static_ok p data = true -> long_enough p data ->
    get_reg keys v (tag_at p data) = Some r -> r_transport r <> tt_prefix ->
    wrap_prefix_ord [p] keys v data = ErrIncorrectTransport.
  Proof.
    intros L S LE G T. unfold wrap_prefix_ord. destruct (blen data <? ptag_len) eqn:E; [lia|].
    cbn. rewrite prefix_verdict_reached, G, prefix_accept_other_transport; auto.
  Qed.

  Lemma prefix_single_other_id keys v data p r :
    ptag_len <= blen data -> static_ok p data = true -> long_enough p data ->
    get_reg keys v (tag_at p data) = Some r -> r_transport r = tt_prefix -> r_params r <> PPrefix (p_id p) ->
    wrap_prefix_ord [p] keys v data = ErrIncorrectPrefix.
  Proof.
    intros L S LE G T Pm. unfold wrap_prefix_ord. destruct (blen data <? ptag_len) eqn:E; [lia|].
    cbn. rewrite prefix_verdict_reached, G, prefix_accept_other_id; auto.
  Qed.

  (* no out-of-range slice under a well-formed table *)
  Lemma prefix_verdict_no_panic keys v data p :
    pfx_wf p = true -> prefix_verdict keys v data p <> PTerm WPanic.
  Proof.
    intros W. apply pfx_wf_spec in W as (W1 & W2 & W3). unfold prefix_verdict.
    destruct (negb (static_ok p data)); [discriminate|].
    destruct (blen data <? p_minlen p); [discriminate|].
    destruct ((blen data <? p_offset p + ptag_len) && (blen data <? p_maxlen p)); [discriminate|].
    destruct (blen data <? p_maxlen p) eqn:E1; [discriminate|].
    destruct (blen data <? p_offset p + ptag_len) eqn:E2; [lia|].
    destruct (get_reg keys v (tag_at p data)); [apply prefix_accept_no_panic|discriminate].
  Qed.

  Lemma prefix_no_panic order keys v data :
    forallb pfx_wf order = true -> wrap_prefix_ord order keys v data <> WPanic.
  Proof.
    unfold wrap_prefix_ord. destruct (blen data <? ptag_len); [discriminate|].
    generalize false at 1. generalize false. induction order as [|p rest IH]; cbn; intros m w W.
    - unfold prefix_final. destruct w, m; discriminate.
    - apply andb_true_iff in W as [W1 W2].
      destruct (prefix_verdict keys v data p) eqn:V; auto.
      intros ->. eapply prefix_verdict_no_panic; eauto.
  Qed.

  (* uniqueness: one identifier in the stream, distinct prefix ids => one outcome *)
End PrefixProofs.

Section Obfs4Proofs.
  Variable mark : bytes -> bytes -> bytes.
  Variable hs : bytes -> bytes -> bool.
  Notation obfs4_verdict := (obfs4_verdict mark hs).
  Notation obfs4_loop := (obfs4_loop mark hs).
  Notation wrap_obfs4_ord := (wrap_obfs4_ord mark hs).
  Notation wrap_obfs4_allowed := (wrap_obfs4_allowed mark hs).

  (* ---------------------------------------------------------------- obfs4 *)
  Definition ofound_at (data : bytes) (id : ident) (r : reginfo) (c : N) : Prop :=
    o_start + o_mark_len + o_mac_len <= blen data /\
    mark_window data = mark id (take o_rep_len data) /\ hs id data = true /\ c = N.min (blen data) o_max_hs.

  Lemma obfs4_verdict_found data e r c :
    obfs4_verdict data e = OTerm (Found r c) -> r = snd e /\ ofound_at data (fst e) r c.
  Proof.
    unfold obfs4_verdict. destruct (negb (blen (mark (fst e) (take o_rep_len data)) =? o_mark_len)); [discriminate|].
    destruct (find_mark _ data) eqn:F; [|discriminate].
    destruct (hs (fst e) data) eqn:H; [|discriminate]. intros [= <- <-].
    apply find_mark_some in F as [F1 F2]. unfold ofound_at. auto.
  Qed.

  Lemma obfs4_loop_found data order r c :
    obfs4_loop data order = Found r c ->
    exists e, In e order /\ obfs4_verdict data e = OTerm (Found r c).
  Proof.
    induction order as [|e rest IH]; cbn; intros H.
    - exfalso. eapply obfs4_final_not_found; eauto.
    - destruct (obfs4_verdict data e) eqn:V.
      + destruct (IH H) as (e' & ? & ?). eauto.
      + subst. eauto.
  Qed.

  Lemma obfs4_found order data r c :
    wrap_obfs4_ord order data = Found r c ->
    exists id, In (id, r) order /\ blen id = o_id_len /\ ofound_at data id r c.
  Proof.
    unfold wrap_obfs4_ord. destruct (blen data <? o_min_hs); [discriminate|].
    intros H. apply obfs4_loop_found in H as ([id r'] & Hin & V).
    apply obfs4_verdict_found in V as [-> F]. cbn in *.
    unfold obfs4_regs in Hin. apply filter_In in Hin as [Hin L]. cbn in L. apply N.eqb_eq in L.
    exists id. auto.
  Qed.

  Lemma obfs4_loop_spec data order :
    let vs := map (obfs4_verdict data) order in
    (oterms_of vs = [] /\ obfs4_loop data order = obfs4_final data) \/ In (obfs4_loop data order) (oterms_of vs).
  Proof.
    induction order as [|e rest IH]; cbn; [left; auto|].
    destruct (obfs4_verdict data e) eqn:V; cbn; [apply IH|]. right. left. reflexivity.
  Qed.

  Lemma obfs4_order_sound v order data :
    Permutation order v -> In (wrap_obfs4_ord order data) (wrap_obfs4_allowed v data).
  Proof.
    intros P. unfold wrap_obfs4_ord, wrap_obfs4_allowed.
    destruct (blen data <? o_min_hs); [left; reflexivity|].
    assert (Pf : Permutation (obfs4_regs order) (obfs4_regs v)) by (apply filter_perm; auto).
    set (f := obfs4_verdict data).
    assert (Pt : Permutation (oterms_of (map f (obfs4_regs order))) (oterms_of (map f (obfs4_regs v)))).
    { unfold oterms_of. apply Permutation_flat_map. apply Permutation_map. auto. }
    pose proof (obfs4_loop_spec data (obfs4_regs order)) as Hs. cbv zeta in Hs. fold f in Hs.
    destruct Hs as [[E1 E2]|H].
    - rewrite E1 in Pt. apply Permutation_nil in Pt. rewrite Pt. left. auto.
    - assert (Hin : In (obfs4_loop data (obfs4_regs order)) (oterms_of (map f (obfs4_regs v))))
        by (eapply Permutation_in; eauto).
      destruct (oterms_of (map f (obfs4_regs v))); [destruct Hin|auto].
  Qed.

  Lemma obfs4_order_complete v data w :
    In w (wrap_obfs4_allowed v data) ->
    exists order, Permutation order v /\ wrap_obfs4_ord order data = w.
  Proof.
    unfold wrap_obfs4_allowed, wrap_obfs4_ord.
    destruct (blen data <? o_min_hs).
    { intros [<-|[]]. exists v. auto. }
    set (f := obfs4_verdict data).
    destruct (oterms_of (map f (obfs4_regs v))) eqn:T.
    - intros [<-|[]]. exists v. split; auto.
      pose proof (obfs4_loop_spec data (obfs4_regs v)) as Hs. cbv zeta in Hs. fold f in Hs.
      destruct Hs as [[E1 E2]|H]; auto.
      rewrite T in H. destruct H.
    - intros Hw. rewrite <- T in Hw. unfold oterms_of in Hw. apply in_flat_map in Hw as (x & Hx & Hw).
      destruct x as [|w']; [destruct Hw|]. destruct Hw as [<-|[]].
      apply in_map_iff in Hx as (e & He & Hin).
      assert (Hv : In e v) by (unfold obfs4_regs in Hin; apply filter_In in Hin; tauto).
      assert (Le : (blen (fst e) =? o_id_len) = true) by (unfold obfs4_regs in Hin; apply filter_In in Hin; tauto).
      apply in_split in Hv as (l1 & l2 & ->). exists (e :: l1 ++ l2). split; [apply Permutation_middle|].
      unfold obfs4_regs. cbn [filter].
      match goal with |- context [if ?c then _ else _] => replace c with true by (symmetry; exact Le) end.
      cbn [Model.obfs4_loop]. fold f. rewrite He. reflexivity.
  Qed.
End Obfs4Proofs.
