(* C02, open known finding: the two padding bits of the Elligator representative (byte 31, bits 6-7 of
   the obfuscated tag) are cleared by TryReveal, so a flight altered in one of them is still accepted
   for the same registration.  The full bit-flip statement for the prefix transport (any change of the
   64 tag bytes) is therefore false; the part proved in Props.v is the one up to `canon`. *)
From CJ Require Import Common.Base C02.Model C02.Spec C02.ProofsTop C02.Props C02.Run C02.Examples.

Theorem C02_bitflip_rejected_prefix_full_statement_refuted :
  ~ C02_bitflip_rejected_prefix_full_statement.
Proof.
  intros F.
  destruct (F reveal_ex (P 1%Z GET 3 67 67) 0 v1 (GET ++ tagA) (GET ++ xbit 255 tagA) (set_valid true rA) 67
              reveal_ex_sensitive) as (id & R & _ & H).
  - vm_compute. reflexivity.
  - vm_compute. discriminate.
  - destruct (H (set_valid true rA) 67) as (id' & R' & _ & Hne).
    + vm_compute. reflexivity.
    + apply Hne. vm_compute in R, R'. congruence.
Qed.
Print Assumptions C02_bitflip_rejected_prefix_full_statement_refuted.
