(* C02: lemmas about the registry view. *)
From CJ Require Import Common.Base Common.BaseProofs C02.Model C02.Spec.
From Coq Require Import Lia ZifyN ZifyNat ZifyBool Permutation.

(* ------------------------------------------------------------------ lists *)
Lemma rev_case {A} (l : list A) : l = [] \/ exists l' x, l = l' ++ [x].
Proof. destruct l using rev_ind; [left|right]; eauto. Qed.

Lemma NoDup_app_snoc {A} (l : list A) x : NoDup l -> ~ In x l -> NoDup (l ++ [x]).
Proof.
  intros Hnd Hx. induction Hnd as [|y l Hy Hnd IH]; cbn.
  - constructor; [intros []|constructor].
  - constructor.
    + intros Hin. apply in_app_or in Hin as [Hin|[<-|[]]]; [auto|]. apply Hx. left. reflexivity.
    + apply IH. intros Hin. apply Hx. right. auto.
Qed.

(* ------------------------------------------------------------------ keys *)
Lemma key_eqb_true ph id e : key_eqb ph id e = true <-> e_ph e = ph /\ e_id e = id.
Proof.
  unfold key_eqb. rewrite andb_true_iff, N.eqb_eq, bytes_eqb_eq. tauto.
Qed.

Lemma key_eqb_false ph id e : key_eqb ph id e = false <-> ~ (e_ph e = ph /\ e_id e = id).
Proof.
  rewrite <- key_eqb_true. destruct (key_eqb ph id e); split; intros; try congruence; tauto.
Qed.

Lemma tracked_true st ph id : tracked st ph id = true <-> exists e, In e st /\ e_ph e = ph /\ e_id e = id.
Proof.
  unfold tracked. rewrite existsb_exists. split; intros (e & H1 & H2); exists e; split; auto;
    apply key_eqb_true; auto.
Qed.

Lemma tracked_false st ph id : tracked st ph id = false <-> forall e, In e st -> ~ (e_ph e = ph /\ e_id e = id).
Proof.
  split.
  - intros H e He Hk. assert (tracked st ph id = true) by (apply tracked_true; eauto). congruence.
  - intros H. destruct (tracked st ph id) eqn:E; auto. apply tracked_true in E as (e & He & Hk).
    exfalso. eapply H; eauto.
Qed.

Definition key (e : entry) : phantom * ident := (e_ph e, e_id e).

(* ------------------------------------------------------------------ run *)
Lemma run_snoc ops op : run (ops ++ [op]) = step (run ops) op.
Proof. unfold run. rewrite fold_left_app. reflexivity. Qed.

(* ------------------------------------------------------------------ the stored state of one key *)
Definition find_key (st : registry) (ph : phantom) (id : ident) : kstate :=
  match find (key_eqb ph id) st with
  | Some e => Some (r_name (e_reg e), r_valid (e_reg e))
  | None => None
  end.

Lemma key_is_spec ph id ph' id' : key_is ph id ph' id' = true <-> ph' = ph /\ id' = id.
Proof. unfold key_is. rewrite andb_true_iff, N.eqb_eq, bytes_eqb_eq. tauto. Qed.

Lemma key_eqb_key_is ph id e : key_eqb ph id e = key_is ph id (e_ph e) (e_id e).
Proof. reflexivity. Qed.

Lemma find_none_tracked st ph id : tracked st ph id = false -> find (key_eqb ph id) st = None.
Proof.
  unfold tracked. induction st as [|e st IH]; cbn; auto.
  destruct (key_eqb ph id e); cbn; [discriminate|auto].
Qed.

Lemma find_some_tracked st ph id : tracked st ph id = true -> exists e, find (key_eqb ph id) st = Some e.
Proof.
  unfold tracked. induction st as [|e st IH]; cbn; [discriminate|].
  destruct (key_eqb ph id e); cbn; eauto.
Qed.

Lemma find_app {A} (f : A -> bool) l1 l2 :
  find f (l1 ++ l2) = match find f l1 with Some x => Some x | None => find f l2 end.
Proof. induction l1 as [|x l1 IH]; cbn; auto. destruct (f x); auto. Qed.

(* same key test, the other way round *)
Lemma key_eqb_swap ph id ph' id' r :
  key_eqb ph id {| e_ph := ph'; e_id := id'; e_reg := r |} = key_is ph id ph' id'.
Proof. reflexivity. Qed.

Lemma key_is_sym ph id ph' id' : key_is ph id ph' id' = key_is ph' id' ph id.
Proof.
  unfold key_is. rewrite (N.eqb_sym ph' ph). f_equal.
  destruct (bytes_eqb id' id) eqn:E.
  - apply bytes_eqb_eq in E. subst. symmetry. apply bytes_eqb_refl.
  - destruct (bytes_eqb id id') eqn:E'; auto. apply bytes_eqb_eq in E'. subst.
    rewrite bytes_eqb_refl in E. discriminate.
Qed.

Lemma key_is_true_eq ph id ph' id' st :
  key_is ph id ph' id' = true -> find (key_eqb ph' id') st = find (key_eqb ph id) st /\ tracked st ph' id' = tracked st ph id.
Proof. intros K. apply key_is_spec in K as [-> ->]. auto. Qed.

(* one step of the registry, seen from one key, is one step of that key's automaton *)
Lemma find_key_track st ph id ph' id' r :
  find_key (track st ph' id' r) ph id = kstep ph id (find_key st ph id) (Track ph' id' r).
Proof.
  unfold track, find_key. cbn [kstep]. destruct (tracked st ph' id') eqn:T.
  - destruct (key_is ph id ph' id') eqn:K; auto.
    destruct (key_is_true_eq _ _ _ _ st K) as [E1 E2]. rewrite <- E1.
    destruct (find_some_tracked _ _ _ T) as (e & ->). reflexivity.
  - rewrite find_app. cbn [find]. rewrite key_eqb_swap.
    destruct (key_is ph id ph' id') eqn:K.
    + destruct (key_is_true_eq _ _ _ _ st K) as [E1 E2]. rewrite <- E1, (find_none_tracked _ _ _ T). reflexivity.
    + destruct (find (key_eqb ph id) st); reflexivity.
Qed.

Lemma find_map_mark st ph id ph' id' name :
  find_key (map (mark_valid ph' id' name) st) ph id =
  match find_key st ph id with
  | Some (n, v) => if key_is ph id ph' id' && (n =? name) then Some (n, true) else Some (n, v)
  | None => None
  end.
Proof.
  unfold find_key. induction st as [|e st IH]; cbn [map find]; auto.
  assert (Hk : key_eqb ph id (mark_valid ph' id' name e) = key_eqb ph id e).
  { unfold mark_valid. destruct (key_eqb ph' id' e && (r_name (e_reg e) =? name)); reflexivity. }
  rewrite Hk. destruct (key_eqb ph id e) eqn:K; [|exact IH].
  unfold mark_valid. rewrite key_eqb_key_is. rewrite key_eqb_key_is in K.
  apply key_is_spec in K as [K1 K2]. rewrite K1, K2.
  rewrite (key_is_sym ph' id' ph id).
  destruct (key_is ph id ph' id' && (r_name (e_reg e) =? name)); reflexivity.
Qed.

Lemma find_key_validate st ph id ph' id' r :
  find_key (validate st ph' id' r) ph id = kstep ph id (find_key st ph id) (Validate ph' id' r).
Proof.
  unfold validate. rewrite find_map_mark, find_key_track. cbn [kstep].
  destruct (key_is ph id ph' id') eqn:K; cbn [andb].
  - destruct (find_key st ph id) as [[n v]|]; [reflexivity|]. rewrite N.eqb_refl. reflexivity.
  - destruct (find_key st ph id) as [[n v]|]; reflexivity.
Qed.

Lemma find_key_expire st ph id ph' id' :
  find_key (expire st ph' id') ph id = kstep ph id (find_key st ph id) (Expire ph' id').
Proof.
  unfold expire, find_key. cbn [kstep]. induction st as [|e st IH]; cbn [filter find].
  - destruct (key_is ph id ph' id'); reflexivity.
  - destruct (key_eqb ph' id' e) eqn:K'; cbn [negb].
    + rewrite IH. destruct (key_eqb ph id e) eqn:K; auto.
      rewrite key_eqb_key_is in K, K'. apply key_is_spec in K as [K1 K2]. apply key_is_spec in K' as [K1' K2'].
      replace (key_is ph id ph' id') with true; [reflexivity|].
      symmetry. apply key_is_spec. split; congruence.
    + cbn [find]. destruct (key_eqb ph id e) eqn:K; auto.
      replace (key_is ph id ph' id') with false; [reflexivity|].
      symmetry. destruct (key_is ph id ph' id') eqn:KK; auto.
      apply key_is_spec in KK as [-> ->]. congruence.
Qed.

Lemma find_key_step st op ph id : find_key (step st op) ph id = kstep ph id (find_key st ph id) op.
Proof.
  destruct op; cbn [step].
  - apply find_key_track.
  - apply find_key_validate.
  - apply find_key_expire.
  - reflexivity.
  - reflexivity.
Qed.

Lemma key_state_snoc ops op ph id : key_state (ops ++ [op]) ph id = kstep ph id (key_state ops ph id) op.
Proof. unfold key_state. rewrite fold_left_app. reflexivity. Qed.

(* refinement: the registry, looked at through any one key, is that key's automaton *)
Lemma find_key_run ops ph id : find_key (run ops) ph id = key_state ops ph id.
Proof.
  induction ops as [|op ops IH] using rev_ind; [reflexivity|].
  rewrite run_snoc, key_state_snoc, find_key_step, IH. reflexivity.
Qed.

(* ------------------------------------------------------------------ the invariant *)
Definition origin (ops : list rop) (e : entry) : Prop :=
  exists r0, (In (Track (e_ph e) (e_id e) r0) ops \/ In (Validate (e_ph e) (e_id e) r0) ops) /\
             same_object (e_reg e) r0.

Definition inv (ops : list rop) (st : registry) : Prop :=
  NoDup (map key st) /\ forall e, In e st -> origin ops e.

Lemma origin_snoc ops op e : origin ops e -> origin (ops ++ [op]) e.
Proof.
  intros (r0 & H & S). exists r0. split; auto.
  destruct H; [left|right]; apply in_or_app; auto.
Qed.

Lemma same_object_set_valid b r : same_object (set_valid b r) r.
Proof. unfold same_object, set_valid. cbn. auto. Qed.

Lemma key_not_in st ph id :
  tracked st ph id = false -> ~ In (ph, id) (map key st).
Proof.
  intros H Hin. apply in_map_iff in Hin as (e & Hk & He).
  apply (proj1 (tracked_false _ _ _) H e He). unfold key in Hk. inversion Hk. auto.
Qed.

Lemma inv_track_gen ops op st ph id r :
  (op = Track ph id r \/ op = Validate ph id r) ->
  inv ops st -> inv (ops ++ [op]) (track st ph id r).
Proof.
  intros Hop [Hnd Hall]. unfold track. destruct (tracked st ph id) eqn:T.
  - split; auto. intros e He. apply origin_snoc; auto.
  - split.
    + rewrite map_app. cbn. apply NoDup_app_snoc; auto. apply key_not_in; auto.
    + intros e He. apply in_app_or in He as [He|[<-|[]]].
      * apply origin_snoc; auto.
      * exists r. cbn. split; [|apply same_object_set_valid].
        destruct Hop as [->| ->]; [left|right]; apply in_or_app; right; left; reflexivity.
Qed.

Lemma key_mark_valid ph id n e : key (mark_valid ph id n e) = key e.
Proof. unfold mark_valid. destruct (key_eqb ph id e && (r_name (e_reg e) =? n)); reflexivity. Qed.

Lemma inv_validate ops st ph id r :
  inv ops st -> inv (ops ++ [Validate ph id r]) (validate st ph id r).
Proof.
  intros H. destruct (inv_track_gen ops (Validate ph id r) st ph id r (or_intror eq_refl) H) as [Hnd Hall].
  unfold validate. split.
  - rewrite map_map. erewrite map_ext; [exact Hnd|]. intros e. apply key_mark_valid.
  - intros e He. apply in_map_iff in He as (e0 & <- & He0). specialize (Hall e0 He0).
    unfold mark_valid. destruct (key_eqb ph id e0 && (r_name (e_reg e0) =? r_name r)); auto.
Qed.

Lemma inv_expire ops st ph id :
  inv ops st -> inv (ops ++ [Expire ph id]) (expire st ph id).
Proof.
  intros [Hnd Hall]. unfold expire. split.
  - clear Hall. induction st as [|e st IH]; cbn; [constructor|].
    inversion Hnd as [|? ? Hn Hnd']; subst. destruct (negb (key_eqb ph id e)); cbn; auto.
    constructor; auto. intros Hin. apply Hn. apply in_map_iff in Hin as (e' & Hk & He').
    apply filter_In in He' as [He' _]. apply in_map_iff. eauto.
  - intros e He. apply filter_In in He as [He _]. apply origin_snoc; auto.
Qed.

Lemma inv_run ops : inv ops (run ops).
Proof.
  induction ops as [|op ops IH] using rev_ind.
  - split; [constructor|intros e []].
  - rewrite run_snoc. destruct op; cbn [step].
    + apply inv_track_gen; auto.
    + apply inv_validate; auto.
    + apply inv_expire; auto.
    + destruct IH as [Hnd Hall]. split; auto. intros e He. apply origin_snoc; auto.
    + split; [constructor|intros e []].
Qed.

(* ------------------------------------------------------------------ the view *)
Lemma in_get_regs st ph id r :
  In (id, r) (get_regs st ph) <-> has_entry st ph id r /\ r_valid r = true.
Proof.
  unfold get_regs, has_entry. rewrite in_map_iff. split.
  - intros (e & E & He). apply filter_In in He as [He C]. apply andb_true_iff in C as [C1 C2].
    apply N.eqb_eq in C1. inversion E; subst. destruct e; cbn in *. auto.
  - intros [He V]. eexists. split; [|apply filter_In; split; [exact He|]]; cbn; [reflexivity|].
    rewrite N.eqb_refl, V. reflexivity.
Qed.

Lemma find_nodup st e : NoDup (map key st) -> In e st -> find (key_eqb (e_ph e) (e_id e)) st = Some e.
Proof.
  induction st as [|x st IH]; cbn; [tauto|]. intros Hnd [->|Hin].
  - replace (key_eqb (e_ph e) (e_id e) e) with true; [reflexivity|]. symmetry. apply key_eqb_true. auto.
  - inversion Hnd as [|? ? Hn Hnd']; subst. destruct (key_eqb (e_ph e) (e_id e) x) eqn:K; auto.
    exfalso. apply Hn. apply key_eqb_true in K as [K1 K2]. apply in_map_iff. exists e. split; auto.
    unfold key. congruence.
Qed.

Lemma find_In {A} (f : A -> bool) l x : find f l = Some x -> In x l /\ f x = true.
Proof.
  induction l as [|y l IH]; cbn; [discriminate|]. destruct (f y) eqn:E.
  - intros [= ->]. auto.
  - intros H. destruct (IH H). auto.
Qed.

Lemma view_sound ops ph id r :
  In (id, r) (get_regs (run ops) ph) -> registered ops ph id r.
Proof.
  intros H. apply in_get_regs in H as [He V]. destruct (inv_run ops) as [Hnd Hall].
  unfold registered. split; auto. split.
  - rewrite <- find_key_run. unfold find_key. unfold has_entry in He.
    pose proof (find_nodup _ _ Hnd He) as F. cbn [e_ph e_id] in F. rewrite F. cbn. rewrite V. reflexivity.
  - exact (Hall _ He).
Qed.

Lemma view_complete ops ph id n :
  key_state ops ph id = Some (n, true) -> exists r, In (id, r) (get_regs (run ops) ph) /\ r_name r = n.
Proof.
  rewrite <- find_key_run. unfold find_key. destruct (find (key_eqb ph id) (run ops)) as [e|] eqn:F; [|discriminate].
  intros [= <- V]. apply find_In in F as [Hin K]. apply key_eqb_true in K as [K1 K2].
  exists (e_reg e). split; auto. apply in_get_regs. split; auto. unfold has_entry. destruct e; cbn in *. subst. auto.
Qed.

Lemma NoDup_map_filter {A B} (f : A -> B) (p : A -> bool) l :
  NoDup (map f l) -> NoDup (map f (filter p l)).
Proof.
  induction l as [|x l IH]; cbn; auto. intros H. inversion H as [|? ? Hn Hnd]; subst.
  destruct (p x); cbn; auto. constructor; auto.
  intros Hin. apply Hn. apply in_map_iff in Hin as (y & E & Hy). apply filter_In in Hy as [Hy _].
  apply in_map_iff. eauto.
Qed.

Lemma view_ids_nodup ops ph : NoDup (ids (get_regs (run ops) ph)).
Proof.
  destruct (inv_run ops) as [Hnd _]. unfold ids, get_regs. rewrite map_map. cbn.
  set (p := fun e => (e_ph e =? ph) && r_valid (e_reg e)).
  assert (H : NoDup (map key (filter p (run ops)))) by (apply NoDup_map_filter; auto).
  assert (Hp : forall e, In e (filter p (run ops)) -> e_ph e = ph).
  { intros e He. apply filter_In in He as [_ C]. unfold p in C. apply andb_true_iff in C as [C _].
    apply N.eqb_eq in C. auto. }
  revert H Hp. generalize (filter p (run ops)). intros l. induction l as [|e l IH]; cbn; intros H Hp; [constructor|].
  inversion H as [|? ? Hn Hnd']; subst. constructor.
  - intros Hin. apply Hn. apply in_map_iff in Hin as (e' & E & He'). apply in_map_iff. exists e'. split; auto.
    unfold key. rewrite E. f_equal. rewrite (Hp e'), (Hp e); auto.
  - apply IH; auto.
Qed.

Lemma nodup_ids_functional (v : view) id r1 r2 :
  NoDup (ids v) -> In (id, r1) v -> In (id, r2) v -> r1 = r2.
Proof.
  unfold ids. induction v as [|[i r] v IH]; cbn; intros Hnd H1 H2; [tauto|].
  inversion Hnd as [|? ? Hn Hnd']; subst.
  destruct H1 as [H1|H1], H2 as [H2|H2].
  - congruence.
  - inversion H1; subst. exfalso. apply Hn. apply in_map_iff. exists (id, r2). auto.
  - inversion H2; subst. exfalso. apply Hn. apply in_map_iff. exists (id, r1). auto.
  - auto.
Qed.

(* ------------------------------------------------------------------ the ghost in words *)
Lemma vsince_snoc ops ph id op :
  validated_since ops ph id -> op <> Expire ph id -> op <> ExpireAll -> validated_since (ops ++ [op]) ph id.
Proof.
  intros (a & r & b & -> & Hb) Hop Hop'. exists a, r, (b ++ [op]). split.
  - rewrite <- app_assoc. reflexivity.
  - intros o Ho. apply in_app_or in Ho as [Ho|[<-|[]]]; auto.
Qed.

Lemma kstep_valid_cases ph id s op n :
  kstep ph id s op = Some (n, true) ->
  (exists r, op = Validate ph id r) \/ (s = Some (n, true) /\ op <> Expire ph id /\ op <> ExpireAll).
Proof.
  destruct op as [ph' id' r|ph' id' r|ph' id'| |]; cbn [kstep].
  - destruct (key_is ph id ph' id') eqn:K.
    + destruct s as [[m v]|]; [|discriminate]. intros [= -> ->]. right. split; auto. split; discriminate.
    + intros ->. right. split; auto. split; discriminate.
  - destruct (key_is ph id ph' id') eqn:K.
    + apply key_is_spec in K as [-> ->]. intros _. left. eauto.
    + intros ->. right. split; auto. split; discriminate.
  - destruct (key_is ph id ph' id') eqn:K; [discriminate|]. intros ->. right. split; auto. split; [|discriminate].
    intros E. inversion E; subst. unfold key_is in K. rewrite N.eqb_refl, bytes_eqb_refl in K. discriminate.
  - intros ->. right. split; auto. split; discriminate.
  - discriminate.
Qed.

Lemma live_needs_validate ops ph id : validated_live ops ph id -> validated_since ops ph id.
Proof.
  intros (n & H). revert n H. induction ops as [|op ops IH] using rev_ind; intros n H; [discriminate|].
  rewrite key_state_snoc in H. apply kstep_valid_cases in H as [(r & ->)|(H & Hop & Hop')].
  - exists ops, r, []. split; [reflexivity|]. intros o [].
  - apply vsince_snoc; eauto.
Qed.

Lemma expire_kills ops ph id : key_state (ops ++ [Expire ph id]) ph id = None.
Proof.
  rewrite key_state_snoc. cbn. unfold key_is. rewrite N.eqb_refl, bytes_eqb_refl. reflexivity.
Qed.

Lemma other_phantom_irrelevant ops ph id op :
  (forall r, op <> Track ph id r) -> (forall r, op <> Validate ph id r) -> op <> Expire ph id -> op <> ExpireAll ->
  key_state (ops ++ [op]) ph id = key_state ops ph id.
Proof.
  intros H1 H2 H3 H4. rewrite key_state_snoc.
  destruct op as [ph' id' r|ph' id' r|ph' id'| |]; cbn [kstep]; auto; [| | |exfalso; apply H4; reflexivity];
    destruct (key_is ph id ph' id') eqn:K; auto; apply key_is_spec in K as [-> ->]; exfalso.
  - eapply H1; reflexivity.
  - eapply H2; reflexivity.
  - apply H3; reflexivity.
Qed.

Lemma expire_all_kills ops ph id : key_state (ops ++ [ExpireAll]) ph id = None.
Proof. rewrite key_state_snoc. reflexivity. Qed.

Lemma expire_all_forgets ops ph id :
  key_state (ops ++ [ExpireAll]) ph id = None /\ get_regs (run (ops ++ [ExpireAll])) ph = [].
Proof. split; [apply expire_all_kills|rewrite run_snoc; reflexivity]. Qed.
