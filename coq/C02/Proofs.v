(* C02: lemmas about the registry view. *)
From CJ Require Import Common.Base Common.BaseProofs C02.Model C02.Spec.
From Coq Require Import Lia ZifyN ZifyNat ZifyBool Permutation.

(* ------------------------------------------------------------------ lists *)
Lemma rev_case {A} (l : list A) : l = [] \/ exists l' x, l = l' ++ [x].
Proof. destruct l using rev_ind; [left|right]; eauto. Qed.

Lemma NoDup_app_snoc {A} (l : list A) x : NoDup l -> ~ In x l -> NoDup (l ++ [x]).
Proof.
  intros Hnd Hx. induction Hnd as [|y l Hy Hnd IH]; cbn.
  - constructor; [intros []|constructor].
  - constructor.
    + intros Hin. apply in_app_or in Hin as [Hin|[<-|[]]]; [auto|]. apply Hx. left. reflexivity.
    + apply IH. intros Hin. apply Hx. right. auto.
Qed.

(* ------------------------------------------------------------------ keys *)
Lemma key_eqb_true ph id e : key_eqb ph id e = true <-> e_ph e = ph /\ e_id e = id.
Proof.
  unfold key_eqb. rewrite andb_true_iff, N.eqb_eq, bytes_eqb_eq. tauto.
Qed.

Lemma key_eqb_false ph id e : key_eqb ph id e = false <-> ~ (e_ph e = ph /\ e_id e = id).
Proof.
  rewrite <- key_eqb_true. destruct (key_eqb ph id e); split; intros; try congruence; tauto.
Qed.

Lemma tracked_true st ph id : tracked st ph id = true <-> exists e, In e st /\ e_ph e = ph /\ e_id e = id.
Proof.
  unfold tracked. rewrite existsb_exists. split; intros (e & H1 & H2); exists e; split; auto;
    apply key_eqb_true; auto.
Qed.

Lemma tracked_false st ph id : tracked st ph id = false <-> forall e, In e st -> ~ (e_ph e = ph /\ e_id e = id).
Proof.
  split.
  - intros H e He Hk. assert (tracked st ph id = true) by (apply tracked_true; eauto). congruence.
  - intros H. destruct (tracked st ph id) eqn:E; auto. apply tracked_true in E as (e & He & Hk).
    exfalso. eapply H; eauto.
Qed.

Definition key (e : entry) : phantom * ident := (e_ph e, e_id e).

(* ------------------------------------------------------------------ run *)
Lemma run_snoc ops op : run (ops ++ [op]) = step (run ops) op.
Proof. unfold run. rewrite fold_left_app. reflexivity. Qed.

(* ------------------------------------------------------------------ validated_live *)
Lemma vlive_snoc ops ph id op :
  validated_live ops ph id -> op <> Expire ph id -> validated_live (ops ++ [op]) ph id.
Proof.
  intros (a & r & b & -> & Hb) Hop. exists a, r, (b ++ [op]). split.
  - rewrite <- app_assoc. reflexivity.
  - intros o Ho. apply in_app_or in Ho as [Ho|[<-|[]]]; auto.
Qed.

Lemma vlive_validate ops ph id r : validated_live (ops ++ [Validate ph id r]) ph id.
Proof. exists ops, r, []. split; [reflexivity|]. intros o []. Qed.

Lemma vlive_snoc_inv ops ph id op :
  validated_live (ops ++ [op]) ph id ->
  (exists r, op = Validate ph id r) \/ (validated_live ops ph id /\ op <> Expire ph id).
Proof.
  intros (a & r & b & E & Hb).
  destruct (rev_case b) as [->|(b' & x & ->)].
  - left. exists r. change (a ++ [Validate ph id r]) with (a ++ [Validate ph id r]) in E.
    apply app_inj_tail in E as [_ ->]. reflexivity.
  - right. rewrite app_comm_cons, app_assoc in E. apply app_inj_tail in E as [-> ->].
    split.
    + exists a, r, b'. split; [reflexivity|]. intros o Ho. apply Hb. apply in_or_app. auto.
    + apply Hb. apply in_or_app. right. left. reflexivity.
Qed.

(* ------------------------------------------------------------------ the invariant *)
Definition origin (ops : list rop) (e : entry) : Prop :=
  exists r0, (In (Track (e_ph e) (e_id e) r0) ops \/ In (Validate (e_ph e) (e_id e) r0) ops) /\
             same_object (e_reg e) r0.

Definition inv (ops : list rop) (st : registry) : Prop :=
  NoDup (map key st) /\
  forall e, In e st -> origin ops e /\ (r_valid (e_reg e) = true -> validated_live ops (e_ph e) (e_id e)).

Lemma origin_snoc ops op e : origin ops e -> origin (ops ++ [op]) e.
Proof.
  intros (r0 & H & S). exists r0. split; auto.
  destruct H; [left|right]; apply in_or_app; auto.
Qed.

Lemma same_object_set_valid b r : same_object (set_valid b r) r.
Proof. unfold same_object, set_valid. cbn. auto. Qed.

Lemma key_not_in st ph id :
  tracked st ph id = false -> ~ In (ph, id) (map key st).
Proof.
  intros H Hin. apply in_map_iff in Hin as (e & Hk & He).
  apply (proj1 (tracked_false _ _ _) H e He). unfold key in Hk. inversion Hk. auto.
Qed.

Lemma inv_track ops st ph id r :
  inv ops st -> inv (ops ++ [Track ph id r]) (track st ph id r).
Proof.
  intros [Hnd Hall]. unfold track. destruct (tracked st ph id) eqn:T.
  - split; auto. intros e He. destruct (Hall e He) as [Ho Hv]. split.
    + apply origin_snoc; auto.
    + intros V. apply vlive_snoc; auto. discriminate.
  - split.
    + rewrite map_app. cbn. apply NoDup_app_snoc; auto. apply key_not_in; auto.
    + intros e He. apply in_app_or in He as [He|[<-|[]]].
      * destruct (Hall e He) as [Ho Hv]. split; [apply origin_snoc; auto|].
        intros V. apply vlive_snoc; auto. discriminate.
      * split.
        -- exists r. cbn. split; [left; apply in_or_app; right; left; reflexivity|apply same_object_set_valid].
        -- cbn. discriminate.
Qed.

Definition mark_valid ph id (e : entry) : entry :=
  if key_eqb ph id e
  then {| e_ph := e_ph e; e_id := e_id e; e_reg := set_valid true (e_reg e) |}
  else e.

Lemma key_mark_valid ph id e : key (mark_valid ph id e) = key e.
Proof. unfold mark_valid. destruct (key_eqb ph id e); reflexivity. Qed.

Lemma validate_unfold st ph id r : validate st ph id r = map (mark_valid ph id) (track st ph id r).
Proof. reflexivity. Qed.

Lemma inv_validate ops st ph id r :
  inv ops st -> inv (ops ++ [Validate ph id r]) (validate st ph id r).
Proof.
  intros [Hnd Hall]. rewrite validate_unfold.
  (* facts about the tracked list, with the history extended by this Validate *)
  assert (Ht : NoDup (map key (track st ph id r)) /\
               forall e, In e (track st ph id r) ->
                 origin (ops ++ [Validate ph id r]) e /\
                 (r_valid (e_reg e) = true -> validated_live (ops ++ [Validate ph id r]) (e_ph e) (e_id e))).
  { unfold track. destruct (tracked st ph id) eqn:T.
    - split; auto. intros e He. destruct (Hall e He) as [Ho Hv]. split; [apply origin_snoc; auto|].
      intros V. apply vlive_snoc; auto. discriminate.
    - split.
      + rewrite map_app. cbn. apply NoDup_app_snoc; auto. apply key_not_in; auto.
      + intros e He. apply in_app_or in He as [He|[<-|[]]].
        * destruct (Hall e He) as [Ho Hv]. split; [apply origin_snoc; auto|].
          intros V. apply vlive_snoc; auto. discriminate.
        * split; [|cbn; discriminate].
          exists r. cbn. split; [right; apply in_or_app; right; left; reflexivity|apply same_object_set_valid]. }
  destruct Ht as [Hnd' Hall']. split.
  - rewrite map_map. erewrite map_ext; [exact Hnd'|]. intros e. apply key_mark_valid.
  - intros e He. apply in_map_iff in He as (e0 & <- & He0).
    destruct (Hall' e0 He0) as [Ho Hv]. unfold mark_valid. destruct (key_eqb ph id e0) eqn:K.
    + apply key_eqb_true in K as [K1 K2]. cbn. split.
      * destruct Ho as (r0 & H & S). exists r0. cbn. split; [auto|].
        destruct S as (S1 & S2 & S3). unfold same_object, set_valid. cbn. auto.
      * intros _. rewrite K1, K2. apply vlive_validate.
    + split; auto.
Qed.

Lemma inv_expire ops st ph id :
  inv ops st -> inv (ops ++ [Expire ph id]) (expire st ph id).
Proof.
  intros [Hnd Hall]. unfold expire. split.
  - clear Hall. induction st as [|e st IH]; cbn; [constructor|].
    inversion Hnd as [|? ? Hn Hnd']; subst. destruct (negb (key_eqb ph id e)); cbn; auto.
    constructor; auto. intros Hin. apply Hn. apply in_map_iff in Hin as (e' & Hk & He').
    apply filter_In in He' as [He' _]. apply in_map_iff. eauto.
  - intros e He. apply filter_In in He as [He K]. apply negb_true_iff, key_eqb_false in K.
    destruct (Hall e He) as [Ho Hv]. split; [apply origin_snoc; auto|].
    intros V. apply vlive_snoc; auto. intros E. inversion E. subst. apply K. auto.
Qed.

Lemma inv_sweep ops st : inv ops st -> inv (ops ++ [Sweep]) st.
Proof.
  intros [Hnd Hall]. split; auto. intros e He. destruct (Hall e He) as [Ho Hv].
  split; [apply origin_snoc; auto|]. intros V. apply vlive_snoc; auto. discriminate.
Qed.

Lemma inv_run ops : inv ops (run ops).
Proof.
  induction ops as [|op ops IH] using rev_ind.
  - split; [constructor|intros e []].
  - rewrite run_snoc. destruct op; cbn [step].
    + apply inv_track; auto.
    + apply inv_validate; auto.
    + apply inv_expire; auto.
    + apply inv_sweep; auto.
Qed.

(* ------------------------------------------------------------------ the view *)
Lemma in_get_regs st ph id r :
  In (id, r) (get_regs st ph) <-> has_entry st ph id r /\ r_valid r = true.
Proof.
  unfold get_regs, has_entry. rewrite in_map_iff. split.
  - intros (e & E & He). apply filter_In in He as [He C]. apply andb_true_iff in C as [C1 C2].
    apply N.eqb_eq in C1. inversion E; subst. destruct e; cbn in *. auto.
  - intros [He V]. eexists. split; [|apply filter_In; split; [exact He|]]; cbn; [reflexivity|].
    rewrite N.eqb_refl, V. reflexivity.
Qed.

Lemma view_sound ops ph id r :
  In (id, r) (get_regs (run ops) ph) -> registered ops ph id r.
Proof.
  intros H. apply in_get_regs in H as [He V]. destruct (inv_run ops) as [_ Hall].
  destruct (Hall _ He) as [Ho Hv]. cbn in *. unfold registered. auto.
Qed.

Lemma NoDup_map_filter {A B} (f : A -> B) (p : A -> bool) l :
  NoDup (map f l) -> NoDup (map f (filter p l)).
Proof.
  induction l as [|x l IH]; cbn; auto. intros H. inversion H as [|? ? Hn Hnd]; subst.
  destruct (p x); cbn; auto. constructor; auto.
  intros Hin. apply Hn. apply in_map_iff in Hin as (y & E & Hy). apply filter_In in Hy as [Hy _].
  apply in_map_iff. eauto.
Qed.

Lemma view_ids_nodup ops ph : NoDup (ids (get_regs (run ops) ph)).
Proof.
  destruct (inv_run ops) as [Hnd _]. unfold ids, get_regs. rewrite map_map. cbn.
  set (p := fun e => (e_ph e =? ph) && r_valid (e_reg e)).
  assert (H : NoDup (map key (filter p (run ops)))) by (apply NoDup_map_filter; auto).
  assert (Hp : forall e, In e (filter p (run ops)) -> e_ph e = ph).
  { intros e He. apply filter_In in He as [_ C]. unfold p in C. apply andb_true_iff in C as [C _].
    apply N.eqb_eq in C. auto. }
  revert H Hp. generalize (filter p (run ops)). intros l. induction l as [|e l IH]; cbn; intros H Hp; [constructor|].
  inversion H as [|? ? Hn Hnd']; subst. constructor.
  - intros Hin. apply Hn. apply in_map_iff in Hin as (e' & E & He'). apply in_map_iff. exists e'. split; auto.
    unfold key. rewrite E. f_equal. rewrite (Hp e'), (Hp e); auto.
  - apply IH; auto.
Qed.

Lemma nodup_ids_functional (v : view) id r1 r2 :
  NoDup (ids v) -> In (id, r1) v -> In (id, r2) v -> r1 = r2.
Proof.
  unfold ids. induction v as [|[i r] v IH]; cbn; intros Hnd H1 H2; [tauto|].
  inversion Hnd as [|? ? Hn Hnd']; subst.
  destruct H1 as [H1|H1], H2 as [H2|H2].
  - congruence.
  - inversion H1; subst. exfalso. apply Hn. apply in_map_iff. exists (id, r2). auto.
  - inversion H2; subst. exfalso. apply Hn. apply in_map_iff. exists (id, r1). auto.
  - auto.
Qed.

(* the history-level spec is exact: whatever is validated and unexpired is visible *)
Lemma step_keeps_valid st op ph id :
  (exists r, has_entry st ph id r /\ r_valid r = true) -> op <> Expire ph id ->
  exists r, has_entry (step st op) ph id r /\ r_valid r = true.
Proof.
  intros (r & He & V) Hop. unfold has_entry in *. destruct op as [ph' id' r'|ph' id' r'|ph' id'|]; cbn [step].
  - exists r. split; auto. unfold track. destruct (tracked st ph' id'); auto. apply in_or_app; auto.
  - rewrite validate_unfold.
    assert (Ht : In {| e_ph := ph; e_id := id; e_reg := r |} (track st ph' id' r')).
    { unfold track. destruct (tracked st ph' id'); auto. apply in_or_app; auto. }
    destruct (key_eqb ph' id' {| e_ph := ph; e_id := id; e_reg := r |}) eqn:K.
    + exists (set_valid true r). split; [|reflexivity].
      apply in_map_iff. eexists. split; [|exact Ht]. unfold mark_valid. rewrite K. reflexivity.
    + exists r. split; auto. apply in_map_iff. eexists. split; [|exact Ht]. unfold mark_valid. rewrite K. reflexivity.
  - exists r. split; auto. unfold expire. apply filter_In. split; auto.
    apply negb_true_iff, key_eqb_false. cbn. intros [-> ->]. apply Hop. reflexivity.
  - eauto.
Qed.

Lemma validate_makes_valid st ph id r :
  exists r', has_entry (validate st ph id r) ph id r' /\ r_valid r' = true.
Proof.
  rewrite validate_unfold. unfold has_entry.
  assert (Ht : exists r0, In {| e_ph := ph; e_id := id; e_reg := r0 |} (track st ph id r)).
  { unfold track. destruct (tracked st ph id) eqn:T.
    - apply tracked_true in T as (e & He & <- & <-). exists (e_reg e). destruct e; auto.
    - eexists. apply in_or_app. right. left. reflexivity. }
  destruct Ht as (r0 & Ht). exists (set_valid true r0). split; [|reflexivity].
  apply in_map_iff. eexists. split; [|exact Ht]. unfold mark_valid.
  replace (key_eqb ph id {| e_ph := ph; e_id := id; e_reg := r0 |}) with true; [reflexivity|].
  symmetry. apply key_eqb_true. auto.
Qed.

Lemma view_complete ops ph id :
  validated_live ops ph id -> exists r, In (id, r) (get_regs (run ops) ph).
Proof.
  intros H. cut (exists r, has_entry (run ops) ph id r /\ r_valid r = true).
  { intros (r & He & V). exists r. apply in_get_regs. auto. }
  induction ops as [|op ops IH] using rev_ind.
  - destruct H as (a & r & b & E & _). destruct a; discriminate.
  - rewrite run_snoc. apply vlive_snoc_inv in H as [(r & ->)|[H Hop]].
    + cbn [step]. apply validate_makes_valid.
    + apply step_keeps_valid; auto.
Qed.

(* ------------------------------------------------------------------ validated_live is decidable *)
Lemma pair_eqb ph id ph' id' : (ph' =? ph) && bytes_eqb id' id = true <-> ph' = ph /\ id' = id.
Proof. rewrite andb_true_iff, N.eqb_eq, bytes_eqb_eq. tauto. Qed.

Lemma vlive_b_spec ops ph id : validated_live ops ph id <-> vlive_b ops ph id = true.
Proof.
  unfold vlive_b. induction ops as [|op ops IH] using rev_ind.
  - cbn. split; [|discriminate]. intros (a & r & b & E & _). destruct a; discriminate.
  - rewrite fold_left_app. cbn [fold_left]. set (acc := fold_left (vstep ph id) ops false) in *.
    destruct op as [ph' id' r'|ph' id' r'|ph' id'|]; cbn [vstep].
    + rewrite <- IH. split.
      * intros H. apply vlive_snoc_inv in H as [(r & E)|[H _]]; [discriminate|auto].
      * intros H. apply vlive_snoc; auto. discriminate.
    + destruct ((ph' =? ph) && bytes_eqb id' id) eqn:K.
      * apply pair_eqb in K as [-> ->]. split; auto. intros _. apply vlive_validate.
      * rewrite <- IH. split.
        -- intros H. apply vlive_snoc_inv in H as [(r & E)|[H _]]; auto.
           inversion E; subst. rewrite N.eqb_refl, bytes_eqb_refl in K. discriminate.
        -- intros H. apply vlive_snoc; auto. discriminate.
    + destruct ((ph' =? ph) && bytes_eqb id' id) eqn:K.
      * apply pair_eqb in K as [-> ->]. split; [|discriminate].
        intros H. apply vlive_snoc_inv in H as [(r & E)|[_ H]]; [discriminate|]. exfalso. apply H. reflexivity.
      * rewrite <- IH. split.
        -- intros H. apply vlive_snoc_inv in H as [(r & E)|[H _]]; [discriminate|auto].
        -- intros H. apply vlive_snoc; auto. intros E. inversion E; subst.
           rewrite N.eqb_refl, bytes_eqb_refl in K. discriminate.
    + rewrite <- IH. split.
      * intros H. apply vlive_snoc_inv in H as [(r & E)|[H _]]; [discriminate|auto].
      * intros H. apply vlive_snoc; auto. discriminate.
Qed.
