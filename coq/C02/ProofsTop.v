(* C02: the property-level statements, proved from the lemmas of Proofs.v / ProofsWrap.v. *)
From CJ Require Import Common.Base Common.BaseProofs C02.Model C02.Spec C02.Proofs C02.ProofsWrap.
From Coq Require Import Lia ZifyN ZifyNat ZifyBool Permutation.

(* ------------------------------------------------------------------ found_implies_registered *)
Lemma top_found_min ops ph data r c :
  wrap_min (get_regs (run ops) ph) data = Found r c ->
  min_tag_len <= blen data /\ c = min_tag_len /\ registered ops ph (take min_tag_len data) r.
Proof.
  intros H. apply min_found in H as (-> & L & Hin). split; [auto|split; [auto|]]. apply view_sound; auto.
Qed.

Lemma top_found_prefix reveal order keys ops ph data r c :
  wrap_prefix_ord reveal order keys (get_regs (run ops) ph) data = Found r c ->
  exists p k id,
    In p order /\ In k keys /\ static_ok p data = true /\
    p_offset p + ptag_len <= blen data /\ c = p_offset p + ptag_len /\
    reveal k (tag_at p data) = Some id /\ registered ops ph id r /\
    r_transport r = tt_prefix /\ r_params r = PPrefix (p_id p).
Proof.
  intros H. apply prefix_found in H as (_ & p & Hp & S & L & C & T & Pm & k & id & Hk & R & Hin).
  exists p, k, id. apply view_sound in Hin. repeat (split; [assumption|]). assumption.
Qed.

Lemma top_found_obfs4 mark hs order ops ph data r c :
  incl order (get_regs (run ops) ph) ->
  wrap_obfs4_ord mark hs order data = Found r c ->
  exists id,
    blen id = o_id_len /\ registered ops ph id r /\
    o_start + o_mark_len + o_mac_len <= blen data /\
    mark_window data = mark id (take o_rep_len data) /\ hs id data = true.
Proof.
  intros I H. apply obfs4_found in H as (id & Hin & L & F1 & F2 & F3 & F4).
  exists id. apply I, view_sound in Hin. repeat (split; [assumption|]). assumption.
Qed.

(* ------------------------------------------------------------------ found_unique *)
Definition one_identifier (reveal : N -> bytes -> option bytes) (table : list pfx) (keys : list N)
           (v : view) (data : bytes) : Prop :=
  forall p1 p2 k1 k2 id1 id2,
    In p1 table -> In p2 table -> In k1 keys -> In k2 keys ->
    reveal k1 (tag_at p1 data) = Some id1 -> reveal k2 (tag_at p2 data) = Some id2 ->
    In id1 (ids v) -> In id2 (ids v) -> id1 = id2.

Lemma in_ids (v : view) id r : In (id, r) v -> In id (ids v).
Proof. intros H. unfold ids. apply in_map_iff. exists (id, r). auto. Qed.

Lemma top_unique_prefix reveal table keys v data o1 o2 r1 c1 r2 c2 :
  table_wf table = true -> NoDup (ids v) ->
  Permutation o1 table -> Permutation o2 table ->
  one_identifier reveal table keys v data ->
  wrap_prefix_ord reveal o1 keys v data = Found r1 c1 ->
  wrap_prefix_ord reveal o2 keys v data = Found r2 c2 ->
  r1 = r2 /\ c1 = c2.
Proof.
  intros W Hnd P1 P2 One H1 H2.
  apply prefix_found in H1 as (_ & p1 & Hp1 & S1 & L1 & C1 & T1 & Pm1 & k1 & id1 & Hk1 & R1 & Hin1).
  apply prefix_found in H2 as (_ & p2 & Hp2 & S2 & L2 & C2 & T2 & Pm2 & k2 & id2 & Hk2 & R2 & Hin2).
  assert (Hp1' : In p1 table) by exact (Permutation_in _ P1 Hp1).
  assert (Hp2' : In p2 table) by exact (Permutation_in _ P2 Hp2).
  assert (E : id1 = id2).
  { eapply (One p1 p2 k1 k2); eauto using in_ids. }
  subst id2. assert (r1 = r2) by (eapply nodup_ids_functional; eauto). subst r2. split; auto.
  rewrite Pm1 in Pm2. inversion Pm2 as [Eid].
  unfold table_wf in W. apply andb_true_iff in W as [_ W].
  assert (p1 = p2) by (eapply znodup_inj; eauto). subst. reflexivity.
Qed.

Definition marks_distinct (mark : bytes -> bytes -> bytes) (v : view) (data : bytes) : Prop :=
  forall id1 id2, In id1 (ids v) -> In id2 (ids v) ->
    mark id1 (take o_rep_len data) = mark id2 (take o_rep_len data) -> id1 = id2.

Lemma top_unique_obfs4 mark hs v data o1 o2 r1 c1 r2 c2 :
  NoDup (ids v) -> incl o1 v -> incl o2 v ->
  marks_distinct mark v data ->
  wrap_obfs4_ord mark hs o1 data = Found r1 c1 ->
  wrap_obfs4_ord mark hs o2 data = Found r2 c2 ->
  r1 = r2 /\ c1 = c2.
Proof.
  intros Hnd I1 I2 D H1 H2.
  apply obfs4_found in H1 as (id1 & Hin1 & _ & _ & M1 & _ & C1).
  apply obfs4_found in H2 as (id2 & Hin2 & _ & _ & M2 & _ & C2).
  apply I1 in Hin1. apply I2 in Hin2.
  assert (id1 = id2) by (apply D; eauto using in_ids; congruence). subst id2.
  split; [eapply nodup_ids_functional; eauto|congruence].
Qed.

(* ------------------------------------------------------------------ prefix: transport and id *)
Lemma top_prefix_requires reveal order keys v data r c :
  wrap_prefix_ord reveal order keys v data = Found r c ->
  r_transport r = tt_prefix /\
  exists p, In p order /\ r_params r = PPrefix (p_id p) /\ c = p_offset p + ptag_len /\ static_ok p data = true.
Proof.
  intros H. apply prefix_found in H as (_ & p & Hp & S & L & C & T & Pm & _). split; auto. exists p. auto.
Qed.

Lemma top_prefix_no_prefix_params reveal order keys v data r c :
  (forall z, r_params r <> PPrefix z) -> wrap_prefix_ord reveal order keys v data <> Found r c.
Proof.
  intros N H. apply top_prefix_requires in H as (_ & p & _ & Pm & _). eapply N; eauto.
Qed.

Lemma top_prefix_unlisted_id reveal order keys v data r c z :
  r_params r = PPrefix z -> (forall p, In p order -> static_ok p data = true -> p_id p <> z) ->
  wrap_prefix_ord reveal order keys v data <> Found r c.
Proof.
  intros Pm N H. apply top_prefix_requires in H as (_ & p & Hp & Pm' & _ & S).
  rewrite Pm in Pm'. inversion Pm'. eapply N; eauto.
Qed.

(* ------------------------------------------------------------------ bitflip_rejected *)
Lemma top_bitflip_min_key data data' i :
  (i < 32)%nat -> nth_error data' i <> nth_error data i ->
  take min_tag_len data' <> take min_tag_len data.
Proof. intros Hi Hd. eapply take_differs; eauto. Qed.

Lemma top_bitflip_min v data data' r c i :
  NoDup (ids v) ->
  wrap_min v data = Found r c ->
  (i < 32)%nat -> nth_error data' i <> nth_error data i ->
  (forall r' c', wrap_min v data' = Found r' c' ->
     In (take min_tag_len data', r') v /\ take min_tag_len data' <> take min_tag_len data) /\
  (~ In (take min_tag_len data') (ids v) -> forall r' c', wrap_min v data' <> Found r' c').
Proof.
  intros Hnd H Hi Hd. split.
  - intros r' c' H'. apply min_found in H' as (_ & _ & Hin). split; auto. eapply top_bitflip_min_key; eauto.
  - intros Hn r' c' H'. apply min_found in H' as (_ & _ & Hin). apply Hn. eapply in_ids; eauto.
Qed.

Definition reveal_sensitive (reveal : N -> bytes -> option bytes) : Prop :=
  forall k c c' id, blen c = ptag_len -> blen c' = ptag_len -> canon c <> canon c' ->
                    reveal k c = Some id -> reveal k c' <> Some id.

Lemma blen_tag_at p data : p_offset p + ptag_len <= blen data -> blen (tag_at p data) = ptag_len.
Proof.
  intros L. unfold tag_at, take, drop, blen in *. rewrite firstn_length, skipn_length. lia.
Qed.

Lemma top_bitflip_prefix reveal p k v data data' r c :
  reveal_sensitive reveal ->
  wrap_prefix_ord reveal [p] [k] v data = Found r c ->
  canon (tag_at p data') <> canon (tag_at p data) ->
  exists id, reveal k (tag_at p data) = Some id /\ In (id, r) v /\
    forall r' c', wrap_prefix_ord reveal [p] [k] v data' = Found r' c' ->
      exists id', reveal k (tag_at p data') = Some id' /\ In (id', r') v /\ id' <> id.
Proof.
  intros Sens H Hc.
  apply prefix_found in H as (_ & q & [<-|[]] & S & L & C & T & Pm & k0 & id & [<-|[]] & R & Hin).
  exists id. repeat split; auto. intros r' c' H'.
  apply prefix_found in H' as (_ & q & [<-|[]] & S' & L' & C' & T' & Pm' & k0 & id' & [<-|[]] & R' & Hin').
  exists id'. repeat split; auto. intros ->.
  eapply (Sens k (tag_at p data) (tag_at p data') id); eauto using blen_tag_at.
Qed.

(* obfs4, structural: the mark is compared with a fixed window of the stream *)
Lemma top_bitflip_obfs4_mark mark hs data data' e r c :
  take o_rep_len data' = take o_rep_len data ->
  mark_window data' <> mark_window data ->
  obfs4_verdict mark hs data e = OTerm (Found r c) ->
  obfs4_verdict mark hs data' e = OSkip.
Proof.
  intros Hrep Hw H. pose proof H as H0. apply obfs4_verdict_found in H0 as (_ & _ & M & _).
  unfold obfs4_verdict in *. rewrite Hrep.
  destruct (negb (blen (mark (fst e) (take o_rep_len data)) =? o_mark_len)); [discriminate|].
  rewrite find_mark_window; auto. congruence.
Qed.

Definition hs_binds (hs : bytes -> bytes -> bool) : Prop :=
  forall id d d', blen d = blen d' -> take o_max_hs d <> take o_max_hs d' -> hs id d = true -> hs id d' = false.

Lemma top_bitflip_obfs4 mark hs v o1 o2 data data' r c :
  hs_binds hs -> incl o1 v -> incl o2 v ->
  blen data' = blen data -> take o_max_hs data' <> take o_max_hs data ->
  wrap_obfs4_ord mark hs o1 data = Found r c ->
  exists id, In (id, r) v /\ hs id data = true /\
    forall r' c', wrap_obfs4_ord mark hs o2 data' = Found r' c' ->
      exists id', In (id', r') v /\ id' <> id.
Proof.
  intros B I1 I2 Hl Hd H.
  apply obfs4_found in H as (id & Hin & _ & _ & _ & Hh & _).
  exists id. repeat split; auto. intros r' c' H'.
  apply obfs4_found in H' as (id' & Hin' & _ & _ & _ & Hh' & _).
  exists id'. split; auto. intros ->.
  rewrite (B id data data') in Hh'; auto; discriminate.
Qed.

(* ------------------------------------------------------------------ map order *)
Lemma top_prefix_orders reveal table keys v data w :
  In w (wrap_prefix_allowed reveal table keys v data) <->
  exists order, Permutation order table /\ wrap_prefix_ord reveal order keys v data = w.
Proof.
  split; [apply prefix_order_complete|]. intros (order & P & <-). apply prefix_order_sound; auto.
Qed.

Lemma top_obfs4_orders mark hs v data w :
  In w (wrap_obfs4_allowed mark hs v data) <->
  exists order, Permutation order v /\ wrap_obfs4_ord mark hs order data = w.
Proof.
  split; [apply obfs4_order_complete|]. intros (order & P & <-). apply obfs4_order_sound; auto.
Qed.

Lemma top_prefix_no_panic reveal table order keys v data :
  table_wf table = true -> Permutation order table ->
  wrap_prefix_ord reveal order keys v data <> WPanic.
Proof.
  intros W P. apply prefix_no_panic. unfold table_wf in W. apply andb_true_iff in W as [W _].
  apply forallb_forall. intros p Hp. rewrite forallb_forall in W. apply W. eapply Permutation_in; eauto.
Qed.

(* ------------------------------------------------------------------ the negative forms *)
Lemma registered_live ops ph id r : registered ops ph id r -> validated_live ops ph id.
Proof. intros (_ & H & _). exists (r_name r). exact H. Qed.

Lemma top_never_min ops ph data :
  ~ validated_live ops ph (take min_tag_len data) ->
  forall r c, wrap_min (get_regs (run ops) ph) data <> Found r c.
Proof. intros N r c H. apply top_found_min in H as (_ & _ & H). apply N. eapply registered_live; eauto. Qed.

Lemma top_never_prefix reveal order keys ops ph data :
  (forall p k id, In p order -> In k keys -> reveal k (tag_at p data) = Some id -> ~ validated_live ops ph id) ->
  forall r c, wrap_prefix_ord reveal order keys (get_regs (run ops) ph) data <> Found r c.
Proof.
  intros N r c H. apply top_found_prefix in H as (p & k & id & Hp & Hk & _ & _ & _ & R & Hr & _).
  eapply N; eauto using registered_live.
Qed.

Lemma top_never_obfs4 mark hs order ops ph data :
  incl order (get_regs (run ops) ph) ->
  (forall id, mark_window data = mark id (take o_rep_len data) -> ~ validated_live ops ph id) ->
  forall r c, wrap_obfs4_ord mark hs order data <> Found r c.
Proof.
  intros I N r c H. apply (top_found_obfs4 _ _ _ _ _ _ _ _ I) in H as (id & _ & Hr & _ & M & _).
  eapply N; eauto using registered_live.
Qed.
