(* C02 x C08: the WrapConnection classification over the registry of C08 (real time: registrations
   age, connections mark them used, the sweep removes what is past its lifetime).

   C08's table knows a registration by (secret, transport, phantom); C02's view by the identifier
   bytes and the registration object.  [enc] is Transport.GetIdentifier (an HMAC of the secret under a
   per-transport label), assumed injective; [info] gives the object's transport type and parameters. *)
From CJ Require Import Common.Base Common.BaseProofs.
From CJ Require C08.Model C08.Proofs C08.Invariant C08.Sweep C08.History.
From CJ Require Import C02.Model C02.Spec C02.Proofs C02.ProofsWrap.
From Coq Require Import Lia.

Module R := C08.Model.
Module RP := C08.Proofs.
Module RI := C08.Invariant.
Module RS := C08.Sweep.
Module RH := C08.History.

(* ------------------------------------------------------------------ validity over C08 histories *)

Lemma tkey_neq (k k' : R.regkey) : k <> k' -> (R.k_ph k, R.ident_of k) <> (R.k_ph k', R.ident_of k').
Proof. intros N E. apply N. apply RP.tkey_of_inj. exact E. Qed.

Lemma exists_track_other s k k' : k <> k' ->
  R.registration_exists (fst (R.track s k')) k = R.registration_exists s k.
Proof.
  intros N. unfold R.track. destruct (R.registration_exists s k'); [reflexivity|].
  destruct (R.enabled (R.k_tr k')); [|reflexivity]. cbn [fst]. unfold R.registration_exists. cbn [R.decoys].
  destruct (R.enabled (R.k_tr k)); [|reflexivity]. apply RP.get2_put2_other. apply tkey_neq; auto.
Qed.

Lemma valid_track s k k' : R.valid (fst (R.track s k')) k = true -> R.valid s k = true.
Proof.
  destruct (RI.regkey_eq_dec k k') as [<-|N].
  - unfold R.valid, R.track. destruct (R.registration_exists s k) eqn:E; [cbn [fst]; rewrite E; auto|].
    destruct (R.enabled (R.k_tr k)) eqn:En; cbn [fst]; [|rewrite E; auto].
    unfold R.registration_exists. rewrite En. cbn [R.decoys]. rewrite RP.get2_put2_same. discriminate.
  - unfold R.valid. rewrite exists_track_other; auto.
Qed.

Lemma exists_set_valid_other s k k' : k <> k' ->
  R.registration_exists (R.set_decoys s (R.put2 (R.decoys s) (R.k_ph k') (R.ident_of k') true)) k =
  R.registration_exists s k.
Proof.
  intros N. unfold R.registration_exists. cbn [R.set_decoys R.decoys].
  destruct (R.enabled (R.k_tr k)); [|reflexivity]. apply RP.get2_put2_other. apply tkey_neq; auto.
Qed.

Lemma valid_validate s k k' : R.valid (R.validate s k') k = true -> R.valid s k = true \/ k' = k.
Proof.
  destruct (RI.regkey_eq_dec k k') as [<-|N]; [auto|]. left. revert H.
  rewrite RI.validate_unfold. cbv zeta.
  destruct (R.registration_exists (fst (R.track s k')) k'); intros H.
  - unfold R.valid in H. rewrite exists_set_valid_other in H by auto. apply (valid_track s k k'). exact H.
  - apply (valid_track s k k'). exact H.
Qed.

Lemma valid_step s x k : RI.Inv s -> R.valid (R.step s x) k = true ->
  R.valid s k = true \/ x = R.Validate k \/ x = R.ValidateStale k.
Proof.
  intros I H. destruct x as [k'|k'|k'|k'|k'|d| |ph|ph]; cbn [R.step] in H.
  - left. eapply valid_track; eauto.
  - left. eapply valid_track; eauto.
  - apply valid_validate in H as [H| ->]; auto.
  - unfold R.validate_stale in H. destruct (R.registration_exists s k'); [auto|].
    apply valid_validate in H as [H| ->]; auto.
  - left. unfold R.mark_active in H. destruct (R.enabled (R.k_tr k')); [|exact H].
    destruct (R.aget R.tkey_eqb (R.tkey_of k') (R.timeouts s)); exact H.
  - left. exact H.
  - left. unfold R.sweep in H.
    rewrite (RS.valid_sweep_in s (R.get_expired s) k I (RS.collects_get_expired s I)) in H; auto.
    apply RH.valid_tracked. exact H.
  - left. exact H.
  - left. exact H.
Qed.

(* k was validated by an operation of the history and has been tracked ever since *)
Definition validated_and_kept (h : list R.rop) (k : R.regkey) : Prop :=
  exists h1 o h2, h = h1 ++ o :: h2 /\ (o = R.Validate k \/ o = R.ValidateStale k) /\
    forall pre suf, h2 = pre ++ suf -> R.tracked (R.run (h1 ++ o :: pre)) k = true.

Lemma snoc_split {A} (l : list A) x pre suf :
  l ++ [x] = pre ++ suf -> (suf = [] /\ pre = l ++ [x]) \/ exists suf', suf = suf' ++ [x] /\ l = pre ++ suf'.
Proof.
  destruct (rev_case suf) as [->|(suf' & y & ->)].
  - rewrite app_nil_r. intros <-. auto.
  - rewrite app_assoc. intros E. apply app_inj_tail in E as [E <-]. right. eauto.
Qed.

Lemma valid_validated h k : R.valid (R.run h) k = true -> validated_and_kept h k.
Proof.
  induction h as [|x h IH] using rev_ind.
  - unfold R.valid, R.registration_exists, R.run. cbn. destruct (R.enabled (R.k_tr k)); discriminate.
  - rewrite RH.run_snoc. intros H.
    assert (T : R.tracked (R.run (h ++ [x])) k = true) by (rewrite RH.run_snoc; apply RH.valid_tracked; exact H).
    destruct (Bool.bool_dec (R.valid (R.run h) k) true) as [V|V].
    + destruct (IH V) as (h1 & o & h2 & E & Ho & Hk). subst h.
      exists h1, o, (h2 ++ [x]). split; [rewrite <- app_assoc; reflexivity|]. split; auto.
      intros pre suf E. apply snoc_split in E as [[-> ->]|(suf' & -> & ->)].
      * rewrite app_comm_cons, app_assoc. rewrite <- app_assoc in T. cbn in T. rewrite app_comm_cons, app_assoc in T. exact T.
      * eapply Hk; eauto.
    + apply valid_step in H as [H|Hx]; [contradiction| |apply RH.run_inv].
      exists h, x, []. split; [reflexivity|]. split; [exact Hx|].
      intros pre suf E. destruct pre; [|discriminate]. exact T.
Qed.

(* right after a sweep, and as long as no time passes, every tracked registration is within its
   lifetime: at most 10 min old, or used and at most 6 h old *)
Definition life_ok (l : R.life) : Prop :=
  match l with Some (a, u) => R.kept a u = true | None => True end.

Definition no_time (t : list R.rop) : Prop := forall d, In (R.Advance d) t -> d = 0.

Lemma kept_zero : R.kept 0 false = true.
Proof. reflexivity. Qed.

Lemma kept_used a u : R.kept a u = true -> R.kept a true = true.
Proof.
  unfold R.kept. intros H. apply orb_true_iff in H as [H|H]; [rewrite H; reflexivity|].
  apply andb_true_iff in H as [_ H]. rewrite H. cbn. apply orb_true_r.
Qed.

Lemma life_ok_step k l o : life_ok l -> (forall d, o = R.Advance d -> d = 0) -> life_ok (R.gstep k l o).
Proof.
  intros L Hd. destruct o as [k'|k'|k'|k'|k'|d| |ph|ph]; cbn [R.gstep]; auto.
  - destruct (R.starts (R.Track k') k); auto. destruct l; auto. exact kept_zero.
  - destruct (R.starts (R.TrackNX k') k); auto. destruct l; auto. exact kept_zero.
  - destruct (R.starts (R.Validate k') k); auto. destruct l; auto. exact kept_zero.
  - destruct (R.starts (R.ValidateStale k') k); auto. destruct l; auto. exact kept_zero.
  - destruct (R.regkey_eqb k k'); auto. destruct l as [[a u]|]; cbn in *; auto. eapply kept_used; eauto.
  - rewrite (Hd d eq_refl). destruct l as [[a u]|]; cbn in *; auto. rewrite N.add_0_r. exact L.
  - destruct l as [[a u]|]; cbn; auto. destruct (R.kept a u) eqn:K; cbn; auto.
Qed.

Lemma life_ok_after_sweep h0 t k : no_time t -> life_ok (R.ghost (h0 ++ R.Sweep :: t) k).
Proof.
  intros NT. change (h0 ++ R.Sweep :: t) with (h0 ++ [R.Sweep] ++ t). rewrite app_assoc, RH.ghost_app.
  assert (L0 : life_ok (R.ghost (h0 ++ [R.Sweep]) k)).
  { rewrite RH.ghost_snoc. cbn [R.gstep]. destruct (R.ghost h0 k) as [[a u]|]; cbn; auto.
    destruct (R.kept a u) eqn:K; cbn; auto. }
  revert L0. generalize (R.ghost (h0 ++ [R.Sweep]) k). induction t as [|o t IH]; intros l L; cbn; auto.
  apply IH.
  - intros d Hd. apply NT. right. exact Hd.
  - apply life_ok_step; auto. intros d ->. apply NT. left. reflexivity.
Qed.

(* ------------------------------------------------------------------ the view of a C08 table *)
Section Bridge.
  Variable enc : R.ident -> bytes.                       (* Transport.GetIdentifier *)
  Hypothesis enc_inj : forall a b, enc a = enc b -> a = b.
  Variable name_of : R.regkey -> N.                      (* the registration object *)
  Variable params_of : R.regkey -> params.

  Definition tr_code (t : R.tr) : N :=
    match t with R.Min => 1 | R.Obfs4 => 2 | R.Dtls => 3 | R.Prefix => 4 | R.Other => 0 end.

  Definition key_at (ph : N) (id : R.ident) : R.regkey :=
    {| R.k_secret := snd id; R.k_tr := fst id; R.k_ph := ph |}.

  Definition info (k : R.regkey) : reginfo :=
    {| r_name := name_of k; r_valid := true; r_transport := tr_code (R.k_tr k); r_params := params_of k |}.

  (* RegistrationManager.GetRegistrations(phantom) on C08's table (transports that were never
     added cannot be tracked, C08.track refuses them) *)
  Definition view_of (s : R.st) (ph : N) : view :=
    map (fun id => (enc id, info (key_at ph id)))
        (filter (fun id => R.enabled (fst id)) (R.lookup s ph)).

  Lemma ident_of_key_at ph id : R.ident_of (key_at ph id) = id.
  Proof. destruct id. reflexivity. Qed.

  Lemma in_view_of s ph i r :
    In (i, r) (view_of s ph) ->
    exists k, R.k_ph k = ph /\ enc (R.ident_of k) = i /\ r = info k /\ R.matches s k = true.
  Proof.
    unfold view_of. intros H. apply in_map_iff in H as (id & E & Hin). inversion E; subst.
    apply filter_In in Hin as [Hin En]. exists (key_at ph id). rewrite ident_of_key_at.
    repeat split; auto. unfold R.matches. cbn [key_at R.k_tr R.k_ph]. rewrite En. cbn.
    rewrite ident_of_key_at. apply existsb_exists. exists id. split; auto. apply RP.ident_eqb_eq. reflexivity.
  Qed.

  (* what a Found over a C08 history means, in real time *)
  Definition in_lifetime (h : list R.rop) (k : R.regkey) : Prop :=
    exists a u h1 o h2,
      R.ghost h k = Some (a, u) /\ h = h1 ++ o :: h2 /\ R.starts o k = true /\ R.ghost h1 k = None /\
      a = R.elapsed h2 /\ (u = true -> In (R.MarkActive k) h2).

  Definition registered_rt (h : list R.rop) (ph : N) (i : ident) (r : reginfo) : Prop :=
    exists k, R.k_ph k = ph /\ enc (R.ident_of k) = i /\ r = info k /\
              R.valid (R.run h) k = true /\ validated_and_kept h k /\ in_lifetime h k.

  Lemma view_of_registered h ph i r : In (i, r) (view_of (R.run h) ph) -> registered_rt h ph i r.
  Proof.
    intros H. apply in_view_of in H as (k & Hp & He & Hr & M).
    assert (V : R.valid (R.run h) k = true) by (rewrite <- (RH.matches_iff_valid _ _ (RH.run_inv h)); exact M).
    exists k. repeat split; auto.
    - apply valid_validated; auto.
    - assert (T : R.tracked (R.run h) k = true) by (apply RH.valid_tracked; auto).
      rewrite RH.tracked_ghost in T. destruct (R.ghost h k) as [[a u]|] eqn:G; [|discriminate].
      destruct (RH.ghost_some_started h k a u G) as (h1 & o & h2 & E1 & E2 & E3 & E4 & E5).
      exists a, u, h1, o, h2. repeat (split; [assumption|]). assumption.
  Qed.

  Lemma view_of_within_lifetime h0 t ph i r :
    no_time t -> In (i, r) (view_of (R.run (h0 ++ R.Sweep :: t)) ph) ->
    exists k a u, R.k_ph k = ph /\ enc (R.ident_of k) = i /\ r = info k /\
      R.ghost (h0 ++ R.Sweep :: t) k = Some (a, u) /\
      (a <= R.ten_min \/ (u = true /\ a <= R.six_h)).
  Proof.
    intros NT H. apply view_of_registered in H as (k & Hp & He & Hr & V & _ & (a & u & _ & _ & _ & G & _)).
    exists k, a, u. repeat split; auto. pose proof (life_ok_after_sweep h0 t k NT) as L. rewrite G in L. cbn in L.
    apply RH.kept_spec. exact L.
  Qed.

  Lemma view_of_ids_nodup s ph : RI.Inv s -> NoDup (ids (view_of s ph)).
  Proof.
    intros I. unfold ids, view_of. rewrite map_map. cbn.
    assert (ND : NoDup (R.lookup s ph)).
    { unfold R.lookup. destruct (R.aget N.eqb ph (R.decoys s)) as [i|] eqn:E; [|constructor].
      destruct (RP.wf_inner _ _ _ (RI.inv_wf s I) E) as [ND _].
      apply NoDup_map_filter. exact ND. }
    assert (ND' : NoDup (filter (fun id => R.enabled (fst id)) (R.lookup s ph))).
    { clear -ND. induction ND as [|x l Hx ND IH]; cbn; [constructor|]. destruct (R.enabled (fst x)); auto.
      constructor; auto. intros Hin. apply Hx. apply filter_In in Hin. tauto. }
    revert ND'. generalize (filter (fun id => R.enabled (fst id)) (R.lookup s ph)).
    induction 1 as [|x l Hx ND' IH]; cbn; constructor; auto.
    intros Hin. apply in_map_iff in Hin as (y & E & Hy). apply enc_inj in E. subst. auto.
  Qed.

  (* ---------------------------------------------------------------- the property over real time *)
  Theorem rt_found_min h ph data r c :
    wrap_min (view_of (R.run h) ph) data = Found r c ->
    min_tag_len <= blen data /\ c = min_tag_len /\ registered_rt h ph (take min_tag_len data) r.
  Proof.
    intros H. apply min_found in H as (-> & L & Hin). repeat split; auto. apply view_of_registered; auto.
  Qed.

  Theorem rt_found_prefix reveal order keys h ph data r c :
    wrap_prefix_ord reveal order keys (view_of (R.run h) ph) data = Found r c ->
    exists p k id,
      In p order /\ In k keys /\ static_ok p data = true /\ c = p_offset p + ptag_len /\
      reveal k (tag_at p data) = Some id /\ registered_rt h ph id r /\
      r_transport r = tt_prefix /\ r_params r = PPrefix (p_id p).
  Proof.
    intros H. apply prefix_found in H as (_ & p & Hp & S & L & C & T & Pm & k & id & Hk & Rv & Hin).
    exists p, k, id. apply view_of_registered in Hin. repeat (split; [assumption|]). assumption.
  Qed.

  Theorem rt_found_obfs4 mark hs order h ph data r c :
    incl order (view_of (R.run h) ph) ->
    wrap_obfs4_ord mark hs order data = Found r c ->
    exists id, blen id = o_id_len /\ registered_rt h ph id r /\
      mark_window data = mark id (take o_rep_len data) /\ hs id data = true.
  Proof.
    intros I H. apply obfs4_found in H as (id & Hin & L & F1 & F2 & F3 & F4).
    exists id. apply I, view_of_registered in Hin. auto.
  Qed.

  (* after a sweep (and until time passes again): never a registration past its lifetime *)
  Theorem rt_found_min_in_lifetime h0 t ph data r c :
    no_time t ->
    wrap_min (view_of (R.run (h0 ++ R.Sweep :: t)) ph) data = Found r c ->
    exists k a u, R.k_ph k = ph /\ enc (R.ident_of k) = take min_tag_len data /\ r = info k /\
      R.ghost (h0 ++ R.Sweep :: t) k = Some (a, u) /\ (a <= R.ten_min \/ (u = true /\ a <= R.six_h)).
  Proof.
    intros NT H. apply min_found in H as (_ & _ & Hin). eapply view_of_within_lifetime; eauto.
  Qed.

  Theorem rt_found_prefix_in_lifetime reveal order keys h0 t ph data r c :
    no_time t ->
    wrap_prefix_ord reveal order keys (view_of (R.run (h0 ++ R.Sweep :: t)) ph) data = Found r c ->
    exists k a u, R.k_ph k = ph /\ r = info k /\
      R.ghost (h0 ++ R.Sweep :: t) k = Some (a, u) /\ (a <= R.ten_min \/ (u = true /\ a <= R.six_h)).
  Proof.
    intros NT H. apply prefix_found in H as (_ & p & _ & _ & _ & _ & _ & _ & k & id & _ & _ & Hin).
    destruct (view_of_within_lifetime _ _ _ _ _ NT Hin) as (k' & a & u & ? & ? & ? & ? & ?).
    exists k', a, u. auto.
  Qed.

  Theorem rt_found_obfs4_in_lifetime mark hs order h0 t ph data r c :
    no_time t -> incl order (view_of (R.run (h0 ++ R.Sweep :: t)) ph) ->
    wrap_obfs4_ord mark hs order data = Found r c ->
    exists k a u, R.k_ph k = ph /\ r = info k /\
      R.ghost (h0 ++ R.Sweep :: t) k = Some (a, u) /\ (a <= R.ten_min \/ (u = true /\ a <= R.six_h)).
  Proof.
    intros NT I H. apply obfs4_found in H as (id & Hin & _). apply I in Hin.
    destruct (view_of_within_lifetime _ _ _ _ _ NT Hin) as (k' & a & u & ? & ? & ? & ? & ?).
    exists k', a, u. auto.
  Qed.

  (* a registration that the sweep removed (or that was never registered) on this phantom is not matched *)
  Theorem rt_untracked_not_in_view h ph k :
    R.k_ph k = ph -> R.tracked (R.run h) k = false -> ~ In (enc (R.ident_of k)) (ids (view_of (R.run h) ph)).
  Proof.
    intros Hp T Hin. unfold ids in Hin. apply in_map_iff in Hin as ([i r] & E & Hin). cbn in E. subst i.
    apply in_view_of in Hin as (k' & Hp' & He & _ & M). apply enc_inj in He.
    assert (k' = k).
    { apply RP.tkey_of_inj. unfold R.tkey_of. congruence. }
    subst k'. rewrite (RH.expired_not_matched_run h k T) in M. discriminate.
  Qed.
End Bridge.
