(* C02 x C08: simulation.  Every C08 history (real time, sweeps) translates into a C02 history
   (abstract Expire operations, one per registration the sweep removes) such that C02's registry,
   looked at through any key, holds exactly what C08's table holds: tracked, and the Valid flag.
   Hence everything proved about get_regs (run ops) in C02 applies to C08's table. *)
From CJ Require Import Common.Base Common.BaseProofs.
From CJ Require C08.Model C08.Proofs C08.Invariant C08.Sweep C08.History.
From CJ Require Import C02.Model C02.Spec C02.Proofs C02.ProofsWrap C02.Bridge08.
From Coq Require Import Lia.

Section Sim.
  Variable enc : R.ident -> bytes.
  Hypothesis enc_inj : forall a b, enc a = enc b -> a = b.
  Variable name_of : R.regkey -> N.
  Variable params_of : R.regkey -> params.

  Notation info := (info name_of params_of).

  Definition cid (k : R.regkey) : ident := enc (R.ident_of k).

  (* one C08 operation, performed in table state s, as C02 operations *)
  Definition tr_op (s : R.st) (o : R.rop) : list rop :=
    match o with
    | R.Track k | R.TrackNX k =>
      if R.enabled (R.k_tr k) then [Track (R.k_ph k) (cid k) (info k)] else []
    | R.Validate k =>
      if R.enabled (R.k_tr k) then [Validate (R.k_ph k) (cid k) (info k)] else []
    | R.ValidateStale k =>
      if R.enabled (R.k_tr k) && negb (R.tracked s k) then [Validate (R.k_ph k) (cid k) (info k)] else []
    | R.Sweep => map (fun key => Expire (fst key) (enc (snd key))) (R.get_expired s)
    | _ => []
    end.

  Fixpoint translate_from (s : R.st) (h : list R.rop) : list rop :=
    match h with
    | [] => []
    | o :: t => tr_op s o ++ translate_from (R.step s o) t
    end.
  Definition translate (h : list R.rop) : list rop := translate_from R.init h.

  Lemma translate_from_app s h1 h2 :
    translate_from s (h1 ++ h2) = translate_from s h1 ++ translate_from (fold_left R.step h1 s) h2.
  Proof.
    revert s. induction h1 as [|o h1 IH]; intros s; cbn; auto. rewrite IH, app_assoc. reflexivity.
  Qed.

  Lemma translate_snoc h o : translate (h ++ [o]) = translate h ++ tr_op (R.run h) o.
  Proof. unfold translate. rewrite translate_from_app. cbn. rewrite app_nil_r. reflexivity. Qed.

  (* the state of key k in C08's table, in C02's terms *)
  Definition S (s : R.st) (k : R.regkey) : kstate :=
    match R.registration_exists s k with Some v => Some (name_of k, v) | None => None end.

  Lemma key_is_cid k k' : key_is (R.k_ph k) (cid k) (R.k_ph k') (cid k') = true <-> k = k'.
  Proof.
    rewrite key_is_spec. unfold cid. split.
    - intros [E1 E2]. apply enc_inj in E2. apply RP.tkey_of_inj. unfold R.tkey_of. congruence.
    - intros ->. auto.
  Qed.

  Lemma key_is_cid_refl k : key_is (R.k_ph k) (cid k) (R.k_ph k) (cid k) = true.
  Proof. apply key_is_cid. reflexivity. Qed.

  Lemma key_is_cid_neq k k' : k <> k' -> key_is (R.k_ph k) (cid k) (R.k_ph k') (cid k') = false.
  Proof.
    intros N. destruct (key_is (R.k_ph k) (cid k) (R.k_ph k') (cid k')) eqn:E; auto.
    apply key_is_cid in E. contradiction.
  Qed.

  (* ---- precise effect of C08's operations on one key *)
  Lemma exists_track s k k' :
    R.registration_exists (fst (R.track s k')) k =
    if RI.regkey_eq_dec k k'
    then match R.registration_exists s k with
         | Some v => Some v
         | None => if R.enabled (R.k_tr k) then Some false else None
         end
    else R.registration_exists s k.
  Proof.
    destruct (RI.regkey_eq_dec k k') as [<-|N]; [|apply exists_track_other; auto].
    unfold R.track. destruct (R.registration_exists s k) eqn:E; [cbn [fst]; exact E|].
    destruct (R.enabled (R.k_tr k)) eqn:En; cbn [fst]; [|exact E].
    unfold R.registration_exists. rewrite En. cbn [R.decoys]. apply RP.get2_put2_same.
  Qed.

  Lemma exists_validate s k k' : R.enabled (R.k_tr k) = true ->
    R.registration_exists (R.validate s k') k =
    if RI.regkey_eq_dec k k' then Some true else R.registration_exists s k.
  Proof.
    intros En. rewrite RI.validate_unfold. cbv zeta. destruct (RI.regkey_eq_dec k k') as [<-|N].
    - assert (E1 : exists v, R.registration_exists (fst (R.track s k)) k = Some v).
      { rewrite exists_track. destruct (RI.regkey_eq_dec k k); [|contradiction].
        destruct (R.registration_exists s k); eauto. rewrite En. eauto. }
      destruct E1 as (v & ->). unfold R.registration_exists. rewrite En. cbn [R.set_decoys R.decoys].
      apply RP.get2_put2_same.
    - destruct (R.registration_exists (fst (R.track s k')) k').
      + rewrite exists_set_valid_other by auto. apply exists_track_other; auto.
      + apply exists_track_other; auto.
  Qed.

  Lemma validate_disabled s k : R.enabled (R.k_tr k) = false -> R.validate s k = s.
  Proof.
    intros En. unfold R.validate. unfold R.registration_exists at 1. rewrite En.
    rewrite RI.track_disabled by auto. unfold R.registration_exists. rewrite En. reflexivity.
  Qed.

  Lemma exists_sweep s k : RI.Inv s -> R.enabled (R.k_tr k) = true ->
    R.registration_exists (R.sweep s) k =
    if RS.memb (R.tkey_of k) (R.get_expired s) then None else R.registration_exists s k.
  Proof.
    intros I En. unfold R.sweep.
    destruct (RS.sweep_in_spec s (R.get_expired s) I (RS.collects_get_expired s I)) as (_ & _ & _ & D).
    unfold R.registration_exists. rewrite En, D. fold (R.tkey_of k).
    destruct (RS.memb (R.tkey_of k) (R.get_expired s)) eqn:M.
    - apply RS.memb_in, (RS.in_get_expired s _ I) in M as (t & -> & ->). reflexivity.
    - destruct (R.aget R.tkey_eqb (R.tkey_of k) (R.timeouts s)) as [t|] eqn:A; [|reflexivity].
      destruct (R.rec_expired (R.now s) t) eqn:X; [|reflexivity].
      assert (RS.memb (R.tkey_of k) (R.get_expired s) = true); [|congruence].
      apply RS.memb_in, (RS.in_get_expired s _ I). eauto.
  Qed.

  (* ---- the same effects on C02's per-key automaton *)
  Definition kfold (k : R.regkey) (ops : list rop) (st : kstate) : kstate :=
    fold_left (kstep (R.k_ph k) (cid k)) ops st.

  Lemma kfold_expires k keys st :
    kfold k (map (fun key => Expire (fst key) (enc (snd key))) keys) st =
    if RS.memb (R.tkey_of k) keys then None else st.
  Proof.
    unfold kfold. revert st. induction keys as [|key keys IH]; intros st; cbn [map fold_left RS.memb existsb]; auto.
    rewrite IH. cbn [kstep]. fold (RS.memb (R.tkey_of k) keys).
    destruct (R.tkey_eqb (R.tkey_of k) key) eqn:E.
    - apply RP.tkey_eqb_eq in E. subst key. cbn [fst snd R.tkey_of]. fold (cid k). rewrite key_is_cid_refl. cbn.
      destruct (RS.memb (R.tkey_of k) keys); reflexivity.
    - cbn [orb]. replace (key_is (R.k_ph k) (cid k) (fst key) (enc (snd key))) with false; [reflexivity|].
      symmetry. destruct (key_is (R.k_ph k) (cid k) (fst key) (enc (snd key))) eqn:K; auto.
      apply key_is_spec in K as [K1 K2]. unfold cid in K2. apply enc_inj in K2.
      assert (R.tkey_of k = key) by (destruct key as [a b]; cbn [fst snd] in K1, K2; subst a b; reflexivity).
      subst key. rewrite (proj2 (RP.tkey_eqb_eq _ _) eq_refl) in E. discriminate.
  Qed.

  Lemma sim_step s o k : RI.Inv s -> R.enabled (R.k_tr k) = true ->
    kfold k (tr_op s o) (S s k) = S (R.step s o) k.
  Proof.
    intros I En. unfold S. destruct o as [k'|k'|k'|k'|k'|d| |ph|ph]; cbn [tr_op R.step].
    - (* Track *)
      rewrite exists_track. destruct (RI.regkey_eq_dec k k') as [<-|N].
      + rewrite En. cbn. rewrite key_is_cid_refl. destruct (R.registration_exists s k); reflexivity.
      + destruct (R.enabled (R.k_tr k')); cbn; [rewrite key_is_cid_neq by auto|]; reflexivity.
    - rewrite exists_track. destruct (RI.regkey_eq_dec k k') as [<-|N].
      + rewrite En. cbn. rewrite key_is_cid_refl. destruct (R.registration_exists s k); reflexivity.
      + destruct (R.enabled (R.k_tr k')); cbn; [rewrite key_is_cid_neq by auto|]; reflexivity.
    - (* Validate *)
      destruct (R.enabled (R.k_tr k')) eqn:En'.
      + rewrite exists_validate by auto. destruct (RI.regkey_eq_dec k k') as [<-|N]; cbn.
        * rewrite key_is_cid_refl. destruct (R.registration_exists s k); [rewrite N.eqb_refl|]; reflexivity.
        * rewrite key_is_cid_neq by auto. reflexivity.
      + rewrite validate_disabled by auto. reflexivity.
    - (* ValidateStale *)
      unfold R.validate_stale, R.tracked. destruct (R.registration_exists s k') eqn:E'; cbn [R.is_some negb].
      + rewrite andb_false_r. reflexivity.
      + rewrite andb_true_r. destruct (R.enabled (R.k_tr k')) eqn:En'.
        * rewrite exists_validate by auto. destruct (RI.regkey_eq_dec k k') as [<-|N]; cbn.
          -- rewrite key_is_cid_refl, E'. reflexivity.
          -- rewrite key_is_cid_neq by auto. reflexivity.
        * rewrite validate_disabled by auto. reflexivity.
    - (* MarkActive *)
      unfold R.mark_active. destruct (R.enabled (R.k_tr k')); [|reflexivity].
      destruct (R.aget R.tkey_eqb (R.tkey_of k') (R.timeouts s)); reflexivity.
    - reflexivity.
    - (* Sweep *)
      rewrite kfold_expires, exists_sweep by auto.
      destruct (RS.memb (R.tkey_of k) (R.get_expired s)); reflexivity.
    - reflexivity.
    - reflexivity.
  Qed.

  Lemma key_state_app ops ops' ph id :
    key_state (ops ++ ops') ph id = fold_left (kstep ph id) ops' (key_state ops ph id).
  Proof. unfold key_state. apply fold_left_app. Qed.

  Theorem simulation h k : R.enabled (R.k_tr k) = true ->
    key_state (translate h) (R.k_ph k) (cid k) = S (R.run h) k.
  Proof.
    intros En. induction h as [|o h IH] using rev_ind.
    - cbn. unfold S, R.registration_exists. rewrite En. reflexivity.
    - rewrite translate_snoc, key_state_app, IH, RH.run_snoc. apply sim_step; auto. apply RH.run_inv.
  Qed.

  (* C02's registry over the translated history and C08's table hold the same validated registrations *)
  Theorem simulation_view h ph i :
    (exists r, In (i, r) (view_of enc name_of params_of (R.run h) ph)) <->
    (exists r, In (i, r) (get_regs (run (translate h)) ph) /\ exists k, R.k_ph k = ph /\ cid k = i /\ R.enabled (R.k_tr k) = true /\ r_name r = name_of k).
  Proof.
    split.
    - intros (r & H). apply in_view_of in H as (k & Hp & He & Hr & M).
      assert (En : R.enabled (R.k_tr k) = true) by (unfold R.matches in M; apply andb_true_iff in M; tauto).
      assert (V : R.valid (R.run h) k = true) by (rewrite <- (RH.matches_iff_valid _ _ (RH.run_inv h)); exact M).
      pose proof (simulation h k En) as Sm. unfold S in Sm. unfold R.valid in V.
      destruct (R.registration_exists (R.run h) k) as [v|]; [|discriminate]. subst v.
      rewrite Hp in Sm. unfold cid in Sm. rewrite He in Sm.
      destruct (view_complete _ _ _ _ Sm) as (r' & Hin & Hn). exists r'. split; auto. exists k. auto.
    - intros (r & Hin & k & Hp & He & En & Hn). apply view_sound in Hin as (V & Ks & _).
      pose proof (simulation h k En) as Sm. rewrite Hp, He, Ks in Sm. unfold S in Sm.
      destruct (R.registration_exists (R.run h) k) as [v|] eqn:E; [|discriminate]. inversion Sm; subst v.
      exists (info k). unfold view_of. apply in_map_iff. exists (R.ident_of k). split.
      + assert (KA : key_at (R.k_ph k) (R.ident_of k) = k) by (destruct k; reflexivity).
        rewrite <- Hp, KA. unfold cid in He. rewrite He. reflexivity.
      + apply filter_In. split; [|destruct k; exact En].
        assert (M : R.matches (R.run h) k = true).
        { rewrite (RH.matches_iff_valid _ _ (RH.run_inv h)). unfold R.valid. rewrite E. reflexivity. }
        unfold R.matches in M. apply andb_true_iff in M as [_ M]. apply existsb_exists in M as (x & Hx & Ex).
        apply RP.ident_eqb_eq in Ex. subst x. rewrite Hp in Hx. exact Hx.
  Qed.
End Sim.
