(* C02, connection level, over an ARBITRARY registry machine: the read loop of handleNewTCPConn only needs
   "what GetRegistrations(phantom) returns now" and "how many registrations are tracked on the phantom now".
   Instantiated with builder C08's registry over real time in BridgeConn08.v (ModelConn.v is the instance with
   C02's own registry; the step function is the same text). *)
From CJ Require Import Common.Base C02.Model C02.ModelConn C02.ProofsConn.

Section Gen.
  Variables (RS ROP : Type).
  Variable rstep : RS -> ROP -> RS.
  Variable r0 : RS.
  Variable rview : RS -> phantom -> view.       (* GetRegistrations(phantom) *)
  Variable rcount : RS -> phantom -> N.         (* CountRegistrations(phantom) *)
  Variable reveal : N -> bytes -> option bytes.
  Variable mark : bytes -> bytes -> bytes.
  Variable hs : bytes -> bytes -> bool.
  Variable table : list pfx.
  Variable keys : list N.

  Inductive gev :=
  | GReg (op : ROP)
  | GAccept
  | GRead (chunk : bytes) (ch : choice)
  | GReadErr.

  Definition gstep (ph : phantom) (s : RS * cstate) (e : gev) : RS * cstate :=
    let (st, cs) := s in
    match e with
    | GReg op => (rstep st op, cs)
    | GAccept =>
      (st, match cs with
           | CIdle => if rcount st ph <? 1 then CDiscard else CReading [] all_tk
           | _ => cs
           end)
    | GRead chunk ch =>
      (st, match cs with
           | CReading buf poss =>
             try_ts reveal mark hs table keys (rview st ph) (buf ++ chunk) ch (ch_torder ch ++ all_tk) poss
           | _ => cs
           end)
    | GReadErr =>
      (st, match cs with
           | CReading _ _ | CDiscard => CClosed
           | _ => cs
           end)
    end.

  Definition grun (ph : phantom) (evs : list gev) : RS * cstate := fold_left (gstep ph) evs (r0, CIdle).
  Definition greg_ops (evs : list gev) : list ROP :=
    flat_map (fun e => match e with GReg op => [op] | _ => [] end) evs.

  Lemma grun_snoc ph evs e : grun ph (evs ++ [e]) = gstep ph (grun ph evs) e.
  Proof. unfold grun. rewrite fold_left_app. reflexivity. Qed.

  Lemma greg_ops_app a b : greg_ops (a ++ b) = greg_ops a ++ greg_ops b.
  Proof. unfold greg_ops. apply flat_map_app. Qed.

  Lemma grun_registry ph evs : fst (grun ph evs) = fold_left rstep (greg_ops evs) r0.
  Proof.
    induction evs as [|e evs IH] using rev_ind; [reflexivity|].
    rewrite grun_snoc, greg_ops_app. destruct (grun ph evs) as [st cs]. cbn [fst] in IH. subst st.
    destruct e; cbn [gstep fst greg_ops flat_map]; rewrite ?app_nil_r; auto.
    rewrite fold_left_app. reflexivity.
  Qed.

  (* a matched connection was matched by one definite Read, by a transport that returned Found on the bytes
     received up to that Read against the view of the registry produced by the operations before that Read *)
  Lemma gconn_match_step ph evs t r c b :
    snd (grun ph evs) = CMatched t r c b ->
    exists pre chunk ch post buf poss,
      evs = pre ++ GRead chunk ch :: post /\
      snd (grun ph pre) = CReading buf poss /\ b = buf ++ chunk /\ mem_tk t poss = true /\
      wrap_tk reveal mark hs table keys t ch (rview (fold_left rstep (greg_ops pre) r0) ph) b = Found r c.
  Proof.
    induction evs as [|e evs IH] using rev_ind; [discriminate|].
    rewrite grun_snoc. pose proof (grun_registry ph evs) as Hreg.
    destruct (grun ph evs) as [st cs] eqn:Ecr. cbn [fst snd] in *.
    assert (Hold : cs = CMatched t r c b ->
                   exists pre chunk ch post buf poss,
                     evs ++ [e] = pre ++ GRead chunk ch :: post /\
                     snd (grun ph pre) = CReading buf poss /\ b = buf ++ chunk /\ mem_tk t poss = true /\
                     wrap_tk reveal mark hs table keys t ch (rview (fold_left rstep (greg_ops pre) r0) ph) b = Found r c).
    { intros H. apply IH in H as (pre & chunk & ch & post & buf & poss & -> & H).
      exists pre, chunk, ch, (post ++ [e]), buf, poss. split; [|exact H].
      rewrite <- app_assoc. reflexivity. }
    destruct e as [op| |chunk ch|]; cbn [gstep snd].
    - exact Hold.
    - destruct cs; try exact Hold; try discriminate. destruct (rcount st ph <? 1); discriminate.
    - destruct cs as [|buf poss| | | |]; try exact Hold; try discriminate.
      intros H. apply try_ts_matched in H as (-> & Hm & Hw). subst st.
      exists evs, chunk, ch, [], buf, poss. rewrite Ecr. cbn [snd].
      split; [reflexivity|]. split; [reflexivity|]. split; [reflexivity|]. split; [exact Hm|exact Hw].
    - destruct cs; try exact Hold; discriminate.
  Qed.
End Gen.
