(* C02: proofs about the timed registry (ModelTime.v). *)
From CJ Require Import Common.Base Common.BaseProofs C02.Model C02.Spec C02.Proofs C02.ModelTime.

Lemma set_valid_true_id : forall r, r_valid r = true -> set_valid true r = r.
Proof. intros [n v t p] H; simpl in H; subst; reflexivity. Qed.

Lemma mark_valid_noop :
  forall ph id name st, stored_valid st ph id name = true -> map (mark_valid ph id name) st = st.
Proof.
  intros ph id name st; unfold stored_valid; induction st as [|e st IH]; simpl; intro H; [reflexivity|].
  apply andb_true_iff in H; destruct H as [H1 H2].
  rewrite (IH H2). f_equal.
  unfold mark_valid. destruct (key_eqb ph id e && (r_name (e_reg e) =? name)) eqn:K; [|reflexivity].
  simpl in H1. destruct e as [p i r]; simpl in *. rewrite (set_valid_true_id r H1). reflexivity.
Qed.

Lemma dup_is_noop : forall s op, is_dup s op = true -> tstep s op = s.
Proof.
  intros [st ts] op H; destruct op as [o| | |]; try discriminate.
  destruct o as [ph id r|ph id r| | |]; try discriminate; simpl in H.
  - unfold tstep; simpl. unfold track. rewrite H. reflexivity.
  - apply andb_true_iff in H; destruct H as [H1 H2].
    unfold tstep; simpl. unfold validate, track. rewrite H1.
    rewrite (mark_valid_noop _ _ _ _ H2). reflexivity.
Qed.

Lemma erase_from_same : forall ops s, trun_from s (erase_from s ops) = trun_from s ops.
Proof.
  induction ops as [|op rest IH]; intro s; simpl; [reflexivity|].
  destruct (is_dup s op) eqn:D.
  - rewrite (dup_is_noop s op D). apply IH.
  - simpl. apply IH.
Qed.

Lemma flat_from_run :
  forall ops s, fold_left step (flat_from s ops) (fst s) = fst (trun_from s ops).
Proof.
  induction ops as [|op rest IH]; intro s; simpl; [reflexivity|].
  rewrite fold_left_app. change (fold_left step (emit s op) (fst s)) with (fst (tstep s op)).
  apply IH.
Qed.

Lemma flat_run : forall ops, run (flat ops) = fst (trun ops).
Proof. intro ops. unfold run, flat, trun. apply (flat_from_run ops ([], [])). Qed.

Lemma erase_flat_run : forall ops, run (flat (erase ops)) = run (flat ops).
Proof. intro ops. rewrite !flat_run. unfold trun, erase. rewrite erase_from_same. reflexivity. Qed.

Lemma sweep_within : forall s t, In t (snd (tstep s TSweep)) -> rec_within t = true.
Proof.
  intros [st ts] t H; simpl in H. apply filter_In in H; destruct H as [_ H].
  destruct t as [[[p i] a] u]; simpl in *.
  apply negb_true_iff in H. apply orb_false_iff in H; destruct H as [H1 H2].
  apply N.ltb_ge in H2.
  destruct u; simpl in *.
  - apply N.leb_le; exact H2.
  - apply N.ltb_ge in H1. apply N.leb_le; exact H1.
Qed.

(* a duplicate leaves every record - in particular its age - as it was *)
Lemma dup_keeps_records : forall s op, is_dup s op = true -> snd (tstep s op) = snd s.
Proof. intros s op H; rewrite (dup_is_noop s op H); reflexivity. Qed.

(* ------------------------------------------------------------------ every tracked entry has its record *)

(* every tracked entry has its timeout record *)
Definition has_rec (s : tstate) : Prop :=
  forall e, In e (fst s) -> exists a u, In (e_ph e, e_id e, a, u) (snd s).

Lemma rec_key_eqb_true ph id p i a u : rec_key_eqb ph id (p, i, a, u) = true <-> p = ph /\ i = id.
Proof. unfold rec_key_eqb. rewrite andb_true_iff, N.eqb_eq, bytes_eqb_eq. tauto. Qed.

Lemma in_map_mark ph id n e st : In e (map (mark_valid ph id n) st) -> exists e0, In e0 st /\ e_ph e0 = e_ph e /\ e_id e0 = e_id e.
Proof.
  intro H. apply in_map_iff in H as (e0 & <- & Hin). exists e0. split; [exact Hin|].
  unfold mark_valid. destruct (key_eqb ph id e0 && (r_name (e_reg e0) =? n)); simpl; auto.
Qed.

Lemma in_track ph id r e st : In e (track st ph id r) -> In e st \/ (tracked st ph id = false /\ e_ph e = ph /\ e_id e = id).
Proof.
  unfold track. destruct (tracked st ph id) eqn:T; intro H; [left; exact H|].
  apply in_app_or in H as [H|[<-|[]]]; [left; exact H|right; simpl; auto].
Qed.

Lemma has_rec_track_like :
  forall st ts ph id r e,
    has_rec (st, ts) -> In e (track st ph id r) ->
    exists a u, In (e_ph e, e_id e, a, u) (if tracked st ph id then ts else ts ++ [(ph, id, 0, false)]).
Proof.
  intros st ts ph id r e I H. apply in_track in H as [H|(T & H1 & H2)].
  - destruct (I e H) as (a & u & Hin). exists a, u. destruct (tracked st ph id); [exact Hin|apply in_or_app; left; exact Hin].
  - rewrite T, H1, H2. exists 0, false. apply in_or_app; right; left; reflexivity.
Qed.

Lemma expire_fold_in :
  forall l st e, In e (fold_left step (map rec_op l) st) ->
    In e st /\ forall a u, ~ In (e_ph e, e_id e, a, u) l.
Proof.
  induction l as [|t l IH]; intros st e H; simpl in *.
  - split; [exact H|intros a u []].
  - destruct t as [[[p i] a0] u0]. simpl in H. apply IH in H as [H1 H2].
    unfold expire in H1. apply filter_In in H1 as [H1 H3].
    split; [exact H1|]. intros a u [E|E]; [|exact (H2 a u E)].
    inversion E; subst. apply negb_true_iff in H3. apply key_eqb_false in H3. apply H3; split; reflexivity.
Qed.

Lemma has_rec_step : forall s op, has_rec s -> has_rec (tstep s op).
Proof.
  intros [st ts] op I. destruct op as [o|ph id|d|].
  - destruct o as [ph id r|ph id r|ph id| |]; unfold has_rec, tstep; simpl; intros e H.
    + eapply has_rec_track_like; eauto.
    + unfold validate in H. apply in_map_mark in H as (e0 & H0 & <- & <-).
      eapply has_rec_track_like; eauto.
    + unfold expire in H. apply filter_In in H as [H1 H2]. destruct (I e H1) as (a & u & Hin).
      exists a, u. apply filter_In. split; [exact Hin|].
      apply negb_true_iff in H2. apply key_eqb_false in H2.
      apply negb_true_iff. destruct (rec_key_eqb ph id (e_ph e, e_id e, a, u)) eqn:K; [|reflexivity].
      apply rec_key_eqb_true in K. tauto.
    + exact (I e H).
    + destruct H.
  - unfold has_rec, tstep; simpl; intros e H. destruct (I e H) as (a & u & Hin).
    destruct (rec_key_eqb ph id (e_ph e, e_id e, a, u)) eqn:K.
    + exists a, true. apply in_map_iff. exists (e_ph e, e_id e, a, u). split; [|exact Hin]. rewrite K. reflexivity.
    + exists a, u. apply in_map_iff. exists (e_ph e, e_id e, a, u). split; [|exact Hin]. rewrite K. reflexivity.
  - unfold has_rec, tstep; simpl; intros e H. destruct (I e H) as (a & u & Hin).
    exists (a + d), u. apply in_map_iff. exists (e_ph e, e_id e, a, u). split; [reflexivity|exact Hin].
  - unfold has_rec, tstep; simpl; intros e H. apply expire_fold_in in H as [H1 H2].
    destruct (I e H1) as (a & u & Hin). exists a, u. apply filter_In. split; [exact Hin|].
    apply negb_true_iff. destruct (rec_expired (e_ph e, e_id e, a, u)) eqn:X; [|reflexivity].
    exfalso. apply (H2 a u). apply filter_In. split; assumption.
Qed.

Lemma has_rec_run : forall ops s, has_rec s -> has_rec (trun_from s ops).
Proof. induction ops as [|op rest IH]; intros s I; simpl; [exact I|]. apply IH. apply has_rec_step. exact I. Qed.

(* whatever is tracked right after a sweep - in particular whatever a flight can be matched to - has a timeout
   record that is within its lifetime: age (changed by the passing of time alone since the record was created at
   the ORIGINAL registration) <= 10 min if never used, <= 6 h if used *)
Lemma tracked_after_sweep_within :
  forall ops e, In e (fst (trun (ops ++ [TSweep]))) ->
    exists a u, In (e_ph e, e_id e, a, u) (snd (trun (ops ++ [TSweep]))) /\ rec_within (e_ph e, e_id e, a, u) = true.
Proof.
  intros ops e H.
  assert (I : has_rec (trun (ops ++ [TSweep]))) by (apply has_rec_run; intros x []).
  destruct (I e H) as (a & u & Hin). exists a, u. split; [exact Hin|].
  unfold trun, trun_from in Hin. rewrite fold_left_app in Hin. simpl in Hin.
  eapply sweep_within. exact Hin.
Qed.
