(* C02: proofs about the timed registry (ModelTime.v). *)
From CJ Require Import Common.Base C02.Model C02.ModelTime.

Lemma set_valid_true_id : forall r, r_valid r = true -> set_valid true r = r.
Proof. intros [n v t p] H; simpl in H; subst; reflexivity. Qed.

Lemma mark_valid_noop :
  forall ph id name st, stored_valid st ph id name = true -> map (mark_valid ph id name) st = st.
Proof.
  intros ph id name st; unfold stored_valid; induction st as [|e st IH]; simpl; intro H; [reflexivity|].
  apply andb_true_iff in H; destruct H as [H1 H2].
  rewrite (IH H2). f_equal.
  unfold mark_valid. destruct (key_eqb ph id e && (r_name (e_reg e) =? name)) eqn:K; [|reflexivity].
  simpl in H1. destruct e as [p i r]; simpl in *. rewrite (set_valid_true_id r H1). reflexivity.
Qed.

Lemma dup_is_noop : forall s op, is_dup s op = true -> tstep s op = s.
Proof.
  intros [st ts] op H; destruct op as [o| | |]; try discriminate.
  destruct o as [ph id r|ph id r| | |]; try discriminate; simpl in H.
  - unfold tstep; simpl. unfold track. rewrite H. reflexivity.
  - apply andb_true_iff in H; destruct H as [H1 H2].
    unfold tstep; simpl. unfold validate, track. rewrite H1.
    rewrite (mark_valid_noop _ _ _ _ H2). reflexivity.
Qed.

Lemma erase_from_same : forall ops s, trun_from s (erase_from s ops) = trun_from s ops.
Proof.
  induction ops as [|op rest IH]; intro s; simpl; [reflexivity|].
  destruct (is_dup s op) eqn:D.
  - rewrite (dup_is_noop s op D). apply IH.
  - simpl. apply IH.
Qed.

Lemma flat_from_run :
  forall ops s, fold_left step (flat_from s ops) (fst s) = fst (trun_from s ops).
Proof.
  induction ops as [|op rest IH]; intro s; simpl; [reflexivity|].
  rewrite fold_left_app. change (fold_left step (emit s op) (fst s)) with (fst (tstep s op)).
  apply IH.
Qed.

Lemma flat_run : forall ops, run (flat ops) = fst (trun ops).
Proof. intro ops. unfold run, flat, trun. apply (flat_from_run ops ([], [])). Qed.

Lemma erase_flat_run : forall ops, run (flat (erase ops)) = run (flat ops).
Proof. intro ops. rewrite !flat_run. unfold trun, erase. rewrite erase_from_same. reflexivity. Qed.

Lemma sweep_within : forall s t, In t (snd (tstep s TSweep)) -> rec_within t = true.
Proof.
  intros [st ts] t H; simpl in H. apply filter_In in H; destruct H as [_ H].
  destruct t as [[[p i] a] u]; simpl in *.
  apply negb_true_iff in H. apply orb_false_iff in H; destruct H as [H1 H2].
  apply N.ltb_ge in H2.
  destruct u; simpl in *.
  - apply N.leb_le; exact H2.
  - apply N.ltb_ge in H1. apply N.leb_le; exact H1.
Qed.

(* a duplicate leaves every record - in particular its age - as it was *)
Lemma dup_keeps_records : forall s op, is_dup s op = true -> snd (tstep s op) = snd s.
Proof. intros s op H; rewrite (dup_is_noop s op H); reflexivity. Qed.
