(* C02 x C08, connection level: the read loop of handleNewTCPConn (ConnGen.v) over builder C08's registry in REAL
   TIME.  A history interleaves C08's operations (Track / Validate / MarkActive / Advance d / Sweep ...) with the
   steps of one open connection; every classification attempt sees `view_of (state now)`. *)
From CJ Require Import Common.Base.
From CJ Require C08.Model.
From CJ Require Import C02.Model C02.Spec C02.ProofsWrap C02.ProofsTop C02.ModelConn C02.ProofsConn C02.ConnGen C02.Bridge08.

Section RT.
  Variable enc : R.ident -> bytes.
  Variable name_of : R.regkey -> N.
  Variable params_of : R.regkey -> params.
  Variable reveal : N -> bytes -> option bytes.
  Variable mark : bytes -> bytes -> bytes.
  Variable hs : bytes -> bytes -> bool.
  Variable table : list pfx.
  Variable keys : list N.

  Definition rt_view (s : R.st) (ph : phantom) : view := view_of enc name_of params_of s ph.
  Definition rt_count (s : R.st) (ph : phantom) : N := N.of_nat (R.count s ph).

  Definition rt_run (ph : phantom) (evs : list (gev R.rop)) : R.st * cstate :=
    grun R.st R.rop R.step R.init rt_view rt_count reveal mark hs table keys ph evs.
  Definition rt_ops (evs : list (gev R.rop)) : list R.rop := greg_ops R.rop evs.

  (* what a match by transport t on the bytes `data` says, over the real-time history h *)
  Definition carried_rt (h : list R.rop) (ph : phantom) (t : tk) (data : bytes) (c : N) (r : reginfo) : Prop :=
    match t with
    | TMin => min_tag_len <= blen data /\ c = min_tag_len /\
              registered_rt enc name_of params_of h ph (take min_tag_len data) r
    | TPrefix => exists p k id,
        In p table /\ In k keys /\ static_ok p data = true /\ c = p_offset p + ptag_len /\
        reveal k (tag_at p data) = Some id /\ registered_rt enc name_of params_of h ph id r /\
        r_transport r = tt_prefix /\ r_params r = PPrefix (p_id p)
    | TObfs4 => exists id,
        blen id = o_id_len /\ registered_rt enc name_of params_of h ph id r /\
        mark_window data = mark id (take o_rep_len data) /\ hs id data = true
    end.

  Lemma rt_wrap_found h ph t ch data r c :
    wrap_tk reveal mark hs table keys t ch (rt_view (R.run h) ph) data = Found r c -> carried_rt h ph t data c r.
  Proof.
    unfold rt_view. destruct t; cbn [ModelConn.wrap_tk carried_rt]; intros H.
    - apply rt_found_min in H. exact H.
    - apply (rt_found_obfs4 enc name_of params_of mark hs _ h ph _ _ _ (pick_incl _ _)) in H. exact H.
    - apply rt_found_prefix in H as (p & k & id & Hp & H). exists p, k, id. split; [apply pick_incl in Hp; exact Hp|exact H].
  Qed.

  Lemma rt_run_registry ph evs : fst (rt_run ph evs) = R.run (rt_ops evs).
  Proof. apply (grun_registry R.st R.rop R.step R.init). Qed.

  Lemma rt_conn_match_step ph evs t r c b :
    snd (rt_run ph evs) = CMatched t r c b ->
    exists pre chunk ch post buf poss,
      evs = pre ++ GRead R.rop chunk ch :: post /\
      snd (rt_run ph pre) = CReading buf poss /\ b = buf ++ chunk /\ mem_tk t poss = true /\
      carried_rt (rt_ops pre) ph t b c r.
  Proof.
    intros H. apply gconn_match_step in H as (pre & chunk & ch & post & buf & poss & E1 & E2 & E3 & E4 & Hw).
    exists pre, chunk, ch, post, buf, poss. repeat (split; [assumption|]).
    apply (rt_wrap_found (rt_ops pre) ph t ch b r c). exact Hw.
  Qed.

  (* the match happened right after a sweep (no time passed since): the matched registration is within its lifetime *)
  Lemma rt_wrap_found_in_lifetime h0 tl ph t ch data r c :
    no_time tl ->
    wrap_tk reveal mark hs table keys t ch (rt_view (R.run (h0 ++ R.Sweep :: tl)) ph) data = Found r c ->
    exists k a u, R.k_ph k = ph /\ r = info name_of params_of k /\
      R.ghost (h0 ++ R.Sweep :: tl) k = Some (a, u) /\ (a <= R.ten_min \/ (u = true /\ a <= R.six_h)).
  Proof.
    unfold rt_view. intros NT. destruct t; cbn [ModelConn.wrap_tk]; intros H.
    - apply (rt_found_min_in_lifetime enc name_of params_of h0 tl ph data r c NT) in H as (k & a & u & H1 & _ & H).
      exists k, a, u. split; [exact H1|exact H].
    - apply (rt_found_obfs4_in_lifetime enc name_of params_of mark hs _ h0 tl ph data r c NT (pick_incl _ _)) in H. exact H.
    - apply (rt_found_prefix_in_lifetime enc name_of params_of reveal _ keys h0 tl ph data r c NT) in H. exact H.
  Qed.

  Lemma rt_conn_match_in_lifetime ph evs t r c b :
    snd (rt_run ph evs) = CMatched t r c b ->
    exists pre chunk ch post,
      evs = pre ++ GRead R.rop chunk ch :: post /\
      forall h0 tl, rt_ops pre = h0 ++ R.Sweep :: tl -> no_time tl ->
        exists k a u, R.k_ph k = ph /\ r = info name_of params_of k /\
          R.ghost (rt_ops pre) k = Some (a, u) /\ (a <= R.ten_min \/ (u = true /\ a <= R.six_h)).
  Proof.
    intros H. apply gconn_match_step in H as (pre & chunk & ch & post & buf & poss & E1 & E2 & E3 & E4 & Hw).
    exists pre, chunk, ch, post. split; [exact E1|]. intros h0 tl Eh NT.
    change (fold_left R.step (greg_ops R.rop pre) R.init) with (R.run (rt_ops pre)) in Hw.
    rewrite Eh in *. eapply rt_wrap_found_in_lifetime; eauto.
  Qed.
End RT.
