(* C02: evaluation of the model on recorded cases (correspondence check). *)
From CJ Require Import Common.Base C02.Model.

(* ---- oracle values observed by the driver instantiate the section variables ---- *)

(* reveal table: (key index, offset in the stream, revealed identifier) *)
Definition rtab := list (N * N * option bytes).
Fixpoint reveal_of (t : rtab) (data : bytes) (k : N) (c : bytes) : option bytes :=
  match t with
  | [] => None
  | (k', off, v) :: r =>
    if (k' =? k) && bytes_eqb (take ptag_len (drop off data)) c then v else reveal_of r data k c
  end.

(* mark table for the stream's representative: (identifier, mark, server handshake accepts) *)
Definition mtab := list (bytes * bytes * bool).
Fixpoint mark_of (t : mtab) (id rep : bytes) : bytes :=
  match t with
  | [] => []
  | (i, m, _) :: r => if bytes_eqb i id then m else mark_of r id rep
  end.
Fixpoint hs_of (t : mtab) (id data : bytes) : bool :=
  match t with
  | [] => false
  | (i, _, h) :: r => if bytes_eqb i id then h else hs_of r id data
  end.

(* ---- projection of outcomes: (class, registration name, consumed) ---- *)
Definition obs := (N * N * N)%type.
Definition proj (w : wres) : obs :=
  match w with
  | TryAgain => (0, 0, 0)
  | NotTransport => (1, 0, 0)
  | ErrIncorrectTransport => (2, 0, 0)
  | ErrIncorrectPrefix => (3, 0, 0)
  | Found r c => (4, r_name r, c)
  | ErrHandshake r => (5, r_name r, 0)
  | WPanic => (6, 0, 0)
  end.
Definition obs_eqb (a b : obs) : bool :=
  let '(a1, a2, a3) := a in let '(b1, b2, b3) := b in (a1 =? b1) && (a2 =? b2) && (a3 =? b3).

Fixpoint range (n : nat) : list N :=
  match n with O => [] | S k => range k ++ [N.of_nat k] end.

(* transport codes of a case: 0 min, 1 prefix, 2 obfs4 *)
Definition allowed (tr : N) (st : registry) (ph : N) (data : bytes) (table : list pfx) (nkeys : N)
           (rt : rtab) (mt : mtab) : list obs :=
  let v := get_regs st ph in
  match tr with
  | 0 => [proj (wrap_min v data)]
  | 1 => map proj (wrap_prefix_allowed (reveal_of rt data) table (range (N.to_nat nkeys)) v data)
  | _ => map proj (wrap_obfs4_allowed (mark_of mt) (hs_of mt) v data)
  end.

Definition wcase := (list rop * N * N * bytes * list pfx * N * rtab * mtab * obs)%type.

Definition chk (c : wcase) : bool :=
  let '(ops, tr, ph, data, table, nkeys, rt, mt, o) := c in
  existsb (obs_eqb o) (allowed tr (run ops) ph data table nkeys rt mt).

(* what the model computes, for the failure report *)
Definition show (c : wcase) : list obs :=
  let '(ops, tr, ph, data, table, nkeys, rt, mt, o) := c in
  allowed tr (run ops) ph data table nkeys rt mt.

(* ---- registry view correspondence ---- *)
Definition params_code (p : params) : N * Z :=
  match p with
  | PAbsent => (0, 0%Z) | PTypedNil => (1, 0%Z) | PPrefix z => (2, z) | PGeneric => (3, 0%Z) | POther => (4, 0%Z)
  end.
Definition vobs := (bytes * N * N * (N * Z))%type.        (* identifier, name, transport, params *)
Definition vobs_eqb (a b : vobs) : bool :=
  let '(a1, a2, a3, (a4, a5)) := a in let '(b1, b2, b3, (b4, b5)) := b in
  bytes_eqb a1 b1 && (a2 =? b2) && (a3 =? b3) && (a4 =? b4) && (a5 =? b5)%Z.
Definition view_obs (v : view) : list vobs :=
  map (fun e => (fst e, r_name (snd e), r_transport (snd e), params_code (r_params (snd e)))) v.

Definition vcase := (list rop * N * list vobs * N)%type.   (* history, phantom, observed view, tracked count *)
Definition chk_view (c : vcase) : bool :=
  let '(ops, ph, o, cnt) := c in
  let m := view_obs (get_regs (run ops) ph) in
  (length m =? length o)%nat && forallb (fun x => existsb (vobs_eqb x) m) o
  && forallb (fun x => existsb (vobs_eqb x) o) m && (count_regs (run ops) ph =? cnt).

(* ---- compact descriptions of mutated streams in generated case files ---- *)
Definition xbit (i : N) (d : bytes) : bytes :=
  let k := N.to_nat (i / 8) in
  match skipn k d with
  | [] => d
  | b :: r => firstn k d ++ N.lxor b (2 ^ (i mod 8)) :: r
  end.
Definition R (n t : N) (p : params) : reginfo :=
  {| r_name := n; r_valid := false; r_transport := t; r_params := p |}.
Definition P (id : Z) (s : bytes) (off mn mx : N) : pfx :=
  {| p_id := id; p_static := s; p_offset := off; p_minlen := mn; p_maxlen := mx |}.

(* byte strings in generated files are written as one hexadecimal number with a leading 1 digit
   (Coq parses string literals about 50 times slower than number literals) *)
Fixpoint unN (fuel : nat) (n : N) (acc : bytes) : bytes :=
  match fuel with
  | O => acc
  | S f => match n with
           | 0 => acc
           | Npos xH => acc
           | _ => unN f (N.shiftr n 8) (N.land n 255 :: acc)
           end
  end.
Definition unhexN (n : N) : bytes := unN (N.to_nat (N.size n)) n [].
Definition G : option bytes := Some [0].   (* a revealed value that is no identifier of the scenario *)
