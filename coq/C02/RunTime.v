(* C02, connection level over virtual time: a recorded connection history whose registry operations are the timed
   operations of ModelTime.v (track / validate / duplicate reception / markActive / time passing / the real sweep)
   is flattened BY THE MODEL into the history RunConn.v replays: what a sweep removes is decided by the model's own
   timeout records (age since the ORIGINAL registration, used), not by the driver. *)
From CJ Require Import Common.Base C02.Model C02.ModelConn C02.ModelTime C02.Run C02.RunConn.

Inductive txev :=
| TX (e : xev)
| TT (op : top).

Fixpoint flat_x_from (s : tstate) (evs : list txev) : list xev :=
  match evs with
  | [] => []
  | TX (XReg op) :: rest => XReg op :: flat_x_from (tstep s (TO op)) rest
  | TX e :: rest => e :: flat_x_from s rest
  | TT op :: rest => map XReg (emit s op) ++ flat_x_from (tstep s op) rest
  end.
Definition flat_x (evs : list txev) : list xev := flat_x_from ([], []) evs.

(* the timed registry operations of a recorded history *)
Fixpoint tops_of (evs : list txev) : list top :=
  match evs with
  | [] => []
  | TX (XReg op) :: rest => TO op :: tops_of rest
  | TX _ :: rest => tops_of rest
  | TT op :: rest => op :: tops_of rest
  end.
Fixpoint xreg_ops (evs : list xev) : list rop :=
  match evs with
  | [] => []
  | XReg op :: rest => op :: xreg_ops rest
  | _ :: rest => xreg_ops rest
  end.

Lemma xreg_ops_app : forall a b, xreg_ops (a ++ b) = xreg_ops a ++ xreg_ops b.
Proof. induction a as [|e a IH]; intro b; simpl; [reflexivity|]. destruct e; simpl; rewrite ?IH; reflexivity. Qed.
Lemma xreg_ops_map : forall l, xreg_ops (map XReg l) = l.
Proof. induction l as [|x l IH]; simpl; [reflexivity|]. rewrite IH; reflexivity. Qed.

(* the registry operations of the flattened history are those of the timed model run on the history's timed
   operations: the replay of RunConn.v sees, at every step, the registry of ModelTime.v *)
Lemma flat_x_from_ops : forall evs s, xreg_ops (flat_x_from s evs) = flat_from s (tops_of evs).
Proof.
  induction evs as [|e rest IH]; intro s; simpl; [reflexivity|].
  destruct e as [x|op].
  - destruct x; simpl; rewrite ?IH; reflexivity.
  - rewrite xreg_ops_app, xreg_ops_map, IH. reflexivity.
Qed.
Lemma flat_x_ops : forall evs, xreg_ops (flat_x evs) = flat (tops_of evs).
Proof. intro evs. apply flat_x_from_ops. Qed.
