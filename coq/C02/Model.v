(* C02 model: the registry view and the WrapConnection classification of the three
   wrapping transports (min, prefix, obfs4).  Definitions only; executable.

   Source: pkg/station/lib/registration.go (track / register / removeRegistration /
   getRegistrations), pkg/transports/wrapping/{min/min.go, prefix/prefix.go,
   obfs4/obfs4.go, obfs4/utils.go}, pkg/transports/obfuscate.go (TryReveal, abstract). *)
From CJ Require Export Common.Base.

(* ------------------------------------------------------------------ registry *)

(* reg.TransportParams() as the prefix transport looks at it *)
Inductive params :=
| PAbsent                 (* nil interface: ParseParams(nil) *)
| PTypedNil               (* typed nil pointer to PrefixTransportParams *)
| PPrefix (id : Z)        (* PrefixTransportParams pointer with GetPrefixId() = id *)
| PGeneric                (* GenericTransportParams pointer *)
| POther.

Record reginfo := { r_name : N;            (* identity of the registration object *)
                    r_valid : bool;
                    r_transport : N;       (* pb.TransportType *)
                    r_params : params }.

Definition ident := bytes.                 (* Transport.GetIdentifier *)
Definition phantom := N.                   (* PhantomIp.String(), numbered *)

Record entry := { e_ph : phantom; e_id : ident; e_reg : reginfo }.
Definition registry := list entry.         (* decoys[phantom][identifier], keys unique *)

Definition set_valid (b : bool) (r : reginfo) : reginfo :=
  {| r_name := r_name r; r_valid := b; r_transport := r_transport r; r_params := r_params r |}.

Definition key_eqb (ph : phantom) (id : ident) (e : entry) : bool :=
  (e_ph e =? ph) && bytes_eqb (e_id e) id.

Definition tracked (st : registry) (ph : phantom) (id : ident) : bool := existsb (key_eqb ph id) st.

(* RegisteredDecoys.track: an already tracked (phantom, identifier) keeps the stored
   object; a new one is stored with Valid = false *)
Definition track (st : registry) (ph : phantom) (id : ident) (r : reginfo) : registry :=
  if tracked st ph id then st
  else st ++ [{| e_ph := ph; e_id := id; e_reg := set_valid false r |}].

(* RegisteredDecoys.register: track if unknown, then mark the stored object valid - but only if it
   is the caller's own object (pointer identity, here the object's name): a different object
   stored under the same identifier is never validated on the caller's behalf *)
Definition mark_valid (ph : phantom) (id : ident) (name : N) (e : entry) : entry :=
  if key_eqb ph id e && (r_name (e_reg e) =? name)
  then {| e_ph := e_ph e; e_id := e_id e; e_reg := set_valid true (e_reg e) |}
  else e.

Definition validate (st : registry) (ph : phantom) (id : ident) (r : reginfo) : registry :=
  map (mark_valid ph id (r_name r)) (track st ph id r).

(* removeRegistration of the (phantom, identifier) whose timeout has run out *)
Definition expire (st : registry) (ph : phantom) (id : ident) : registry :=
  filter (fun e => negb (key_eqb ph id e)) st.

Inductive rop :=
| Track (ph : phantom) (id : ident) (r : reginfo)
| Validate (ph : phantom) (id : ident) (r : reginfo)
| Expire (ph : phantom) (id : ident)
| Sweep                                    (* removeOldRegistrations with nothing timed out *)
| ExpireAll.                               (* the lifetime of everything tracked so far runs out, then the sweep *)

Definition step (st : registry) (op : rop) : registry :=
  match op with
  | Track ph id r => track st ph id r
  | Validate ph id r => validate st ph id r
  | Expire ph id => expire st ph id
  | Sweep => st
  | ExpireAll => []
  end.

Definition run (ops : list rop) : registry := fold_left step ops [].

(* RegistrationManager.GetRegistrations(phantom): only Valid entries of that phantom *)
Definition view := list (ident * reginfo).
Definition get_regs (st : registry) (ph : phantom) : view :=
  map (fun e => (e_id e, e_reg e))
      (filter (fun e => (e_ph e =? ph) && r_valid (e_reg e)) st).

(* CountRegistrations(phantom): all tracked entries *)
Definition count_regs (st : registry) (ph : phantom) : N :=
  N.of_nat (length (filter (fun e => e_ph e =? ph) st)).

Fixpoint lookup (id : ident) (v : view) : option reginfo :=
  match v with
  | [] => None
  | (i, r) :: rest => if bytes_eqb i id then Some r else lookup id rest
  end.

(* ------------------------------------------------------------------ outcomes *)

Inductive wres :=
| TryAgain                               (* transports.ErrTryAgain *)
| NotTransport                           (* transports.ErrNotTransport *)
| ErrIncorrectTransport                  (* prefix.ErrIncorrectTransport *)
| ErrIncorrectPrefix                     (* prefix.ErrIncorrectPrefix *)
| ErrHandshake (r : reginfo)             (* obfs4: mark found, server handshake failed *)
| Found (r : reginfo) (consumed : N)     (* err == nil *)
| WPanic.

Definition tt_min : N := 1.
Definition tt_obfs4 : N := 2.
Definition tt_prefix : N := 4.

(* ------------------------------------------------------------------ min *)

Definition min_tag_len : N := 32.

Definition wrap_min (v : view) (data : bytes) : wres :=
  if blen data <? min_tag_len then TryAgain
  else match lookup (take min_tag_len data) v with
       | None => NotTransport
       | Some r => Found r min_tag_len
       end.

(* ------------------------------------------------------------------ prefix *)

Record pfx := { p_id : Z; p_static : bytes; p_offset : N; p_minlen : N; p_maxlen : N }.

Definition ptag_len : N := 64.

(* prefix_table_wf: what the recognition thresholds rely on *)
Definition pfx_wf (p : pfx) : bool :=
  (p_offset p =? blen (p_static p)) && (p_minlen p =? p_offset p + ptag_len) && (p_maxlen p =? p_offset p + ptag_len).
Fixpoint znodup (l : list Z) : bool :=
  match l with [] => true | x :: r => negb (existsb (Z.eqb x) r) && znodup r end.
Definition table_wf (t : list pfx) : bool := forallb pfx_wf t && znodup (map p_id t).

Inductive pverdict := PSkip | PMore | PWrong | PTerm (w : wres).

Definition o_min_hs : N := 64.            (* ClientMinHandshakeLength *)
Definition o_rep_len : N := 32.           (* ntor.RepresentativeLength *)
Definition o_start : N := 109.            (* RepresentativeLength + ClientMinPadLength *)
Definition o_max_hs : N := 8192.          (* MaxHandshakeLength *)
Definition o_mark_len : N := 16.
Definition o_mac_len : N := 16.
Definition o_id_len : N := 52.            (* PublicKeyLength + NodeIDLength *)

Inductive overdict := OSkip | OTerm (w : wres).

Section Wrap.
  (* TagObfuscator.TryReveal(cipher, Privkeys[k]) = (id, nil) with id != nil *)
  Variable reveal : N -> bytes -> option bytes.
  (* obfs4 generateMark: HMAC-SHA256(pubkey ++ nodeID = identifier, representative)[:16] *)
  Variable mark : bytes -> bytes -> bytes.
  (* the obfs4 library's server handshake with the registration's keys accepts the stream *)
  Variable hs : bytes -> bytes -> bool.

  (* Transport.getReg *)
  Fixpoint get_reg (keys : list N) (v : view) (c : bytes) : option reginfo :=
    match keys with
    | [] => None
    | k :: ks =>
      match reveal k c with
      | Some id => match lookup id v with Some r => Some r | None => get_reg ks v c end
      | None => get_reg ks v c
      end
    end.

  Definition static_ok (p : pfx) (data : bytes) : bool :=
    let sl := blen (p_static p) in
    let m := N.min sl (blen data) in
    (sl =? 0) || bytes_eqb (take m (p_static p)) (take m data).

  Definition tag_at (p : pfx) (data : bytes) : bytes := take ptag_len (drop (p_offset p) data).

  (* the registration found under prefix p: transport type and prefix id checks *)
  Definition prefix_accept (p : pfx) (r : reginfo) : pverdict :=
    if negb (r_transport r =? tt_prefix) then PTerm ErrIncorrectTransport
    else match r_params r with
         | PPrefix pid => if (pid =? p_id p)%Z then PTerm (Found r (p_offset p + ptag_len)) else PWrong
         | _ => PWrong          (* typed nil, absent (nil interface) or of another type *)
         end.

  (* one iteration of the loop in tryFindReg *)
  Definition prefix_verdict (keys : list N) (v : view) (data : bytes) (p : pfx) : pverdict :=
    let n := blen data in
    if negb (static_ok p data) then PSkip
    else if n <? p_minlen p then PMore
    else if (n <? p_offset p + ptag_len) && (n <? p_maxlen p) then PMore
    else if n <? p_maxlen p then PSkip
    else if n <? p_offset p + ptag_len then PTerm WPanic      (* slice beyond the data *)
    else match get_reg keys v (tag_at p data) with
         | None => PSkip
         | Some r => prefix_accept p r
         end.

  Definition prefix_final (more wrong : bool) : wres :=
    if more then TryAgain else if wrong then ErrIncorrectPrefix else NotTransport.

  (* the loop over SupportedPrefixes in the order Go's map iteration happens to produce *)
  Fixpoint prefix_loop (keys : list N) (v : view) (data : bytes) (order : list pfx) (more wrong : bool) : wres :=
    match order with
    | [] => prefix_final more wrong
    | p :: rest =>
      match prefix_verdict keys v data p with
      | PSkip => prefix_loop keys v data rest more wrong
      | PMore => prefix_loop keys v data rest true wrong
      | PWrong => prefix_loop keys v data rest more true
      | PTerm w => w
      end
    end.

  Definition wrap_prefix_ord (order : list pfx) (keys : list N) (v : view) (data : bytes) : wres :=
    if blen data <? ptag_len then TryAgain else prefix_loop keys v data order false false.

  Definition is_more (x : pverdict) : bool := match x with PMore => true | _ => false end.
  Definition is_wrong (x : pverdict) : bool := match x with PWrong => true | _ => false end.
  Definition terms_of (vs : list pverdict) : list wres :=
    flat_map (fun x => match x with PTerm w => [w] | _ => [] end) vs.

  (* every outcome some iteration order can produce *)
  Definition wrap_prefix_allowed (table : list pfx) (keys : list N) (v : view) (data : bytes) : list wres :=
    if blen data <? ptag_len then [TryAgain]
    else let vs := map (prefix_verdict keys v data) table in
         match terms_of vs with
         | [] => [prefix_final (existsb is_more vs) (existsb is_wrong vs)]
         | ts => ts
         end.

  (* ---------------------------------------------------------------- obfs4 *)

  (* findMarkMac(mark, buf, o_start, o_max_hs, fromTail = true) *)
  Definition find_mark (m data : bytes) : option N :=
    let n := blen data in
    if n <? o_start then None
    else let e := N.min n o_max_hs in
         if e - o_start <? o_mark_len + o_mac_len then None
         else let pos := e - (o_mark_len + o_mac_len) in
              if bytes_eqb (take o_mark_len (drop pos data)) m then Some pos else None.

  Definition obfs4_verdict (data : bytes) (e : ident * reginfo) : overdict :=
    let m := mark (fst e) (take o_rep_len data) in
    if negb (blen m =? o_mark_len) then OTerm WPanic
    else match find_mark m data with
         | None => OSkip
         | Some _ => OTerm (if hs (fst e) data then Found (snd e) (N.min (blen data) o_max_hs)
                            else ErrHandshake (snd e))
         end.

  Definition obfs4_final (data : bytes) : wres :=
    if blen data <? o_max_hs then TryAgain else NotTransport.

  Fixpoint obfs4_loop (data : bytes) (order : view) : wres :=
    match order with
    | [] => obfs4_final data
    | e :: rest => match obfs4_verdict data e with
                   | OSkip => obfs4_loop data rest
                   | OTerm w => w
                   end
    end.

  Definition obfs4_regs (v : view) : view := filter (fun e => blen (fst e) =? o_id_len) v.

  (* order: the view in the order Go's map iteration happens to produce *)
  Definition wrap_obfs4_ord (order : view) (data : bytes) : wres :=
    if blen data <? o_min_hs then TryAgain else obfs4_loop data (obfs4_regs order).

  Definition oterms_of (vs : list overdict) : list wres :=
    flat_map (fun x => match x with OTerm w => [w] | _ => [] end) vs.

  Definition wrap_obfs4_allowed (v : view) (data : bytes) : list wres :=
    if blen data <? o_min_hs then [TryAgain]
    else match oterms_of (map (obfs4_verdict data) (obfs4_regs v)) with
         | [] => [obfs4_final data]
         | ts => ts
         end.
End Wrap.
