(* C02, connection level: specification-side predicates and the lemmas behind PropsConn.v. *)
From CJ Require Import Common.Base Common.BaseProofs C02.Model C02.Spec C02.Proofs C02.ProofsWrap C02.ProofsTop C02.ModelConn.
From Coq Require Import Lia ZifyN ZifyNat ZifyBool Permutation.

Section ConnProofs.
  Variable reveal : N -> bytes -> option bytes.
  Variable mark : bytes -> bytes -> bytes.
  Variable hs : bytes -> bytes -> bool.
  Variable table : list pfx.
  Variable keys : list N.

  (* "the first bytes prove knowledge of the secret behind identifier id, for transport t" - what the
     bytes received so far must look like for transport t to return registration r with c bytes consumed
     (that only a holder of the secret can make them look like that is the cryptographic assumption) *)
  Definition carried (t : tk) (data : bytes) (c : N) (r : reginfo) (id : ident) : Prop :=
    match t with
    | TMin => min_tag_len <= blen data /\ c = min_tag_len /\ id = take min_tag_len data
    | TPrefix =>
      exists p k, In p table /\ In k keys /\ static_ok p data = true /\
                  p_offset p + ptag_len <= blen data /\ c = p_offset p + ptag_len /\
                  reveal k (tag_at p data) = Some id /\
                  r_transport r = tt_prefix /\ r_params r = PPrefix (p_id p)
    | TObfs4 =>
      blen id = o_id_len /\ o_start + o_mark_len + o_mac_len <= blen data /\
      mark_window data = mark id (take o_rep_len data) /\ hs id data = true
    end.

  Notation wrap_tk := (wrap_tk reveal mark hs table keys).
  Notation try_ts := (try_ts reveal mark hs table keys).
  Notation cstep := (cstep reveal mark hs table keys).
  Notation crun := (crun reveal mark hs table keys).
  Notation cstate_of := (cstate_of reveal mark hs table keys).

  Lemma pick_incl {A} (idx : list nat) (l : list A) : incl (pick idx l) l.
  Proof.
    intros x H. unfold pick in H. apply in_flat_map in H as (i & _ & H).
    destruct (nth_error l i) eqn:E; [|destruct H]. destruct H as [<-|[]]. eapply nth_error_In; eauto.
  Qed.

  (* one classification attempt against the registry of that moment *)
  Lemma wrap_found ops ph t ch buf r c :
    wrap_tk t ch (get_regs (run ops) ph) buf = Found r c ->
    exists id, carried t buf c r id /\ registered ops ph id r.
  Proof.
    destruct t; cbn [ModelConn.wrap_tk]; intros H.
    - apply top_found_min in H as (L & -> & R). exists (take min_tag_len buf). split; [|exact R].
      split; [exact L|split; reflexivity].
    - apply (top_found_obfs4 mark hs _ ops ph _ _ _ (pick_incl _ _)) in H as (id & L & R & L2 & M & Hh).
      exists id. split; [|exact R]. repeat (split; [assumption|]). assumption.
    - apply top_found_prefix in H as (p & k & id & Hp & Hk & S & L & C & Rv & R & T & Pm).
      exists id. split; [|exact R]. exists p, k. apply pick_incl in Hp. repeat (split; [assumption|]). assumption.
  Qed.

  Lemma mem_remove_tk t t' l : mem_tk t (remove_tk t' l) = true -> mem_tk t l = true.
  Proof.
    unfold mem_tk, remove_tk. rewrite !existsb_exists. intros (x & Hx & E).
    apply filter_In in Hx as [Hx _]. eauto.
  Qed.

  Lemma try_ts_matched v buf ch order : forall poss t r c b,
    try_ts v buf ch order poss = CMatched t r c b ->
    b = buf /\ mem_tk t poss = true /\ wrap_tk t ch v buf = Found r c.
  Proof.
    induction order as [|t0 rest IH]; intros poss t r c b; cbn [ModelConn.try_ts].
    - destruct poss; discriminate.
    - destruct (mem_tk t0 poss) eqn:M; cbn [negb].
      + destruct (wrap_tk t0 ch v buf) eqn:W; try discriminate.
        * apply IH.
        * intros H. apply IH in H as (-> & Hm & Hw). repeat split; auto. eapply mem_remove_tk; eauto.
        * intros [= <- <- <- <-]. auto.
      + apply IH.
  Qed.

  Lemma try_ts_reading v buf ch order : forall poss b p,
    try_ts v buf ch order poss = CReading b p -> b = buf.
  Proof.
    induction order as [|t0 rest IH]; intros poss b p; cbn [ModelConn.try_ts].
    - destruct poss; [discriminate|]. intros [= <- _]. reflexivity.
    - destruct (mem_tk t0 poss); cbn [negb]; [|apply IH].
      destruct (wrap_tk t0 ch v buf); try discriminate; apply IH.
  Qed.

  Lemma try_ts_not_idle v buf ch order : forall poss, try_ts v buf ch order poss <> CIdle.
  Proof.
    induction order as [|t0 rest IH]; intros poss; cbn [ModelConn.try_ts].
    - destruct poss; discriminate.
    - destruct (mem_tk t0 poss); cbn [negb]; [|apply IH].
      destruct (wrap_tk t0 ch v buf); try discriminate; apply IH.
  Qed.

  Lemma crun_snoc ph evs e : crun ph (evs ++ [e]) = cstep ph (crun ph evs) e.
  Proof. unfold ModelConn.crun. rewrite fold_left_app. reflexivity. Qed.

  Lemma reg_ops_app a b : reg_ops (a ++ b) = reg_ops a ++ reg_ops b.
  Proof. unfold reg_ops. apply flat_map_app. Qed.

  (* the handler never changes what the transports look up, and every step sees the live registry *)
  Lemma crun_registry ph evs : fst (crun ph evs) = run (reg_ops evs).
  Proof.
    induction evs as [|e evs IH] using rev_ind; [reflexivity|].
    rewrite crun_snoc, reg_ops_app. destruct (crun ph evs) as [st cs]. cbn [fst] in IH. subst st.
    destruct e; cbn [ModelConn.cstep fst reg_ops flat_map]; rewrite ?app_nil_r; auto.
    rewrite run_snoc. reflexivity.
  Qed.

  (* a matched connection was matched by one definite Read, against the registry of that very step *)
  Lemma conn_match_step ph evs t r c b :
    cstate_of ph evs = CMatched t r c b ->
    exists pre chunk ch post buf poss id,
      evs = pre ++ ERead chunk ch :: post /\
      cstate_of ph pre = CReading buf poss /\ b = buf ++ chunk /\ mem_tk t poss = true /\
      carried t b c r id /\ registered (reg_ops pre) ph id r.
  Proof.
    unfold ModelConn.cstate_of. induction evs as [|e evs IH] using rev_ind; [discriminate|].
    rewrite crun_snoc. pose proof (crun_registry ph evs) as Hreg.
    destruct (crun ph evs) as [st cs] eqn:Ecr. cbn [fst snd] in *.
    assert (Hold : cs = CMatched t r c b ->
                   exists pre chunk ch post buf poss id,
                     evs ++ [e] = pre ++ ERead chunk ch :: post /\
                     snd (crun ph pre) = CReading buf poss /\ b = buf ++ chunk /\ mem_tk t poss = true /\
                     carried t b c r id /\ registered (reg_ops pre) ph id r).
    { intros H. apply IH in H as (pre & chunk & ch & post & buf & poss & id & -> & H).
      exists pre, chunk, ch, (post ++ [e]), buf, poss, id. split; [|exact H].
      rewrite <- app_assoc. reflexivity. }
    destruct e as [op| |chunk ch|]; cbn [ModelConn.cstep snd].
    - exact Hold.
    - destruct cs; try exact Hold; try discriminate. destruct (count_regs st ph <? 1); discriminate.
    - destruct cs as [|buf poss| | | |]; try exact Hold; try discriminate.
      unfold read_step. intros H. apply try_ts_matched in H as (-> & Hm & Hw).
      subst st. apply wrap_found in Hw as (id & Hc & Hr).
      exists evs, chunk, ch, [], buf, poss, id. rewrite Ecr. cbn [snd].
      split; [reflexivity|]. split; [reflexivity|]. split; [reflexivity|]. split; [exact Hm|]. split; assumption.
    - destruct cs; try exact Hold; discriminate.
  Qed.

  (* the explicit single-step form *)
  Lemma conn_read_match ph pre chunk ch buf poss t r c b :
    cstate_of ph pre = CReading buf poss ->
    cstate_of ph (pre ++ [ERead chunk ch]) = CMatched t r c b ->
    b = buf ++ chunk /\ mem_tk t poss = true /\
    exists id, carried t b c r id /\ registered (reg_ops pre) ph id r.
  Proof.
    unfold ModelConn.cstate_of. rewrite crun_snoc. pose proof (crun_registry ph pre) as Hreg.
    destruct (crun ph pre) as [st cs]. cbn [fst snd] in *. intros ->. cbn [ModelConn.cstep snd]. unfold read_step.
    intros H. apply try_ts_matched in H as (-> & Hm & Hw). subst st.
    apply wrap_found in Hw as (id & Hc & Hr). split; [reflexivity|]. split; [exact Hm|]. exists id. split; assumption.
  Qed.

  (* ---- once matched, always matched to that registration (a connection is matched at most once) *)
  Lemma cstep_matched_absorbing ph st t r c b e : snd (cstep ph (st, CMatched t r c b) e) = CMatched t r c b.
  Proof. destruct e; reflexivity. Qed.

  Lemma conn_matched_final ph evs more t r c b :
    cstate_of ph evs = CMatched t r c b -> cstate_of ph (evs ++ more) = CMatched t r c b.
  Proof.
    unfold ModelConn.cstate_of, ModelConn.crun. rewrite fold_left_app.
    generalize (fold_left (cstep ph) evs ([], CIdle)). intros [st cs]. cbn [snd]. intros ->.
    revert st. induction more as [|e more IH]; intros st; [reflexivity|]. cbn [fold_left].
    pose proof (cstep_matched_absorbing ph st t r c b e) as H.
    destruct (cstep ph (st, CMatched t r c b) e) as [st' cs']. cbn [snd] in H. subst cs'. apply IH.
  Qed.

  (* ---- the buffer is the stream received since the connection arrived *)
  Definition dead (cs : cstate) : Prop :=
    match cs with CIdle | CReading _ _ => False | _ => True end.

  Lemma try_ts_shape v buf ch order : forall poss,
    dead (try_ts v buf ch order poss) \/ exists p, try_ts v buf ch order poss = CReading buf p.
  Proof.
    induction order as [|t0 rest IH]; intros poss; cbn [ModelConn.try_ts].
    - destruct poss; [left; exact I|right; eauto].
    - destruct (mem_tk t0 poss); cbn [negb]; [|apply IH].
      destruct (wrap_tk t0 ch v buf); try (left; exact I); apply IH.
  Qed.

  Lemma dead_stays ph evs : forall st cs, dead cs -> dead (snd (fold_left (cstep ph) evs (st, cs))).
  Proof.
    induction evs as [|e evs IH]; intros st cs D; [exact D|]. cbn [fold_left].
    destruct (cstep ph (st, cs) e) as [st' cs'] eqn:E. apply IH.
    destruct e; cbn [ModelConn.cstep] in E; inversion E; subst; auto; destruct cs; try exact D; try exact I; destruct D.
  Qed.

  Lemma reading_stream ph evs : forall st b0 p0 buf poss,
    snd (fold_left (cstep ph) evs (st, CReading b0 p0)) = CReading buf poss ->
    buf = b0 ++ stream_after true evs.
  Proof.
    induction evs as [|e evs IH]; intros st b0 p0 buf poss; cbn [fold_left stream_after].
    - cbn [snd]. intros [= <- _]. rewrite app_nil_r. reflexivity.
    - destruct e as [op| |chunk ch|]; cbn [ModelConn.cstep].
      + apply IH.
      + apply IH.
      + unfold read_step.
        destruct (try_ts_shape (get_regs st ph) (b0 ++ chunk) ch (ch_torder ch ++ all_tk) p0) as [D|(p & ->)].
        * intros H. pose proof (dead_stays ph evs st _ D) as D'. rewrite H in D'. destruct D'.
        * intros H. apply IH in H. rewrite H, app_assoc. reflexivity.
      + intros H. pose proof (dead_stays ph evs st CClosed I) as D'. rewrite H in D'. destruct D'.
  Qed.

  Lemma idle_stream ph evs : forall st buf poss,
    snd (fold_left (cstep ph) evs (st, CIdle)) = CReading buf poss ->
    buf = stream_after false evs.
  Proof.
    induction evs as [|e evs IH]; intros st buf poss; cbn [fold_left stream_after]; [discriminate|].
    destruct e as [op| |chunk ch|]; cbn [ModelConn.cstep].
    - apply IH.
    - destruct (count_regs st ph <? 1).
      + intros H. pose proof (dead_stays ph evs st CDiscard I) as D'. rewrite H in D'. destruct D'.
      + intros H. apply reading_stream in H. exact H.
    - cbn [app]. apply IH.
    - apply IH.
  Qed.

  Lemma conn_buffer_is_stream ph evs buf poss :
    cstate_of ph evs = CReading buf poss -> buf = stream_of evs.
  Proof. apply idle_stream. Qed.

  (* ---- nothing tracked on the phantom when the connection arrives: never matched *)
  Lemma conn_untracked_at_accept ph pre post :
    cstate_of ph pre = CIdle -> count_regs (run (reg_ops pre)) ph = 0 ->
    forall t r c b, cstate_of ph (pre ++ EAccept :: post) <> CMatched t r c b.
  Proof.
    unfold ModelConn.cstate_of, ModelConn.crun. intros Hs Hc t r c b. rewrite fold_left_app.
    pose proof (crun_registry ph pre) as Hreg. unfold ModelConn.crun in Hreg.
    destruct (fold_left (cstep ph) pre ([], CIdle)) as [st cs]. cbn [fst snd] in *. subst cs st.
    cbn [fold_left ModelConn.cstep]. rewrite Hc. cbn [N.ltb N.compare].
    intros H. pose proof (dead_stays ph post (run (reg_ops pre)) CDiscard I) as D.
    (* CDiscard only ever becomes CClosed *)
    revert H. clear D.
    generalize (run (reg_ops pre)). assert (G : forall evs st cs, cs = CDiscard \/ cs = CClosed ->
      snd (fold_left (cstep ph) evs (st, cs)) <> CMatched t r c b).
    { induction evs as [|e evs IH]; intros st cs Hd.
      - cbn. destruct Hd as [-> | ->]; discriminate.
      - cbn [fold_left]. destruct (cstep ph (st, cs) e) as [st' cs'] eqn:E. apply IH.
        destruct e, Hd as [-> | ->]; cbn [ModelConn.cstep] in E; inversion E; auto. }
    intros st. apply G. auto.
  Qed.

  (* ---- expiry while the connection is open (or before it arrives) *)
  Lemma key_is_refl ph id : key_is ph id ph id = true.
  Proof. unfold key_is. rewrite N.eqb_refl, bytes_eqb_refl. reflexivity. Qed.

  Lemma fold_no_validate ph id b :
    (forall r, ~ In (Validate ph id r) b) ->
    forall s, (forall n, s <> Some (n, true)) -> forall n, fold_left (kstep ph id) b s <> Some (n, true).
  Proof.
    induction b as [|op b IH]; intros Hb s Hs n; cbn [fold_left]; [apply Hs|].
    apply IH.
    - intros r Hr. apply (Hb r). right. exact Hr.
    - intros m Hm. apply kstep_valid_cases in Hm as [(r & ->)|(Hm & _)].
      + apply (Hb r). left. reflexivity.
      + exact (Hs m Hm).
  Qed.

  Lemma expired_not_revalidated ph id a kill b :
    kill = Expire ph id \/ kill = ExpireAll ->
    (forall r, ~ In (Validate ph id r) b) ->
    ~ validated_live (a ++ kill :: b) ph id.
  Proof.
    intros Hk Hb (n & H). unfold key_state in H. rewrite fold_left_app in H. cbn [fold_left] in H.
    assert (E : kstep ph id (fold_left (kstep ph id) a None) kill = None).
    { destruct Hk as [-> | ->]; cbn [kstep]; [rewrite key_is_refl|]; reflexivity. }
    rewrite E in H. revert H. apply fold_no_validate; auto. discriminate.
  Qed.

  Lemma in_reg_ops op evs : In op (reg_ops evs) <-> In (EReg op) evs.
  Proof.
    unfold reg_ops. rewrite in_flat_map. split.
    - intros (e & He & H). destruct e as [op0| | |]; [|destruct H..]. destruct H as [<-|[]]. exact He.
    - intros H. exists (EReg op). split; [exact H|left; reflexivity].
  Qed.

  Lemma conn_expired_not_matched ph pre1 pre2 id kill chunk ch buf poss t r c b :
    kill = Expire ph id \/ kill = ExpireAll ->
    (forall r0, ~ In (EReg (Validate ph id r0)) pre2) ->
    cstate_of ph (pre1 ++ EReg kill :: pre2) = CReading buf poss ->
    cstate_of ph ((pre1 ++ EReg kill :: pre2) ++ [ERead chunk ch]) = CMatched t r c b ->
    exists id', id' <> id /\ carried t b c r id' /\ registered (reg_ops (pre1 ++ EReg kill :: pre2)) ph id' r.
  Proof.
    intros Hk Hv Hs Hm. destruct (conn_read_match _ _ _ _ _ _ _ _ _ _ Hs Hm) as (_ & _ & id' & Hc & Hr).
    exists id'. split; [|split; assumption]. intros ->.
    apply registered_live in Hr. rewrite reg_ops_app in Hr. cbn [reg_ops flat_map app] in Hr.
    revert Hr. apply expired_not_revalidated; auto.
    intros r0 Hin. apply (Hv r0). apply in_reg_ops. exact Hin.
  Qed.

  (* ---- the other direction: whatever is validated and unexpired at the moment of the Read that completes
          the tag is matched, also when it was validated only after the connection had arrived (min) *)
  Lemma mem_tk_in t l : mem_tk t l = true <-> In t l.
  Proof.
    unfold mem_tk. rewrite existsb_exists. split.
    - intros (x & Hx & E). destruct t, x; try discriminate; exact Hx.
    - intros H. exists t. split; [exact H|destruct t; reflexivity].
  Qed.

  Lemma conn_live_matched_min ph evs buf poss chunk ch rest n :
    cstate_of ph evs = CReading buf poss -> mem_tk TMin poss = true ->
    ch_torder ch = TMin :: rest ->
    min_tag_len <= blen (buf ++ chunk) ->
    key_state (reg_ops evs) ph (take min_tag_len (buf ++ chunk)) = Some (n, true) ->
    exists r, cstate_of ph (evs ++ [ERead chunk ch]) = CMatched TMin r min_tag_len (buf ++ chunk) /\
              r_name r = n /\ registered (reg_ops evs) ph (take min_tag_len (buf ++ chunk)) r.
  Proof.
    unfold ModelConn.cstate_of. intros Hs Hm Ho L K. rewrite crun_snoc.
    pose proof (crun_registry ph evs) as Hreg. destruct (crun ph evs) as [st cs]. cbn [fst snd] in *. subst cs st.
    apply view_complete in K as (r & Hin & Hn). exists r.
    cbn [ModelConn.cstep snd]. unfold read_step. rewrite Ho. cbn [app ModelConn.try_ts]. rewrite Hm. cbn [negb ModelConn.wrap_tk].
    rewrite (min_complete _ _ r (view_ids_nodup _ _) L Hin). split; [reflexivity|]. split; [exact Hn|].
    apply view_sound. exact Hin.
  Qed.
End ConnProofs.
