(* C02 property theorems, connection level: "currently validated and unexpired" holds AT THE MOMENT OF THE
   MATCH.  Statements + `exact lemma` only.

   The model (ModelConn.v) is the read loop of handleNewTCPConn as a step function over
   (registry, connection state); a history interleaves registry operations (track / validate / expire /
   sweep / lifetime elapsed) with the steps of one open connection to phantom `ph` (arrival, every Read,
   read error).  reveal / mark / hs (TryReveal, the obfs4 mark, the obfs4 library's server handshake), the
   prefix table and the station keys are universally quantified; the orders Go leaves open (map iteration
   over transports, prefix rows, registrations) are part of every ERead event and universally quantified
   with it. *)
From CJ Require Import Common.Base C02.Model C02.Spec C02.Proofs C02.ModelConn C02.ProofsConn C02.Run C02.RunConn C02.ProofsReplay.

(* the handler never changes what the transports look up; every step sees the registry produced by exactly
   the registry operations that precede it *)
Theorem C02_conn_registry_is_live :
  forall reveal mark hs table keys ph evs,
    fst (crun reveal mark hs table keys ph evs) = run (reg_ops evs).
Proof. exact crun_registry. Qed.
Print Assumptions C02_conn_registry_is_live.

(* for every history: a matched connection was matched by one definite Read; the bytes received up to that Read
   carry an identifier id (first 32 bytes / a revealed 64-byte window of a table row / the obfs4 mark), and the
   returned registration is `registered` under (ph, id) IN THE HISTORY UP TO THAT READ: it is the object stored
   under that phantom and identifier, validated, not expired since - at that very step, not at arrival *)
Theorem C02_conn_match_is_registered_at_match_step :
  forall reveal mark hs table keys ph evs t r c b,
    cstate_of reveal mark hs table keys ph evs = CMatched t r c b ->
    exists pre chunk ch post buf poss id,
      evs = pre ++ ERead chunk ch :: post /\
      cstate_of reveal mark hs table keys ph pre = CReading buf poss /\ b = buf ++ chunk /\ mem_tk t poss = true /\
      carried reveal mark hs table keys t b c r id /\ registered (reg_ops pre) ph id r.
Proof. exact conn_match_step. Qed.
Print Assumptions C02_conn_match_is_registered_at_match_step.

(* the same for one explicit step *)
Theorem C02_conn_read_that_matches :
  forall reveal mark hs table keys ph pre chunk ch buf poss t r c b,
    cstate_of reveal mark hs table keys ph pre = CReading buf poss ->
    cstate_of reveal mark hs table keys ph (pre ++ [ERead chunk ch]) = CMatched t r c b ->
    b = buf ++ chunk /\ mem_tk t poss = true /\
    exists id, carried reveal mark hs table keys t b c r id /\ registered (reg_ops pre) ph id r.
Proof. exact conn_read_match. Qed.
Print Assumptions C02_conn_read_that_matches.

(* a registration that expired (its own removal, or the lifetime of everything elapsing) before the Read that
   completes the flight - while the connection was already open or before it arrived - and was not validated
   again since, is not what the connection is matched to: whatever is matched carries another identifier *)
Theorem C02_conn_expired_before_match_never_matched :
  forall reveal mark hs table keys ph pre1 pre2 id kill chunk ch buf poss t r c b,
    kill = Expire ph id \/ kill = ExpireAll ->
    (forall r0, ~ In (EReg (Validate ph id r0)) pre2) ->
    cstate_of reveal mark hs table keys ph (pre1 ++ EReg kill :: pre2) = CReading buf poss ->
    cstate_of reveal mark hs table keys ph ((pre1 ++ EReg kill :: pre2) ++ [ERead chunk ch]) = CMatched t r c b ->
    exists id', id' <> id /\ carried reveal mark hs table keys t b c r id' /\
                registered (reg_ops (pre1 ++ EReg kill :: pre2)) ph id' r.
Proof. exact conn_expired_not_matched. Qed.
Print Assumptions C02_conn_expired_before_match_never_matched.

(* registry fact behind it *)
Theorem C02_expired_not_validated_again_is_not_live :
  forall ph id a kill b,
    kill = Expire ph id \/ kill = ExpireAll ->
    (forall r, ~ In (Validate ph id r) b) ->
    ~ validated_live (a ++ kill :: b) ph id.
Proof. exact expired_not_revalidated. Qed.
Print Assumptions C02_expired_not_validated_again_is_not_live.

(* the other direction (min): a registration that is validated and unexpired at the Read that completes its tag is
   matched, and it is exactly the stored object - also when it was validated only after the connection arrived *)
Theorem C02_conn_live_at_match_step_is_matched_min :
  forall reveal mark hs table keys ph evs buf poss chunk ch rest n,
    cstate_of reveal mark hs table keys ph evs = CReading buf poss -> mem_tk TMin poss = true ->
    ch_torder ch = TMin :: rest ->
    min_tag_len <= blen (buf ++ chunk) ->
    key_state (reg_ops evs) ph (take min_tag_len (buf ++ chunk)) = Some (n, true) ->
    exists r, cstate_of reveal mark hs table keys ph (evs ++ [ERead chunk ch]) = CMatched TMin r min_tag_len (buf ++ chunk) /\
              r_name r = n /\ registered (reg_ops evs) ph (take min_tag_len (buf ++ chunk)) r.
Proof. exact conn_live_matched_min. Qed.
Print Assumptions C02_conn_live_at_match_step_is_matched_min.

(* a connection is matched at most once: later events change neither the registration nor the bytes *)
Theorem C02_conn_matched_is_final :
  forall reveal mark hs table keys ph evs more t r c b,
    cstate_of reveal mark hs table keys ph evs = CMatched t r c b ->
    cstate_of reveal mark hs table keys ph (evs ++ more) = CMatched t r c b.
Proof. exact conn_matched_final. Qed.
Print Assumptions C02_conn_matched_is_final.

(* the bytes the transports are shown are exactly the bytes received since the connection arrived *)
Theorem C02_conn_buffer_is_received_stream :
  forall reveal mark hs table keys ph evs buf poss,
    cstate_of reveal mark hs table keys ph evs = CReading buf poss -> buf = stream_of evs.
Proof. exact conn_buffer_is_stream. Qed.
Print Assumptions C02_conn_buffer_is_received_stream.

(* nothing tracked on the phantom when the connection arrives: it is drained and never matched, whatever is
   registered afterwards *)
Theorem C02_conn_nothing_tracked_at_arrival_never_matched :
  forall reveal mark hs table keys ph pre post,
    cstate_of reveal mark hs table keys ph pre = CIdle -> count_regs (run (reg_ops pre)) ph = 0 ->
    forall t r c b, cstate_of reveal mark hs table keys ph (pre ++ EAccept :: post) <> CMatched t r c b.
Proof. exact conn_untracked_at_accept. Qed.
Print Assumptions C02_conn_nothing_tracked_at_arrival_never_matched.

(* ---- the checker of the correspondence run (RunConn.v) is sound for the step function: a recorded connection that it
        accepts (no RBad state) is, event by event, a run of `cstep` for SOME choice of the iteration orders; registry and
        connection state agree (abs: the checker's state is the model's, with a matched registration shown by name) *)
Theorem C02_conn_replay_is_model_run :
  forall reveal mark hs table keys ph xs,
    (forall w, snd (xrun reveal mark hs table keys ph xs) <> RBad w) ->
    exists evs, Forall2 shape xs evs /\
                fst (crun reveal mark hs table keys ph evs) = fst (xrun reveal mark hs table keys ph xs) /\
                abs (snd (crun reveal mark hs table keys ph evs)) = snd (xrun reveal mark hs table keys ph xs).
Proof. exact replay_sound. Qed.
Print Assumptions C02_conn_replay_is_model_run.

(* hence: an accepted record that ends in a tunnel to object n stands for a model run matched to a registration named n
   by one definite Read, and that registration is registered (stored under that phantom and identifier, validated,
   unexpired) in the history up to that Read *)
Theorem C02_conn_accepted_record_tunnel_is_registered_at_match_step :
  forall reveal mark hs table keys ph xs n,
    snd (xrun reveal mark hs table keys ph xs) = RMatched n ->
    exists evs t r c b pre chunk ch post buf poss id,
      Forall2 shape xs evs /\ r_name r = n /\
      cstate_of reveal mark hs table keys ph evs = CMatched t r c b /\
      evs = pre ++ ERead chunk ch :: post /\
      cstate_of reveal mark hs table keys ph pre = CReading buf poss /\ b = buf ++ chunk /\
      carried reveal mark hs table keys t b c r id /\ registered (reg_ops pre) ph id r.
Proof. exact accepted_record_matched. Qed.
Print Assumptions C02_conn_accepted_record_tunnel_is_registered_at_match_step.
