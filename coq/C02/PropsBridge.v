(* C02 composition theorems: statements + `exact lemma` only.
   C08 = the registry over real time (coq/C08), C01 = the client / station derivations (coq/C01, C14).
   enc = Transport.GetIdentifier as a function of C08's (transport, secret) pairs, assumed injective;
   hm = the PRF of C01's derivations; reveal / obf = TryReveal / Obfuscate. *)
From CJ Require Import Common.Base.
From CJ Require C08.Model C01.Model C14.Model.
From CJ Require Import C02.Model C02.Spec C02.ProofsWrap C02.ProofsTop C02.Bridge08 C02.Sim08 C02.Bridge01.
From CJ Require Import C02.ModelConn C02.ConnGen C02.BridgeConn08.

(* ---- C08: found_implies_registered over real time *)
Theorem C02_rt_found_implies_registered_min :
  forall enc name_of params_of h ph data r c,
    wrap_min (view_of enc name_of params_of (R.run h) ph) data = Found r c ->
    min_tag_len <= blen data /\ c = min_tag_len /\
    registered_rt enc name_of params_of h ph (take min_tag_len data) r.
Proof. exact rt_found_min. Qed.
Print Assumptions C02_rt_found_implies_registered_min.

Theorem C02_rt_found_implies_registered_prefix :
  forall enc name_of params_of reveal order keys h ph data r c,
    wrap_prefix_ord reveal order keys (view_of enc name_of params_of (R.run h) ph) data = Found r c ->
    exists p k id,
      In p order /\ In k keys /\ static_ok p data = true /\ c = p_offset p + ptag_len /\
      reveal k (tag_at p data) = Some id /\ registered_rt enc name_of params_of h ph id r /\
      r_transport r = tt_prefix /\ r_params r = PPrefix (p_id p).
Proof. exact rt_found_prefix. Qed.
Print Assumptions C02_rt_found_implies_registered_prefix.

Theorem C02_rt_found_implies_registered_obfs4 :
  forall enc name_of params_of mark hs order h ph data r c,
    incl order (view_of enc name_of params_of (R.run h) ph) ->
    wrap_obfs4_ord mark hs order data = Found r c ->
    exists id, blen id = o_id_len /\ registered_rt enc name_of params_of h ph id r /\
      mark_window data = mark id (take o_rep_len data) /\ hs id data = true.
Proof. exact rt_found_obfs4. Qed.
Print Assumptions C02_rt_found_implies_registered_obfs4.

(* after a sweep, until time passes again: never a registration past its lifetime (10 min, 6 h once used) *)
Theorem C02_rt_found_within_lifetime_min :
  forall enc name_of params_of h0 t ph data r c,
    no_time t ->
    wrap_min (view_of enc name_of params_of (R.run (h0 ++ R.Sweep :: t)) ph) data = Found r c ->
    exists k a u, R.k_ph k = ph /\ enc (R.ident_of k) = take min_tag_len data /\ r = info name_of params_of k /\
      R.ghost (h0 ++ R.Sweep :: t) k = Some (a, u) /\ (a <= R.ten_min \/ (u = true /\ a <= R.six_h)).
Proof. exact rt_found_min_in_lifetime. Qed.
Print Assumptions C02_rt_found_within_lifetime_min.

Theorem C02_rt_found_within_lifetime_prefix :
  forall enc name_of params_of reveal order keys h0 t ph data r c,
    no_time t ->
    wrap_prefix_ord reveal order keys (view_of enc name_of params_of (R.run (h0 ++ R.Sweep :: t)) ph) data = Found r c ->
    exists k a u, R.k_ph k = ph /\ r = info name_of params_of k /\
      R.ghost (h0 ++ R.Sweep :: t) k = Some (a, u) /\ (a <= R.ten_min \/ (u = true /\ a <= R.six_h)).
Proof. exact rt_found_prefix_in_lifetime. Qed.
Print Assumptions C02_rt_found_within_lifetime_prefix.

Theorem C02_rt_found_within_lifetime_obfs4 :
  forall enc name_of params_of mark hs order h0 t ph data r c,
    no_time t -> incl order (view_of enc name_of params_of (R.run (h0 ++ R.Sweep :: t)) ph) ->
    wrap_obfs4_ord mark hs order data = Found r c ->
    exists k a u, R.k_ph k = ph /\ r = info name_of params_of k /\
      R.ghost (h0 ++ R.Sweep :: t) k = Some (a, u) /\ (a <= R.ten_min \/ (u = true /\ a <= R.six_h)).
Proof. exact rt_found_obfs4_in_lifetime. Qed.
Print Assumptions C02_rt_found_within_lifetime_obfs4.

Theorem C02_rt_swept_registration_not_in_view :
  forall enc, (forall a b, enc a = enc b -> a = b) -> forall name_of params_of h ph k,
    R.k_ph k = ph -> R.tracked (R.run h) k = false ->
    ~ In (enc (R.ident_of k)) (ids (view_of enc name_of params_of (R.run h) ph)).
Proof. exact rt_untracked_not_in_view. Qed.
Print Assumptions C02_rt_swept_registration_not_in_view.

(* ---- C08: simulation.  C02's registry over the translated history holds, key by key, what C08's table holds *)
Theorem C02_simulates_C08_registry :
  forall enc, (forall a b, enc a = enc b -> a = b) -> forall name_of params_of h k,
    R.enabled (R.k_tr k) = true ->
    key_state (translate enc name_of params_of h) (R.k_ph k) (cid enc k) = S name_of (R.run h) k.
Proof. exact simulation. Qed.
Print Assumptions C02_simulates_C08_registry.

Theorem C02_simulates_C08_view :
  forall enc, (forall a b, enc a = enc b -> a = b) -> forall name_of params_of h ph i,
    (exists r, In (i, r) (view_of enc name_of params_of (R.run h) ph)) <->
    (exists r, In (i, r) (get_regs (run (translate enc name_of params_of h)) ph) /\
       exists k, R.k_ph k = ph /\ cid enc k = i /\ R.enabled (R.k_tr k) = true /\ r_name r = name_of k).
Proof. exact simulation_view. Qed.
Print Assumptions C02_simulates_C08_view.

(* ---- C01: a genuine first flight is matched to exactly the registration of its secret *)
Theorem C02_e2e_min_found :
  forall hm src src_seed src_int63 sorter lv secret cfg f wire sess ds dc ops ph n extra,
    hm_len32 hm ->
    D.station_derive hm src src_seed src_int63 sorter lv secret cfg f D.TMin wire = Ok ds ->
    D.client_derive hm src src_seed src_int63 sorter lv secret cfg f D.TMin sess = Ok dc ->
    key_state ops ph (tag_bytes (D.d_ident ds)) = Some (n, true) ->
    exists r,
      wrap_min (get_regs (run ops) ph) (min_flight (tag_bytes (D.d_ident dc)) extra) = Found r min_tag_len /\
      r_name r = n /\ registered ops ph (tag_bytes (D.d_ident ds)) r.
Proof. exact e2e_min. Qed.
Print Assumptions C02_e2e_min_found.

Theorem C02_e2e_min_only_that_registration :
  forall hm src src_seed src_int63 sorter lv secret cfg f sess dc v extra r c,
    hm_len32 hm -> hm_collision_free hm ->
    D.client_derive hm src src_seed src_int63 sorter lv secret cfg f D.TMin sess = Ok dc ->
    wrap_min v (min_flight (tag_bytes (D.d_ident dc)) extra) = Found r c ->
    In (hm secret D.label_min, r) v /\
    forall secret' label', (secret', label') <> (secret, D.label_min) -> hm secret' label' <> hm secret D.label_min.
Proof. exact e2e_min_only. Qed.
Print Assumptions C02_e2e_min_only_that_registration.

Theorem C02_e2e_prefix_found :
  forall hm src src_seed src_int63 sorter reveal obf lv secret cfg f wire sess ds dc ops ph n p k rnd extra r0,
    hm_len32 hm -> obf_reveals reveal obf -> pfx_wf p = true ->
    D.station_derive hm src src_seed src_int63 sorter lv secret cfg f D.TPrefix wire = Ok ds ->
    D.client_derive hm src src_seed src_int63 sorter lv secret cfg f D.TPrefix sess = Ok dc ->
    key_state ops ph (tag_bytes (D.d_ident ds)) = Some (n, true) ->
    In (tag_bytes (D.d_ident ds), r0) (get_regs (run ops) ph) ->
    r_transport r0 = tt_prefix -> r_params r0 = PPrefix (p_id p) ->
    wrap_prefix_ord reveal [p] [k] (get_regs (run ops) ph)
                    (prefix_flight obf p k rnd (tag_bytes (D.d_ident dc)) extra) = Found r0 (p_offset p + ptag_len) /\
    r_name r0 = n.
Proof. exact e2e_prefix. Qed.
Print Assumptions C02_e2e_prefix_found.

Theorem C02_e2e_prefix_only_that_registration :
  forall hm src src_seed src_int63 sorter reveal obf lv secret cfg f sess dc table order keys v p k rnd extra r c,
    hm_len32 hm -> obf_reveals reveal obf -> table_wf table = true -> NoDup (ids v) ->
    (forall q, In q order -> In q table) -> In p table -> In k keys ->
    D.client_derive hm src src_seed src_int63 sorter lv secret cfg f D.TPrefix sess = Ok dc ->
    one_identifier reveal table keys v (prefix_flight obf p k rnd (tag_bytes (D.d_ident dc)) extra) ->
    In (hm secret D.label_prefix) (ids v) ->
    wrap_prefix_ord reveal order keys v (prefix_flight obf p k rnd (tag_bytes (D.d_ident dc)) extra) = Found r c ->
    In (hm secret D.label_prefix, r) v /\ r_transport r = tt_prefix.
Proof. exact e2e_prefix_only. Qed.
Print Assumptions C02_e2e_prefix_only_that_registration.

(* ---- C08, connection level: the read loop of handleNewTCPConn over the registry in real time.  For every history
        that interleaves C08's operations (Track / Validate / MarkActive / Advance d / Sweep / ...) with the steps of
        one open connection, and every choice of the iteration orders: a matched connection was matched by one definite
        Read, and the registration it got is registered_rt IN THE HISTORY UP TO THAT READ - a C08 registration on that
        phantom under the identifier the bytes carry, valid, validated by an operation of that history and tracked ever
        since, alive with its age at that moment *)
Theorem C02_rt_conn_match_is_registered_at_match_step :
  forall enc name_of params_of reveal mark hs table keys ph evs t r c b,
    snd (rt_run enc name_of params_of reveal mark hs table keys ph evs) = CMatched t r c b ->
    exists pre chunk ch post buf poss,
      evs = pre ++ GRead R.rop chunk ch :: post /\
      snd (rt_run enc name_of params_of reveal mark hs table keys ph pre) = CReading buf poss /\
      b = buf ++ chunk /\ mem_tk t poss = true /\
      carried_rt enc name_of params_of reveal mark hs table keys (rt_ops pre) ph t b c r.
Proof. exact rt_conn_match_step. Qed.
Print Assumptions C02_rt_conn_match_is_registered_at_match_step.

(* if the sweeper ran before that Read and no time has passed since, the matched registration is within its lifetime
   at the moment of the match: at most 10 minutes old, or used and at most 6 hours old *)
Theorem C02_rt_conn_match_within_lifetime :
  forall enc name_of params_of reveal mark hs table keys ph evs t r c b,
    snd (rt_run enc name_of params_of reveal mark hs table keys ph evs) = CMatched t r c b ->
    exists pre chunk ch post,
      evs = pre ++ GRead R.rop chunk ch :: post /\
      forall h0 tl, rt_ops pre = h0 ++ R.Sweep :: tl -> no_time tl ->
        exists k a u, R.k_ph k = ph /\ r = info name_of params_of k /\
          R.ghost (rt_ops pre) k = Some (a, u) /\ (a <= R.ten_min \/ (u = true /\ a <= R.six_h)).
Proof. exact rt_conn_match_in_lifetime. Qed.
Print Assumptions C02_rt_conn_match_within_lifetime.

(* the handler never changes the registry; every step sees the state produced by exactly the operations before it *)
Theorem C02_rt_conn_registry_is_live :
  forall enc name_of params_of reveal mark hs table keys ph evs,
    fst (rt_run enc name_of params_of reveal mark hs table keys ph evs) = R.run (rt_ops evs).
Proof. exact rt_run_registry. Qed.
Print Assumptions C02_rt_conn_registry_is_live.
