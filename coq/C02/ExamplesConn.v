(* C02, connection level, non-vacuity: concrete histories that meet the hypotheses of the theorems of
   PropsConn.v, every outcome class of the handler model, and the comparison with a handler that keeps a
   per-connection copy of the phantom's registrations (`sstep`): the theorems hold for `cstep` and are
   false for that handler. *)
From CJ Require Import Common.Base Common.BaseProofs C02.Model C02.Spec C02.Proofs C02.ModelConn C02.ProofsConn C02.PropsConn C02.Run C02.RunConn C02.Examples.

Definition ch0 : choice := {| ch_torder := [TMin; TObfs4; TPrefix]; ch_porder := [0; 1; 2]%nat; ch_oorder := [0; 1; 2; 3; 4]%nat |}.
Definition ch1 : choice := {| ch_torder := [TPrefix; TMin]; ch_porder := [2; 1; 0]%nat; ch_oorder := [1; 0]%nat |}.
Definition keys_ex : list N := [0; 1].

Notation crun_ex := (crun reveal_ex mark_ex hs_ex table_ex keys_ex).
Notation cstate_ex := (cstate_of reveal_ex mark_ex hs_ex table_ex keys_ex).
Notation srun_ex := (srun reveal_ex mark_ex hs_ex table_ex keys_ex).

Definition flightB : bytes := minB ++ lcg_bytes 77 20.          (* genuine min flight of registration B + early data *)
Definition fB1 : bytes := take 10 flightB.
Definition fB2 : bytes := drop 10 flightB.

(* ---- the registration is valid at arrival and at the Read that completes the tag: matched, to the stored object *)
Definition h_base : list cev := [EReg (Validate 1 minB rB); EAccept; ERead fB1 ch0; ERead fB2 ch1].
Example ex_base : cstate_ex 1 h_base = CMatched TMin (set_valid true rB) 32 flightB.
Proof. vm_compute. reflexivity. Qed.

(* ---- it expires (is swept) between the two Reads: the flight completed afterwards is not matched *)
Definition h_expired : list cev :=
  [EReg (Validate 1 minB rB); EAccept; ERead fB1 ch0; EReg (Expire 1 minB); ERead fB2 ch0].
Example ex_expired_while_classifying : cstate_ex 1 h_expired = CReading flightB [TObfs4; TPrefix].
Proof. vm_compute. reflexivity. Qed.
(* the handler with a per-connection copy matches it: Found for a key whose state in the history is None *)
Example ex_snapshot_handler_differs :
  snd (srun_ex 1 h_expired) = SConn [(minB, set_valid true rB)] (CMatched TMin (set_valid true rB) 32 flightB) /\
  key_state (reg_ops h_expired) 1 minB = None.
Proof. vm_compute. split; reflexivity. Qed.
(* the hypotheses of C02_conn_expired_before_match_never_matched are met by this history (with the lifetime of
   everything elapsing, too), and its conclusion excludes exactly that outcome *)
Example ex_expired_theorem_applies :
  forall t r c b,
    cstate_ex 1 (([EReg (Validate 1 minB rB); EAccept; ERead fB1 ch0] ++ EReg (Expire 1 minB) :: []) ++ [ERead fB2 ch0]) = CMatched t r c b ->
    exists id', id' <> minB /\ carried reveal_ex mark_ex hs_ex table_ex keys_ex t b c r id'.
Proof.
  intros t r c b H.
  assert (Hs : cstate_ex 1 ([EReg (Validate 1 minB rB); EAccept; ERead fB1 ch0] ++ EReg (Expire 1 minB) :: []) = CReading fB1 all_tk)
    by (vm_compute; reflexivity).
  destruct (C02_conn_expired_before_match_never_matched reveal_ex mark_ex hs_ex table_ex keys_ex 1
              [EReg (Validate 1 minB rB); EAccept; ERead fB1 ch0] [] minB (Expire 1 minB) fB2 ch0 fB1 all_tk t r c b
              (or_introl eq_refl) (fun r0 (F : In _ []) => F) Hs H)
    as (id' & Hn & Hc & _).
  eauto.
Qed.

(* ---- mirror: only tracked at arrival, validated before the tag is complete: valid at match time, matched *)
Definition h_late : list cev := [EReg (Track 1 minB rB); EAccept; ERead fB1 ch0; EReg (Validate 1 minB rB); ERead fB2 ch0].
Example ex_validated_after_arrival : cstate_ex 1 h_late = CMatched TMin (set_valid true rB) 32 flightB.
Proof. vm_compute. reflexivity. Qed.
Example ex_snapshot_handler_misses_it :
  snd (srun_ex 1 h_late) = SConn [] (CReading flightB [TObfs4; TPrefix]).
Proof. vm_compute. reflexivity. Qed.
Example ex_live_theorem_applies :
  exists r, cstate_ex 1 h_late = CMatched TMin r min_tag_len flightB /\ r_name r = 3.
Proof.
  destruct (C02_conn_live_at_match_step_is_matched_min reveal_ex mark_ex hs_ex table_ex keys_ex 1
              [EReg (Track 1 minB rB); EAccept; ERead fB1 ch0; EReg (Validate 1 minB rB)] fB1 all_tk fB2 ch0 [TObfs4; TPrefix] 3)
    as (r & H & Hn & _); try (vm_compute; reflexivity).
  - vm_compute. discriminate.
  - exists r. split; [exact H|exact Hn].
Qed.

(* ---- re-registration while the connection is open: a NEW object under the same key; matched to that one *)
Definition rB' := R 9 tt_min PGeneric.
Definition h_rereg : list cev :=
  [EReg (Validate 1 minB rB); EAccept; ERead fB1 ch0; EReg (Expire 1 minB); EReg (Validate 1 minB rB'); ERead fB2 ch1].
Example ex_reregistered : cstate_ex 1 h_rereg = CMatched TMin (set_valid true rB') 32 flightB.
Proof. vm_compute. reflexivity. Qed.

(* ---- nothing tracked at arrival: drained, never matched *)
Example ex_untracked_at_arrival :
  cstate_ex 1 [EAccept; EReg (Validate 1 minB rB); ERead flightB ch0] = CDiscard.
Proof. vm_compute. reflexivity. Qed.

(* ---- registered on another phantom only: the connection to phantom 2 is not matched *)
Example ex_other_phantom :
  cstate_ex 2 [EReg (Validate 1 minB rB); EReg (Validate 2 idD rD); EAccept; ERead flightB ch0] = CReading flightB [TObfs4; TPrefix].
Proof. vm_compute. reflexivity. Qed.

(* ---- prefix flight split over two Reads, the whole history of Examples.v first; expiry in between *)
Definition streamA : bytes := [71; 69; 84] ++ tagA ++ [1; 2; 3].
Example ex_prefix_conn :
  cstate_ex 1 (map EReg ops_ex ++ [EAccept; ERead (take 30 streamA) ch0; ERead (drop 30 streamA) ch1])
  = CMatched TPrefix (set_valid true rA) 67 streamA.
Proof. vm_compute. reflexivity. Qed.
Example ex_prefix_conn_expired :
  cstate_ex 1 (map EReg ops_ex ++ [EAccept; ERead (take 30 streamA) ch0; EReg (Expire 1 idA); ERead (drop 30 streamA) ch1])
  = CReading streamA [TObfs4].
Proof. vm_compute. reflexivity. Qed.

(* ---- an unexpected transport error ends the classification *)
Example ex_gave_up :
  exists w, cstate_ex 1 (map EReg ops_ex ++ [EAccept; ERead ([80; 79] ++ tagA) ch1]) = CGaveUp TPrefix w.
Proof. eexists. vm_compute. reflexivity. Qed.

(* ---- the replay checker accepts the model's own behaviour and rejects a tunnel to an expired registration *)
Definition rt_none : rtab := [].
Definition mt_none : mtab := [].
Definition x_ok : ccase :=
  (table_ex, 2, 1, rt_none, mt_none, flightB,
   [XReg (Validate 1 minB rB); XAccept;
    XRead fB1 [(0, (0, 0, 0)); (2, (0, 0, 0)); (1, (0, 0, 0))] 0;
    XReg (Expire 1 minB);
    XRead fB2 [(1, (0, 0, 0)); (0, (1, 0, 0)); (2, (0, 0, 0))] 0; XErr]).
Definition x_bad : ccase :=
  (table_ex, 2, 1, rt_none, mt_none, flightB,
   [XReg (Validate 1 minB rB); XAccept;
    XRead fB1 [(0, (0, 0, 0)); (2, (0, 0, 0)); (1, (0, 0, 0))] 0;
    XReg (Expire 1 minB);
    XRead fB2 [(0, (4, 3, 32))] 3; XErr]).
Definition x_missed : ccase :=     (* valid at match time, yet not matched: also a disagreement *)
  (table_ex, 2, 1, rt_none, mt_none, flightB,
   [XReg (Track 1 minB rB); XAccept;
    XRead fB1 [(0, (0, 0, 0)); (2, (0, 0, 0)); (1, (0, 0, 0))] 0;
    XReg (Validate 1 minB rB);
    XRead fB2 [(1, (0, 0, 0)); (0, (1, 0, 0)); (2, (0, 0, 0))] 0; XErr]).
Example ex_replay : chk_conn x_ok = true /\ chk_conn x_bad = false /\ chk_conn x_missed = false.
Proof. vm_compute. auto. Qed.
