(* C19 enforcement model: what an accepted configuration's list entries DO.

   Model.v treats list entries as indices of probe subnets / names.  Here the entries carry their
   content -- subnets as (address, mask) byte strings, domain patterns as regular expressions with
   an executable matcher -- and the decision function of the station on a covert address string
   (pkg/station/lib/registration_config.go ParseOrResolveBlocklisted, isBlocklistedCovertAddr,
   isBlocklistedCovertDomain, IsBlocklistedPhantom) is modelled over them, so that "every entry of
   an accepted configuration is enforced" can be stated for every kind of entry against every kind
   of covert host text: names, IPv4 literals, IPv6 literals (bracketed, zoned), IPv4-mapped ones.

   What the pinned code matches a covert_blocklist_domains pattern against: the HOST PART of the
   covert string as written -- the text net.SplitHostPort returns (brackets of an IPv6 literal
   removed, a zone kept), before any resolution, for literals and names alike.

   External: net.ParseIP (as a predicate) and net.ResolveIPAddr are parameters of `decide`;
   net.ParseCIDR and regexp.Compile are the classes NOk/NBad, POk/PBad of the written entries.
   Definitions only; executable. *)
From CJ Require Export Common.Base.

(* ---------- byte strings: net.SplitHostPort, the port ---------- *)
Definition c_colon : N := 58.   (* ':' *)
Definition c_lbr : N := 91.     (* '[' *)
Definition c_rbr : N := 93.     (* ']' *)

Fixpoint index_byte (c : N) (s : bytes) : option nat :=
  match s with
  | [] => None
  | x :: t => if x =? c then Some 0%nat else option_map S (index_byte c t)
  end.
Fixpoint last_index_byte (c : N) (s : bytes) : option nat :=
  match s with
  | [] => None
  | x :: t => match last_index_byte c t with
              | Some i => Some (S i)
              | None => if x =? c then Some 0%nat else None
              end
  end.
Definition has_byte (c : N) (s : bytes) : bool :=
  match index_byte c s with Some _ => true | None => false end.

(* net.SplitHostPort (go1.23 net/ipsock.go): None = any of its errors *)
Definition split_host_port (s : bytes) : option (bytes * bytes) :=
  match last_index_byte c_colon s with
  | None => None                                              (* missing port *)
  | Some i =>
      match s with
      | [] => None
      | x :: rest =>
          if x =? c_lbr then
            match index_byte c_rbr s with
            | None => None                                    (* missing ']' *)
            | Some e =>
                if Nat.eqb (S e) i then
                  if has_byte c_lbr rest then None            (* unexpected '[' in hostport[1:] *)
                  else if has_byte c_rbr (skipn (S e) s) then None
                  else Some (firstn (e - 1) rest, skipn (S i) s)
                else None                                     (* missing port / too many colons *)
            end
          else
            let host := firstn i s in
            if has_byte c_colon host then None                (* too many colons *)
            else if has_byte c_lbr s then None
            else if has_byte c_rbr s then None
            else Some (host, skipn (S i) s)
      end
  end.

(* strconv.ParseUint(port, 10, 16) succeeds *)
Definition is_digit (c : N) : bool := (48 <=? c) && (c <=? 57).
Fixpoint dec_val (acc : N) (s : bytes) : option N :=
  match s with
  | [] => Some acc
  | c :: t => if is_digit c then dec_val (acc * 10 + (c - 48)) t else None
  end.
Definition port_ok (p : bytes) : bool :=
  match p with
  | [] => false
  | _ => match dec_val 0 p with Some v => v <=? 65535 | None => false end
  end.

(* ---------- addresses and subnets: net.IP.To4, net.IPNet.Contains ---------- *)
Definition ipraw := bytes.                                    (* 4 or 16 bytes (anything else: no address) *)
Definition ipnet := (bytes * bytes)%type.                     (* IPNet.IP, IPNet.Mask *)
Definition v4in6_prefix : bytes := [0;0;0;0;0;0;0;0;0;0;255;255].
Definition len_is (n : nat) (b : bytes) : bool := Nat.eqb (length b) n.
Definition to4 (ip : ipraw) : option ipraw :=
  if len_is 4 ip then Some ip
  else if len_is 16 ip && bytes_eqb (firstn 12 ip) v4in6_prefix then Some (skipn 12 ip)
  else None.
Definition norm (ip : ipraw) : ipraw := match to4 ip with Some x => x | None => ip end.
Definition valid_ip (ip : ipraw) : bool := len_is 4 ip || len_is 16 ip.      (* IP.To16() != nil *)
Definition is_some {A} (o : option A) : bool := match o with Some _ => true | None => false end.

(* networkNumberAndMask *)
Definition net_num_mask (n : ipnet) : option (bytes * bytes) :=
  let '(ip0, m) := n in
  let ipo := match to4 ip0 with
             | Some x => Some x
             | None => if len_is 16 ip0 then Some ip0 else None
             end in
  match ipo with
  | None => None
  | Some ip =>
      if len_is 4 m then (if len_is 4 ip then Some (ip, m) else None)
      else if len_is 16 m then (if len_is 4 ip then Some (ip, skipn 12 m) else Some (ip, m))
      else None
  end.
Fixpoint masked_eq (nn m ip : bytes) : bool :=
  match nn, m, ip with
  | [], _, [] => true
  | a :: nn', k :: m', b :: ip' => (N.land a k =? N.land b k) && masked_eq nn' m' ip'
  | _, _, _ => false
  end.
(* IPNet.Contains: the address is brought to its 4-byte form first when it has one, then the lengths
   must agree -- a v4 subnet covers the IPv4-mapped spelling of its addresses, a v6 subnet none of them *)
Definition contains (n : ipnet) (ip : ipraw) : bool :=
  match net_num_mask n with
  | None => false
  | Some (nn, m) => let x := norm ip in Nat.eqb (length x) (length nn) && masked_eq nn m x
  end.
Definition in_nets (l : list ipnet) (ip : ipraw) : bool := existsb (fun n => contains n ip) l.

(* ---------- domain patterns: regular expressions with an executable matcher ---------- *)
(* the subset of RE2 syntax the operator's patterns are written in (and the generator emits):
   literal bytes, `.`, character classes, concatenation, alternation, star (+ and ? are derived),
   `^` and `$` at the two ends of the pattern.  Regexp.MatchString is an unanchored search. *)
Inductive re :=
| REmpty                                   (* matches nothing (only produced by derivatives) *)
| REps
| RChr (c : N)
| RAny                                     (* `.`: any byte but '\n' *)
| RCls (neg : bool) (rs : list (N * N))    (* [a-z...] / [^a-z...] *)
| RCat (a b : re)
| RAlt (a b : re)
| RStar (a : re).
Record pattern := mkPat { p_bol : bool; p_body : re; p_eol : bool }.

Definition in_ranges (c : N) (rs : list (N * N)) : bool :=
  existsb (fun r => (fst r <=? c) && (c <=? snd r)) rs.
Definition cls_match (neg : bool) (rs : list (N * N)) (c : N) : bool := xorb neg (in_ranges c rs).

Fixpoint nullable (r : re) : bool :=
  match r with
  | REmpty => false
  | REps => true
  | RChr _ | RAny | RCls _ _ => false
  | RCat a b => nullable a && nullable b
  | RAlt a b => nullable a || nullable b
  | RStar _ => true
  end.
Definition mk_cat (a b : re) : re :=
  match a, b with
  | REmpty, _ => REmpty
  | _, REmpty => REmpty
  | REps, _ => b
  | _, _ => RCat a b
  end.
Definition mk_alt (a b : re) : re :=
  match a, b with
  | REmpty, _ => b
  | _, REmpty => a
  | _, _ => RAlt a b
  end.
(* Brzozowski derivative *)
Fixpoint deriv (c : N) (r : re) : re :=
  match r with
  | REmpty | REps => REmpty
  | RChr x => if x =? c then REps else REmpty
  | RAny => if c =? 10 then REmpty else REps
  | RCls neg rs => if cls_match neg rs c then REps else REmpty
  | RCat a b => if nullable a then mk_alt (mk_cat (deriv c a) b) (deriv c b) else mk_cat (deriv c a) b
  | RAlt a b => mk_alt (deriv c a) (deriv c b)
  | RStar a => mk_cat (deriv c a) (RStar a)
  end.
Fixpoint re_match (r : re) (s : bytes) : bool :=
  match s with
  | [] => nullable r
  | c :: t => re_match (deriv c r) t
  end.
Definition RAll : re := RCls true [].                          (* any byte *)
Definition pat_re (p : pattern) : re :=
  RCat (if p_bol p then REps else RStar RAll) (RCat (p_body p) (if p_eol p then REps else RStar RAll)).
(* Regexp.MatchString(host) *)
Definition pat_match (p : pattern) (s : bytes) : bool := re_match (pat_re p) s.

(* ---------- the four lists as written, and ParseBlocklists ---------- *)
Inductive nentry := NOk (n : ipnet) | NBad.                    (* a CIDR net.ParseCIDR accepts (and what it yields) / rejects *)
Inductive pentry := POk (p : pattern) | PBad.                  (* a pattern regexp.Compile accepts / rejects *)
Record lists := mkLists {
  l_block : list nentry;       (* covert_blocklist_subnets  (absent key = empty list) *)
  l_allow : list nentry;       (* covert_allowlist_subnets *)
  l_phantom : list nentry;     (* phantom_blocklist *)
  l_domains : list pentry;     (* covert_blocklist_domains *)
  l_public : bool }.           (* covert_blocklist_public_addrs: the subnets of the machine's own interfaces
                                  (net.Interfaces / Addrs at load time) are implicit blocklist entries *)
(* the configuration file of a (re)load: EFail = unreadable, syntax or type error anywhere *)
Inductive efile := EFail | ELists (l : lists).

Record epolicy := mkEP { e_block : list ipnet; e_allow : list ipnet; e_phantom : list ipnet; e_domains : list pattern }.

Fixpoint parse_nets (l : list nentry) : option (list ipnet) :=
  match l with
  | [] => Some []
  | NOk n :: r => match parse_nets r with Some p => Some (n :: p) | None => None end
  | NBad :: _ => None
  end.
Fixpoint parse_pats (l : list pentry) : option (list pattern) :=
  match l with
  | [] => Some []
  | POk p :: r => match parse_pats r with Some q => Some (p :: q) | None => None end
  | PBad :: _ => None
  end.
(* ParseBlocklists: None = the load fails.  ifaces: the interface subnets of the machine (external) *)
Definition implicit_block (ifaces : list ipnet) (l : lists) : list ipnet := if l_public l then ifaces else [].
Definition parse_lists (ifaces : list ipnet) (l : lists) : option epolicy :=
  match parse_nets (l_block l), parse_pats (l_domains l), parse_nets (l_phantom l), parse_nets (l_allow l) with
  | Some b, Some d, Some ph, Some a => Some (mkEP (b ++ implicit_block ifaces l) a ph d)
  | _, _, _, _ => None
  end.
Definition load (ifaces : list ipnet) (f : efile) : option epolicy :=
  match f with EFail => None | ELists l => parse_lists ifaces l end.

(* ---------- decisions ---------- *)
Definition is_nil {A} (l : list A) : bool := match l with [] => true | _ => false end.
(* isBlocklistedCovertDomain *)
Definition dom_blocked (p : epolicy) (host : bytes) : bool := existsb (fun pat => pat_match pat host) (e_domains p).
(* isBlocklistedCovertAddr: the allowlist, when on, takes precedence over the blocklist *)
Definition addr_blocked (p : epolicy) (ip : ipraw) : bool :=
  if is_nil (e_allow p) then in_nets (e_block p) ip else negb (in_nets (e_allow p) ip).
(* IsBlocklistedPhantom *)
Definition phantom_blocked (p : epolicy) (ip : ipraw) : bool := in_nets (e_phantom p) ip.

(* net.ResolveIPAddr("ip", host): error, or an address (possibly without IP bytes) and "zone non-empty" *)
Inductive resolved := RFail | RAddr (ip : ipraw) (zone : bool).

Section Decide.
  Variable parse_ip : bytes -> bool.          (* net.ParseIP(x) != nil *)
  Variable resolve : bytes -> resolved.

  (* what is left of ParseOrResolveBlocklisted once host and port are split off *)
  Definition decide_addr (p : epolicy) (host port : bytes) : bool :=
    if negb (port_ok port) then false
    else match resolve host with
         | RFail => false
         | RAddr ip zone =>
             if negb (valid_ip ip) then false                      (* addr.IP.To16() == nil *)
             else if zone && is_some (to4 ip) then false           (* zone on an IPv4(-mapped) address *)
             else negb (addr_blocked p ip)
         end.

  (* ParseOrResolveBlocklisted(s) returns a non-empty address: true = the covert is admitted *)
  Definition decide (p : epolicy) (s : bytes) : bool :=
    if parse_ip s then false                                       (* an address without a port *)
    else match split_host_port s with
         | None => false
         | Some (host, port) =>
             if dom_blocked p host then false                      (* the patterns see the host AS WRITTEN *)
             else decide_addr p host port
         end.

  (* the variant "patterns are for names": the pattern list is consulted only when the host is not an
     address literal (seeded change C19g).  NOT the code's behaviour; refuted in ExamplesEnforce.v *)
  Definition decide_names_only (p : epolicy) (s : bytes) : bool :=
    if parse_ip s then false
    else match split_host_port s with
         | None => false
         | Some (host, port) =>
             if negb (parse_ip host) && dom_blocked p host then false
             else decide_addr p host port
         end.
End Decide.

(* ---------- (re)loads: the policy in force ---------- *)
(* main.go's SIGHUP step + OnReload, policy part: replaced iff the new file loads *)
Definition reload_pol (ifaces : list ipnet) (cur : epolicy) (f : efile) : epolicy :=
  match load ifaces f with Some p => p | None => cur end.
Definition reloads_pol (ifaces : list ipnet) (cur : epolicy) (l : list efile) : epolicy := fold_left (reload_pol ifaces) l cur.

(* "some entry of the configuration forbids the host": a pattern matching the host text, the address
   outside a non-empty allowlist, or inside the blocklist when there is no allowlist *)
Definition forbids (p : epolicy) (host : bytes) (ip : ipraw) : Prop :=
  (exists pat, In pat (e_domains p) /\ pat_match pat host = true) \/
  (e_allow p <> [] /\ forall n, In n (e_allow p) -> contains n ip = false) \/
  (e_allow p = [] /\ exists n, In n (e_block p) /\ contains n ip = true).

(* ---------- declarative semantics of the patterns (specification of the matcher) ---------- *)
Inductive Matches : re -> bytes -> Prop :=
| MEps : Matches REps []
| MChr c : Matches (RChr c) [c]
| MAny c : c <> 10 -> Matches RAny [c]
| MCls neg rs c : cls_match neg rs c = true -> Matches (RCls neg rs) [c]
| MCat a b s t : Matches a s -> Matches b t -> Matches (RCat a b) (s ++ t)
| MAltL a b s : Matches a s -> Matches (RAlt a b) s
| MAltR a b s : Matches b s -> Matches (RAlt a b) s
| MStar0 a : Matches (RStar a) []
| MStarS a s t : Matches a s -> Matches (RStar a) t -> Matches (RStar a) (s ++ t).
(* unanchored search with optional anchors at the two ends: some substring (a prefix under `^`,
   a suffix under `$`) is in the language of the body *)
Definition Found (p : pattern) (s : bytes) : Prop :=
  exists pre mid post, s = pre ++ mid ++ post /\ (p_bol p = true -> pre = []) /\ (p_eol p = true -> post = []) /\
                       Matches (p_body p) mid.

(* ---------- notation helpers for examples and generated cases ---------- *)
Definition bs (s : string) : bytes := map N_of_ascii (list_ascii_of_string s).
Fixpoint re_lit (s : bytes) : re :=
  match s with [] => REps | [c] => RChr c | c :: t => RCat (RChr c) (re_lit t) end.
Definition re_plus (a : re) : re := RCat a (RStar a).          (* a+ *)
Definition re_opt (a : re) : re := RAlt a REps.                (* a? *)
