(* C19 model, concurrent part: policy readers while a reload is in progress.
   RegConfig keeps the parsed policy in separate fields (enableCovertAllowlist, covertBlocklistSubnets,
   covertAllowlistSubnets, phantomBlocklist, covertBlocklistDomains) guarded by policyLock (RWMutex):
     OnReload      Lock ; assign the fields one after the other ; Unlock
     a decision    RLock ; read the fields and decide ; RUnlock
   A thread is a list of atomic steps; the lock discipline is part of the step function (a reader cannot
   enter while the writer holds the lock, the writer cannot enter while readers are inside).
   `flag_outside = true` is the variant in which the allowlist flag is assigned BEFORE the lock is taken
   (used only for the counterexample in Examples.v).  Definitions only. *)
From CJ Require Export Common.Base C19.Model.

Record fields := mkF { f_flag : bool; f_block : list N; f_allow : list N; f_phantom : list N; f_domains : list N }.
Definition fields_of (p : policy) : fields :=
  mkF (negb (is_nil (p_allow p))) (p_block p) (p_allow p) (p_phantom p) (p_domains p).

Inductive query := QCovert (n : N) | QDomain (n : N) | QPhantom (n : N).
(* what the code computes from the fields it reads *)
Definition decide_f (f : fields) (q : query) : bool :=
  match q with
  | QCovert n => if f_flag f then negb (memN n (f_allow f)) else memN n (f_block f)
  | QDomain n => memN n (f_domains f)
  | QPhantom n => memN n (f_phantom f)
  end.
(* the decision of ONE configuration, in full *)
Definition decide_p (p : policy) (q : query) : bool :=
  match q with
  | QCovert n => covert_blocked p n
  | QDomain n => domain_blocked p n
  | QPhantom n => phantom_blocked p n
  end.

Inductive fld := FBlock | FFlag | FAllow | FDomains | FPhantom.
Definition assign (p : policy) (x : fld) (f : fields) : fields :=
  match x with
  | FBlock => mkF (f_flag f) (p_block p) (f_allow f) (f_phantom f) (f_domains f)
  | FFlag => mkF (negb (is_nil (p_allow p))) (f_block f) (f_allow f) (f_phantom f) (f_domains f)
  | FAllow => mkF (f_flag f) (f_block f) (p_allow p) (f_phantom f) (f_domains f)
  | FDomains => mkF (f_flag f) (f_block f) (f_allow f) (f_phantom f) (p_domains p)
  | FPhantom => mkF (f_flag f) (f_block f) (f_allow f) (p_phantom p) (f_domains f)
  end.
(* order of the assignments in OnReload *)
Definition all_fields : list fld := [FBlock; FFlag; FAllow; FDomains; FPhantom].
Definition locked_fields (flag_outside : bool) : list fld :=
  if flag_outside then [FBlock; FAllow; FDomains; FPhantom] else all_fields.

Inductive wpc := WIdle | WPre (p : policy) | WHold (p : policy) (todo : list fld).
Inductive rpc := RIdle | RHold (q : query).
Record reader := mkRd { r_pc : rpc; r_prog : list query }.

Record cstate := mkCs {
  cs_f : fields;                 (* the fields as stored *)
  cs_cur : policy;               (* ghost: the configuration last installed completely *)
  cs_wl : bool;                  (* policyLock held for writing *)
  cs_rd : nat;                   (* readers inside *)
  cs_wpc : wpc; cs_wprog : list policy;
  cs_readers : list reader;
  cs_obs : list (query * bool * policy * option policy)   (* decision, configuration in force, reload in progress (ghost) *)
}.

Definition in_progress (w : wpc) : option policy :=
  match w with WIdle => None | WPre p => Some p | WHold p _ => Some p end.

Definition wstep (fo : bool) (c : cstate) : cstate :=
  match cs_wpc c with
  | WIdle =>
      match cs_wprog c with
      | [] => c
      | p :: r =>
          if fo then   (* the flag is written without the lock *)
            mkCs (assign p FFlag (cs_f c)) (cs_cur c) (cs_wl c) (cs_rd c) (WPre p) r (cs_readers c) (cs_obs c)
          else if (cs_rd c =? 0)%nat && negb (cs_wl c) then
            mkCs (cs_f c) (cs_cur c) true (cs_rd c) (WHold p (locked_fields fo)) r (cs_readers c) (cs_obs c)
          else c
      end
  | WPre p =>
      if (cs_rd c =? 0)%nat && negb (cs_wl c) then
        mkCs (cs_f c) (cs_cur c) true (cs_rd c) (WHold p (locked_fields fo)) (cs_wprog c) (cs_readers c) (cs_obs c)
      else c
  | WHold p (x :: todo) =>
      mkCs (assign p x (cs_f c)) (cs_cur c) (cs_wl c) (cs_rd c) (WHold p todo) (cs_wprog c) (cs_readers c) (cs_obs c)
  | WHold p [] =>
      mkCs (cs_f c) p false (cs_rd c) WIdle (cs_wprog c) (cs_readers c) (cs_obs c)
  end.

Definition rstep (c : cstate) (i : nat) : cstate :=
  match nth_error (cs_readers c) i with
  | None => c
  | Some r =>
      let put r' := firstn i (cs_readers c) ++ r' :: skipn (S i) (cs_readers c) in
      match r_pc r with
      | RIdle =>
          match r_prog r with
          | [] => c
          | q :: rest =>
              if cs_wl c then c      (* RLock blocks *)
              else mkCs (cs_f c) (cs_cur c) (cs_wl c) (S (cs_rd c)) (cs_wpc c) (cs_wprog c) (put (mkRd (RHold q) rest)) (cs_obs c)
          end
      | RHold q =>
          mkCs (cs_f c) (cs_cur c) (cs_wl c) (pred (cs_rd c)) (cs_wpc c) (cs_wprog c) (put (mkRd RIdle (r_prog r)))
               (cs_obs c ++ [(q, decide_f (cs_f c) q, cs_cur c, in_progress (cs_wpc c))])
      end
  end.

(* thread 0 is the reloading main loop, thread S i is reader i *)
Definition pstep (fo : bool) (c : cstate) (t : nat) : cstate :=
  match t with O => wstep fo c | S i => rstep c i end.
Definition prun (fo : bool) (c : cstate) (sched : list nat) : cstate := fold_left (pstep fo) sched c.

Definition pinit (p0 : policy) (reloads : list policy) (progs : list (list query)) : cstate :=
  mkCs (fields_of p0) p0 false 0 WIdle reloads (map (mkRd RIdle) progs) [].
