(* C19 enforcement lane: evaluation of the model on recorded cases (correspondence check). *)
From CJ Require Import Common.Base C19.ModelEnforce.

(* one covert string evaluated against the policy in force *)
Record qobs := mkQ {
  q_s : bytes;                          (* the covert string *)
  q_whole : bool;                       (* net.ParseIP(s) != nil *)
  q_split : option (bytes * bytes);     (* net.SplitHostPort(s) as the Go library computed it *)
  q_res : resolved;                     (* net.ResolveIPAddr("ip", host) under the case's resolver script *)
  q_dom : list bool;                    (* regexp.MustCompile(written pattern).MatchString(host), per written pattern *)
  q_admit : bool }.                     (* ParseOrResolveBlocklisted returned an address *)
Record sobs := mkS {
  s_file : efile;
  s_loaded : bool;                      (* ParseConfig returned no error *)
  s_q : list qobs;
  s_ph : list (bytes * bool) }.         (* phantom address, IsBlocklistedPhantom *)

Definition pair_eqb (a b : bytes * bytes) : bool := bytes_eqb (fst a) (fst b) && bytes_eqb (snd a) (snd b).

Definition chk_q (p : epolicy) (q : qobs) : bool :=
  option_eqb pair_eqb (split_host_port (q_s q)) (q_split q) &&
  match split_host_port (q_s q) with
  | Some (host, _) => list_eqb Bool.eqb (map (fun pat => pat_match pat host) (e_domains p)) (q_dom q)
  | None => true
  end &&
  Bool.eqb (decide (fun _ => q_whole q) (fun _ => q_res q) p (q_s q)) (q_admit q).

Definition chk_state (p : epolicy) (s : sobs) : bool :=
  forallb (chk_q p) (s_q s) &&
  forallb (fun o => Bool.eqb (phantom_blocked p (fst o)) (snd o)) (s_ph s).

Fixpoint chk_steps (ifaces : list ipnet) (cur : epolicy) (l : list sobs) : bool :=
  match l with
  | [] => true
  | s :: r => let p := reload_pol ifaces cur (s_file s) in
              Bool.eqb (is_some (load ifaces (s_file s))) (s_loaded s) && chk_state p s && chk_steps ifaces p r
  end.

(* start-up (the first file must load, otherwise there is no station), then reloads *)
(* ifaces: the subnets of the machine's interfaces as the driver's own net.Interfaces() call sees them *)
Definition chk_enf (c : list ipnet * list sobs) : bool :=
  let '(ifaces, l) := c in
  match l with
  | [] => true
  | s :: r => match load ifaces (s_file s) with
              | Some p => s_loaded s && chk_state p s && chk_steps ifaces p r
              | None => negb (s_loaded s)
              end
  end.
