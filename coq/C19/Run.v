(* C19: evaluation of the model on recorded cases (correspondence check). *)
From CJ Require Import Common.Base C19.Model.

(* per step (start-up, then each reload):
   parse   0 ok, 1 error, 2 panic
   stage   start-up: 0 manager built, 1 liveness.New error (log.Fatal), 2 manager nil, 3 not reached, 9 panic
           reload:   0 OnReload ran, 1 skipped (parse failed), 9 panic
   hk      statistics printers and expiry all returned (only meaningful with a manager)
   decisions on the probe addresses / names, and the generations of the selector *)
Record obs := mkObs {
  o_parse : N; o_stage : N; o_hk : bool;
  o_cov : list bool; o_loop : bool; o_dom : list bool; o_ph : list bool; o_gens : list N;
  o_pipe : N   (* cap(ingestChan) + 1, 0 = nil channel *) }.

Definition probes (n : N) : list N := map N.of_nat (seq 0 (N.to_nat n)).

Definition decisions (p : policy) (np : N) (parse stage : N) (hk : bool) (gens : list N) (pipe : N) : obs :=
  mkObs parse stage hk (map (covert_blocked p) (probes np)) (loop_blocked p)
        (map (domain_blocked p) (probes np)) (map (phantom_blocked p) (probes np)) gens pipe.

Definition empty_obs (parse stage : N) : obs := mkObs parse stage true [] false [] [] [] 0.
Definition pipe_code (m : manager) : N := match m_pipe m with None => 0 | Some c => c + 1 end.

Definition is_ok {A} (r : res A) : bool := match r with Ok _ => true | _ => false end.
Definition parse_code {A} (r : res A) : N := match r with Ok _ => 0 | Err _ => 1 | Panic => 2 end.

Definition obs_of_mgr (m : manager) (np parse stage : N) : obs :=
  decisions (m_policy m) np parse stage (is_ok (housekeeping m)) (m_sel m) (pipe_code m).

(* start-up *)
Definition start_obs (f : file) (s : subfile) (np : N) : obs * option manager :=
  match parse_config f with
  | Panic => (empty_obs 2 3, None)
  | Err _ => (empty_obs 1 3, None)
  | Ok c =>
      match new_manager c s with
      | Ok m =>   (* printers on the fresh manager, then the ingest pipeline is launched and they run again *)
          let m1 := launch m in
          (decisions (m_policy m1) np 0 0 (is_ok (housekeeping m) && is_ok (housekeeping m1)) (m_sel m1) (pipe_code m1), Some m1)
      | Err EFatalLiveness => (decisions (c_policy c) np 0 1 true [] 0, None)
      | Err _ => (decisions (c_policy c) np 0 2 true [] 0, None)
      | Panic => (decisions (c_policy c) np 0 9 true [] 0, None)
      end
  end.

Fixpoint reload_obs (m : manager) (l : list (file * subfile)) (np : N) : list obs :=
  match l with
  | [] => []
  | (f, s) :: r =>
      match parse_config f with
      | Panic => [empty_obs 2 1]
      | Err _ => obs_of_mgr m np 1 1 :: reload_obs m r np
      | Ok c => let m' := on_reload_conf m c s in obs_of_mgr m' np 0 0 :: reload_obs m' r np
      end
  end.

Definition model_obs (steps : list (file * subfile)) (np : N) : list obs :=
  match steps with
  | [] => []
  | (f, s) :: r =>
      let '(o, om) := start_obs f s np in
      o :: match om with Some m => reload_obs m r np | None => [] end
  end.

Definition obs_eqb (a b : obs) : bool :=
  (o_parse a =? o_parse b) && (o_stage a =? o_stage b) && Bool.eqb (o_hk a) (o_hk b) &&
  list_eqb Bool.eqb (o_cov a) (o_cov b) && Bool.eqb (o_loop a) (o_loop b) &&
  list_eqb Bool.eqb (o_dom a) (o_dom b) && list_eqb Bool.eqb (o_ph a) (o_ph b) &&
  list_eqb N.eqb (o_gens a) (o_gens b) && (o_pipe a =? o_pipe b).

Definition chk (c : list (file * subfile) * N * list obs) : bool :=
  let '(steps, np, o) := c in list_eqb obs_eqb (model_obs steps np) o.

(* comparison for the second driver (the real SIGHUP loop of main.go, run in package main, which
   only sees the exported API): no domain decisions, no statistics printers *)
Definition obs_eqb_lite (a b : obs) : bool :=
  (o_parse a =? o_parse b) && (o_stage a =? o_stage b) &&
  list_eqb Bool.eqb (o_cov a) (o_cov b) && Bool.eqb (o_loop a) (o_loop b) &&
  list_eqb Bool.eqb (o_ph a) (o_ph b) && list_eqb N.eqb (o_gens a) (o_gens b).
Definition chk_lite (c : list (file * subfile) * N * list obs) : bool :=
  let '(steps, np, o) := c in list_eqb obs_eqb_lite (model_obs steps np) o.
