(* C19 enforcement model: lemmas. *)
From Coq Require Import Lia.
From CJ Require Import Common.Base C19.ModelEnforce.

(* ---------------- ParseBlocklists: all or nothing ---------------- *)
Lemma parse_nets_map : forall p, parse_nets (map NOk p) = Some p.
Proof. induction p as [|n p IH]; simpl; [reflexivity|]. rewrite IH. reflexivity. Qed.
Lemma parse_nets_inv : forall l p, parse_nets l = Some p -> l = map NOk p.
Proof.
  induction l as [|e l IH]; intros p H; simpl in H.
  - inversion H. reflexivity.
  - destruct e as [n|]; [|discriminate].
    destruct (parse_nets l) as [q|] eqn:E; [|discriminate].
    inversion H; subst. simpl. f_equal. apply IH. reflexivity.
Qed.
Lemma parse_nets_bad : forall l, In NBad l -> parse_nets l = None.
Proof.
  induction l as [|e l IH]; intros H; [destruct H|].
  destruct H as [H|H].
  - subst. reflexivity.
  - simpl. destruct e; [|reflexivity]. rewrite (IH H). reflexivity.
Qed.
Lemma parse_pats_map : forall p, parse_pats (map POk p) = Some p.
Proof. induction p as [|n p IH]; simpl; [reflexivity|]. rewrite IH. reflexivity. Qed.
Lemma parse_pats_inv : forall l p, parse_pats l = Some p -> l = map POk p.
Proof.
  induction l as [|e l IH]; intros p H; simpl in H.
  - inversion H. reflexivity.
  - destruct e as [n|]; [|discriminate].
    destruct (parse_pats l) as [q|] eqn:E; [|discriminate].
    inversion H; subst. simpl. f_equal. apply IH. reflexivity.
Qed.
Lemma parse_pats_bad : forall l, In PBad l -> parse_pats l = None.
Proof.
  induction l as [|e l IH]; intros H; [destruct H|].
  destruct H as [H|H].
  - subst. reflexivity.
  - simpl. destruct e; [|reflexivity]. rewrite (IH H). reflexivity.
Qed.

(* an accepted configuration: the policy in force is, list by list and in order, exactly what was written
   (plus, behind the written blocklist, the interface subnets when covert_blocklist_public_addrs is on) *)
Lemma parse_lists_exact : forall ifaces l p, parse_lists ifaces l = Some p <->
  (exists b, l_block l = map NOk b /\ e_block p = b ++ implicit_block ifaces l) /\ l_allow l = map NOk (e_allow p) /\
  l_phantom l = map NOk (e_phantom p) /\ l_domains l = map POk (e_domains p).
Proof.
  intros ifaces l p. unfold parse_lists. split.
  - destruct (parse_nets (l_block l)) as [b|] eqn:Eb; [|discriminate].
    destruct (parse_pats (l_domains l)) as [d|] eqn:Ed; [|discriminate].
    destruct (parse_nets (l_phantom l)) as [ph|] eqn:Eph; [|discriminate].
    destruct (parse_nets (l_allow l)) as [a|] eqn:Ea; [|discriminate].
    intro H. inversion H; subst; simpl.
    repeat split; auto using parse_nets_inv, parse_pats_inv.
    exists b. split; [apply parse_nets_inv; exact Eb|reflexivity].
  - intros ((b & Hb & Hb') & Ha & Hph & Hd). rewrite Hb, Ha, Hph, Hd.
    rewrite !parse_nets_map, parse_pats_map. destruct p; simpl in *. subst. reflexivity.
Qed.

Lemma bad_entry_fails : forall ifaces l,
  In NBad (l_block l) \/ In NBad (l_allow l) \/ In NBad (l_phantom l) \/ In PBad (l_domains l) ->
  load ifaces (ELists l) = None.
Proof.
  intros ifaces l H. unfold load, parse_lists.
  destruct H as [H|[H|[H|H]]].
  - rewrite (parse_nets_bad _ H). reflexivity.
  - rewrite (parse_nets_bad _ H). destruct (parse_nets (l_block l)), (parse_pats (l_domains l)), (parse_nets (l_phantom l)); reflexivity.
  - rewrite (parse_nets_bad _ H). destruct (parse_nets (l_block l)), (parse_pats (l_domains l)); reflexivity.
  - rewrite (parse_pats_bad _ H). destruct (parse_nets (l_block l)); reflexivity.
Qed.

Lemma in_map_NOk : forall n l, In (NOk n) (map NOk l) -> In n l.
Proof. intros n l H. apply in_map_iff in H. destruct H as (x & E & I). inversion E; subst; exact I. Qed.
Lemma in_map_POk : forall n l, In (POk n) (map POk l) -> In n l.
Proof. intros n l H. apply in_map_iff in H. destruct H as (x & E & I). inversion E; subst; exact I. Qed.

Lemma written_in_force : forall ifaces l p, parse_lists ifaces l = Some p ->
  (forall n, In n (e_block p) <-> In (NOk n) (l_block l) \/ (l_public l = true /\ In n ifaces)) /\
  (forall n, In (NOk n) (l_allow l) <-> In n (e_allow p)) /\
  (forall n, In (NOk n) (l_phantom l) <-> In n (e_phantom p)) /\
  (forall q, In (POk q) (l_domains l) <-> In q (e_domains p)).
Proof.
  intros ifaces l p H. apply parse_lists_exact in H. destruct H as ((b & Hb & Hb') & Ha & Hph & Hd).
  rewrite Hb, Hb', Ha, Hph, Hd.
  repeat split; intros; auto using in_map_NOk, in_map_POk, in_map.
  - apply in_app_or in H. destruct H as [H|H]; [left; apply in_map; exact H|right].
    unfold implicit_block in H. destruct (l_public l); [split; [reflexivity|exact H]|destruct H].
  - apply in_or_app. destruct H as [H|[P H]]; [left; apply in_map_NOk; exact H|right].
    unfold implicit_block. rewrite P. exact H.
Qed.

Lemma load_exact : forall ifaces l p, load ifaces (ELists l) = Some p <->
  (exists b, l_block l = map NOk b /\ e_block p = b ++ implicit_block ifaces l) /\ l_allow l = map NOk (e_allow p) /\
  l_phantom l = map NOk (e_phantom p) /\ l_domains l = map POk (e_domains p).
Proof. intros. apply parse_lists_exact. Qed.

(* ---------------- decisions ---------------- *)
Lemma existsb_false_iff : forall {A} (f : A -> bool) l, existsb f l = false <-> forall x, In x l -> f x = false.
Proof.
  intros A f l. induction l as [|a l IH]; simpl.
  - split; [intros _ x []|reflexivity].
  - rewrite orb_false_iff, IH. split.
    + intros [Ha H] x [E|I]; [subst; exact Ha|auto].
    + intros H. split; [apply H; left; reflexivity|intros x I; apply H; right; exact I].
Qed.

Lemma is_nil_true : forall {A} (l : list A), is_nil l = true <-> l = [].
Proof. intros A [|a l]; simpl; split; intro H; try reflexivity; discriminate. Qed.
Lemma is_nil_false : forall {A} (l : list A), is_nil l = false <-> l <> [].
Proof. intros A [|a l]; simpl; split; intro H; try reflexivity; try discriminate; congruence. Qed.

(* the address part of "some entry forbids it" is exactly addr_blocked *)
Lemma addr_blocked_iff : forall p ip, addr_blocked p ip = true <->
  (e_allow p <> [] /\ forall n, In n (e_allow p) -> contains n ip = false) \/
  (e_allow p = [] /\ exists n, In n (e_block p) /\ contains n ip = true).
Proof.
  intros p ip. unfold addr_blocked, in_nets.
  destruct (is_nil (e_allow p)) eqn:E.
  - apply is_nil_true in E. rewrite existsb_exists. split.
    + intros (n & I & C). right. split; [exact E|exists n; auto].
    + intros [[N _]|[_ (n & I & C)]]; [congruence|exists n; auto].
  - apply is_nil_false in E. rewrite negb_true_iff, existsb_false_iff. split.
    + intro H. left. split; [exact E|exact H].
    + intros [[_ H]|[N _]]; [exact H|congruence].
Qed.

Lemma dom_blocked_iff : forall p host, dom_blocked p host = true <-> exists pat, In pat (e_domains p) /\ pat_match pat host = true.
Proof. intros p host. unfold dom_blocked. apply existsb_exists. Qed.

Section DecideLemmas.
  Variable parse_ip : bytes -> bool.
  Variable resolve : bytes -> resolved.

  (* a pattern that matches the host text refuses the covert: no condition on the kind of host *)
  Lemma pattern_refuses : forall p s host port pat,
    split_host_port s = Some (host, port) -> In pat (e_domains p) -> pat_match pat host = true ->
    decide parse_ip resolve p s = false.
  Proof.
    intros p s host port pat Hs Hi Hm. unfold decide.
    destruct (parse_ip s); [reflexivity|]. rewrite Hs.
    assert (D : dom_blocked p host = true) by (apply dom_blocked_iff; exists pat; auto).
    rewrite D. reflexivity.
  Qed.

  Lemma subnet_refuses : forall p s host port ip z,
    split_host_port s = Some (host, port) -> resolve host = RAddr ip z -> addr_blocked p ip = true ->
    decide parse_ip resolve p s = false.
  Proof.
    intros p s host port ip z Hs Hr Hb. unfold decide, decide_addr.
    destruct (parse_ip s); [reflexivity|]. rewrite Hs, Hr, Hb.
    destruct (dom_blocked p host); [reflexivity|].
    destruct (negb (port_ok port)); [reflexivity|].
    destruct (negb (valid_ip ip)); [reflexivity|].
    destruct (z && is_some (to4 ip)); reflexivity.
  Qed.

  Lemma forbids_refuses : forall p s host port ip z,
    split_host_port s = Some (host, port) -> resolve host = RAddr ip z -> forbids p host ip ->
    decide parse_ip resolve p s = false.
  Proof.
    intros p s host port ip z Hs Hr [(pat & I & M)|H].
    - eapply pattern_refuses; eauto.
    - eapply subnet_refuses; eauto. apply addr_blocked_iff. exact H.
  Qed.

  (* exact characterisation of the admitted coverts *)
  Lemma decide_admits_iff : forall p s,
    decide parse_ip resolve p s = true <->
    parse_ip s = false /\
    exists host port ip z,
      split_host_port s = Some (host, port) /\ port_ok port = true /\ resolve host = RAddr ip z /\
      valid_ip ip = true /\ (z = true -> to4 ip = None) /\ ~ forbids p host ip.
  Proof.
    intros p s. unfold decide, decide_addr. split.
    - destruct (parse_ip s); [discriminate|].
      destruct (split_host_port s) as [[host port]|]; [|discriminate].
      destruct (dom_blocked p host) eqn:D; [discriminate|].
      destruct (port_ok port) eqn:P; [|discriminate]. simpl.
      destruct (resolve host) as [|ip z] eqn:R; [discriminate|].
      destruct (valid_ip ip) eqn:V; [|discriminate]. simpl.
      destruct (z && is_some (to4 ip)) eqn:Z; [discriminate|].
      intro H. apply negb_true_iff in H.
      split; [reflexivity|]. exists host, port, ip, z. repeat split; auto.
      + intro Hz. subst z. simpl in Z. destruct (to4 ip); [discriminate|reflexivity].
      + intros [(pat & I & M)|F].
        * assert (dom_blocked p host = true) by (apply dom_blocked_iff; exists pat; auto). congruence.
        * apply addr_blocked_iff in F. congruence.
    - intros (Hp & host & port & ip & z & Hs & Hport & Hr & Hv & Hz & Hf).
      rewrite Hp, Hs.
      destruct (dom_blocked p host) eqn:D.
      + exfalso. apply Hf. left. apply dom_blocked_iff. exact D.
      + rewrite Hport, Hr, Hv. simpl.
        destruct (z && is_some (to4 ip)) eqn:Z.
        * apply andb_true_iff in Z. destruct Z as [Z1 Z2]. rewrite (Hz Z1) in Z2. discriminate.
        * apply negb_true_iff. destruct (addr_blocked p ip) eqn:B; [|reflexivity].
          exfalso. apply Hf. right. apply addr_blocked_iff. exact B.
  Qed.

  (* the two variants agree on every host that is not a literal, and on literals no pattern matches *)
  Lemma names_only_agrees : forall p s host port,
    split_host_port s = Some (host, port) -> (parse_ip host = false \/ dom_blocked p host = false) ->
    decide_names_only parse_ip resolve p s = decide parse_ip resolve p s.
  Proof.
    intros p s host port Hs H. unfold decide_names_only, decide. rewrite Hs.
    destruct (parse_ip s); [reflexivity|].
    destruct H as [H|H]; rewrite H; simpl; [reflexivity|].
    rewrite andb_false_r. reflexivity.
  Qed.
End DecideLemmas.

(* ---------------- reload ---------------- *)
Lemma reload_failed_same : forall ifaces cur f, load ifaces f = None -> reload_pol ifaces cur f = cur.
Proof. intros ifaces cur f H. unfold reload_pol. rewrite H. reflexivity. Qed.
Lemma reload_ok_new : forall ifaces cur f p, load ifaces f = Some p -> reload_pol ifaces cur f = p.
Proof. intros ifaces cur f p H. unfold reload_pol. rewrite H. reflexivity. Qed.

(* after any sequence of reloads the policy in force is the last one that loaded, or the initial one *)
Lemma reloads_in_force : forall ifaces l cur,
  reloads_pol ifaces cur l = cur \/ exists f, In f l /\ load ifaces f = Some (reloads_pol ifaces cur l).
Proof.
  intros ifaces. induction l as [|f r IH]; intro cur; [left; reflexivity|].
  unfold reloads_pol. simpl. fold (reloads_pol ifaces (reload_pol ifaces cur f) r).
  destruct (IH (reload_pol ifaces cur f)) as [E|(g & I & L)].
  - rewrite E. unfold reload_pol. destruct (load ifaces f) as [p|] eqn:Lf.
    + right. exists f. split; [left; reflexivity|exact Lf].
    + left. reflexivity.
  - right. exists g. split; [right; exact I|exact L].
Qed.

Lemma reload_keeps_enforcing : forall ifaces cur files,
  (reloads_pol ifaces cur files = cur \/ exists f, In f files /\ load ifaces f = Some (reloads_pol ifaces cur files)) /\
  (forall f, load ifaces f = None -> reload_pol ifaces cur f = cur) /\
  (forall f p, load ifaces f = Some p -> reload_pol ifaces cur f = p).
Proof.
  intros ifaces cur files. split; [exact (reloads_in_force ifaces files cur)|].
  split; [exact (reload_failed_same ifaces cur)|exact (reload_ok_new ifaces cur)].
Qed.

(* ---------------- subnets against the spellings of an address ---------------- *)
Lemma to4_mapped : forall a, len_is 4 a = true -> to4 (v4in6_prefix ++ a) = Some a.
Proof.
  intros a H. unfold len_is in H. apply Nat.eqb_eq in H.
  destruct a as [|a0 [|a1 [|a2 [|a3 [|]]]]]; try discriminate.
  reflexivity.
Qed.
Lemma to4_v4 : forall a, len_is 4 a = true -> to4 a = Some a.
Proof. intros a H. unfold to4. rewrite H. reflexivity. Qed.

(* a subnet decides the same on an IPv4 address and on its IPv4-mapped spelling (::ffff:a.b.c.d) *)
Lemma contains_mapped : forall n a, len_is 4 a = true -> contains n (v4in6_prefix ++ a) = contains n a.
Proof. intros n a H. unfold contains, norm. rewrite (to4_mapped a H), (to4_v4 a H). reflexivity. Qed.

Lemma in_nets_mapped : forall l a, len_is 4 a = true -> in_nets l (v4in6_prefix ++ a) = in_nets l a.
Proof.
  intros l a H. unfold in_nets. induction l as [|n l IH]; [reflexivity|].
  cbn [existsb]. rewrite (contains_mapped n a H), IH. reflexivity.
Qed.

Lemma addr_blocked_mapped : forall p a, len_is 4 a = true -> addr_blocked p (v4in6_prefix ++ a) = addr_blocked p a.
Proof. intros p a H. unfold addr_blocked. rewrite !(in_nets_mapped _ a H). reflexivity. Qed.

Lemma mapped_spelling_same : forall p a, len_is 4 a = true ->
  addr_blocked p (v4in6_prefix ++ a) = addr_blocked p a /\
  phantom_blocked p (v4in6_prefix ++ a) = phantom_blocked p a.
Proof. intros p a H. split; [exact (addr_blocked_mapped p a H)|exact (in_nets_mapped (e_phantom p) a H)]. Qed.

(* ---------------- the property-level statements (accepted configuration => enforcement) ---------------- *)
Lemma pattern_entry_enforced : forall parse_ip resolve ifaces l p pat s host port,
  load ifaces (ELists l) = Some p -> In (POk pat) (l_domains l) ->
  split_host_port s = Some (host, port) -> pat_match pat host = true ->
  decide parse_ip resolve p s = false.
Proof.
  intros parse_ip resolve ifaces l p pat s host port L I S M.
  apply (pattern_refuses parse_ip resolve p s host port pat S); [|exact M].
  apply (written_in_force ifaces l p L). exact I.
Qed.

Lemma pattern_entry_enforced_allowlisted_literal : forall parse_ip resolve ifaces l p pat n s host port ip,
  load ifaces (ELists l) = Some p -> In (POk pat) (l_domains l) -> In (NOk n) (l_allow l) ->
  split_host_port s = Some (host, port) -> parse_ip host = true -> resolve host = RAddr ip false ->
  contains n ip = true -> pat_match pat host = true ->
  decide parse_ip resolve p s = false.
Proof.
  intros parse_ip resolve ifaces l p pat n s host port ip L I _ S _ _ _ M.
  exact (pattern_entry_enforced parse_ip resolve ifaces l p pat s host port L I S M).
Qed.

Lemma subnet_entries_enforced : forall parse_ip resolve ifaces l p s host port ip z,
  load ifaces (ELists l) = Some p -> split_host_port s = Some (host, port) -> resolve host = RAddr ip z ->
  (l_allow l = [] -> forall n, In (NOk n) (l_block l) \/ (l_public l = true /\ In n ifaces) -> contains n ip = true ->
     decide parse_ip resolve p s = false) /\
  (l_allow l <> [] -> (forall n, In (NOk n) (l_allow l) -> contains n ip = false) -> decide parse_ip resolve p s = false).
Proof.
  intros parse_ip resolve ifaces l p s host port ip z L S R.
  pose proof (written_in_force ifaces l p L) as (Wb & Wa & _ & _).
  pose proof (proj1 (load_exact ifaces l p) L) as (_ & Ea & _ & _).
  split.
  - intros A n I C. apply (subnet_refuses parse_ip resolve p s host port ip z S R).
    apply addr_blocked_iff. right. split.
    + rewrite A in Ea. destruct (e_allow p); [reflexivity|discriminate].
    + exists n. split; [apply Wb; exact I|exact C].
  - intros A H. apply (subnet_refuses parse_ip resolve p s host port ip z S R).
    apply addr_blocked_iff. left. split.
    + intro E. apply A. rewrite Ea, E. reflexivity.
    + intros n I. apply H. apply Wa. exact I.
Qed.

Lemma phantom_entries_enforced : forall ifaces l p ip, load ifaces (ELists l) = Some p ->
  (phantom_blocked p ip = true <-> exists n, In (NOk n) (l_phantom l) /\ contains n ip = true).
Proof.
  intros ifaces l p ip L. pose proof (written_in_force ifaces l p L) as (_ & _ & Wp & _).
  unfold phantom_blocked, in_nets. rewrite existsb_exists. split.
  - intros (n & I & C). exists n. split; [apply Wp; exact I|exact C].
  - intros (n & I & C). exists n. split; [apply Wp; exact I|exact C].
Qed.
