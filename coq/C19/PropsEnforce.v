(* C19 property theorems, enforcement part: statements + `exact lemma` only.
   "Every blocklist and allowlist entry of an accepted configuration is enforced": for every kind of
   entry (blocklist subnet, implicit interface subnet of covert_blocklist_public_addrs, allowlist subnet,
   domain pattern, phantom blocklist subnet) and every covert string, whatever kind of host it names --
   parse_ip (net.ParseIP as a predicate) and resolve (net.ResolveIPAddr) are universally quantified, so
   names, IPv4/IPv6 literals, zoned and IPv4-mapped literals are all covered.  ifaces: the interface
   subnets of the machine at load time (external). *)
From CJ Require Import Common.Base C19.ModelEnforce C19.ProofsEnforce C19.ProofsRegex C19.ProofsStrings.

(* an accepted configuration's policy is, list by list and in order, exactly the written entries (the
   interface subnets behind the written blocklist when covert_blocklist_public_addrs is on): none dropped,
   none added *)
Theorem C19_written_entries_in_force :
  forall ifaces l p, load ifaces (ELists l) = Some p <->
    (exists b, l_block l = map NOk b /\ e_block p = b ++ implicit_block ifaces l) /\ l_allow l = map NOk (e_allow p) /\
    l_phantom l = map NOk (e_phantom p) /\ l_domains l = map POk (e_domains p).
Proof. exact load_exact. Qed.
Print Assumptions C19_written_entries_in_force.

(* one entry net.ParseCIDR / regexp.Compile rejects, in any of the four lists, at any position: the load fails *)
Theorem C19_unparsable_entry_fails_load :
  forall ifaces l, In NBad (l_block l) \/ In NBad (l_allow l) \/ In NBad (l_phantom l) \/ In PBad (l_domains l) ->
    load ifaces (ELists l) = None.
Proof. exact bad_entry_fails. Qed.
Print Assumptions C19_unparsable_entry_fails_load.

(* DOMAIN PATTERNS: a written pattern that matches the host part of the covert string -- the text
   net.SplitHostPort returns, before any resolution -- refuses the covert.  No hypothesis on parse_ip
   or resolve: the host may be a name or an address literal of any spelling, inside the allowlist or
   not covered by any subnet. *)
Theorem C19_pattern_entry_enforced_on_every_host :
  forall parse_ip resolve ifaces l p pat s host port,
    load ifaces (ELists l) = Some p -> In (POk pat) (l_domains l) ->
    split_host_port s = Some (host, port) -> pat_match pat host = true ->
    decide parse_ip resolve p s = false.
Proof. exact pattern_entry_enforced. Qed.
Print Assumptions C19_pattern_entry_enforced_on_every_host.

(* ... in particular for an address literal that an allowlist entry covers: the allowlist overrides the
   subnet blocklist, so the pattern is the only entry that can carve the exception out *)
Theorem C19_pattern_entry_enforced_on_allowlisted_literal :
  forall parse_ip resolve ifaces l p pat n s host port ip,
    load ifaces (ELists l) = Some p -> In (POk pat) (l_domains l) -> In (NOk n) (l_allow l) ->
    split_host_port s = Some (host, port) -> parse_ip host = true -> resolve host = RAddr ip false ->
    contains n ip = true -> pat_match pat host = true ->
    decide parse_ip resolve p s = false.
Proof. exact pattern_entry_enforced_allowlisted_literal. Qed.
Print Assumptions C19_pattern_entry_enforced_on_allowlisted_literal.

(* SUBNETS: with no allowlist a blocklist entry (written, or an interface subnet under
   covert_blocklist_public_addrs) containing the host's address refuses it; with an allowlist an address
   that no allowlist entry contains is refused *)
Theorem C19_subnet_entries_enforced :
  forall parse_ip resolve ifaces l p s host port ip z,
    load ifaces (ELists l) = Some p -> split_host_port s = Some (host, port) -> resolve host = RAddr ip z ->
    (l_allow l = [] -> forall n, In (NOk n) (l_block l) \/ (l_public l = true /\ In n ifaces) -> contains n ip = true ->
       decide parse_ip resolve p s = false) /\
    (l_allow l <> [] -> (forall n, In (NOk n) (l_allow l) -> contains n ip = false) -> decide parse_ip resolve p s = false).
Proof. exact subnet_entries_enforced. Qed.
Print Assumptions C19_subnet_entries_enforced.

(* the admitted coverts, exactly: a covert is admitted iff it is a usable address (host:port with a
   16-bit port whose host resolves to an IP, no zone on an IPv4 address) and NO entry forbids it *)
Theorem C19_admitted_iff_no_entry_forbids :
  forall parse_ip resolve p s,
    decide parse_ip resolve p s = true <->
    parse_ip s = false /\
    exists host port ip z,
      split_host_port s = Some (host, port) /\ port_ok port = true /\ resolve host = RAddr ip z /\
      valid_ip ip = true /\ (z = true -> to4 ip = None) /\ ~ forbids p host ip.
Proof. exact decide_admits_iff. Qed.
Print Assumptions C19_admitted_iff_no_entry_forbids.

(* PHANTOM BLOCKLIST: a phantom address is refused iff a written entry contains it *)
Theorem C19_phantom_entries_enforced :
  forall ifaces l p ip, load ifaces (ELists l) = Some p ->
    (phantom_blocked p ip = true <-> exists n, In (NOk n) (l_phantom l) /\ contains n ip = true).
Proof. exact phantom_entries_enforced. Qed.
Print Assumptions C19_phantom_entries_enforced.

(* the IPv4-mapped spelling of an address (::ffff:a.b.c.d) gets the decision of the address, from
   every subnet list *)
Theorem C19_mapped_spelling_same_decision :
  forall p a, len_is 4 a = true ->
    addr_blocked p (v4in6_prefix ++ a) = addr_blocked p a /\
    phantom_blocked p (v4in6_prefix ++ a) = phantom_blocked p a.
Proof. exact mapped_spelling_same. Qed.
Print Assumptions C19_mapped_spelling_same_decision.

(* reload: after any sequence of reloads the policy that decides is one that loaded -- the last one --
   or the initial one; a file that does not load changes no decision *)
Theorem C19_reload_keeps_enforcing :
  forall ifaces cur files,
    (reloads_pol ifaces cur files = cur \/ exists f, In f files /\ load ifaces f = Some (reloads_pol ifaces cur files)) /\
    (forall f, load ifaces f = None -> reload_pol ifaces cur f = cur) /\
    (forall f p, load ifaces f = Some p -> reload_pol ifaces cur f = p).
Proof. exact reload_keeps_enforcing. Qed.
Print Assumptions C19_reload_keeps_enforcing.

(* the pattern matcher of the model (derivatives) is the search semantics of Regexp.MatchString on
   the modelled syntax: some substring -- a prefix under `^`, a suffix under `$` -- is in the language *)
Theorem C19_pattern_matcher_is_search :
  forall p s, pat_match p s = true <-> Found p s.
Proof. exact pat_match_spec. Qed.
Print Assumptions C19_pattern_matcher_is_search.

(* the variant "patterns only when the host is not a literal" (seeded change C19g) decides like the
   code everywhere EXCEPT on literals that a pattern matches -- where it admits what an entry forbids
   (ExamplesEnforce.names_only_admits_forbidden_literal) *)
Theorem C19_names_only_variant_differs_only_on_matched_literals :
  forall parse_ip resolve p s host port,
    split_host_port s = Some (host, port) -> (parse_ip host = false \/ dom_blocked p host = false) ->
    decide_names_only parse_ip resolve p s = decide parse_ip resolve p s.
Proof. exact names_only_agrees. Qed.
Print Assumptions C19_names_only_variant_differs_only_on_matched_literals.

(* net.SplitHostPort on the two shapes of a well-formed covert string: "host:port" (names, IPv4 literals) and
   "[host]:port" (IPv6 literals: the host may contain colons, a zone, an embedded IPv4 address) -- the host
   text the patterns see is the text between the brackets *)
Theorem C19_split_host_port_shapes :
  forall host port : list N,
    (clean host -> clean port -> split_host_port (host ++ c_colon :: port) = Some (host, port)) /\
    (has_byte c_lbr host = false -> has_byte c_rbr host = false -> clean port ->
       split_host_port (c_lbr :: host ++ c_rbr :: c_colon :: port) = Some (host, port)).
Proof. intros host port. split; [exact (split_plain host port)|exact (split_bracketed host port)]. Qed.
Print Assumptions C19_split_host_port_shapes.

(* ... so the pattern theorem holds of the covert STRINGS: a written pattern that matches the host text
   refuses "host:port" and "[host]:port", whatever parse_ip and resolve say about that text *)
Theorem C19_pattern_entry_enforced_on_covert_strings :
  forall parse_ip resolve ifaces l p pat (host port : list N),
    load ifaces (ELists l) = Some p -> In (POk pat) (l_domains l) -> pat_match pat host = true -> clean port ->
    (clean host -> decide parse_ip resolve p (host ++ c_colon :: port) = false) /\
    (has_byte c_lbr host = false -> has_byte c_rbr host = false ->
       decide parse_ip resolve p (c_lbr :: host ++ c_rbr :: c_colon :: port) = false).
Proof. exact pattern_enforced_on_strings. Qed.
Print Assumptions C19_pattern_entry_enforced_on_covert_strings.

(* an entry is enforced wherever it stands: the decision depends on which entries the lists contain, not on
   their order or multiplicity (the class of seeded change C19a: "only the last entry counts") *)
Theorem C19_entry_position_irrelevant :
  forall parse_ip resolve p p' s,
    (forall x, In x (e_domains p) <-> In x (e_domains p')) ->
    (forall n, In n (e_block p) <-> In n (e_block p')) ->
    (forall n, In n (e_allow p) <-> In n (e_allow p')) ->
    decide parse_ip resolve p s = decide parse_ip resolve p' s.
Proof. exact decide_order_irrelevant. Qed.
Print Assumptions C19_entry_position_irrelevant.

(* without an allowlist, writing more patterns or blocklist subnets never admits a covert that was refused *)
Theorem C19_more_entries_refuse_more :
  forall parse_ip resolve p p' s,
    (forall x, In x (e_domains p) -> In x (e_domains p')) ->
    (forall n, In n (e_block p) -> In n (e_block p')) ->
    e_allow p = [] -> e_allow p' = [] ->
    decide parse_ip resolve p' s = true -> decide parse_ip resolve p s = true.
Proof. exact more_entries_refuse_more. Qed.
Print Assumptions C19_more_entries_refuse_more.
