(* C19 property theorems, enforcement part: statements + `exact lemma` only.
   "Every blocklist and allowlist entry of an accepted configuration is enforced": for every kind of
   entry (blocklist subnet, allowlist subnet, domain pattern, phantom blocklist subnet) and every covert
   string, whatever kind of host it names -- parse_ip (net.ParseIP as a predicate) and resolve
   (net.ResolveIPAddr) are universally quantified, so names, IPv4/IPv6 literals, zoned and IPv4-mapped
   literals are all covered. *)
From CJ Require Import Common.Base C19.ModelEnforce C19.ProofsEnforce C19.ProofsRegex.

(* an accepted configuration's policy is, list by list and in order, exactly the written entries:
   none dropped, none added *)
Theorem C19_written_entries_in_force :
  forall l p, load (ELists l) = Some p <->
    l_block l = map NOk (e_block p) /\ l_allow l = map NOk (e_allow p) /\
    l_phantom l = map NOk (e_phantom p) /\ l_domains l = map POk (e_domains p).
Proof. exact parse_lists_exact. Qed.
Print Assumptions C19_written_entries_in_force.

(* one entry net.ParseCIDR / regexp.Compile rejects, in any of the four lists, at any position: the load fails *)
Theorem C19_unparsable_entry_fails_load :
  forall l, In NBad (l_block l) \/ In NBad (l_allow l) \/ In NBad (l_phantom l) \/ In PBad (l_domains l) ->
    load (ELists l) = None.
Proof. exact bad_entry_fails. Qed.
Print Assumptions C19_unparsable_entry_fails_load.

(* DOMAIN PATTERNS: a written pattern that matches the host part of the covert string -- the text
   net.SplitHostPort returns, before any resolution -- refuses the covert.  No hypothesis on parse_ip
   or resolve: the host may be a name or an address literal of any spelling, inside the allowlist or
   not covered by any subnet. *)
Theorem C19_pattern_entry_enforced_on_every_host :
  forall parse_ip resolve l p pat s host port,
    load (ELists l) = Some p -> In (POk pat) (l_domains l) ->
    split_host_port s = Some (host, port) -> pat_match pat host = true ->
    decide parse_ip resolve p s = false.
Proof.
  intros parse_ip resolve l p pat s host port L I S M.
  apply (pattern_refuses parse_ip resolve p s host port pat S); [|exact M].
  apply (written_in_force l p L). exact I.
Qed.
Print Assumptions C19_pattern_entry_enforced_on_every_host.

(* ... in particular for an address literal that an allowlist entry covers: the allowlist overrides the
   subnet blocklist, so the pattern is the only entry that can carve the exception out *)
Theorem C19_pattern_entry_enforced_on_allowlisted_literal :
  forall parse_ip resolve l p pat n s host port ip,
    load (ELists l) = Some p -> In (POk pat) (l_domains l) -> In (NOk n) (l_allow l) ->
    split_host_port s = Some (host, port) -> parse_ip host = true -> resolve host = RAddr ip false ->
    contains n ip = true -> pat_match pat host = true ->
    decide parse_ip resolve p s = false.
Proof.
  intros parse_ip resolve l p pat n s host port ip L I _ S _ _ _ M.
  apply (pattern_refuses parse_ip resolve p s host port pat S); [|exact M].
  apply (written_in_force l p L). exact I.
Qed.
Print Assumptions C19_pattern_entry_enforced_on_allowlisted_literal.

(* SUBNETS: with no allowlist a blocklist entry containing the host's address refuses it; with an
   allowlist an address that no allowlist entry contains is refused *)
Theorem C19_subnet_entries_enforced :
  forall parse_ip resolve l p s host port ip z,
    load (ELists l) = Some p -> split_host_port s = Some (host, port) -> resolve host = RAddr ip z ->
    (l_allow l = [] -> forall n, In (NOk n) (l_block l) -> contains n ip = true -> decide parse_ip resolve p s = false) /\
    (l_allow l <> [] -> (forall n, In (NOk n) (l_allow l) -> contains n ip = false) -> decide parse_ip resolve p s = false).
Proof.
  intros parse_ip resolve l p s host port ip z L S R.
  pose proof (written_in_force l p L) as (Wb & Wa & _ & _).
  pose proof (proj1 (parse_lists_exact l p) L) as (_ & Ea & _ & _).
  split.
  - intros A n I C. apply (subnet_refuses parse_ip resolve p s host port ip z S R).
    apply addr_blocked_iff. right. split.
    + rewrite A in Ea. destruct (e_allow p); [reflexivity|discriminate].
    + exists n. split; [apply Wb; exact I|exact C].
  - intros A H. apply (subnet_refuses parse_ip resolve p s host port ip z S R).
    apply addr_blocked_iff. left. split.
    + intro E. apply A. rewrite Ea, E. reflexivity.
    + intros n I. apply H. apply Wa. exact I.
Qed.
Print Assumptions C19_subnet_entries_enforced.

(* the admitted coverts, exactly: a covert is admitted iff it is a usable address (host:port with a
   16-bit port whose host resolves to an IP, no zone on an IPv4 address) and NO entry forbids it *)
Theorem C19_admitted_iff_no_entry_forbids :
  forall parse_ip resolve p s,
    decide parse_ip resolve p s = true <->
    parse_ip s = false /\
    exists host port ip z,
      split_host_port s = Some (host, port) /\ port_ok port = true /\ resolve host = RAddr ip z /\
      valid_ip ip = true /\ (z = true -> to4 ip = None) /\ ~ forbids p host ip.
Proof. exact decide_admits_iff. Qed.
Print Assumptions C19_admitted_iff_no_entry_forbids.

(* PHANTOM BLOCKLIST: a phantom address is refused iff a written entry contains it *)
Theorem C19_phantom_entries_enforced :
  forall l p ip, load (ELists l) = Some p ->
    (phantom_blocked p ip = true <-> exists n, In (NOk n) (l_phantom l) /\ contains n ip = true).
Proof.
  intros l p ip L. pose proof (written_in_force l p L) as (_ & _ & Wp & _).
  unfold phantom_blocked, in_nets. rewrite existsb_exists. split.
  - intros (n & I & C). exists n. split; [apply Wp; exact I|exact C].
  - intros (n & I & C). exists n. split; [apply Wp; exact I|exact C].
Qed.
Print Assumptions C19_phantom_entries_enforced.

(* the IPv4-mapped spelling of an address (::ffff:a.b.c.d) gets the decision of the address, from
   every subnet list *)
Theorem C19_mapped_spelling_same_decision :
  forall p a, len_is 4 a = true ->
    addr_blocked p (v4in6_prefix ++ a) = addr_blocked p a /\
    phantom_blocked p (v4in6_prefix ++ a) = phantom_blocked p a.
Proof. intros p a H. split; [exact (addr_blocked_mapped p a H)|exact (in_nets_mapped (e_phantom p) a H)]. Qed.
Print Assumptions C19_mapped_spelling_same_decision.

(* reload: after any sequence of reloads the policy that decides is one that loaded -- the last one --
   or the initial one; a file that does not load changes no decision *)
Theorem C19_reload_keeps_enforcing :
  forall cur files,
    (reloads_pol cur files = cur \/ exists f, In f files /\ load f = Some (reloads_pol cur files)) /\
    (forall f, load f = None -> reload_pol cur f = cur) /\
    (forall f p, load f = Some p -> reload_pol cur f = p).
Proof.
  intros cur files. split; [exact (reloads_in_force files cur)|].
  split; [exact (reload_failed_same cur)|exact (reload_ok_new cur)].
Qed.
Print Assumptions C19_reload_keeps_enforcing.

(* the pattern matcher of the model (derivatives) is the search semantics of Regexp.MatchString on
   the modelled syntax: some substring -- a prefix under `^`, a suffix under `$` -- is in the language *)
Theorem C19_pattern_matcher_is_search :
  forall p s, pat_match p s = true <-> Found p s.
Proof. exact pat_match_spec. Qed.
Print Assumptions C19_pattern_matcher_is_search.

(* the variant "patterns only when the host is not a literal" (seeded change C19g) decides like the
   code everywhere EXCEPT on literals that a pattern matches -- where it admits what an entry forbids
   (ExamplesEnforce.names_only_admits_forbidden_literal) *)
Theorem C19_names_only_variant_differs_only_on_matched_literals :
  forall parse_ip resolve p s host port,
    split_host_port s = Some (host, port) -> (parse_ip host = false \/ dom_blocked p host = false) ->
    decide_names_only parse_ip resolve p s = decide parse_ip resolve p s.
Proof. exact names_only_agrees. Qed.
Print Assumptions C19_names_only_variant_differs_only_on_matched_literals.
