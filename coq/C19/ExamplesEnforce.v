(* C19 enforcement model: non-vacuity of the theorems' hypotheses on concrete configurations, the pinned
   behaviour on the inputs of seeded change C19g, and the refutation of the "patterns are for names" variant. *)
From CJ Require Import Common.Base C19.ModelEnforce C19.ProofsEnforce C19.ProofsRegex C19.ProofsStrings.

Definition dot : re := RChr 46.
(* ^128\.138\.0\.1$   ^169\.254\.   ^fe80:   \.example$   ^[0-9a-fA-F:.%]+$ *)
Definition pat_exception : pattern := mkPat true (re_lit (bs "128.138.0.1")) true.
Definition pat_metadata : pattern := mkPat true (re_lit (bs "169.254.")) false.
Definition pat_linklocal : pattern := mkPat true (re_lit (bs "fe80:")) false.
Definition pat_example : pattern := mkPat false (re_lit (bs ".example")) true.
Definition pat_literals : pattern := mkPat true (re_plus (RCls false [(48, 57); (97, 102); (65, 70); (58, 58); (46, 46); (37, 37)])) true.

Definition net_campus : ipnet := ([128; 138; 0; 0], [255; 255; 0; 0]).            (* 128.138.0.0/16 *)
Definition ip_exception : ipraw := [128; 138; 0; 1].
Definition ip_campus : ipraw := [128; 138; 7; 9].

(* an accepted configuration: the campus is allowlisted, one host of it is carved out by a pattern --
   the allowlist overrides the subnet blocklist, so a pattern is the only way to write that *)
Definition lists_campus : lists :=
  mkLists [NOk ([128; 138; 0; 1], [255; 255; 255; 255])] [NOk net_campus] [] [POk pat_exception; POk pat_example] false.
Definition pol_campus : epolicy := mkEP [([128; 138; 0; 1], [255; 255; 255; 255])] [net_campus] [] [pat_exception; pat_example].
Example campus_accepted : load [] (ELists lists_campus) = Some pol_campus.
Proof. reflexivity. Qed.

(* net.ParseIP as a predicate on the strings of these examples, and the resolver *)
Definition ex_parse_ip (s : bytes) : bool :=
  bytes_eqb s (bs "128.138.0.1") || bytes_eqb s (bs "128.138.7.9") || bytes_eqb s (bs "169.254.169.254") || bytes_eqb s (bs "fe80::1").
Definition ex_resolve (h : bytes) : resolved :=
  if bytes_eqb h (bs "128.138.0.1") then RAddr ip_exception false
  else if bytes_eqb h (bs "128.138.7.9") then RAddr ip_campus false
  else if bytes_eqb h (bs "www.example") then RAddr ip_campus false
  else if bytes_eqb h (bs "169.254.169.254") then RAddr [169; 254; 169; 254] false
  else if bytes_eqb h (bs "fe80::1") then RAddr [254;128;0;0;0;0;0;0;0;0;0;0;0;0;0;1] false
  else if bytes_eqb h (bs "fe80::1%eth0") then RAddr [254;128;0;0;0;0;0;0;0;0;0;0;0;0;0;1] true
  else RFail.

(* the pinned code: the literal that the pattern names is refused although the allowlist covers it;
   its neighbour is admitted; the name under \.example$ is refused *)
Example literal_exception_refused : decide ex_parse_ip ex_resolve pol_campus (bs "128.138.0.1:443") = false.
Proof. vm_compute. reflexivity. Qed.
Example literal_neighbour_admitted : decide ex_parse_ip ex_resolve pol_campus (bs "128.138.7.9:443") = true.
Proof. vm_compute. reflexivity. Qed.
Example name_refused : decide ex_parse_ip ex_resolve pol_campus (bs "www.example:443") = false.
Proof. vm_compute. reflexivity. Qed.

(* REFUTED VARIANT (seeded change C19g, "the domain patterns are for names"): the same accepted
   configuration admits the covert that its entry ^128\.138\.0\.1$ forbids *)
Example names_only_admits_forbidden_literal :
  decide_names_only ex_parse_ip ex_resolve pol_campus (bs "128.138.0.1:443") = true /\
  (exists pat, In (POk pat) (l_domains lists_campus) /\ pat_match pat (bs "128.138.0.1") = true).
Proof. split; [vm_compute; reflexivity|exists pat_exception; split; [left; reflexivity|vm_compute; reflexivity]]. Qed.

(* patterns on literals with NO subnet entry at all: the metadata service, link-local literals
   (bracketed: the brackets are not part of the host text; zoned: the zone is) *)
Definition pol_patterns : epolicy := mkEP [] [] [] [pat_metadata; pat_linklocal].
Example metadata_refused : decide ex_parse_ip ex_resolve pol_patterns (bs "169.254.169.254:80") = false.
Proof. vm_compute. reflexivity. Qed.
Example linklocal_refused : decide ex_parse_ip ex_resolve pol_patterns (bs "[fe80::1]:443") = false.
Proof. vm_compute. reflexivity. Qed.
Example linklocal_zoned_refused : decide ex_parse_ip ex_resolve pol_patterns (bs "[fe80::1%eth0]:443") = false.
Proof. vm_compute. reflexivity. Qed.
Example without_patterns_admitted :
  decide ex_parse_ip ex_resolve (mkEP [] [] [] []) (bs "169.254.169.254:80") = true /\
  decide ex_parse_ip ex_resolve (mkEP [] [] [] []) (bs "[fe80::1%eth0]:443") = true.
Proof. split; vm_compute; reflexivity. Qed.
Example names_only_admits_them :
  decide_names_only ex_parse_ip ex_resolve pol_patterns (bs "169.254.169.254:80") = true /\
  decide_names_only ex_parse_ip ex_resolve pol_patterns (bs "[fe80::1]:443") = true.
Proof. split; vm_compute; reflexivity. Qed.
(* "all address literals" as one pattern *)
Example all_literals_pattern :
  pat_match pat_literals (bs "fe80::1") = true /\ pat_match pat_literals (bs "128.138.0.1") = true /\ pat_match pat_literals (bs "fe80::1%eth0") = false /\
  pat_match pat_literals (bs "www.example") = false.
Proof. repeat split; vm_compute; reflexivity. Qed.

(* net.SplitHostPort on the shapes of covert strings *)
Example split_examples :
  split_host_port (bs "[fe80::1%eth0]:443") = Some (bs "fe80::1%eth0", bs "443") /\
  split_host_port (bs "128.138.0.1:443") = Some (bs "128.138.0.1", bs "443") /\
  split_host_port (bs ":443") = Some ([], bs "443") /\
  split_host_port (bs "fe80::1:443") = None /\
  split_host_port (bs "[fe80::1]") = None /\
  split_host_port (bs "[fe80::1]x:443") = None /\
  split_host_port (bs "www.example") = None.
Proof. repeat split; vm_compute; reflexivity. Qed.

(* subnets against spellings: a v4 entry covers the IPv4-mapped spelling; a v6 entry covers no IPv4 address;
   a subnet written in IPv4-mapped form (::ffff:128.138.0.0/112) is the IPv4 subnet *)
Definition mapped (a : bytes) : bytes := v4in6_prefix ++ a.
Definition net_mapped_campus : ipnet := (mapped [128; 138; 0; 0], [255;255;255;255;255;255;255;255;255;255;255;255;255;255;0;0]).
Definition net_all_v6 : ipnet := ([0;0;0;0;0;0;0;0;0;0;0;0;0;0;0;0], [0;0;0;0;0;0;0;0;0;0;0;0;0;0;0;0]).
Example spellings :
  contains net_campus (mapped ip_campus) = true /\ contains net_mapped_campus ip_campus = true /\
  contains net_mapped_campus (mapped ip_campus) = true /\ contains net_all_v6 ip_campus = false /\
  contains net_all_v6 (mapped ip_campus) = false /\ contains net_all_v6 [254;128;0;0;0;0;0;0;0;0;0;0;0;0;0;1] = true.
Proof. repeat split; vm_compute; reflexivity. Qed.

(* reload: a file with an unparsable entry keeps the campus policy in force, a good one replaces it *)
Example reload_examples :
  reload_pol [] pol_campus (ELists (mkLists [NBad] [] [] [] false)) = pol_campus /\
  reload_pol [] pol_campus (ELists (mkLists [] [] [] [POk pat_metadata; PBad] false)) = pol_campus /\
  reload_pol [] pol_campus EFail = pol_campus /\
  reload_pol [] pol_campus (ELists (mkLists [] [] [] [POk pat_metadata; POk pat_linklocal] false)) = pol_patterns.
Proof. repeat split; reflexivity. Qed.

(* covert_blocklist_public_addrs: the loopback interface (127.0.0.1/8 and ::1/128) forbids every spelling
   of a loopback address; an allowlist switches the whole blocklist -- the implicit entries too -- off *)
Definition lo_ifaces : list ipnet :=
  [([127; 0; 0; 1], [255; 0; 0; 0]); ([0;0;0;0;0;0;0;0;0;0;0;0;0;0;0;1], [255;255;255;255;255;255;255;255;255;255;255;255;255;255;255;255])].
Definition lo_resolve (h : bytes) : resolved :=
  if bytes_eqb h (bs "127.9.9.9") then RAddr [127; 9; 9; 9] false
  else if bytes_eqb h (bs "::ffff:127.0.0.1") then RAddr (mapped [127; 0; 0; 1]) false
  else if bytes_eqb h (bs "::1") then RAddr [0;0;0;0;0;0;0;0;0;0;0;0;0;0;0;1] false
  else RFail.
Example public_addrs_examples :
  match load lo_ifaces (ELists (mkLists [] [] [] [] true)), load lo_ifaces (ELists (mkLists [] [] [] [] false)) with
  | Some pub, Some nopub =>
      decide (fun _ => false) lo_resolve pub (bs "127.9.9.9:80") = false /\
      decide (fun _ => false) lo_resolve pub (bs "[::ffff:127.0.0.1]:80") = false /\
      decide (fun _ => false) lo_resolve pub (bs "[::1]:80") = false /\
      decide (fun _ => false) lo_resolve nopub (bs "127.9.9.9:80") = true /\
      decide (fun _ => false) lo_resolve nopub (bs "[::1]:80") = true
  | _, _ => False
  end.
Proof. vm_compute. repeat split; reflexivity. Qed.

(* the matcher against its specification on a concrete word *)
Example found_example : Found pat_example (bs "www.example").
Proof. apply pat_match_spec. vm_compute. reflexivity. Qed.

(* the hypotheses of the string-level theorems on concrete texts: "fe80::1%eth0" has no bracket, "443" is clean,
   "128.138.0.1" is clean -- and the theorem's strings are the covert strings of the examples above *)
Example strings_hypotheses :
  clean (bs "443") /\ clean (bs "128.138.0.1") /\
  has_byte c_lbr (bs "fe80::1%eth0") = false /\ has_byte c_rbr (bs "fe80::1%eth0") = false /\
  bs "128.138.0.1" ++ c_colon :: bs "443" = bs "128.138.0.1:443" /\
  c_lbr :: bs "fe80::1%eth0" ++ c_rbr :: c_colon :: bs "443" = bs "[fe80::1%eth0]:443".
Proof. unfold clean. repeat split; vm_compute; reflexivity. Qed.
(* order: the same entries in another order decide the same (instance of C19_entry_position_irrelevant) *)
Example order_example :
  decide ex_parse_ip ex_resolve (mkEP [] [net_campus] [] [pat_example; pat_exception]) (bs "128.138.0.1:443") =
  decide ex_parse_ip ex_resolve pol_campus (bs "128.138.0.1:443").
Proof. vm_compute. reflexivity. Qed.
