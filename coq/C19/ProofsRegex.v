(* C19 enforcement model: the executable pattern matcher (Brzozowski derivatives with pruning
   constructors) decides exactly the declarative search semantics. *)
From Coq Require Import Lia.
From CJ Require Import Common.Base C19.ModelEnforce.

Lemma matches_empty : forall s, ~ Matches REmpty s.
Proof. intros s H. inversion H. Qed.

Lemma matches_eps : forall s, Matches REps s -> s = [].
Proof. intros s H. inversion H. reflexivity. Qed.

Lemma cat_inv : forall a b w, Matches (RCat a b) w -> exists s t, w = s ++ t /\ Matches a s /\ Matches b t.
Proof. intros a b w H. inversion H; subst. eexists; eexists; repeat split; eassumption. Qed.

Lemma alt_inv : forall a b w, Matches (RAlt a b) w -> Matches a w \/ Matches b w.
Proof. intros a b w H. inversion H; subst; [left|right]; assumption. Qed.
Lemma star_inv_cat : forall a b w, Matches (RCat a (RStar b)) w -> exists s t, w = s ++ t /\ Matches a s /\ Matches (RStar b) t.
Proof. intros. apply cat_inv. assumption. Qed.

Lemma mk_cat_spec : forall a b s, Matches (mk_cat a b) s <-> Matches (RCat a b) s.
Proof.
  intros a b s. split.
  - destruct a; simpl; try (intro H; exact H);
      try (intro H; exfalso; exact (matches_empty _ H)).
    + (* REps *) destruct b; intro H; try (exfalso; exact (matches_empty _ H));
        try (change s with ([] ++ s); apply MCat; [apply MEps|exact H]).
    + destruct b; intro H; try exact H; exfalso; exact (matches_empty _ H).
    + destruct b; intro H; try exact H; exfalso; exact (matches_empty _ H).
    + destruct b; intro H; try exact H; exfalso; exact (matches_empty _ H).
    + destruct b; intro H; try exact H; exfalso; exact (matches_empty _ H).
    + destruct b; intro H; try exact H; exfalso; exact (matches_empty _ H).
    + destruct b; intro H; try exact H; exfalso; exact (matches_empty _ H).
  - intro H. apply cat_inv in H. destruct H as (s1 & s2 & E & Ha & Hb). subst.
    destruct a; simpl; try (exfalso; exact (matches_empty _ Ha));
      try (destruct b; try (exfalso; exact (matches_empty _ Hb)); try (apply MCat; assumption));
      try (apply matches_eps in Ha; subst; simpl; exact Hb).
Qed.

Lemma mk_alt_spec : forall a b s, Matches (mk_alt a b) s <-> Matches (RAlt a b) s.
Proof.
  intros a b s. split.
  - destruct a; simpl; try (intro H; apply MAltR; exact H);
      destruct b; intro H; try exact H; try (apply MAltL; exact H).
  - intro H. inversion H; subst.
    + destruct a; simpl; try (exfalso; eapply matches_empty; eassumption);
        destruct b; try assumption; try (apply MAltL; assumption).
    + destruct a; simpl; try assumption;
        destruct b; try (exfalso; eapply matches_empty; eassumption); try (apply MAltR; assumption).
Qed.

Lemma nullable_spec : forall r, nullable r = true <-> Matches r [].
Proof.
  induction r; simpl.
  - split; [discriminate|intro H; inversion H].
  - split; [intros _; apply MEps|reflexivity].
  - split; [discriminate|intro H; inversion H].
  - split; [discriminate|intro H; inversion H].
  - split; [discriminate|intro H; inversion H].
  - rewrite andb_true_iff, IHr1, IHr2. split.
    + intros [H1 H2]. apply (MCat r1 r2 [] []); assumption.
    + intro H. apply cat_inv in H. destruct H as (s1 & s2 & E & Ha & Hb). symmetry in E.
      apply app_eq_nil in E. destruct E; subst. split; assumption.
  - rewrite orb_true_iff, IHr1, IHr2. split.
    + intros [H|H]; [apply MAltL|apply MAltR]; exact H.
    + intro H. inversion H; subst; [left|right]; assumption.
  - split; [intros _; apply MStar0|reflexivity].
Qed.

(* a non-empty word of a star: a first non-empty factor, then the star again *)
Lemma star_cons_inv : forall a c s, Matches (RStar a) (c :: s) ->
  exists s1 s2, s = s1 ++ s2 /\ Matches a (c :: s1) /\ Matches (RStar a) s2.
Proof.
  intros a c s H. remember (RStar a) as r eqn:Er. remember (c :: s) as w eqn:Ew.
  revert c s Ew. induction H; intros c0 s0 Ew; try discriminate.
  inversion Er; subst a0. destruct s as [|x s'].
  - simpl in Ew. apply IHMatches2; [reflexivity|exact Ew].
  - simpl in Ew. inversion Ew; subst. exists s', t. repeat split; assumption.
Qed.

Lemma deriv_spec : forall r c s, Matches (deriv c r) s <-> Matches r (c :: s).
Proof.
  induction r; intros c0 s; simpl.
  - split; intro H; inversion H.
  - split; intro H; inversion H.
  - destruct (c =? c0) eqn:E.
    + apply N.eqb_eq in E. subst. split; intro H.
      * apply matches_eps in H. subst. apply MChr.
      * inversion H; subst. apply MEps.
    + apply N.eqb_neq in E. split; intro H; inversion H; subst. congruence.
  - destruct (c0 =? 10) eqn:E.
    + apply N.eqb_eq in E. split; intro H; inversion H; subst. congruence.
    + apply N.eqb_neq in E. split; intro H.
      * apply matches_eps in H. subst. apply MAny. exact E.
      * inversion H; subst. apply MEps.
  - destruct (cls_match neg rs c0) eqn:E.
    + split; intro H.
      * apply matches_eps in H. subst. apply MCls. exact E.
      * inversion H; subst. apply MEps.
    + split; intro H; inversion H; subst. congruence.
  - (* RCat *)
    destruct (nullable r1) eqn:Nu.
    + rewrite mk_alt_spec. split; intro H.
      * apply alt_inv in H. destruct H as [H|H].
        -- apply mk_cat_spec in H. apply cat_inv in H. destruct H as (s1 & s2 & E & Ha & Hb). subst.
           apply IHr1 in Ha. change (c0 :: s1 ++ s2) with ((c0 :: s1) ++ s2). apply MCat; assumption.
        -- apply IHr2 in H. apply nullable_spec in Nu.
           apply (MCat r1 r2 [] (c0 :: s)); assumption.
      * apply cat_inv in H. destruct H as (s1 & s2 & E & Ha & Hb).
        destruct s1 as [|x s1'].
        -- simpl in E. subst. apply MAltR. apply IHr2. exact Hb.
        -- simpl in E. inversion E; subst. apply MAltL. apply mk_cat_spec.
           apply MCat; [apply IHr1; exact Ha|exact Hb].
    + rewrite mk_cat_spec. split; intro H.
      * apply cat_inv in H. destruct H as (s1 & s2 & E & Ha & Hb). subst. apply IHr1 in Ha.
        change (c0 :: s1 ++ s2) with ((c0 :: s1) ++ s2). apply MCat; assumption.
      * apply cat_inv in H. destruct H as (s1 & s2 & E & Ha & Hb).
        destruct s1 as [|x s1'].
        -- apply nullable_spec in Ha. congruence.
        -- simpl in E. inversion E; subst. apply MCat; [apply IHr1; exact Ha|exact Hb].
  - (* RAlt *)
    rewrite mk_alt_spec. split; intro H; apply alt_inv in H; destruct H as [H|H].
    + apply MAltL. apply IHr1. assumption.
    + apply MAltR. apply IHr2. assumption.
    + apply MAltL. apply IHr1. assumption.
    + apply MAltR. apply IHr2. assumption.
  - (* RStar *)
    rewrite mk_cat_spec. split; intro H.
    + apply cat_inv in H. destruct H as (s1 & s2 & E & Ha & Hb). subst. apply IHr in Ha.
      change (c0 :: s1 ++ s2) with ((c0 :: s1) ++ s2). apply MStarS; assumption.
    + apply star_cons_inv in H. destruct H as (s1 & s2 & E & H1 & H2). subst.
      apply MCat; [apply IHr; exact H1|exact H2].
Qed.

Lemma re_match_spec : forall s r, re_match r s = true <-> Matches r s.
Proof.
  induction s as [|c s IH]; intro r; simpl.
  - apply nullable_spec.
  - rewrite IH. apply deriv_spec.
Qed.

Lemma star_all : forall s, Matches (RStar RAll) s.
Proof.
  induction s as [|c s IH]; [apply MStar0|].
  change (c :: s) with ([c] ++ s). apply MStarS; [|exact IH].
  apply MCls. reflexivity.
Qed.

(* Regexp.MatchString on the modelled subset: an unanchored search, `^` / `$` pin the two ends *)
Lemma pat_match_spec : forall p s, pat_match p s = true <-> Found p s.
Proof.
  intros p s. unfold pat_match, Found. rewrite re_match_spec. unfold pat_re. split.
  - intro H. apply cat_inv in H. destruct H as (pre & rest & E & Hpre & Hrest).
    apply cat_inv in Hrest. destruct Hrest as (mid & post & E' & Hmid & Hpost). subst.
    exists pre, mid, post. repeat split; auto.
    + intro B. rewrite B in Hpre. apply matches_eps in Hpre. exact Hpre.
    + intro B. rewrite B in Hpost. apply matches_eps in Hpost. exact Hpost.
  - intros (pre & mid & post & E & Hb & He & Hm). subst.
    apply MCat; [|apply MCat; [exact Hm|]].
    + destruct (p_bol p); [rewrite (Hb eq_refl); apply MEps|apply star_all].
    + destruct (p_eol p); [rewrite (He eq_refl); apply MEps|apply star_all].
Qed.

(* consequences used in the examples and notes: a fully anchored pattern is a whole-string match *)
Lemma pat_match_anchored : forall body s, pat_match (mkPat true body true) s = true <-> Matches body s.
Proof.
  intros body s. rewrite pat_match_spec. unfold Found. simpl. split.
  - intros (pre & mid & post & E & Hb & He & Hm). rewrite (Hb eq_refl), (He eq_refl) in E.
    simpl in E. rewrite app_nil_r in E. subst. exact Hm.
  - intro H. exists [], s, []. simpl. rewrite app_nil_r. repeat split; auto.
Qed.
