(* C19 enforcement model: net.SplitHostPort on the two shapes of a well-formed covert string, so that
   the enforcement theorems can be stated on the covert STRING of each host kind. *)
From Coq Require Import Lia.
From CJ Require Import Common.Base C19.ModelEnforce C19.ProofsEnforce.

Lemma has_byte_cons : forall (c x : N) (t : list N), has_byte c (x :: t) = (x =? c) || has_byte c t.
Proof.
  intros c x t. unfold has_byte. simpl. destruct (x =? c); [reflexivity|].
  destruct (index_byte c t); reflexivity.
Qed.
Lemma has_byte_app : forall (c : N) (a b : list N), has_byte c (a ++ b) = has_byte c a || has_byte c b.
Proof.
  intros c a b. induction a as [|x a IH]; [reflexivity|].
  simpl app. rewrite !has_byte_cons, IH, orb_assoc. reflexivity.
Qed.
Lemma has_byte_nil : forall c, has_byte c [] = false.
Proof. reflexivity. Qed.

Lemma last_index_none : forall (c : N) (t : list N), has_byte c t = false -> last_index_byte c t = None.
Proof.
  intros c t. induction t as [|x t IH]; intro H; [reflexivity|].
  rewrite has_byte_cons in H. apply orb_false_iff in H. destruct H as [Hx Ht].
  simpl. rewrite (IH Ht), Hx. reflexivity.
Qed.
Lemma last_index_app : forall (c : N) (h t : list N), has_byte c t = false -> last_index_byte c (h ++ c :: t) = Some (length h).
Proof.
  intros c h t Ht. induction h as [|x h IH]; simpl.
  - rewrite (last_index_none c t Ht), N.eqb_refl. reflexivity.
  - rewrite IH. reflexivity.
Qed.
Lemma index_app : forall (c : N) (h t : list N), has_byte c h = false -> index_byte c (h ++ c :: t) = Some (length h).
Proof.
  intros c h t. induction h as [|x h IH]; intro H; simpl.
  - rewrite N.eqb_refl. reflexivity.
  - rewrite has_byte_cons in H. apply orb_false_iff in H. destruct H as [Hx Hh].
    rewrite Hx, (IH Hh). reflexivity.
Qed.
Lemma firstn_app_exact : forall (a b : list N), firstn (length a) (a ++ b) = a.
Proof. intros a b. induction a as [|x a IH]; simpl; [destruct b; reflexivity|rewrite IH; reflexivity]. Qed.
Lemma skipn_app_exact : forall (a b : list N), skipn (length a) (a ++ b) = b.
Proof. intros a b. induction a as [|x a IH]; simpl; [reflexivity|exact IH]. Qed.

Lemma skipn_app_cons : forall (a : list N) x b, skipn (S (length a)) (a ++ x :: b) = b.
Proof. intros a x b. induction a as [|y a IH]; [reflexivity|exact IH]. Qed.

(* a string free of ':' '[' ']' *)
Definition clean (s : list N) : Prop :=
  has_byte c_colon s = false /\ has_byte c_lbr s = false /\ has_byte c_rbr s = false.

(* host:port -- names and IPv4 literals *)
Lemma split_plain : forall host port : list N, clean host -> clean port ->
  split_host_port (host ++ c_colon :: port) = Some (host, port).
Proof.
  intros host port (Hc & Hl & Hr) (Pc & Pl & Pr). unfold split_host_port. unfold bytes, byte in *.
  rewrite (last_index_app c_colon host port Pc).
  assert (L : has_byte c_lbr (host ++ c_colon :: port) = false).
  { rewrite has_byte_app, has_byte_cons, Hl, Pl. reflexivity. }
  assert (R : has_byte c_rbr (host ++ c_colon :: port) = false).
  { rewrite has_byte_app, has_byte_cons, Hr, Pr. reflexivity. }
  assert (F : firstn (length host) (host ++ c_colon :: port) = host) by apply firstn_app_exact.
  assert (S' : skipn (S (length host)) (host ++ c_colon :: port) = port).
  { apply skipn_app_cons. }
  destruct (host ++ c_colon :: port) as [|x rest] eqn:E.
  - destruct host; discriminate.
  - assert (X : (x =? c_lbr) = false).
    { rewrite has_byte_cons in L. apply orb_false_iff in L. exact (proj1 L). }
    rewrite X. cbv beta iota zeta. rewrite F, Hc, L, R, S'. reflexivity.
Qed.

(* [host]:port -- IPv6 literals (zoned, IPv4-mapped): the host may contain colons *)
Lemma split_bracketed : forall host port : list N,
  has_byte c_lbr host = false -> has_byte c_rbr host = false -> clean port ->
  split_host_port (c_lbr :: host ++ c_rbr :: c_colon :: port) = Some (host, port).
Proof.
  intros host port Hl Hr (Pc & Pl & Pr). unfold split_host_port. unfold bytes, byte in *.
  assert (LI : last_index_byte c_colon (c_lbr :: host ++ c_rbr :: c_colon :: port) = Some (S (S (length host)))).
  { change (c_lbr :: host ++ c_rbr :: c_colon :: port) with ((c_lbr :: host) ++ c_rbr :: c_colon :: port).
    replace ((c_lbr :: host) ++ c_rbr :: c_colon :: port) with (((c_lbr :: host) ++ [c_rbr]) ++ c_colon :: port)
      by (rewrite <- app_assoc; reflexivity).
    rewrite (last_index_app c_colon _ port Pc). rewrite app_length. simpl. f_equal. lia. }
  rewrite LI. rewrite N.eqb_refl.
  assert (RI : index_byte c_rbr (c_lbr :: host ++ c_rbr :: c_colon :: port) = Some (S (length host))).
  { change (c_lbr :: host ++ c_rbr :: c_colon :: port) with ((c_lbr :: host) ++ c_rbr :: c_colon :: port).
    rewrite index_app; [reflexivity|]. rewrite has_byte_cons, Hr. reflexivity. }
  rewrite RI. rewrite Nat.eqb_refl.
  assert (B : has_byte c_lbr (host ++ c_rbr :: c_colon :: port) = false).
  { rewrite has_byte_app, !has_byte_cons, Hl, Pl. reflexivity. }
  rewrite B.
  assert (SK : skipn (S (S (length host))) (c_lbr :: host ++ c_rbr :: c_colon :: port) = c_colon :: port).
  { change (skipn (S (length host)) (host ++ c_rbr :: c_colon :: port) = c_colon :: port). apply skipn_app_cons. }
  rewrite SK. rewrite has_byte_cons, Pr. simpl orb.
  replace (S (length host) - 1)%nat with (length host) by lia.
  rewrite firstn_app_exact.
  assert (SK2 : skipn (S (S (S (length host)))) (c_lbr :: host ++ c_rbr :: c_colon :: port) = port).
  { change (skipn (S (S (length host))) (host ++ c_rbr :: c_colon :: port) = port).
    replace (host ++ c_rbr :: c_colon :: port) with ((host ++ [c_rbr]) ++ c_colon :: port) by (rewrite <- app_assoc; reflexivity).
    replace (S (S (length host))) with (S (length (host ++ [c_rbr]))) by (rewrite app_length; simpl; lia).
    apply skipn_app_cons. }
  rewrite SK2. reflexivity.
Qed.

(* the enforcement statement on covert STRINGS: a written pattern that matches the host text refuses
   "host:port" and "[host]:port" -- whatever the host text denotes *)
Lemma pattern_enforced_on_strings : forall parse_ip resolve ifaces l p pat (host port : list N),
  load ifaces (ELists l) = Some p -> In (POk pat) (l_domains l) -> pat_match pat host = true -> clean port ->
  (clean host -> decide parse_ip resolve p (host ++ c_colon :: port) = false) /\
  (has_byte c_lbr host = false -> has_byte c_rbr host = false ->
     decide parse_ip resolve p (c_lbr :: host ++ c_rbr :: c_colon :: port) = false).
Proof.
  intros parse_ip resolve ifaces l p pat host port L I M P. split.
  - intro H. exact (pattern_entry_enforced parse_ip resolve ifaces l p pat _ host port L I (split_plain host port H P) M).
  - intros Hl Hr. exact (pattern_entry_enforced parse_ip resolve ifaces l p pat _ host port L I (split_bracketed host port Hl Hr P) M).
Qed.

(* ---------------- entries are enforced wherever they stand; more entries refuse more ---------------- *)
Lemma bool_eq_iff : forall a b : bool, (a = true <-> b = true) -> a = b.
Proof. intros [|] [|] H; try reflexivity; [symmetry; apply H; reflexivity|apply H; reflexivity]. Qed.

Lemma decide_forbids_mono : forall parse_ip resolve p p' s,
  (forall host ip, forbids p host ip -> forbids p' host ip) ->
  decide parse_ip resolve p' s = true -> decide parse_ip resolve p s = true.
Proof.
  intros parse_ip resolve p p' s H D.
  apply decide_admits_iff in D. destruct D as (Hp & host & port & ip & z & Hs & Hport & Hr & Hv & Hz & Hf).
  apply decide_admits_iff. split; [exact Hp|]. exists host, port, ip, z. repeat split; auto.
Qed.

(* the decision depends on WHICH entries are written, not on where they stand in their lists *)
Lemma decide_order_irrelevant : forall parse_ip resolve p p' s,
  (forall x, In x (e_domains p) <-> In x (e_domains p')) ->
  (forall n, In n (e_block p) <-> In n (e_block p')) ->
  (forall n, In n (e_allow p) <-> In n (e_allow p')) ->
  decide parse_ip resolve p s = decide parse_ip resolve p' s.
Proof.
  intros parse_ip resolve p p' s Hd Hb Ha.
  assert (N : e_allow p = [] <-> e_allow p' = []).
  { split; intro E.
    - destruct (e_allow p') as [|n r] eqn:E'; [reflexivity|]. assert (I : In n (e_allow p)) by (apply Ha; left; reflexivity).
      rewrite E in I. destruct I.
    - destruct (e_allow p) as [|n r] eqn:E'; [reflexivity|]. assert (I : In n (e_allow p')) by (apply Ha; left; reflexivity).
      rewrite E in I. destruct I. }
  assert (F : forall q q' : epolicy,
             (forall x, In x (e_domains q) <-> In x (e_domains q')) -> (forall n, In n (e_block q) <-> In n (e_block q')) ->
             (forall n, In n (e_allow q) <-> In n (e_allow q')) -> (e_allow q = [] <-> e_allow q' = []) ->
             forall host ip, forbids q host ip -> forbids q' host ip).
  { intros q q' Qd Qb Qa Qn host ip [(pat & I & M)|[(A & H)|(A & n & I & C)]].
    - left. exists pat. split; [apply Qd; exact I|exact M].
    - right. left. split; [intro E; apply A; apply Qn; exact E|intros n I; apply H; apply Qa; exact I].
    - right. right. split; [apply Qn; exact A|exists n; split; [apply Qb; exact I|exact C]]. }
  apply bool_eq_iff. split; apply decide_forbids_mono.
  - apply (F p' p); intros; symmetry; auto.
  - apply (F p p'); auto.
Qed.

(* without an allowlist: adding patterns or blocklist subnets never admits a covert that was refused *)
Lemma more_entries_refuse_more : forall parse_ip resolve p p' s,
  (forall x, In x (e_domains p) -> In x (e_domains p')) ->
  (forall n, In n (e_block p) -> In n (e_block p')) ->
  e_allow p = [] -> e_allow p' = [] ->
  decide parse_ip resolve p' s = true -> decide parse_ip resolve p s = true.
Proof.
  intros parse_ip resolve p p' s Hd Hb A A'. apply decide_forbids_mono.
  intros host ip [(pat & I & M)|[(N & _)|(_ & n & I & C)]].
  - left. exists pat. split; [apply Hd; exact I|exact M].
  - congruence.
  - right. right. split; [exact A'|exists n; split; [apply Hb; exact I|exact C]].
Qed.
