(* C19 model: configuration loading (pkg/station/lib/config.go ParseConfig,
   registration_config.go ParseBlocklists), manager construction
   (registration.go NewRegistrationManager, liveness.New/Init), the periodic
   statistics printers (stats.go PrintStats and every PrintAndReset), expiry and
   reload (cmd/application/main.go SIGHUP loop + registration.go OnReload).
   Definitions only; executable.  TOML decoding is represented by records of
   optional keys (DESIGN.md section 3). *)
From CJ Require Export Common.Base.

(* ---------- the configuration file as the decoder sees it ---------- *)
Inductive kv := Unset | Zero | Valid (n : N) | Malformed | Negative.
(* meaning per key:
   durations (strings)  Unset = key absent, Zero = "", Valid n = a duration time.ParseDuration accepts,
                        Malformed = a string it rejects
   integers / booleans  Unset = absent, Zero = 0 / false, Valid n = n / true, Malformed = wrong TOML type,
                        Negative = a negative integer (Go int; only generated for the two cache capacities)
   GeoIP paths          Unset = absent, Zero = "", Valid = a database that opens, Malformed = a path that does not *)
Inductive entry := EValid (n : N) | EMal.     (* list entry: the n-th probe subnet / pattern, or one that does not parse *)

Record raw := mkRaw {
  r_dur_live : kv; r_cap_live : kv;          (* cache_expiration_time, cache_capacity *)
  r_dur_non : kv;  r_cap_non : kv;           (* cache_expiration_nonlive, cache_capacity_nonlive *)
  r_workers : kv;                            (* ingest_worker_count *)
  r_public : kv;                             (* covert_blocklist_public_addrs *)
  r_block : option (list entry);             (* covert_blocklist_subnets   (None = key absent) *)
  r_allow : option (list entry);             (* covert_allowlist_subnets *)
  r_phantom : option (list entry);           (* phantom_blocklist *)
  r_domains : option (list entry);           (* covert_blocklist_domains *)
  r_geo_cc : kv; r_geo_asn : kv;             (* geoip_cc_db_path, geoip_asn_db_path *)
  r_other : bool                             (* some key outside RegConfig (log_level, socket_name, ...) *)
}.
Inductive file := Unreadable | BadSyntax | Decoded (r : raw).
Inductive subfile := SubUnreadable | SubMalformed | SubOk (gens : list N).   (* PHANTOM_SUBNET_LOCATION *)

Inductive err := EDecode | EType | EEntry (list_id : N) | EFatalLiveness | ENoSelector | EGeoIP.
Definition res (A : Type) := result err A.
Definition bind {A B} (r : res A) (f : A -> res B) : res B :=
  match r with Ok a => f a | Err e => Err e | Panic => Panic end.

(* ---------- parsed configuration ---------- *)
Record policy := mkPol {
  p_block : list N; p_allow : list N; p_phantom : list N; p_domains : list N;
  p_public : bool }.
Record conf := mkConf {
  c_dur_live : kv; c_cap_live : Z; c_dur_non : kv; c_cap_non : Z;
  c_workers : Z; c_policy : policy; c_geo_cc : kv; c_geo_asn : kv }.

Definition type_error (k : kv) : bool := match k with Malformed => true | _ => false end.
Definition int_of (k : kv) : N := match k with Valid n => n | _ => 0 end.
Definition z_of (k : kv) : Z := match k with Valid n => Z.of_N n | Negative => (-1)%Z | _ => 0%Z end.
Definition bool_of (k : kv) : bool := match k with Valid _ => true | _ => false end.

(* ParseBlocklists (fixed code): an entry that does not parse fails the load *)
Fixpoint parse_entries (l : list entry) : option (list N) :=
  match l with
  | [] => Some []
  | EValid n :: r => match parse_entries r with Some p => Some (n :: p) | None => None end
  | EMal :: _ => None
  end.
Definition parse_list (id : N) (l : option (list entry)) : res (list N) :=
  match l with
  | None => Ok []
  | Some es => match parse_entries es with Some p => Ok p | None => Err (EEntry id) end
  end.

(* order of the code: covert blocklist subnets (0), domains (3), phantom blocklist (2), allowlist (1) *)
Definition parse_blocklists (r : raw) : res policy :=
  bind (parse_list 0 (r_block r)) (fun b =>
  bind (parse_list 3 (r_domains r)) (fun d =>
  bind (parse_list 2 (r_phantom r)) (fun ph =>
  bind (parse_list 1 (r_allow r)) (fun a =>
  Ok (mkPol b a ph d (bool_of (r_public r))))))).

(* ParseConfig: toml.DecodeFile, then (fixed) default embedded configs, then ParseBlocklists *)
Definition parse_config (f : file) : res conf :=
  match f with
  | Unreadable | BadSyntax => Err EDecode
  | Decoded r =>
      if type_error (r_cap_live r) || type_error (r_cap_non r) || type_error (r_workers r) || type_error (r_public r)
      then Err EType
      else bind (parse_blocklists r) (fun p =>
           Ok (mkConf (r_dur_live r) (z_of (r_cap_live r)) (r_dur_non r) (z_of (r_cap_non r))
                      (z_of (r_workers r)) p (r_geo_cc r) (r_geo_asn r)))
  end.

(* ---------- policy decisions ---------- *)
Definition memN (n : N) (l : list N) : bool := existsb (N.eqb n) l.
Definition is_nil {A} (l : list A) : bool := match l with [] => true | _ => false end.
(* isBlocklistedCovertAddr on the n-th probe address: the allowlist takes precedence *)
Definition covert_blocked (p : policy) (n : N) : bool :=
  if is_nil (p_allow p) then memN n (p_block p) else negb (memN n (p_allow p)).
(* 127.0.0.1 (not a probe subnet): blocked by the interface addresses when public_addrs is on *)
Definition loop_blocked (p : policy) : bool := if is_nil (p_allow p) then p_public p else true.
Definition domain_blocked (p : policy) (n : N) : bool := memN n (p_domains p).
Definition phantom_blocked (p : policy) (n : N) : bool := memN n (p_phantom p).

(* ---------- liveness tester construction (liveness.New / Init, fixed code) ---------- *)
Inductive ckind := KMap | KLru.
Inductive tester := TUncached | TCached (live nonlive : option ckind).
Definition dur_empty (k : kv) : bool := match k with Unset | Zero => true | _ => false end.   (* a negative duration is a valid one *)
(* capacity 0: map; any other capacity: LRU (a non-positive size falls back to defaultSizeLRU, so the
   constructor never fails and the interface never holds a nil *lruCache) *)
Definition init_side (d : kv) (cp : Z) : res (option ckind) :=
  match d with
  | Unset | Zero => Ok None
  | Malformed => Err EFatalLiveness
  | Valid _ | Negative => Ok (Some (if (cp =? 0)%Z then KMap else KLru))
  end.
Definition new_tester (c : conf) : res tester :=
  if dur_empty (c_dur_live c) && dur_empty (c_dur_non c) then Ok TUncached
  else bind (init_side (c_dur_live c) (c_cap_live c)) (fun l =>
       bind (init_side (c_dur_non c) (c_cap_non c)) (fun n => Ok (TCached l n))).

(* geoip.New: ErrMissingDB is tolerated, a database that does not open is not *)
Definition geo_ok (cc asn : kv) : bool :=
  match asn, cc with
  | Malformed, _ => false
  | _, Malformed => false
  | _, _ => true
  end.

(* ---------- RegistrationManager ---------- *)
(* m_pipe: the job buffer of the ingest pipeline (RegistrationManager.ingestChan): None = nil channel
   (HandleRegUpdates not launched yet), Some c = a channel of capacity c *)
Record manager := mkMgr { m_policy : policy; m_sel : list N; m_tester : tester; m_workers : Z; m_pipe : option N }.

Definition new_manager (c : conf) (s : subfile) : res manager :=
  bind (new_tester c) (fun t =>                              (* error: logger.Fatal *)
  match s with
  | SubOk g => if geo_ok (c_geo_cc c) (c_geo_asn c) then Ok (mkMgr (c_policy c) g t (c_workers c) None)
               else Err EGeoIP                              (* returns nil *)
  | _ => Err ENoSelector                                    (* returns nil *)
  end).

Definition start (f : file) (s : subfile) : res manager :=
  bind (parse_config f) (fun c => new_manager c s).

(* HandleRegUpdates (main.go: `go regManager.HandleRegUpdates(...)`): a non-positive ingest_worker_count means
   the default of 300 workers (fixed code: negative counts used to reach make(chan, negative)); the job buffer
   holds workers/10 messages -- capacity 0 for 1..9 workers *)
Definition defaultWorkerCount : Z := 300.
Definition pipe_cap (w : Z) : N := Z.to_N ((if (w <=? 0)%Z then defaultWorkerCount else w) / 10).
Definition launch (m : manager) : manager :=
  mkMgr (m_policy m) (m_sel m) (m_tester m) (m_workers m) (Some (pipe_cap (m_workers m))).

(* ---------- statistics printers ---------- *)
(* a method call on an interface value: nil interface = panic *)
Definition call_len (c : option ckind) : res N :=
  match c with Some _ => Ok 0 | None => Panic end.
(* `if guard != nil { target.Len(); target.Cap() }` *)
Definition guarded_len (guard target : option ckind) : res N :=
  match guard with Some _ => call_len target | None => Ok 0 end.

(* CachedLivenessTester.printStats (fixed: each cache is guarded by itself) *)
Definition print_tester (t : tester) : res unit :=
  match t with
  | TUncached => Ok tt
  | TCached l n => bind (guarded_len l l) (fun _ => bind (guarded_len n n) (fun _ => Ok tt))
  end.
(* RegistrationManager.PrintAndReset: registeredDecoys is never nil (constructor),
   len/cap of the nil ingestChan are 0, the ratios are float divisions.
   ZMQIngester / ProxyStats / RegistrationStats: atomics and float arithmetic only. *)
(* a ratio printed with %.3f: float division, NaN/Inf for a zero denominator, never a panic;
   the same ratio in integer arithmetic panics on a zero denominator *)
Definition float_ratio (l c : N) : res unit := Ok tt.
Definition int_ratio (l c : N) : res unit := if c =? 0 then Panic else Ok tt.
(* reg-buf-stats: len(ingestChan) / cap(ingestChan); len and cap of a nil channel are 0 *)
Definition print_manager (m : manager) : res unit :=
  match m_pipe m with None => float_ratio 0 0 | Some c => float_ratio 0 c end.
Definition print_zmq : res unit := Ok tt.
Definition print_proxy : res unit := Ok tt.
Definition print_regstats : res unit := Ok tt.

(* Stats.PrintStats: every registered module, in registration order *)
Definition print_all (m : manager) : res unit :=
  bind print_zmq (fun _ => bind (print_tester (m_tester m)) (fun _ =>
  bind print_proxy (fun _ => bind (print_manager m) (fun _ => print_regstats)))).

Definition expiry (m : manager) : res unit := Ok tt.      (* RemoveOldRegistrations; see C08 *)

(* ---------- reload (SIGHUP) ---------- *)
(* main.go: newConf, err := ParseConfig(); if err != nil { log } else { OnReload(newConf.RegConfig) } *)
Definition on_reload_conf (m : manager) (c : conf) (s : subfile) : manager :=
  mkMgr (c_policy c)
        (match s with SubOk g => g | _ => m_sel m end)       (* selector kept on error *)
        (m_tester m) (m_workers m) (m_pipe m).
Definition on_reload (m : manager) (f : file) (s : subfile) : res manager :=
  match parse_config f with
  | Ok c => Ok (on_reload_conf m c s)
  | Err _ => Ok m
  | Panic => Panic
  end.

Definition housekeeping (m : manager) : res unit :=
  bind (print_all m) (fun _ => expiry m).

Fixpoint reloads (m : manager) (l : list (file * subfile)) : res manager :=
  match l with
  | [] => Ok m
  | (f, s) :: r => bind (on_reload m f s) (fun m' => bind (housekeeping m') (fun _ => reloads m' r))
  end.

(* all entries of a file's lists, as written *)
Definition olist {A} (o : option (list A)) : list A := match o with Some l => l | None => [] end.
Definition entries (r : raw) : list entry :=
  olist (r_block r) ++ olist (r_allow r) ++ olist (r_phantom r) ++ olist (r_domains r).
Definition enforced (p : policy) : list N := p_block p ++ p_allow p ++ p_phantom p ++ p_domains p.
