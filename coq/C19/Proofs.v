(* C19 lemmas. *)
From CJ Require Import Common.Base C19.Model.
From Coq Require Import Lia ZifyN ZifyNat ZifyBool.

(* ---------- list parsing ---------- *)
Lemma parse_entries_all l p : parse_entries l = Some p ->
  Forall2 (fun e n => e = EValid n) l p.
Proof.
  revert p. induction l as [|e r IH]; cbn; intros p.
  - intros [= <-]. constructor.
  - destruct e as [n|]; [|discriminate]. destruct (parse_entries r) as [q|]; [|discriminate].
    intros [= <-]. constructor; auto.
Qed.

Lemma parse_entries_in l p e : parse_entries l = Some p -> In e l -> exists n, e = EValid n /\ In n p.
Proof.
  intros H. apply parse_entries_all in H. induction H as [|x n l' p' Hx Hr IH]; cbn; [tauto|].
  intros [<-|Hin]; [eauto|]. destruct (IH Hin) as (m & -> & Hm). eauto.
Qed.

Lemma parse_entries_none l : parse_entries l = None <-> In EMal l.
Proof.
  induction l as [|e r IH]; cbn; [split; [discriminate|tauto]|].
  destruct e as [n|].
  - destruct (parse_entries r) as [q|].
    + split; [discriminate|]. intros [H|H]; [discriminate|]. apply IH in H. discriminate.
    + split; auto. intros _. right. apply IH. auto.
  - split; auto.
Qed.

Lemma parse_list_in id l p e : parse_list id l = Ok p -> In e (olist l) -> exists n, e = EValid n /\ In n p.
Proof.
  destruct l as [es|]; cbn; [|tauto].
  destruct (parse_entries es) as [q|] eqn:E; [|discriminate]. intros [= <-]. eapply parse_entries_in; eauto.
Qed.

Lemma parse_list_not_panic id l : parse_list id l <> Panic.
Proof. destruct l as [es|]; cbn; [destruct (parse_entries es)|]; discriminate. Qed.

Lemma parse_list_err id l e : parse_list id l = Err e -> e = EEntry id /\ In EMal (olist l).
Proof.
  destruct l as [es|]; cbn; [|discriminate].
  destruct (parse_entries es) eqn:E; [discriminate|]. intros [= <-]. split; auto.
  apply parse_entries_none; auto.
Qed.

(* ---------- parse_blocklists / parse_config ---------- *)
Lemma parse_blocklists_ok r p : parse_blocklists r = Ok p ->
  parse_list 0 (r_block r) = Ok (p_block p) /\ parse_list 1 (r_allow r) = Ok (p_allow p) /\
  parse_list 2 (r_phantom r) = Ok (p_phantom p) /\ parse_list 3 (r_domains r) = Ok (p_domains p) /\
  p_public p = bool_of (r_public r).
Proof.
  unfold parse_blocklists, bind.
  destruct (parse_list 0 (r_block r)) as [b| |]; try discriminate.
  destruct (parse_list 3 (r_domains r)) as [d| |]; try discriminate.
  destruct (parse_list 2 (r_phantom r)) as [ph| |]; try discriminate.
  destruct (parse_list 1 (r_allow r)) as [a| |]; try discriminate.
  intros [= <-]. cbn. auto.
Qed.

Lemma parse_blocklists_not_panic r : parse_blocklists r <> Panic.
Proof.
  unfold parse_blocklists, bind.
  pose proof (parse_list_not_panic 0 (r_block r)). pose proof (parse_list_not_panic 3 (r_domains r)).
  pose proof (parse_list_not_panic 2 (r_phantom r)). pose proof (parse_list_not_panic 1 (r_allow r)).
  destruct (parse_list 0 (r_block r)); try congruence; try discriminate.
  destruct (parse_list 3 (r_domains r)); try congruence; try discriminate.
  destruct (parse_list 2 (r_phantom r)); try congruence; try discriminate.
  destruct (parse_list 1 (r_allow r)); try congruence; discriminate.
Qed.

Lemma parse_config_not_panic f : parse_config f <> Panic.
Proof.
  destruct f as [| |r]; cbn; try discriminate.
  destruct (_ || _); [discriminate|]. unfold bind.
  pose proof (parse_blocklists_not_panic r). destruct (parse_blocklists r); try congruence; discriminate.
Qed.

Lemma parse_config_ok r c : parse_config (Decoded r) = Ok c ->
  parse_blocklists r = Ok (c_policy c) /\
  type_error (r_cap_live r) = false /\ type_error (r_cap_non r) = false /\
  type_error (r_workers r) = false /\ type_error (r_public r) = false /\
  c_dur_live c = r_dur_live r /\ c_dur_non c = r_dur_non r /\
  c_cap_live c = z_of (r_cap_live r) /\ c_cap_non c = z_of (r_cap_non r).
Proof.
  cbn. destruct (type_error (r_cap_live r)) eqn:E1; [discriminate|].
  destruct (type_error (r_cap_non r)) eqn:E2; [discriminate|].
  destruct (type_error (r_workers r)) eqn:E3; [discriminate|].
  destruct (type_error (r_public r)) eqn:E4; [discriminate|]. cbn. unfold bind.
  destruct (parse_blocklists r) as [p| |]; try discriminate. intros [= <-]. cbn. repeat split; auto.
Qed.

(* T1: every entry as written is in the parsed policy of an accepted configuration *)
Lemma accepted_config_enforced r c : parse_config (Decoded r) = Ok c ->
  Forall (fun e => exists n, e = EValid n /\ In n (enforced (c_policy c))) (entries r).
Proof.
  intros H. apply parse_config_ok in H. destruct H as (Hp & _).
  apply parse_blocklists_ok in Hp. destruct Hp as (H0 & H1 & H2 & H3 & _).
  apply Forall_forall. intros e He. unfold entries in He. unfold enforced.
  repeat rewrite in_app_iff in He. repeat setoid_rewrite in_app_iff.
  destruct He as [He|[He|[He|He]]].
  - destruct (parse_list_in _ _ _ _ H0 He) as (n & -> & Hn). eauto.
  - destruct (parse_list_in _ _ _ _ H1 He) as (n & -> & Hn). eauto.
  - destruct (parse_list_in _ _ _ _ H2 He) as (n & -> & Hn). eauto 6.
  - destruct (parse_list_in _ _ _ _ H3 He) as (n & -> & Hn). eauto 6.
Qed.

(* list by list, with the decision each entry produces *)
Lemma memN_in n l : memN n l = true <-> In n l.
Proof.
  unfold memN. rewrite existsb_exists. split.
  - intros [x [H1 H2]]. apply N.eqb_eq in H2. subst. auto.
  - intros H. exists n. split; auto. apply N.eqb_refl.
Qed.

Lemma enforced_decisions r c : parse_config (Decoded r) = Ok c ->
  let p := c_policy c in
  (forall n, In (EValid n) (olist (r_domains r)) -> domain_blocked p n = true) /\
  (forall n, In (EValid n) (olist (r_phantom r)) -> phantom_blocked p n = true) /\
  (forall n, In (EValid n) (olist (r_allow r)) -> covert_blocked p n = false) /\
  (forall n, In (EValid n) (olist (r_block r)) -> olist (r_allow r) = [] -> covert_blocked p n = true) /\
  (forall n, olist (r_allow r) <> [] -> ~ In (EValid n) (olist (r_allow r)) -> covert_blocked p n = true).
Proof.
  intros H. apply parse_config_ok in H. destruct H as (Hp & _).
  apply parse_blocklists_ok in Hp. destruct Hp as (H0 & H1 & H2 & H3 & _). cbn zeta.
  assert (Hallow : forall n, In (EValid n) (olist (r_allow r)) <-> In n (p_allow (c_policy c))).
  { intros n. destruct (r_allow r) as [es|]; cbn in *.
    - destruct (parse_entries es) as [q|] eqn:E; [|discriminate]. injection H1 as <-.
      apply parse_entries_all in E. clear -E. induction E as [|x m l' p' Hx Hr IH]; cbn; [tauto|].
      subst x. rewrite IH. split; intros [Hh|Hh]; auto; [injection Hh as ->; auto|subst; auto].
    - injection H1 as <-. cbn. tauto. }
  repeat split.
  - intros n Hn. destruct (parse_list_in _ _ _ _ H3 Hn) as (m & [= <-] & Hm). apply memN_in; auto.
  - intros n Hn. destruct (parse_list_in _ _ _ _ H2 Hn) as (m & [= <-] & Hm). apply memN_in; auto.
  - intros n Hn. unfold covert_blocked. apply Hallow in Hn.
    assert (Hnil : is_nil (p_allow (c_policy c)) = false)
      by (destruct (p_allow (c_policy c)); [contradiction|auto]).
    rewrite Hnil. apply Bool.negb_false_iff. apply memN_in. auto.
  - intros n Hn Hnil. unfold covert_blocked.
    assert (p_allow (c_policy c) = []).
    { destruct (r_allow r) as [es|]; cbn in *; [subst es; cbn in H1|]; injection H1 as <-; auto. }
    rewrite H. cbn. destruct (parse_list_in _ _ _ _ H0 Hn) as (m & [= <-] & Hm). apply memN_in; auto.
  - intros n Hne Hnot. unfold covert_blocked.
    assert (p_allow (c_policy c) <> []).
    { destruct (r_allow r) as [es|]; cbn in *; [|congruence].
      destruct es as [|e es']; [congruence|]. cbn in H1. destruct e; [|discriminate].
      destruct (parse_entries es'); [|discriminate]. injection H1 as <-. discriminate. }
    assert (Hnil : is_nil (p_allow (c_policy c)) = false)
      by (destruct (p_allow (c_policy c)); [congruence|auto]).
    rewrite Hnil. apply Bool.negb_true_iff. destruct (memN n (p_allow (c_policy c))) eqn:Em; auto.
    apply memN_in in Em. apply Hallow in Em. contradiction.
Qed.

(* a malformed entry anywhere fails the load *)
Lemma malformed_entry_rejected r : In EMal (entries r) ->
  type_error (r_cap_live r) || type_error (r_cap_non r) || type_error (r_workers r) || type_error (r_public r) = false ->
  exists id, parse_config (Decoded r) = Err (EEntry id).
Proof.
  intros Hin Ht. cbn. rewrite Ht. unfold bind.
  destruct (parse_blocklists r) as [p|e|] eqn:E.
  - exfalso. apply parse_blocklists_ok in E. destruct E as (H0 & H1 & H2 & H3 & _).
    unfold entries in Hin. repeat rewrite in_app_iff in Hin.
    destruct Hin as [H|[H|[H|H]]];
      [destruct (parse_list_in _ _ _ _ H0 H)|destruct (parse_list_in _ _ _ _ H1 H)|
       destruct (parse_list_in _ _ _ _ H2 H)|destruct (parse_list_in _ _ _ _ H3 H)];
      destruct H4; discriminate.
  - unfold parse_blocklists, bind in E.
    destruct (parse_list 0 (r_block r)) eqn:E0; try discriminate.
    2:{ injection E as <-. apply parse_list_err in E0. destruct E0 as [-> _]. eauto. }
    destruct (parse_list 3 (r_domains r)) eqn:E3; try discriminate.
    2:{ injection E as <-. apply parse_list_err in E3. destruct E3 as [-> _]. eauto. }
    destruct (parse_list 2 (r_phantom r)) eqn:E2; try discriminate.
    2:{ injection E as <-. apply parse_list_err in E2. destruct E2 as [-> _]. eauto. }
    destruct (parse_list 1 (r_allow r)) eqn:E1; try discriminate.
    injection E as <-. apply parse_list_err in E1. destruct E1 as [-> _]. eauto.
  - exfalso. apply (parse_blocklists_not_panic r). auto.
Qed.

(* ---------- manager construction and housekeeping ---------- *)
Lemma init_side_not_panic d cp : init_side d cp <> Panic.
Proof. destruct d; cbn; discriminate. Qed.

Lemma new_tester_not_panic c : new_tester c <> Panic.
Proof.
  unfold new_tester. destruct (_ && _); [discriminate|]. unfold bind.
  pose proof (init_side_not_panic (c_dur_live c) (c_cap_live c)).
  pose proof (init_side_not_panic (c_dur_non c) (c_cap_non c)).
  destruct (init_side (c_dur_live c) (c_cap_live c)); try congruence; try discriminate.
  destruct (init_side (c_dur_non c) (c_cap_non c)); try congruence; discriminate.
Qed.

Lemma new_manager_not_panic c s : new_manager c s <> Panic.
Proof.
  unfold new_manager, bind. pose proof (new_tester_not_panic c).
  destruct (new_tester c); try congruence; try discriminate.
  destruct s; try discriminate. destruct (geo_ok _ _); discriminate.
Qed.

Lemma start_not_panic f s : start f s <> Panic.
Proof.
  unfold start, bind. pose proof (parse_config_not_panic f).
  destruct (parse_config f); try congruence; try discriminate. apply new_manager_not_panic.
Qed.

Lemma guarded_self c : guarded_len c c = Ok 0.
Proof. destruct c; cbn; auto. Qed.

Lemma print_tester_ok t : print_tester t = Ok tt.
Proof. destruct t as [|l n]; cbn; auto. rewrite !guarded_self. cbn. auto. Qed.

Lemma print_all_ok m : print_all m = Ok tt.
Proof.
  unfold print_all, print_zmq, print_proxy, print_manager, print_regstats, float_ratio. cbn. rewrite print_tester_ok.
  destruct (m_pipe m); auto.
Qed.

Lemma housekeeping_ok m : housekeeping m = Ok tt.
Proof. unfold housekeeping. rewrite print_all_ok. cbn. auto. Qed.

Lemma on_reload_not_panic m f s : on_reload m f s <> Panic.
Proof.
  unfold on_reload. pose proof (parse_config_not_panic f).
  destruct (parse_config f); try congruence; discriminate.
Qed.

Lemma on_reload_total m f s : exists m', on_reload m f s = Ok m'.
Proof.
  unfold on_reload. pose proof (parse_config_not_panic f).
  destruct (parse_config f); try congruence; eauto.
Qed.

Lemma reloads_total l : forall m, exists m', reloads m l = Ok m'.
Proof.
  induction l as [|[f s] r IH]; intros m; cbn; eauto.
  destruct (on_reload_total m f s) as [m1 ->]. cbn. rewrite housekeeping_ok. cbn. apply IH.
Qed.

Lemma housekeeping_no_panic f s m :
  start f s = Ok m ->
  housekeeping m = Ok tt /\ housekeeping (launch m) = Ok tt /\
  forall l, (exists m', reloads m l = Ok m' /\ housekeeping m' = Ok tt) /\
            (exists m', reloads (launch m) l = Ok m' /\ housekeeping m' = Ok tt).
Proof.
  intros _. split; [apply housekeeping_ok|]. split; [apply housekeeping_ok|]. intros l.
  destruct (reloads_total l m) as [m1 H1]. destruct (reloads_total l (launch m)) as [m2 H2].
  split; [exists m1|exists m2]; split; auto; apply housekeeping_ok.
Qed.

(* the job buffer has capacity 0 exactly for 1..9 workers, and the pipeline survives reloads *)
Ltac Zify.zify_post_hook ::= Z.div_mod_to_equations.
Lemma pipe_cap_zero w : pipe_cap w = 0 <-> (1 <= w <= 9)%Z.
Proof.
  unfold pipe_cap, defaultWorkerCount. destruct (w <=? 0)%Z eqn:E.
  - split; [vm_compute; discriminate|lia].
  - split; intros H; lia.
Qed.

(* ---------- reload ---------- *)
Definition cfg_loaded (f : file) : option conf := match parse_config f with Ok c => Some c | _ => None end.
Definition sub_loaded (s : subfile) : option (list N) := match s with SubOk g => Some g | _ => None end.

Lemma reload_part_atomic m f s m' : on_reload m f s = Ok m' ->
  m_policy m' = (match cfg_loaded f with Some c => c_policy c | None => m_policy m end) /\
  m_sel m' = (match cfg_loaded f, sub_loaded s with Some _, Some g => g | _, _ => m_sel m end) /\
  m_tester m' = m_tester m /\ m_pipe m' = m_pipe m.
Proof.
  unfold on_reload, cfg_loaded. destruct (parse_config f) as [c|e|]; try discriminate.
  - intros [= <-]. cbn. destruct s; cbn; auto.
  - intros [= <-]. auto.
Qed.

(* over a whole sequence: each part is the last version that loaded, else the initial one *)
Fixpoint last_policy (p0 : policy) (l : list (file * subfile)) : policy :=
  match l with
  | [] => p0
  | (f, _) :: r => last_policy (match cfg_loaded f with Some c => c_policy c | None => p0 end) r
  end.
Fixpoint last_sel (g0 : list N) (l : list (file * subfile)) : list N :=
  match l with
  | [] => g0
  | (f, s) :: r => last_sel (match cfg_loaded f, sub_loaded s with Some _, Some g => g | _, _ => g0 end) r
  end.

Lemma reloads_last_good l : forall m m', reloads m l = Ok m' ->
  m_policy m' = last_policy (m_policy m) l /\ m_sel m' = last_sel (m_sel m) l /\ m_tester m' = m_tester m.
Proof.
  induction l as [|[f s] r IH]; intros m m'; cbn.
  - intros [= <-]. auto.
  - destruct (on_reload_total m f s) as [m1 H1]. rewrite H1. cbn. rewrite housekeeping_ok. cbn.
    intros H. apply IH in H. destruct (reload_part_atomic _ _ _ _ H1) as (A & B & C & _).
    rewrite <- A, <- B, <- C. auto.
Qed.

(* a failed reload changes nothing at all *)
Lemma failed_reload_changes_nothing m f s : cfg_loaded f = None -> on_reload m f s = Ok m.
Proof.
  unfold cfg_loaded, on_reload. pose proof (parse_config_not_panic f).
  destruct (parse_config f); try congruence; discriminate.
Qed.
