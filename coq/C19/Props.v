(* C19 property theorems: statements + `exact lemma` only. *)
From CJ Require Import Common.Base C19.Model C19.Proofs C19.ModelConc C19.Conc.

(* every block/allow-list entry of an accepted configuration is in its parsed policy *)
Theorem C19_accepted_config_enforced :
  forall r c, parse_config (Decoded r) = Ok c ->
    Forall (fun e => exists n, e = EValid n /\ In n (enforced (c_policy c))) (entries r).
Proof. exact accepted_config_enforced. Qed.
Print Assumptions C19_accepted_config_enforced.

(* ... and produces the decision it was written for (allowlist precedence included) *)
Theorem C19_enforced_decisions :
  forall r c, parse_config (Decoded r) = Ok c ->
    let p := c_policy c in
    (forall n, In (EValid n) (olist (r_domains r)) -> domain_blocked p n = true) /\
    (forall n, In (EValid n) (olist (r_phantom r)) -> phantom_blocked p n = true) /\
    (forall n, In (EValid n) (olist (r_allow r)) -> covert_blocked p n = false) /\
    (forall n, In (EValid n) (olist (r_block r)) -> olist (r_allow r) = [] -> covert_blocked p n = true) /\
    (forall n, olist (r_allow r) <> [] -> ~ In (EValid n) (olist (r_allow r)) -> covert_blocked p n = true).
Proof. exact enforced_decisions. Qed.
Print Assumptions C19_enforced_decisions.

(* an entry that can not be parsed makes the load fail instead of being dropped *)
Theorem C19_malformed_entry_rejected :
  forall r, In EMal (entries r) ->
    type_error (r_cap_live r) || type_error (r_cap_non r) || type_error (r_workers r) || type_error (r_public r) = false ->
    exists id, parse_config (Decoded r) = Err (EEntry id).
Proof. exact malformed_entry_rejected. Qed.
Print Assumptions C19_malformed_entry_rejected.

(* loading never panics, whatever the files contain *)
Theorem C19_load_no_panic : forall f s, parse_config f <> Panic /\ start f s <> Panic.
Proof. intros f s. split; [exact (parse_config_not_panic f)|exact (start_not_panic f s)]. Qed.
Print Assumptions C19_load_no_panic.

(* for every accepted configuration, stats printing and expiry return normally -- on the fresh manager
   and with the ingest pipeline launched (job buffer of capacity workers/10, 0 for 1..9 workers) --
   initially and after every sequence of reloads with arbitrary (valid, malformed, unreadable) files *)
Theorem C19_housekeeping_no_panic :
  forall f s m, start f s = Ok m ->
    housekeeping m = Ok tt /\ housekeeping (launch m) = Ok tt /\
    forall l, (exists m', reloads m l = Ok m' /\ housekeeping m' = Ok tt) /\
              (exists m', reloads (launch m) l = Ok m' /\ housekeeping m' = Ok tt).
Proof. exact housekeeping_no_panic. Qed.
Print Assumptions C19_housekeeping_no_panic.

(* each part is the new version iff that version loaded without error, otherwise exactly the old one *)
Theorem C19_reload_part_atomic :
  forall m f s m', on_reload m f s = Ok m' ->
    m_policy m' = (match cfg_loaded f with Some c => c_policy c | None => m_policy m end) /\
    m_sel m' = (match cfg_loaded f, sub_loaded s with Some _, Some g => g | _, _ => m_sel m end) /\
    m_tester m' = m_tester m /\ m_pipe m' = m_pipe m.
Proof. exact reload_part_atomic. Qed.
Print Assumptions C19_reload_part_atomic.

Theorem C19_reload_sequence_last_good :
  forall l m m', reloads m l = Ok m' ->
    m_policy m' = last_policy (m_policy m) l /\ m_sel m' = last_sel (m_sel m) l /\ m_tester m' = m_tester m.
Proof. exact reloads_last_good. Qed.
Print Assumptions C19_reload_sequence_last_good.

Theorem C19_failed_reload_changes_nothing :
  forall m f s, cfg_loaded f = None -> on_reload m f s = Ok m.
Proof. exact failed_reload_changes_nothing. Qed.
Print Assumptions C19_failed_reload_changes_nothing.

(* readers during a reload: for every initial configuration, every sequence of reloads, any number of
   readers with any queries and EVERY schedule of the atomic steps (writer: Lock, one field assignment
   at a time, Unlock; reader: RLock, decide, RUnlock), each decision is the decision of ONE configuration
   in full -- the initial one or one that a reload installed.  The statement depends on every policy
   field, the allowlist flag included, being assigned inside the lock (Examples.flag_outside_mixture). *)
Theorem C19_reader_old_or_new_in_full :
  forall p0 reloads progs sched,
    Forall (fun o => let '(q, d, p, _) := o in In p (p0 :: reloads) /\ d = decide_p p q)
           (cs_obs (prun false (pinit p0 reloads progs) sched)).
Proof. exact reader_old_or_new_in_full. Qed.
Print Assumptions C19_reader_old_or_new_in_full.
