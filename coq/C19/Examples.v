(* C19 non-vacuity: concrete configurations meeting each theorem's hypotheses, and the
   pinned behaviours (before the fixes of candidate #16) on the same inputs. *)
From CJ Require Import Common.Base C19.Model C19.Proofs C19.ModelConc C19.Conc.

Definition raw0 : raw := mkRaw Unset Unset Unset Unset Unset Unset None None None None Unset Unset false.
(* the shipped cmd/application/app_config.toml, entries renamed to probe indices *)
Definition shipped : raw :=
  mkRaw (Valid 1) Zero (Valid 2) Zero (Valid 100) (Valid 1) (Some [EValid 0; EValid 1; EValid 2]) (Some []) (Some []) (Some [EValid 0]) Zero Zero true.
(* the same with the entry "fc00::/7 " (trailing blank) as it was shipped *)
Definition shipped_pinned : raw :=
  mkRaw (Valid 1) Zero (Valid 2) Zero (Valid 100) (Valid 1) (Some [EValid 0; EValid 1; EMal; EValid 2]) (Some []) (Some []) (Some [EValid 0]) Zero Zero true.
Definition live_only : raw :=
  mkRaw (Valid 1) Unset Unset Unset (Valid 2) Unset None None None None Unset Unset false.
Definition allow_cfg : raw :=
  mkRaw Unset Unset (Valid 1) (Valid 5) (Valid 2) Zero (Some [EValid 0]) (Some [EValid 3; EValid 4]) (Some [EValid 2]) (Some [EValid 1; EValid 5]) Unset Unset false.

(* accepted_config_enforced / enforced_decisions: accepted configurations with non-empty lists *)
Example shipped_accepted :
  exists c, parse_config (Decoded shipped) = Ok c /\ enforced (c_policy c) = [0; 1; 2; 0] /\
            covert_blocked (c_policy c) 1 = true /\ loop_blocked (c_policy c) = true.
Proof. eexists. vm_compute. repeat split; reflexivity. Qed.
Example allow_accepted :
  exists c, parse_config (Decoded allow_cfg) = Ok c /\
            map (covert_blocked (c_policy c)) [0; 1; 2; 3; 4; 5] = [true; true; true; false; false; true] /\
            map (domain_blocked (c_policy c)) [0; 1; 5] = [false; true; true].
Proof. eexists. vm_compute. repeat split; reflexivity. Qed.

(* malformed_entry_rejected: the shipped file as it was pinned is now a load error *)
Example shipped_pinned_rejected : parse_config (Decoded shipped_pinned) = Err (EEntry 0).
Proof. vm_compute. reflexivity. Qed.
(* the pinned ParseBlocklists skipped such entries: *)
Fixpoint parse_entries_pinned (l : list entry) : list N :=
  match l with [] => [] | EValid n :: r => n :: parse_entries_pinned r | EMal :: r => parse_entries_pinned r end.
Example pinned_dropped_entry : parse_entries_pinned [EValid 0; EValid 1; EMal; EValid 2] = [0; 1; 2].
Proof. reflexivity. Qed.

(* housekeeping_no_panic: accepted configurations exist in every tester class *)
Example starts :
  (exists m, start (Decoded raw0) (SubOk [1]) = Ok m /\ m_tester m = TUncached) /\
  (exists m, start (Decoded live_only) (SubOk [1]) = Ok m /\ m_tester m = TCached (Some KMap) None) /\
  (exists m, start (Decoded allow_cfg) (SubOk [1; 2]) = Ok m /\ m_tester m = TCached None (Some KLru)) /\
  (exists m, start (Decoded shipped) (SubOk [1]) = Ok m /\ m_tester m = TCached (Some KMap) (Some KMap)).
Proof. repeat split; eexists; vm_compute; split; reflexivity. Qed.
(* the pinned printStats guarded the non-live cache by the LIVE one: a nil-interface call for live-only *)
Definition print_tester_pinned (t : tester) : res unit :=
  match t with
  | TUncached => Ok tt
  | TCached l n => bind (guarded_len l l) (fun _ => bind (guarded_len l n) (fun _ => Ok tt))
  end.
Example pinned_print_panics : print_tester_pinned (TCached (Some KMap) None) = Panic.
Proof. reflexivity. Qed.
Example fixed_print_ok : print_tester (TCached (Some KMap) None) = Ok tt /\ print_tester (TCached None (Some KLru)) = Ok tt.
Proof. split; reflexivity. Qed.

(* rejection classes at start-up *)
Example rejections :
  start Unreadable (SubOk [1]) = Err EDecode /\ start BadSyntax (SubOk [1]) = Err EDecode /\
  start (Decoded (mkRaw Malformed Unset Unset Unset Unset Unset None None None None Unset Unset false)) (SubOk [1]) = Err EFatalLiveness /\
  start (Decoded (mkRaw Unset Malformed Unset Unset Unset Unset None None None None Unset Unset false)) (SubOk [1]) = Err EType /\
  start (Decoded raw0) SubMalformed = Err ENoSelector /\
  start (Decoded (mkRaw Unset Unset Unset Unset Unset Unset None None None None Malformed Unset false)) (SubOk [1]) = Err EGeoIP /\
  start (Decoded (mkRaw Unset Unset Unset Unset Unset Unset None None None (Some [EMal]) Unset Unset false)) (SubOk [1]) = Err (EEntry 3).
Proof. repeat split; reflexivity. Qed.

(* reload_part_atomic / reload_sequence_last_good on a mixed sequence:
   good config + bad subnets, bad config + good subnets, unreadable, good + good *)
Example reload_mixed :
  exists m0, start (Decoded shipped) (SubOk [1]) = Ok m0 /\
  exists m1, reloads m0 [(Decoded allow_cfg, SubMalformed)] = Ok m1 /\
             m_sel m1 = [1] /\ p_allow (m_policy m1) = [3; 4] /\
  exists m2, reloads m1 [(Decoded shipped_pinned, SubOk [9])] = Ok m2 /\ m2 = m1 /\
  exists m3, reloads m2 [(Unreadable, SubOk [9]); (Decoded shipped, SubOk [7; 8])] = Ok m3 /\
             m_sel m3 = [7; 8] /\ p_allow (m_policy m3) = [] /\ p_block (m_policy m3) = [0; 1; 2].
Proof.
  eexists. split; [vm_compute; reflexivity|].
  eexists. split; [vm_compute; reflexivity|]. split; [reflexivity|]. split; [reflexivity|].
  eexists. split; [vm_compute; reflexivity|]. split; [reflexivity|].
  eexists. split; [vm_compute; reflexivity|]. repeat split; reflexivity.
Qed.

(* a negative capacity (Go int) is accepted: the LRU falls back to its default size, so the cache
   interface never holds a nil *lruCache and housekeeping is safe *)
Example negative_capacity :
  exists m, start (Decoded (mkRaw (Valid 1) Negative (Valid 2) Negative (Valid 2) Unset None None None None Unset Unset false)) (SubOk [1]) = Ok m /\
            m_tester m = TCached (Some KLru) (Some KLru) /\ housekeeping m = Ok tt.
Proof. eexists. vm_compute. repeat split; reflexivity. Qed.

(* reader_old_or_new_in_full is not vacuous: a reader decides before, is blocked during, and decides after a reload *)
Definition polA : policy := mkPol [] [0] [] [] false.      (* allowlist {0} *)
Definition polB : policy := mkPol [1] [] [] [] false.      (* blocklist {1}, no allowlist *)
Example reader_sees_old_then_new :
  map (fun o => let '(q, d, p, _) := o in (d, p_allow p))
      (cs_obs (prun false (pinit polA [polB] [[QCovert 0; QCovert 2; QCovert 2]]) [1; 1; 1; 0; 1; 0; 0; 0; 1; 0; 0; 0; 0; 1; 1]%nat)) =
  [(false, [0]); (true, [0]); (false, [])].
Proof. vm_compute. reflexivity. Qed.
(* with the allowlist flag assigned BEFORE the lock is taken (seeded change C19c) a reader can decide on
   the new flag and the old lists: address 1 is refused by A (not allowlisted) and by B (blocklisted),
   yet the decision is "not blocked" *)
Example flag_outside_mixture :
  let c := prun true (pinit polA [polB] [[QCovert 1]]) [0; 1; 1]%nat in
  map (fun o => let '(q, d, _, _) := o in d) (cs_obs c) = [false] /\
  decide_p polA (QCovert 1) = true /\ decide_p polB (QCovert 1) = true.
Proof. vm_compute. repeat split; reflexivity. Qed.

(* the pipeline-launched states: 1..9 workers give a job buffer of capacity 0; the float ratio printed by
   RegistrationManager.PrintAndReset survives it, the integer ratio of seeded change C19e does not *)
Definition few_workers : raw := mkRaw Unset Unset Unset Unset (Valid 5) Unset None None None None Unset Unset false.
Example few_workers_zero_buffer :
  exists m, start (Decoded few_workers) (SubOk [1]) = Ok m /\ m_pipe (launch m) = Some 0 /\
            housekeeping (launch m) = Ok tt /\ int_ratio 0 0 = Panic.
Proof. eexists. vm_compute. repeat split; reflexivity. Qed.
Example pipe_caps :
  map pipe_cap [(-50); (-3); 0; 1; 9; 10; 100]%Z = [30; 30; 30; 0; 0; 1; 10].
Proof. vm_compute. reflexivity. Qed.
