(* C19: a policy decision taken while the configuration is reloaded is the decision of ONE
   configuration in full -- the one in force -- for every schedule. *)
From CJ Require Import Common.Base C19.Model C19.ModelConc.
From Coq Require Import Lia.

Lemma decide_consistent p q : decide_f (fields_of p) q = decide_p p q.
Proof. destruct q; cbn; auto. unfold covert_blocked. destruct (is_nil (p_allow p)); auto. Qed.

Lemma assign_all p f : fold_left (fun f x => assign p x f) all_fields f = fields_of p.
Proof. destruct f. reflexivity. Qed.

Definition holding (r : reader) : bool := match r_pc r with RHold _ => true | RIdle => false end.
Definition n_hold (rs : list reader) : nat := length (filter holding rs).

(* what still has to be assigned is a suffix of the assignment list, and the part done is in place *)
Definition wconsistent (c : cstate) : Prop :=
  match cs_wpc c with
  | WIdle => cs_wl c = false /\ cs_f c = fields_of (cs_cur c)
  | WPre _ => False
  | WHold p todo => cs_wl c = true /\ fold_left (fun f x => assign p x f) todo (cs_f c) = fields_of p
  end.

Definition pinv (c : cstate) : Prop :=
  wconsistent c /\ cs_rd c = n_hold (cs_readers c) /\ (cs_wl c = true -> cs_rd c = 0%nat) /\
  Forall (fun o => let '(q, d, p, _) := o in d = decide_p p q) (cs_obs c).

Lemma n_hold_split pre r post : n_hold (pre ++ r :: post) = (n_hold pre + (if holding r then 1 else 0) + n_hold post)%nat.
Proof.
  unfold n_hold. rewrite filter_app, app_length. cbn. destruct (holding r); cbn; lia.
Qed.

Lemma nth_split_r (rs : list reader) i r : nth_error rs i = Some r -> rs = firstn i rs ++ r :: skipn (S i) rs.
Proof.
  revert i. induction rs as [|a l IH]; intros [|i]; cbn; try discriminate.
  - intros [= ->]. auto.
  - intros H. f_equal. apply IH. auto.
Qed.

Lemma pinv_wstep c : pinv c -> pinv (wstep false c).
Proof.
  intros (W & R & L & O). unfold wstep. unfold wconsistent in W.
  destruct (cs_wpc c) as [|p|p todo] eqn:Ew.
  - destruct (cs_wprog c) as [|p r]; [unfold pinv, wconsistent; rewrite Ew; auto|].
    destruct ((cs_rd c =? 0)%nat && negb (cs_wl c)) eqn:Eg; [|unfold pinv, wconsistent; rewrite Ew; auto].
    apply andb_prop in Eg. destruct Eg as [E1 E2]. apply Nat.eqb_eq in E1.
    unfold pinv, wconsistent. cbn. repeat split; auto.
  - contradiction.
  - destruct todo as [|x todo].
    + destruct W as [Wl Wf]. cbn in Wf. unfold pinv, wconsistent. cbn. repeat split; auto; discriminate.
    + destruct W as [Wl Wf]. cbn in Wf. unfold pinv, wconsistent. cbn. repeat split; auto.
Qed.

Lemma pinv_rstep c i : pinv c -> pinv (rstep c i).
Proof.
  intros (W & R & L & O). unfold rstep.
  destruct (nth_error (cs_readers c) i) as [r|] eqn:En; [|unfold pinv; auto].
  pose proof (nth_split_r _ _ _ En) as Hsp.
  set (pre := firstn i (cs_readers c)) in *. set (post := skipn (S i) (cs_readers c)) in *.
  destruct r as [pc prog]. cbn [r_pc r_prog]. destruct pc as [|q].
  - destruct prog as [|q rest]; [unfold pinv; auto|].
    destruct (cs_wl c) eqn:El; [unfold pinv; rewrite El; auto|].
    unfold pinv, wconsistent in *. cbn [cs_wpc cs_wl cs_f cs_cur cs_rd cs_readers cs_obs]. rewrite El in *.
    repeat split; auto; [|discriminate].
    rewrite R, Hsp, !n_hold_split. cbn. lia.
  - (* the read: the reader is inside, so the writer is not *)
    assert (Hrd : (1 <= cs_rd c)%nat).
    { rewrite R, Hsp, n_hold_split. cbn. lia. }
    assert (El : cs_wl c = false).
    { destruct (cs_wl c); auto. specialize (L eq_refl). lia. }
    assert (Hf : cs_f c = fields_of (cs_cur c)).
    { unfold wconsistent in W. destruct (cs_wpc c); [tauto|contradiction|destruct W; congruence]. }
    unfold pinv, wconsistent in *. cbn [cs_wpc cs_wl cs_f cs_cur cs_rd cs_readers cs_obs]. rewrite El in *.
    split; [exact W|]. split; [|split; [discriminate|]].
    + rewrite Hsp in R. rewrite n_hold_split in *. cbn in *. lia.
    + apply Forall_app. split; auto. constructor; [|constructor]. rewrite Hf. apply decide_consistent.
Qed.

Lemma pinv_init p0 reloads progs : pinv (pinit p0 reloads progs).
Proof.
  unfold pinit, pinv, wconsistent. cbn. repeat split; auto; try discriminate.
  unfold n_hold. induction progs; cbn; auto.
Qed.

Lemma pinv_run sched : forall c, pinv c -> pinv (prun false c sched).
Proof.
  induction sched as [|t r IH]; intros c H; auto. unfold prun. cbn [fold_left]. fold (prun false (pstep false c t) r).
  apply IH. destruct t; cbn [pstep]; [apply pinv_wstep|apply pinv_rstep]; auto.
Qed.

(* the configuration in force is always the initial one or one that a reload installed *)
Definition known (p0 : policy) (reloads : list policy) (c : cstate) : Prop :=
  In (cs_cur c) (p0 :: reloads) /\ incl (cs_wprog c) reloads /\
  (forall p, in_progress (cs_wpc c) = Some p -> In p reloads) /\
  Forall (fun o => let '(_, _, p, _) := o in In p (p0 :: reloads)) (cs_obs c).

Lemma known_step p0 reloads c t : known p0 reloads c -> known p0 reloads (pstep false c t).
Proof.
  intros (K1 & K2 & K3 & K4). destruct t as [|i]; cbn [pstep].
  - unfold wstep. destruct (cs_wpc c) as [|p|p todo] eqn:Ew.
    + destruct (cs_wprog c) as [|p r] eqn:Ep; [unfold known; rewrite Ew, Ep; auto|].
      destruct ((cs_rd c =? 0)%nat && negb (cs_wl c)); [|unfold known; rewrite Ew, Ep; auto].
      unfold known. cbn [cs_cur cs_wprog cs_wpc cs_obs in_progress]. split; [auto|split; [|split; auto]].
      * intros x Hx. apply K2. right. auto.
      * intros p' [= <-]. apply K2. left. auto.
    + destruct ((cs_rd c =? 0)%nat && negb (cs_wl c)); unfold known; cbn [cs_cur cs_wprog cs_wpc cs_obs in_progress];
        try rewrite Ew; split; auto.
    + destruct todo as [|x todo]; unfold known; cbn [cs_cur cs_wprog cs_wpc cs_obs in_progress].
      * split; [right; apply K3; auto|split; [auto|split; [discriminate|auto]]].
      * split; auto.
  - unfold rstep. destruct (nth_error (cs_readers c) i) as [r|]; [|unfold known; auto].
    destruct (r_pc r) as [|q].
    + destruct (r_prog r); [unfold known; auto|]. destruct (cs_wl c); unfold known; cbn [cs_cur cs_wprog cs_wpc cs_obs]; auto.
    + unfold known. cbn [cs_cur cs_wprog cs_wpc cs_obs]. split; [auto|split; [auto|split; [auto|]]].
      apply Forall_app. split; auto.
Qed.

Lemma known_run p0 reloads sched : forall c, known p0 reloads c -> known p0 reloads (prun false c sched).
Proof.
  induction sched as [|t r IH]; intros c H; auto. unfold prun. cbn [fold_left]. fold (prun false (pstep false c t) r).
  apply IH. apply known_step. auto.
Qed.

Lemma known_init p0 reloads progs : known p0 reloads (pinit p0 reloads progs).
Proof.
  unfold known, pinit. cbn [cs_cur cs_wprog cs_wpc cs_obs in_progress].
  split; [left; auto|split; [apply incl_refl|split; [discriminate|constructor]]].
Qed.

(* the theorem *)
Lemma reader_old_or_new_in_full p0 reloads progs sched :
  Forall (fun o => let '(q, d, p, _) := o in In p (p0 :: reloads) /\ d = decide_p p q)
         (cs_obs (prun false (pinit p0 reloads progs) sched)).
Proof.
  destruct (pinv_run sched _ (pinv_init p0 reloads progs)) as (_ & _ & _ & O).
  destruct (known_run p0 reloads sched _ (known_init p0 reloads progs)) as (_ & _ & _ & K).
  rewrite Forall_forall in *. intros [[[q d] p] ip] Hin. split; [apply (K _ Hin)|apply (O _ Hin)].
Qed.
