(* Common prelude: bytes as lists of N, Go-style results, hex literals for
   the generated case files. Definitions only. *)
From Coq Require Export String Ascii.
From Coq Require Export List NArith ZArith Bool.
Export ListNotations.
Open Scope N_scope.

Definition byte := N.
Definition bytes := list byte.
Definition wf_byte (b : byte) : bool := b <? 256.
Definition wf_bytes (l : bytes) : bool := forallb wf_byte l.

(* Go outcome: value, error (class), or panic. *)
Inductive result (E A : Type) := Ok (a : A) | Err (e : E) | Panic.
Arguments Ok {E A}. Arguments Err {E A}. Arguments Panic {E A}.

Definition blen (l : bytes) : N := N.of_nat (length l).

Fixpoint bytes_eqb (a b : bytes) : bool :=
  match a, b with
  | [], [] => true
  | x :: a', y :: b' => (x =? y) && bytes_eqb a' b'
  | _, _ => false
  end.

Definition option_eqb {A} (eqb : A -> A -> bool) (a b : option A) : bool :=
  match a, b with
  | None, None => true
  | Some x, Some y => eqb x y
  | _, _ => false
  end.

Fixpoint list_eqb {A} (eqb : A -> A -> bool) (a b : list A) : bool :=
  match a, b with
  | [], [] => true
  | x :: a', y :: b' => eqb x y && list_eqb eqb a' b'
  | _, _ => false
  end.

(* ---- hex literals (used by generated case files) ---- *)
Definition hexval (c : ascii) : N :=
  let n := N_of_ascii c in
  if (48 <=? n) && (n <=? 57) then n - 48
  else if (97 <=? n) && (n <=? 102) then n - 87
  else if (65 <=? n) && (n <=? 70) then n - 55
  else 0.

Fixpoint unhex (s : string) : bytes :=
  match s with
  | String a (String b r) => (16 * hexval a + hexval b) :: unhex r
  | _ => []
  end.

(* indices (from 0) of the cases whose check function returns false *)
Fixpoint mismatches_from {A} (chk : A -> bool) (i : nat) (l : list A) : list nat :=
  match l with
  | [] => []
  | x :: r => if chk x then mismatches_from chk (S i) r else i :: mismatches_from chk (S i) r
  end.
Definition mismatches {A} (chk : A -> bool) (l : list A) : list nat := mismatches_from chk 0 l.

(* firstn / skipn on N counts *)
Definition take (n : N) (l : bytes) : bytes := firstn (N.to_nat n) l.
Definition drop (n : N) (l : bytes) : bytes := skipn (N.to_nat n) l.

(* ---- compact byte-string specifications for generated case files ----
   Large inputs are produced by a linear congruential generator that the
   Python case generator mirrors; large observed outputs are compared through
   their length and a polynomial hash. *)
Fixpoint lcg_bytes_aux (n : nat) (x : N) : bytes :=
  match n with
  | O => []
  | S n' => let x' := N.land (x * 1103515245 + 12345) 2147483647 in
            N.land (N.shiftr x' 16) 255 :: lcg_bytes_aux n' x'
  end.
Definition lcg_bytes (seed n : N) : bytes := lcg_bytes_aux (N.to_nat n) seed.

Definition bhash_mask : N := 18446744073709551615.   (* 2^64 - 1 *)
Definition bhash (b : bytes) : N :=
  fold_left (fun h x => N.land (h * 1000003 + x + 1) bhash_mask) b 7.

Inductive bspec := Lit (b : bytes) | Gen (seed n : N) | Dig (len hash : N).
Definition bspec_val (s : bspec) : bytes :=
  match s with Lit b => b | Gen s n => lcg_bytes s n | Dig _ _ => [] end.
Definition bspec_matches (s : bspec) (b : bytes) : bool :=
  match s with
  | Lit l => bytes_eqb l b
  | Gen sd n => bytes_eqb (lcg_bytes sd n) b
  | Dig len h => (blen b =? len) && (bhash b =? h)
  end.
