From CJ Require Import Common.Base.
From Coq Require Import Lia.

Lemma bytes_eqb_refl a : bytes_eqb a a = true.
Proof. induction a as [|x a IH]; cbn; [reflexivity|]. rewrite N.eqb_refl, IH. reflexivity. Qed.

Lemma bytes_eqb_eq a b : bytes_eqb a b = true <-> a = b.
Proof.
  split; [|intros ->; apply bytes_eqb_refl].
  revert b; induction a as [|x a IH]; intros [|y b]; cbn; try congruence.
  intros H. apply andb_true_iff in H as [H1 H2]. apply N.eqb_eq in H1. f_equal; auto.
Qed.

Lemma blen_app a b : blen (a ++ b) = blen a + blen b.
Proof. unfold blen. rewrite app_length. lia. Qed.

Lemma wf_bytes_app a b : wf_bytes (a ++ b) = wf_bytes a && wf_bytes b.
Proof. unfold wf_bytes. apply forallb_app. Qed.

Lemma wf_bytes_firstn n l : wf_bytes l = true -> wf_bytes (firstn n l) = true.
Proof.
  unfold wf_bytes. revert l; induction n as [|n IH]; intros [|x l]; cbn; auto.
  intros H. apply andb_true_iff in H as [H1 H2]. rewrite H1, IH; auto.
Qed.

Lemma wf_bytes_skipn n l : wf_bytes l = true -> wf_bytes (skipn n l) = true.
Proof.
  unfold wf_bytes. revert l; induction n as [|n IH]; intros [|x l]; cbn; auto.
  intros H. apply andb_true_iff in H as [H1 H2]. auto.
Qed.
