(* C13 proofs, part 4: the reload sequence of cmd/registration-server/main.go (ModelR.v).
   With the pinned order (subnets before the front ends) every request that the front end moved to
   the registrar's generation, and every request of a generation the registrar knew from the start,
   is answered - whatever handler steps intervene between its two steps, for any number of reloads
   and requests.  The statement is proved for ANY handler program that passes the executable test
   handler_ok; the pinned program passes it under the publication hypothesis chain_ok. *)
From CJ Require Import Common.Base C13.ModelR.
From Coq Require Import Lia Arith PeanoNat.
Local Open Scope nat_scope.

Lemma mem_In : forall x l, mem x l = true <-> In x l.
Proof.
  unfold mem. intros. rewrite existsb_exists. split.
  - intros [y [H E]]. apply Nat.eqb_eq in E. subst. auto.
  - intros H. exists x. split; auto. apply Nat.eqb_refl.
Qed.

Lemma incl_b_spec : forall a b, incl_b a b = true <-> (forall x, mem x a = true -> mem x b = true).
Proof.
  unfold incl_b. intros. rewrite forallb_forall. split.
  - intros H x Hx. apply H. apply mem_In. auto.
  - intros H x Hx. apply H. apply mem_In. auto.
Qed.

Lemma incl_b_refl : forall a, incl_b a a = true.
Proof. intros. apply incl_b_spec. auto. Qed.

Lemma incl_b_trans : forall a b c, incl_b a b = true -> incl_b b c = true -> incl_b a c = true.
Proof. intros a b c H1 H2. rewrite incl_b_spec in *. auto. Qed.

Lemma nth_error_rset_nth_eq {A} : forall (l : list A) i x t,
  nth_error l i = Some t -> nth_error (rset_nth i x l) i = Some x.
Proof. induction l; destruct i; simpl; intros; try discriminate; eauto. Qed.

Lemma nth_error_rset_nth_neq {A} : forall (l : list A) i j x,
  i <> j -> nth_error (rset_nth i x l) j = nth_error l j.
Proof. induction l; destruct i, j; simpl; intros; try congruence; eauto. Qed.

(* a request "counts" when the front end moved it, or when its generation was known from the start *)
Definition counts (G0 : list nat) (q : request) (cc : option nat) : Prop :=
  mem (q_gen q) G0 = true \/ (q_dns q = false /\ cc <> None).

Definition q_ok (G0 G : list nat) (q : request) : Prop :=
  match q_phase q with
  | QNew => True
  | QFront g' cc => counts G0 q cc -> mem g' G = true
  | QDone ok _ _ cc => counts G0 q cc -> ok = true
  end.

Record RInv (G0 : list nat) (y : sys) : Prop := {
  i_api  : mem (r_api (y_st y)) (r_gens (y_st y)) = true;
  i_mono : incl_b G0 (r_gens (y_st y)) = true;
  i_hand : handler_ok (r_gens (y_st y)) (y_conf y) (y_todo y) = true;
  i_reqs : forall i q, nth_error (y_reqs y) i = Some q -> q_ok G0 (r_gens (y_st y)) q
}.

Lemma q_ok_mono : forall G0 G G' q, incl_b G G' = true -> q_ok G0 G q -> q_ok G0 G' q.
Proof.
  intros G0 G G' q I H. unfold q_ok in *. destruct (q_phase q); auto.
  intros C. rewrite incl_b_spec in I. auto.
Qed.

Lemma RInv_step : forall G0 y a y', RInv G0 y -> ystep y a = Some y' -> RInv G0 y'.
Proof.
  intros G0 y a y' [IA IM IH IR] H. destruct a as [|i]; simpl in H.
  - (* the handler *)
    destruct (y_todo y) as [|[h P] rest] eqn:Et; try discriminate.
    destruct (y_st y) as [set G api dns] eqn:Es. simpl in *.
    destruct h; simpl in H; simpl in IH.
    + inversion H; subst. constructor; simpl; auto.
    + destruct (y_conf y) as [n|] eqn:Ec.
      * destruct (p_subok P) eqn:Eo.
        -- apply andb_true_iff in IH. destruct IH as [I1 I2]. inversion H; subst.
           constructor; simpl; auto.
           ++ rewrite incl_b_spec in I1. auto.
           ++ eapply incl_b_trans; eauto.
           ++ intros i q Hq. eapply q_ok_mono; eauto.
        -- inversion H; subst. constructor; simpl; auto.
      * inversion H; subst. constructor; simpl; auto.
    + destruct (y_conf y) as [n|] eqn:Ec.
      * destruct (p_subok P) eqn:Eo.
        -- apply andb_true_iff in IH. destruct IH as [I1 I2]. inversion H; subst.
           constructor; simpl; auto.
           ++ rewrite incl_b_spec in I1. auto.
           ++ eapply incl_b_trans; eauto.
           ++ intros i q Hq. eapply q_ok_mono; eauto.
        -- inversion H; subst. constructor; simpl; auto.
      * inversion H; subst. constructor; simpl; auto.
    + destruct (y_conf y) as [n|] eqn:Ec.
      * apply andb_true_iff in IH. destruct IH as [I1 I2]. inversion H; subst. constructor; simpl; auto.
      * inversion H; subst. constructor; simpl; auto.
    + destruct (y_conf y) as [n|] eqn:Ec.
      * apply andb_true_iff in IH. destruct IH as [I1 I2]. inversion H; subst. constructor; simpl; auto.
      * inversion H; subst. constructor; simpl; auto.
  - (* request i *)
    destruct (nth_error (y_reqs y) i) as [q|] eqn:Eq; try discriminate.
    destruct (qstep (y_st y) q) as [q'|] eqn:Es; try discriminate.
    inversion H; subst. constructor; simpl; auto.
    intros j qj Hj. destruct (Nat.eq_dec i j) as [->|Hne].
    + rewrite (nth_error_rset_nth_eq _ _ _ _ Eq) in Hj. inversion Hj; subst qj.
      pose proof (IR j q Eq) as Q. unfold qstep in Es. unfold q_ok in *.
      destruct (q_phase q) as [|g' cc|ok s g' cc] eqn:Ep; try discriminate.
      * unfold front in Es. destruct (q_dns q) eqn:Ed.
        -- inversion Es; subst. simpl. unfold counts. simpl.
           intros [C|[C _]]; [|discriminate]. rewrite incl_b_spec in IM. auto.
        -- destruct (q_gen q <? r_api (y_st y)) eqn:El; inversion Es; subst; simpl; unfold counts; simpl.
           ++ intros _. exact IA.
           ++ intros [C|[_ C]]; [|congruence]. rewrite incl_b_spec in IM. auto.
      * inversion Es; subst. simpl. unfold counts in *. simpl. auto.
    + rewrite nth_error_rset_nth_neq in Hj by auto. eapply IR; eauto.
Qed.

Lemma RInv_reach : forall G0 y y', RInv G0 y -> yreach y y' -> RInv G0 y'.
Proof. intros G0 y y' I R. induction R; auto. eapply RInv_step; [apply IHR; exact I | exact H]. Qed.

Lemma RInv_init : forall s todo reqs,
  mem (r_api s) (r_gens s) = true -> handler_ok (r_gens s) None todo = true ->
  RInv (r_gens s) (mkSys s None todo (map (fun r => newq (fst r) (snd r)) reqs)).
Proof.
  intros s todo reqs A Hh. constructor; simpl; auto.
  - apply incl_b_refl.
  - intros i q Hq. rewrite nth_error_map in Hq. destruct (nth_error reqs i); try discriminate.
    inversion Hq; subst. exact I.
Qed.

(* the registrar stays consistent: the generation outdated clients are moved to is always one the
   installed subnet set contains; and every request that counts is answered *)
Lemma reload_sequence_safe : forall s todo reqs y,
  mem (r_api s) (r_gens s) = true -> handler_ok (r_gens s) None todo = true ->
  yreach (mkSys s None todo (map (fun r => newq (fst r) (snd r)) reqs)) y ->
  mem (r_api (y_st y)) (r_gens (y_st y)) = true /\
  forall i q ok set g' cc, nth_error (y_reqs y) i = Some q -> q_phase q = QDone ok set g' cc ->
    (mem (q_gen q) (r_gens s) = true \/ (q_dns q = false /\ cc <> None)) -> ok = true.
Proof.
  intros s todo reqs y A Hh R.
  pose proof (RInv_reach _ _ _ (RInv_init s todo reqs A Hh) R) as [IA IM IH IR].
  split; auto. intros i q ok set g' cc Hq Hp C. pose proof (IR i q Hq) as Q.
  unfold q_ok in Q. rewrite Hp in Q. apply Q. exact C.
Qed.

(* the pinned program passes the test under the publication hypothesis, for any number of reloads *)
Lemma pinned_handler_ok : forall pubs G conf, chain_ok G pubs = true ->
  handler_ok G conf (hprog pinned_order pubs) = true.
Proof.
  induction pubs as [|P r IH]; intros G conf C; [reflexivity|].
  unfold hprog in *. simpl. simpl in C. destruct (p_cc P) as [n|].
  - destruct (p_subok P).
    + apply andb_true_iff in C. destruct C as [C C3]. apply andb_true_iff in C. destruct C as [C1 C2].
      rewrite C1, C2. simpl. apply IH. auto.
    + apply IH. auto.
  - apply IH. auto.
Qed.

Lemma pinned_order_safe : forall s pubs reqs y,
  mem (r_api s) (r_gens s) = true -> chain_ok (r_gens s) pubs = true ->
  yreach (yinit s pinned_order pubs reqs) y ->
  mem (r_api (y_st y)) (r_gens (y_st y)) = true /\
  forall i q ok set g' cc, nth_error (y_reqs y) i = Some q -> q_phase q = QDone ok set g' cc ->
    (mem (q_gen q) (r_gens s) = true \/ (q_dns q = false /\ cc <> None)) -> ok = true.
Proof.
  intros s pubs reqs y A C R. eapply reload_sequence_safe; eauto. apply pinned_handler_ok. auto.
Qed.

(* nothing ever blocks in this model: the handler can always take its next step, a request that is
   not answered can always take its next step *)
Lemma handler_never_blocked : forall y, y_todo y <> [] -> exists y', ystep y 0 = Some y'.
Proof.
  intros y H. simpl. destruct (y_todo y) as [|h r]; [congruence|].
  destruct (hexec (y_st y) (y_conf y) h). eexists; reflexivity.
Qed.

Lemma request_never_blocked : forall y i q, nth_error (y_reqs y) i = Some q ->
  (forall ok s g cc, q_phase q <> QDone ok s g cc) -> exists y', ystep y (S i) = Some y'.
Proof.
  intros y i q Hq Hn. simpl. rewrite Hq. unfold qstep.
  destruct (q_phase q) as [|g' cc|ok s g' cc] eqn:E.
  - destruct (front (y_st y) (q_dns q) (q_gen q)). eexists; reflexivity.
  - eexists; reflexivity.
  - exfalso. eapply Hn. reflexivity.
Qed.

(* every step consumes one of finitely many operations *)
Definition ymeasure (y : sys) : nat :=
  length (y_todo y) +
  list_sum (map (fun q => match q_phase q with QNew => 2 | QFront _ _ => 1 | QDone _ _ _ _ => 0 end) (y_reqs y)).

Lemma sum_rset_nth {A} (f : A -> nat) : forall l i x t,
  nth_error l i = Some t -> list_sum (map f (rset_nth i x l)) + f t = list_sum (map f l) + f x.
Proof.
  induction l; destruct i; simpl; intros; try discriminate.
  - inversion H; subst; lia.
  - specialize (IHl _ x _ H). lia.
Qed.

Lemma ystep_measure : forall y a y', ystep y a = Some y' -> S (ymeasure y') = ymeasure y.
Proof.
  intros y a y' H. unfold ymeasure. destruct a as [|i]; simpl in H.
  - destruct (y_todo y) as [|h r]; try discriminate.
    destruct (hexec (y_st y) (y_conf y) h). inversion H; subst. simpl. lia.
  - destruct (nth_error (y_reqs y) i) as [q|] eqn:Eq; try discriminate.
    destruct (qstep (y_st y) q) as [q'|] eqn:Es; try discriminate. inversion H; subst. simpl.
    pose proof (sum_rset_nth (fun q => match q_phase q with QNew => 2 | QFront _ _ => 1 | QDone _ _ _ _ => 0 end)
                  (y_reqs y) i q' q Eq) as S1. cbv beta in S1.
    unfold qstep in Es. destruct (q_phase q) eqn:Ep; try discriminate.
    + destruct (front (y_st y) (q_dns q) (q_gen q)). inversion Es; subst. simpl in S1. lia.
    + inversion Es; subst. simpl in S1. lia.
Qed.
