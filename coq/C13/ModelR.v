(* C13 model, part 3: the reload as cmd/registration-server/main.go performs it.
   Definitions only; executable.

   The SIGHUP handler is ONE goroutine; for every signal it runs, in this order (main.go:252-275),

       conf, err = loadConfig(configPath)              HParse     read the config and the ClientConf file
       processor.ReloadSubnets()                       HSubnets   install the selector parsed from the subnets file;
                                                                  on failure: log, abort this reload
       apiRegServer.NewClientConf(conf.latest...)      HApi       hand the ClientConf to the API registrar
       dnsRegServer.UpdateLatestCCGen(generation)      HDns       hand its generation to the DNS registrar

   while requests keep arriving.  A bidirectional API request is served in two steps that are not
   atomic together: the front end (apiregserver.registerBidirectional) compares the client's
   generation with the registrar's ClientConf and MOVES an outdated client to the registrar's
   generation; then the processor selects the phantoms for that generation from the installed subnet
   set (under the selector read lock: one set, ModelS.v), which fails with "generation number not
   recognized" - HTTP 500 - when the installed set does not contain it.  A DNS request is not moved;
   it is only told whether it is outdated.

   The state that matters: which client generations the installed subnet set contains, and the
   generation the two front ends compare with. *)
From CJ Require Export Common.Base.
Local Open Scope nat_scope.

Record rstate := mkR {
  r_set  : nat;          (* identity of the installed subnet set (file generation) *)
  r_gens : list nat;     (* client generations the installed set contains *)
  r_api  : nat;          (* generation of the API registrar's ClientConf *)
  r_dns  : nat           (* the DNS registrar's latest ClientConf generation *)
}.

(* what the handler finds on disk when it handles one SIGHUP *)
Record pub := mkP {
  p_cc    : option nat;  (* generation of the ClientConf file; None: the file does not parse (reload aborted) *)
  p_set   : nat;
  p_gens  : list nat;
  p_subok : bool         (* the subnets file parses *)
}.

(* HSubnets: when ReloadSubnets fails the handler ABORTS the reload (`continue`): the front ends are not
   touched.  HSubnetsNoAbort is the variant that logs the failure and goes on (what main.go did before
   the fix recorded in known_findings.json); it is kept to show that the abort is needed. *)
Inductive hstep := HParse | HSubnets | HSubnetsNoAbort | HApi | HDns.

Definition pinned_order : list hstep := [HParse; HSubnets; HApi; HDns].
(* the reordering "in-memory updates first, the step that can fail last" *)
Definition swapped_order : list hstep := [HParse; HApi; HDns; HSubnets].
(* "log the failure of ReloadSubnets and carry on" *)
Definition noabort_order : list hstep := [HParse; HSubnetsNoAbort; HApi; HDns].

(* the handler's program for a sequence of signals *)
Definition hprog (ord : list hstep) (pubs : list pub) : list (hstep * pub) :=
  concat (map (fun P => map (fun s => (s, P)) ord) pubs).

Definition mem (x : nat) (l : list nat) : bool := existsb (Nat.eqb x) l.

(* one handler step; conf is the handler's local variable (the parsed ClientConf generation of the
   reload in progress; None: loadConfig failed, the other steps of this reload are skipped) *)
Definition hexec (s : rstate) (conf : option nat) (a : hstep * pub) : rstate * option nat :=
  let '(h, P) := a in
  match h with
  | HParse => (s, p_cc P)
  | HSubnets =>
    match conf with
    | Some _ => if p_subok P then (mkR (p_set P) (p_gens P) (r_api s) (r_dns s), conf) else (s, None)
    | None => (s, conf)
    end
  | HSubnetsNoAbort =>
    match conf with
    | Some _ => if p_subok P then (mkR (p_set P) (p_gens P) (r_api s) (r_dns s), conf) else (s, conf)
    | None => (s, conf)
    end
  | HApi => match conf with Some n => (mkR (r_set s) (r_gens s) n (r_dns s), conf) | None => (s, conf) end
  | HDns => match conf with Some n => (mkR (r_set s) (r_gens s) (r_api s) n, conf) | None => (s, conf) end
  end.

(* ---- requests ---- *)
Inductive rphase :=
| QNew                                   (* not yet arrived *)
| QFront (g' : nat) (cc : option nat)    (* front end done: generation to select for, ClientConf to hand back *)
| QDone (ok : bool) (set : nat) (g' : nat) (cc : option nat).

Record request := mkQ {
  q_gen : nat;           (* the client's generation *)
  q_dns : bool;          (* through the DNS registrar (not moved) *)
  q_phase : rphase
}.

(* the generation a request is selected for, and the ClientConf generation handed back *)
Definition front (s : rstate) (dns : bool) (g : nat) : nat * option nat :=
  if dns then (g, if g <? r_dns s then Some (r_dns s) else None)
  else if g <? r_api s then (r_api s, Some (r_api s)) else (g, None).

Definition servable (s : rstate) (dns : bool) (g : nat) : bool := mem (fst (front s dns g)) (r_gens s).

Definition qstep (s : rstate) (q : request) : option request :=
  match q_phase q with
  | QNew => let '(g', cc) := front s (q_dns q) (q_gen q) in
            Some (mkQ (q_gen q) (q_dns q) (QFront g' cc))
  | QFront g' cc => Some (mkQ (q_gen q) (q_dns q) (QDone (mem g' (r_gens s)) (r_set s) g' cc))
  | QDone _ _ _ _ => None
  end.

Record sys := mkSys {
  y_st   : rstate;
  y_conf : option nat;
  y_todo : list (hstep * pub);
  y_reqs : list request
}.

Fixpoint rset_nth {A} (i : nat) (x : A) (l : list A) : list A :=
  match l, i with
  | [], _ => []
  | _ :: r, O => x :: r
  | y :: r, S j => y :: rset_nth j x r
  end.

(* actor 0 is the handler, actor S i is request i *)
Definition ystep (y : sys) (a : nat) : option sys :=
  match a with
  | O => match y_todo y with
         | [] => None
         | h :: rest => let '(s', c') := hexec (y_st y) (y_conf y) h in Some (mkSys s' c' rest (y_reqs y))
         end
  | S i => match nth_error (y_reqs y) i with
           | Some q => match qstep (y_st y) q with
                       | Some q' => Some (mkSys (y_st y) (y_conf y) (y_todo y) (rset_nth i q' (y_reqs y)))
                       | None => None
                       end
           | None => None
           end
  end.

Inductive yreach : sys -> sys -> Prop :=
| yr0 y : yreach y y
| yr1 y y' y'' a : yreach y y' -> ystep y' a = Some y'' -> yreach y y''.

Fixpoint yrun (y : sys) (s : list nat) : sys :=
  match s with
  | [] => y
  | a :: r => match ystep y a with Some y' => yrun y' r | None => yrun y r end
  end.

Definition newq (dns : bool) (g : nat) : request := mkQ g dns QNew.
Definition yinit (s : rstate) (ord : list hstep) (pubs : list pub) (reqs : list (bool * nat)) : sys :=
  mkSys s None (hprog ord pubs) (map (fun r => newq (fst r) (snd r)) reqs).

Definition incl_b (a b : list nat) : bool := forallb (fun x => mem x b) a.

(* the handler alone, from the installed generations G: it never hands a front end a generation the
   installed set does not contain, and it only ever installs supersets *)
Fixpoint handler_ok (G : list nat) (conf : option nat) (todo : list (hstep * pub)) : bool :=
  match todo with
  | [] => true
  | (h, P) :: r =>
    match h with
    | HParse => handler_ok G (p_cc P) r
    | HSubnets =>
      match conf with
      | Some _ => if p_subok P then incl_b G (p_gens P) && handler_ok (p_gens P) conf r else handler_ok G None r
      | None => handler_ok G conf r
      end
    | HSubnetsNoAbort =>
      match conf with
      | Some _ => if p_subok P then incl_b G (p_gens P) && handler_ok (p_gens P) conf r else handler_ok G conf r
      | None => handler_ok G conf r
      end
    | HApi | HDns => match conf with Some n => mem n G && handler_ok G conf r | None => handler_ok G conf r end
    end
  end.

(* the hypothesis on what the operator publishes, as a chain from the installed generations G:
   a subnets file THAT LOADS keeps the generations of its predecessor and contains the generation of
   the ClientConf published with it.  Nothing is assumed about publications whose ClientConf or
   subnets file does not load: any subset of the reloads may fail. *)
Fixpoint chain_ok (G : list nat) (pubs : list pub) : bool :=
  match pubs with
  | [] => true
  | P :: r =>
    match p_cc P with
    | None => chain_ok G r
    | Some n =>
      if p_subok P then incl_b G (p_gens P) && mem n (p_gens P) && chain_ok (p_gens P) r
      else chain_ok G r
    end
  end.

Definition all_answered (y : sys) : bool :=
  forallb (fun q => match q_phase q with QDone _ _ _ _ => true | _ => false end) (y_reqs y).
