(* C13 model: the registrar's selector RWMutex as a labelled transition system.
   Definitions only; executable.

   sync.RWMutex (Go 1.23, writer preference):
     RLock    succeeds iff no writer has announced itself (readerCount >= 0), else queues
     RUnlock  always succeeds for a holder
     Lock     = two steps:  announce (take the inner writer mutex, make readerCount negative:
                from now on new RLocks queue)  and  enter (once the readers that held the lock
                at the announcement have all left)
     Unlock   releases; queued readers and the next writer may proceed
   The model lets a queued reader and a queued writer race after an Unlock (Go admits the
   queued readers first): the model has every behaviour Go has, and some more. *)
From CJ Require Export Common.Base.

Inductive op :=
| ORLock | ORUnlock
| OSel (v6 : bool)          (* read the current selector and select an address *)
| OAnnounce | OEnter        (* Lock = OAnnounce ; OEnter *)
| OSwap                     (* install the next selector *)
| OUnlock
| OTau.                     (* anything that does not touch the mutex or the selector *)

Definition op_eqb (a b : op) : bool :=
  match a, b with
  | ORLock, ORLock | ORUnlock, ORUnlock | OAnnounce, OAnnounce | OEnter, OEnter
  | OSwap, OSwap | OUnlock, OUnlock | OTau, OTau => true
  | OSel x, OSel y => Bool.eqb x y
  | _, _ => false
  end.

Inductive wphase := WNone | WPend | WHeld.

Record thread := mkT {
  todo : list op;            (* remaining trace *)
  rd   : nat;                (* read locks held by this thread *)
  wp   : wphase;             (* where this thread is in Lock/Unlock *)
  tlog : list (list nat)     (* selector versions observed, grouped by read section, newest first *)
}.

Inductive wstate := WFree | WPending (i : nat) | WHolding (i : nat).

Record cfg := mkC {
  readers : nat;             (* read locks currently held *)
  ws      : wstate;
  ver     : nat;             (* version of the installed selector *)
  threads : list thread
}.

Fixpoint set_nth {A} (i : nat) (x : A) (l : list A) : list A :=
  match l, i with
  | [], _ => []
  | _ :: r, O => x :: r
  | y :: r, S j => y :: set_nth j x r
  end.

Definition push_obs (v : nat) (l : list (list nat)) : list (list nat) :=
  match l with
  | [] => [[v]]
  | s :: r => (v :: s) :: r
  end.

(* what the next operation of thread i (record t) does: the new thread record, reader count,
   writer state and selector version; None = blocked (or would crash the runtime:
   RUnlock/Unlock of a lock that is not held) *)
Definition tstep (c : cfg) (i : nat) (t : thread) : option (thread * nat * wstate * nat) :=
  match todo t with
  | [] => None
  | o :: rest =>
    match o with
    | ORLock =>
      match ws c with
      | WFree => Some (mkT rest (S (rd t)) (wp t) ([] :: tlog t), S (readers c), ws c, ver c)
      | _ => None
      end
    | ORUnlock =>
      match rd t, readers c with
      | S d, S r => Some (mkT rest d (wp t) (tlog t), r, ws c, ver c)
      | _, _ => None
      end
    | OSel _ => Some (mkT rest (rd t) (wp t) (push_obs (ver c) (tlog t)), readers c, ws c, ver c)
    | OAnnounce =>
      match ws c with
      | WFree => Some (mkT rest (rd t) WPend (tlog t), readers c, WPending i, ver c)
      | _ => None
      end
    | OEnter =>
      match ws c, readers c with
      | WPending j, O => if Nat.eqb i j then Some (mkT rest (rd t) WHeld (tlog t), O, WHolding i, ver c) else None
      | _, _ => None
      end
    | OSwap => Some (mkT rest (rd t) (wp t) (tlog t), readers c, ws c, S (ver c))
    | OUnlock =>
      match ws c with
      | WHolding j => if Nat.eqb i j then Some (mkT rest (rd t) WNone (tlog t), readers c, WFree, ver c) else None
      | _ => None
      end
    | OTau => Some (mkT rest (rd t) (wp t) (tlog t), readers c, ws c, ver c)
    end
  end.

(* one step of thread i; None = thread i does not exist, is finished, or is blocked *)
Definition step (c : cfg) (i : nat) : option cfg :=
  match nth_error (threads c) i with
  | None => None
  | Some t =>
    match tstep c i t with
    | Some (t', r, w, v) => Some (mkC r w v (set_nth i t' (threads c)))
    | None => None
    end
  end.

Definition thread_done (t : thread) : bool := match todo t with [] => true | _ => false end.
Definition all_done (c : cfg) : bool := forallb thread_done (threads c).

(* schedules are the paths of reach; reach_n counts the steps *)
Inductive reach : cfg -> cfg -> Prop :=
| r0 c : reach c c
| r1 c c' c'' i : reach c c' -> step c' i = Some c'' -> reach c c''.

Inductive reach_n : cfg -> nat -> cfg -> Prop :=
| rn0 c : reach_n c 0 c
| rn1 c c' c'' n i : reach_n c n c' -> step c' i = Some c'' -> reach_n c (S n) c''.

(* run a schedule, ignoring choices that are not enabled (used by examples and Run.v) *)
Fixpoint run (c : cfg) (s : list nat) : cfg :=
  match s with
  | [] => c
  | i :: r => match step c i with Some c' => run c' r | None => run c r end
  end.

Definition enabled (c : cfg) (i : nat) : bool := match step c i with Some _ => true | None => false end.
Definition stuck (c : cfg) : bool :=
  negb (all_done c) && negb (existsb (enabled c) (seq 0 (length (threads c)))).

(* ---- local well-formedness of a trace: the boolean `wf` ---- *)
Inductive lphase := LNone | LRead | LPend | LWrite.

Fixpoint wf_from (p : lphase) (l : list op) : bool :=
  match l with
  | [] => match p with LNone => true | _ => false end
  | o :: r =>
    match p, o with
    | LNone, ORLock => wf_from LRead r
    | LNone, OAnnounce => wf_from LPend r
    | LNone, OTau => wf_from LNone r
    | LRead, OSel _ => wf_from LRead r
    | LRead, OTau => wf_from LRead r
    | LRead, ORUnlock => wf_from LNone r
    | LPend, OEnter => wf_from LWrite r
    | LWrite, OSwap => wf_from LWrite r
    | LWrite, OTau => wf_from LWrite r
    | LWrite, OUnlock => wf_from LNone r
    | _, _ => false
    end
  end.

(* never acquires the read lock while holding it (or while holding / waiting for the write
   lock), selections only under the read lock, balanced *)
Definition wf (l : list op) : bool := wf_from LNone l.

Definition fresh (l : list op) : thread := mkT l 0 WNone [].
Definition init_cfg (v : nat) (traces : list (list op)) : cfg := mkC 0 WFree v (map fresh traces).

Definition wf_init (c : cfg) : Prop :=
  exists v traces, c = init_cfg v traces /\ forallb wf traces = true.

Fixpoint count_rlock (l : list op) : nat :=
  match l with
  | [] => 0
  | ORLock :: r => S (count_rlock r)
  | _ :: r => count_rlock r
  end.

Definition measure (c : cfg) : nat := list_sum (map (fun t => length (todo t)) (threads c)).

(* ---- the traces of the code ----
   processBdReq (pkg/regserver/regprocessor/regprocessor.go): one RLock before the
   selections, deferred RUnlock; an error of a selection returns early (the deferred RUnlock
   still runs).  ReloadSubnets: parse the file (no lock), Lock, swap, Unlock. *)
Record reqkind := mkReq { k_v4 : bool; k_v6 : bool; k_err4 : bool; k_err6 : bool }.

Definition trace_of_req (k : reqkind) : list op :=
  [OTau; ORLock] ++
  (if k_v4 k then [OSel false] else []) ++
  (if k_v4 k && k_err4 k then []
   else (if k_v6 k then [OSel true] else []) ++
        (if k_v6 k && k_err6 k then [] else [OTau])) ++
  [ORUnlock].

Definition reload_trace : list op := [OTau; OAnnounce; OEnter; OSwap; OUnlock].
(* a reload whose file does not parse returns before touching the lock *)
Definition reload_fail_trace : list op := [OTau].

(* k requests of the given kinds, m reloads that succeed and f reloads that fail *)
Definition code_traces (reqs : list reqkind) (m f : nat) : list (list op) :=
  map trace_of_req reqs ++ repeat reload_trace m ++ repeat reload_fail_trace f.
Definition code_cfg (v : nat) (reqs : list reqkind) (m f : nat) : cfg :=
  init_cfg v (code_traces reqs m f).

(* the pinned code before the fix: a second, nested RLock for the IPv6 selection *)
Definition old_trace_dual : list op :=
  [OTau; ORLock; OSel false; ORLock; OSel true; OTau; ORUnlock; ORUnlock].

(* lock-depth trace: the read depth at every selection, and at the end *)
Fixpoint depth_trace (d : nat) (l : list op) : list (bool * nat) * nat :=
  match l with
  | [] => ([], d)
  | o :: r =>
    match o with
    | ORLock => depth_trace (S d) r
    | ORUnlock => depth_trace (pred d) r
    | OSel b => let '(s, f) := depth_trace d r in ((b, d) :: s, f)
    | _ => depth_trace d r
    end
  end.
