(* C13 proofs, part 3: the selector-object model (ModelS.v).
   - every schedule of the object model is a schedule of the lock model (projection), and the
     object model is never blocked when the lock model is not (the store effects never block);
   - when reloads build FRESH objects, every request reads ONE object with ONE contents at all of
     its selections: one subnet set, in full. *)
From CJ Require Import Common.Base C13.Model C13.Proofs C13.ProofsV C13.ModelS.
From Coq Require Import Lia Arith PeanoNat.
Local Open Scope nat_scope.
Local Arguments Nat.sub : simpl never.

(* ---------- projection ---------- *)
Lemma sstep_inv : forall c i c', sstep c i = Some c' ->
  exists t o rest b', nth_error (sthreads c) i = Some t /\ stodo t = o :: rest /\
    step (base c) i = Some b' /\
    c' = mkSC b' (fst (fst (effect (st c) (ver (base c)) o (sloc t) (slog t))))
              (set_nth i (mkST rest (snd (fst (effect (st c) (ver (base c)) o (sloc t) (slog t))))
                                    (snd (effect (st c) (ver (base c)) o (sloc t) (slog t)))) (sthreads c)).
Proof.
  unfold sstep. intros c i c' H.
  destruct (nth_error (sthreads c) i) as [t|] eqn:E; try discriminate.
  destruct (stodo t) as [|o rest] eqn:Et; try discriminate.
  destruct (step (base c) i) as [b'|] eqn:Eb; try discriminate.
  destruct (effect (st c) (ver (base c)) o (sloc t) (slog t)) as [[s' loc'] lg'] eqn:Ef.
  inversion H; subst. exists t, o, rest, b'. rewrite Ef. simpl. repeat split; auto.
Qed.

Lemma sstep_base : forall c i c', sstep c i = Some c' -> step (base c) i = Some (base c').
Proof.
  intros c i c' H. destruct (sstep_inv _ _ _ H) as [t [o [rest [b' [_ [_ [Hb ->]]]]]]]. exact Hb.
Qed.

Lemma sreach_base : forall c c', sreach c c' -> reach (base c) (base c').
Proof. induction 1; [constructor|]. eapply r1; [exact IHsreach | apply sstep_base; exact H0]. Qed.

(* ---------- the two thread lists stay in step ---------- *)
Definition Sync (c : scfg) : Prop :=
  length (sthreads c) = length (threads (base c)) /\
  forall i bt t, nth_error (threads (base c)) i = Some bt -> nth_error (sthreads c) i = Some t ->
    todo bt = map erase (stodo t).

Lemma tstep_todo : forall c i t t' r w v, tstep c i t = Some (t', r, w, v) ->
  exists o, todo t = o :: todo t'.
Proof.
  intros c i t t' r w v H. unfold tstep in H. destruct (todo t) as [|o rest]; try discriminate.
  exists o. f_equal.
  destruct o;
    repeat match goal with
           | H : match ?x with _ => _ end = Some _ |- _ => destruct x; try discriminate
           end; inv_some; reflexivity.
Qed.

Lemma concat_push_obs : forall v l, concat (push_obs v l) = v :: concat l.
Proof. intros v [|s r]; reflexivity. Qed.

(* what a step of the lock model does to the observation log and to the version *)
Lemma tstep_log : forall c i t t' r w v o rest,
  tstep c i t = Some (t', r, w, v) -> todo t = o :: rest ->
  concat (tlog t') = (match o with OSel _ => [ver c] | _ => [] end) ++ concat (tlog t) /\
  v = (match o with OSwap => S (ver c) | _ => ver c end).
Proof.
  intros c i t t' r w v o rest H E. unfold tstep in H. rewrite E in H.
  destruct o;
    repeat match goal with
           | H : match ?x with _ => _ end = Some _ |- _ => destruct x; try discriminate
           end; inv_some; simpl; rewrite ?concat_push_obs; auto.
Qed.

Lemma Sync_step : forall c i c', Sync c -> sstep c i = Some c' -> Sync c'.
Proof.
  intros c i c' [L S] H. destruct (sstep_inv _ _ _ H) as [t [o [rest [b' [Ht [Eo [Hb ->]]]]]]].
  apply step_spec in Hb. destruct Hb as [bt [bt' [r [w [v [Hn [Hts ->]]]]]]].
  split; simpl.
  - rewrite !length_set_nth. exact L.
  - intros j btj tj Hj1 Hj2. destruct (Nat.eq_dec i j) as [->|Hne].
    + rewrite (nth_error_set_nth_eq _ _ _ _ Hn) in Hj1.
      rewrite (nth_error_set_nth_eq _ _ _ _ Ht) in Hj2. inversion Hj1; inversion Hj2; subst. simpl.
      destruct (tstep_todo _ _ _ _ _ _ _ Hts) as [o' Eo'].
      pose proof (S j bt t Hn Ht) as E. rewrite Eo, Eo' in E. simpl in E. inversion E; auto.
    + rewrite nth_error_set_nth_neq in Hj1 by auto. rewrite nth_error_set_nth_neq in Hj2 by auto. eapply S; eauto.
Qed.

Lemma Sync_init : forall v p0 x0 tr, Sync (sinit v p0 x0 tr).
Proof.
  intros. split; simpl.
  - rewrite !map_length. reflexivity.
  - intros i bt t H1 H2. rewrite !nth_error_map in *.
    destruct (nth_error tr i); try discriminate. simpl in *. inversion H1; inversion H2; subst. reflexivity.
Qed.

Lemma Sync_reach : forall c c', Sync c -> sreach c c' -> Sync c'.
Proof. intros c c' S R. induction R; auto. eapply Sync_step; [apply IHR; exact S | exact H]. Qed.

(* the store effects never block: whenever the lock model can step, so can the object model *)
Lemma sstep_progress : forall c i b', Sync c -> step (base c) i = Some b' -> exists c', sstep c i = Some c'.
Proof.
  intros c i b' [L S] Hb. pose proof Hb as Hb0. apply step_spec in Hb.
  destruct Hb as [bt [bt' [r [w [v [Hn [Hts _]]]]]]].
  assert (i < length (sthreads c)) as Hi by (rewrite L; apply nth_error_Some; congruence).
  destruct (nth_error_lt_some _ _ Hi) as [t Ht].
  destruct (tstep_todo _ _ _ _ _ _ _ Hts) as [o Eo].
  pose proof (S i bt t Hn Ht) as E. rewrite Eo in E.
  destruct (stodo t) as [|so rest] eqn:Et; [discriminate|].
  unfold sstep. rewrite Ht, Et, Hb0.
  destruct (effect (st c) (ver (base c)) so (sloc t) (slog t)) as [[s' loc'] lg']. eexists; reflexivity.
Qed.

Definition swf (traces : list (list sop)) : bool := forallb (fun l => wf (map erase l)) traces.

Lemma swf_base : forall v p0 x0 tr, swf tr = true -> wf_init (base (sinit v p0 x0 tr)).
Proof.
  intros v p0 x0 tr W. exists v, (map (map erase) tr). split; [reflexivity|].
  unfold swf in W. rewrite forallb_forall in *. intros l Hl. apply in_map_iff in Hl.
  destruct Hl as [l0 [<- Hl0]]. apply W; auto.
Qed.

Lemma s_deadlock_free : forall v p0 x0 tr c, swf tr = true -> sreach (sinit v p0 x0 tr) c ->
  all_done (base c) = true \/ exists i c', sstep c i = Some c'.
Proof.
  intros v p0 x0 tr c W R.
  destruct (wf_trace_deadlock_free _ _ (swf_base v p0 x0 tr W) (sreach_base _ _ R)) as [D|[i [b' Hb]]]; auto.
  right. exists i. eapply sstep_progress; eauto. eapply Sync_reach; [apply Sync_init | exact R].
Qed.

(* ---------- one object, one contents ---------- *)
Record InvK (v0 : nat) (c : scfg) : Prop := {
  k_inst : inst (st c) < length (heap (st c));
  k_loc  : forall i t o, nth_error (sthreads c) i = Some t -> sloc t = Some o -> o < length (heap (st c));
  k_v0   : v0 <= ver (base c);
  k_ver  : ver (base c) + 1 = v0 + length (hist (st c));
  k_last : nth_error (hist (st c)) (ver (base c) - v0) = Some (inst (st c));
  k_obs  : forall i t e o x, nth_error (sthreads c) i = Some t -> In (e, o, x) (slog t) ->
             v0 <= e <= ver (base c) /\ nth_error (hist (st c)) (e - v0) = Some o /\
             nth_error (heap (st c)) o = Some x;
  k_lock : forall i t bt, nth_error (sthreads c) i = Some t -> nth_error (threads (base c)) i = Some bt ->
             versions_of t = concat (tlog bt);
  k_noip : forall i t, nth_error (sthreads c) i = Some t -> no_inplace (stodo t) = true
}.

Lemma nth_error_app_keep {A} : forall (l m : list A) n x, nth_error l n = Some x -> nth_error (l ++ m) n = Some x.
Proof.
  intros l m n x H. rewrite nth_error_app1; auto. apply nth_error_Some. congruence.
Qed.

Lemma nth_nth_error {A} : forall (l : list A) n d, n < length l -> nth_error l n = Some (nth n l d).
Proof. intros. apply nth_error_nth'. auto. Qed.

Lemma no_inplace_tail : forall o l, no_inplace (o :: l) = true -> is_inplace o = false /\ no_inplace l = true.
Proof.
  unfold no_inplace. simpl. intros o l H. apply Bool.negb_true_iff in H. apply Bool.orb_false_iff in H.
  destruct H as [A B]. split; auto. rewrite B. reflexivity.
Qed.

Lemma InvK_step : forall v0 c i c', Sync c -> InvK v0 c -> sstep c i = Some c' -> InvK v0 c'.
Proof.
  intros v0 c i c' [SL SS] K H.
  destruct (sstep_inv _ _ _ H) as [t [o [rest [b' [Ht [Eo [Hb ->]]]]]]].
  apply step_spec in Hb. destruct Hb as [bt [bt' [r [w [v [Hn [Hts ->]]]]]]].
  pose proof (SS i bt t Hn Ht) as Etodo. rewrite Eo in Etodo. simpl in Etodo.
  destruct (tstep_log _ _ _ _ _ _ _ _ _ Hts Etodo) as [Elog Ev].
  pose proof (k_noip _ _ K i t Ht) as Nip. rewrite Eo in Nip.
  destruct (no_inplace_tail _ _ Nip) as [Nip1 Nip2].
  pose proof (k_inst _ _ K) as KI. pose proof (k_v0 _ _ K) as K0. pose proof (k_ver _ _ K) as KV. pose proof (k_last _ _ K) as KL.
  destruct (st c) as [fl hp ins ch hs] eqn:Est. simpl in KI, KV, KL.
  assert (OBS : forall j tj e o' x, nth_error (sthreads c) j = Some tj -> In (e, o', x) (slog tj) ->
            v0 <= e <= ver (base c) /\ nth_error hs (e - v0) = Some o' /\ nth_error hp o' = Some x).
  { intros j tj e o' x A B. pose proof (k_obs _ _ K j tj e o' x A B) as P. rewrite Est in P. exact P. }
  assert (LOC : forall j tj o', nth_error (sthreads c) j = Some tj -> sloc tj = Some o' -> o' < length hp).
  { intros j tj o' A B. pose proof (k_loc _ _ K j tj o' A B) as P. rewrite Est in P. exact P. }
  destruct o; simpl in Nip1; try discriminate; simpl in Ev, Elog; subst v; simpl.
  (* lock operations and tau: nothing changes but the thread's remaining trace *)
  1-6: constructor; simpl; auto;
    [ intros j tj o' Hj Hl; destruct (Nat.eq_dec i j) as [->|Hne];
      [ rewrite (nth_error_set_nth_eq _ _ _ _ Ht) in Hj; inversion Hj; subst; simpl in Hl; eapply LOC; eauto
      | rewrite nth_error_set_nth_neq in Hj by auto; eapply LOC; eauto ]
    | intros j tj e o' x Hj Hin; destruct (Nat.eq_dec i j) as [->|Hne];
      [ rewrite (nth_error_set_nth_eq _ _ _ _ Ht) in Hj; inversion Hj; subst; simpl in Hin; eapply OBS; eauto
      | rewrite nth_error_set_nth_neq in Hj by auto; eapply OBS; eauto ]
    | intros j tj btj Hj Hbj; destruct (Nat.eq_dec i j) as [->|Hne];
      [ rewrite (nth_error_set_nth_eq _ _ _ _ Ht) in Hj; rewrite (nth_error_set_nth_eq _ _ _ _ Hn) in Hbj;
        inversion Hj; inversion Hbj; subst; unfold versions_of; simpl; rewrite Elog; simpl;
        apply (k_lock _ _ K j t bt Ht Hn)
      | rewrite nth_error_set_nth_neq in Hj by auto; rewrite nth_error_set_nth_neq in Hbj by auto; eapply (k_lock _ _ K); eauto ]
    | intros j tj Hj; destruct (Nat.eq_dec i j) as [->|Hne];
      [ rewrite (nth_error_set_nth_eq _ _ _ _ Ht) in Hj; inversion Hj; subst; simpl; auto
      | rewrite nth_error_set_nth_neq in Hj by auto; eapply (k_noip _ _ K); eauto ] ].
  - (* SSel: one more observation, of the installed object *)
    constructor; simpl; auto.
    + intros j tj o' Hj Hl. destruct (Nat.eq_dec i j) as [->|Hne].
      * rewrite (nth_error_set_nth_eq _ _ _ _ Ht) in Hj. inversion Hj; subst. simpl in Hl. eapply LOC; eauto.
      * rewrite nth_error_set_nth_neq in Hj by auto. eapply LOC; eauto.
    + intros j tj e o' x Hj Hin. destruct (Nat.eq_dec i j) as [->|Hne].
      * rewrite (nth_error_set_nth_eq _ _ _ _ Ht) in Hj. inversion Hj; subst. simpl in Hin.
        destruct Hin as [Heq|Hin]; [|eapply OBS; eauto].
        inversion Heq; subst. split; [lia|]. split; auto. apply nth_nth_error; auto.
      * rewrite nth_error_set_nth_neq in Hj by auto. eapply OBS; eauto.
    + intros j tj btj Hj Hbj. destruct (Nat.eq_dec i j) as [->|Hne].
      * rewrite (nth_error_set_nth_eq _ _ _ _ Ht) in Hj. rewrite (nth_error_set_nth_eq _ _ _ _ Hn) in Hbj.
        inversion Hj; inversion Hbj; subst. unfold versions_of. simpl. rewrite Elog. simpl. f_equal.
        apply (k_lock _ _ K j t bt Ht Hn).
      * rewrite nth_error_set_nth_neq in Hj by auto. rewrite nth_error_set_nth_neq in Hbj by auto. eapply (k_lock _ _ K); eauto.
    + intros j tj Hj. destruct (Nat.eq_dec i j) as [->|Hne].
      * rewrite (nth_error_set_nth_eq _ _ _ _ Ht) in Hj. inversion Hj; subst. simpl. auto.
      * rewrite nth_error_set_nth_neq in Hj by auto. eapply (k_noip _ _ K); eauto.
  - (* SLoad: a fresh object is appended to the heap; nothing that exists is touched *)
    constructor; simpl; auto.
    + rewrite app_length. simpl. lia.
    + intros j tj o' Hj Hl. rewrite app_length. simpl. destruct (Nat.eq_dec i j) as [->|Hne].
      * rewrite (nth_error_set_nth_eq _ _ _ _ Ht) in Hj. inversion Hj; subst. simpl in Hl. inversion Hl. lia.
      * rewrite nth_error_set_nth_neq in Hj by auto. pose proof (LOC j tj o' Hj Hl). lia.
    + intros j tj e o' x Hj Hin.
      assert (v0 <= e <= ver (base c) /\ nth_error hs (e - v0) = Some o' /\ nth_error hp o' = Some x) as P.
      { destruct (Nat.eq_dec i j) as [->|Hne].
        - rewrite (nth_error_set_nth_eq _ _ _ _ Ht) in Hj. inversion Hj; subst. simpl in Hin. eapply OBS; eauto.
        - rewrite nth_error_set_nth_neq in Hj by auto. eapply OBS; eauto. }
      destruct P as [P1 [P2 P3]]. repeat split; auto; try lia. apply nth_error_app_keep; auto.
    + intros j tj btj Hj Hbj. destruct (Nat.eq_dec i j) as [->|Hne].
      * rewrite (nth_error_set_nth_eq _ _ _ _ Ht) in Hj. rewrite (nth_error_set_nth_eq _ _ _ _ Hn) in Hbj.
        inversion Hj; inversion Hbj; subst. unfold versions_of. simpl. rewrite Elog. simpl.
        apply (k_lock _ _ K j t bt Ht Hn).
      * rewrite nth_error_set_nth_neq in Hj by auto. rewrite nth_error_set_nth_neq in Hbj by auto. eapply (k_lock _ _ K); eauto.
    + intros j tj Hj. destruct (Nat.eq_dec i j) as [->|Hne].
      * rewrite (nth_error_set_nth_eq _ _ _ _ Ht) in Hj. inversion Hj; subst. simpl. auto.
      * rewrite nth_error_set_nth_neq in Hj by auto. eapply (k_noip _ _ K); eauto.
  - (* SInstall: the pointer is swapped; the version of the lock model moves with it *)
    assert (VAL : match sloc t with Some o' => o' | None => ins end < length hp).
    { destruct (sloc t) as [o'|] eqn:El; auto. eapply LOC; eauto. }
    assert (LH : length hs = S (ver (base c) - v0)) by lia.
    constructor; simpl; auto.
    + intros j tj o' Hj Hl. destruct (Nat.eq_dec i j) as [->|Hne].
      * rewrite (nth_error_set_nth_eq _ _ _ _ Ht) in Hj. inversion Hj; subst. simpl in Hl. eapply LOC; eauto.
      * rewrite nth_error_set_nth_neq in Hj by auto. eapply LOC; eauto.
    + rewrite app_length. simpl. lia.
    + replace (S (ver (base c)) - v0) with (length hs) by lia.
      rewrite nth_error_app2 by lia. rewrite Nat.sub_diag. reflexivity.
    + intros j tj e o' x Hj Hin.
      assert (v0 <= e <= ver (base c) /\ nth_error hs (e - v0) = Some o' /\ nth_error hp o' = Some x) as P.
      { destruct (Nat.eq_dec i j) as [->|Hne].
        - rewrite (nth_error_set_nth_eq _ _ _ _ Ht) in Hj. inversion Hj; subst. simpl in Hin. eapply OBS; eauto.
        - rewrite nth_error_set_nth_neq in Hj by auto. eapply OBS; eauto. }
      destruct P as [P1 [P2 P3]]. repeat split; auto; try lia. apply nth_error_app_keep; auto.
    + intros j tj btj Hj Hbj. destruct (Nat.eq_dec i j) as [->|Hne].
      * rewrite (nth_error_set_nth_eq _ _ _ _ Ht) in Hj. rewrite (nth_error_set_nth_eq _ _ _ _ Hn) in Hbj.
        inversion Hj; inversion Hbj; subst. unfold versions_of. simpl. rewrite Elog. simpl.
        apply (k_lock _ _ K j t bt Ht Hn).
      * rewrite nth_error_set_nth_neq in Hj by auto. rewrite nth_error_set_nth_neq in Hbj by auto. eapply (k_lock _ _ K); eauto.
    + intros j tj Hj. destruct (Nat.eq_dec i j) as [->|Hne].
      * rewrite (nth_error_set_nth_eq _ _ _ _ Ht) in Hj. inversion Hj; subst. simpl. auto.
      * rewrite nth_error_set_nth_neq in Hj by auto. eapply (k_noip _ _ K); eauto.
  - (* SWrite: only the file changes *)
    constructor; simpl; auto.
    + intros j tj o' Hj Hl. destruct (Nat.eq_dec i j) as [->|Hne].
      * rewrite (nth_error_set_nth_eq _ _ _ _ Ht) in Hj. inversion Hj; subst. simpl in Hl. eapply LOC; eauto.
      * rewrite nth_error_set_nth_neq in Hj by auto. eapply LOC; eauto.
    + intros j tj e o' x Hj Hin. destruct (Nat.eq_dec i j) as [->|Hne].
      * rewrite (nth_error_set_nth_eq _ _ _ _ Ht) in Hj. inversion Hj; subst. simpl in Hin. eapply OBS; eauto.
      * rewrite nth_error_set_nth_neq in Hj by auto. eapply OBS; eauto.
    + intros j tj btj Hj Hbj. destruct (Nat.eq_dec i j) as [->|Hne].
      * rewrite (nth_error_set_nth_eq _ _ _ _ Ht) in Hj. rewrite (nth_error_set_nth_eq _ _ _ _ Hn) in Hbj.
        inversion Hj; inversion Hbj; subst. unfold versions_of. simpl. rewrite Elog. simpl.
        apply (k_lock _ _ K j t bt Ht Hn).
      * rewrite nth_error_set_nth_neq in Hj by auto. rewrite nth_error_set_nth_neq in Hbj by auto. eapply (k_lock _ _ K); eauto.
    + intros j tj Hj. destruct (Nat.eq_dec i j) as [->|Hne].
      * rewrite (nth_error_set_nth_eq _ _ _ _ Ht) in Hj. inversion Hj; subst. simpl. auto.
      * rewrite nth_error_set_nth_neq in Hj by auto. eapply (k_noip _ _ K); eauto.
Qed.

Lemma InvK_init : forall v p0 x0 tr, forallb no_inplace tr = true -> InvK v (sinit v p0 x0 tr).
Proof.
  intros v p0 x0 tr N. constructor; simpl; auto.
  - intros i t o Hi Hl. rewrite nth_error_map in Hi. destruct (nth_error tr i); try discriminate.
    inversion Hi; subst. discriminate.
  - rewrite Nat.sub_diag. reflexivity.
  - intros i t e o x Hi Hin. rewrite nth_error_map in Hi. destruct (nth_error tr i); try discriminate.
    inversion Hi; subst. destruct Hin.
  - intros i t bt Hi Hb. rewrite !nth_error_map in *. destruct (nth_error tr i); try discriminate.
    simpl in *. inversion Hi; inversion Hb; subst. reflexivity.
  - intros i t Hi. rewrite nth_error_map in Hi. destruct (nth_error tr i) as [l|] eqn:E; try discriminate.
    inversion Hi; subst. simpl. rewrite forallb_forall in N. apply N. eapply nth_error_In; eauto.
Qed.

Lemma InvK_reach : forall v p0 x0 tr c, forallb no_inplace tr = true -> sreach (sinit v p0 x0 tr) c ->
  Sync c /\ InvK v c.
Proof.
  intros v p0 x0 tr c N R. remember (sinit v p0 x0 tr) as c0. induction R.
  - subst. split; [apply Sync_init | apply InvK_init; auto].
  - destruct (IHR Heqc0) as [S K]. split; [eapply Sync_step; eauto | eapply InvK_step; eauto].
Qed.

(* Every selection of a thread that takes the read lock at most once read the SAME object and found
   the SAME contents in it: one subnet set, in full - provided no reload refreshes objects in place. *)
Lemma one_set_in_full : forall v p0 x0 tr c j l0 t,
  swf tr = true -> forallb no_inplace tr = true ->
  sreach (sinit v p0 x0 tr) c ->
  nth_error tr j = Some l0 -> count_rlock (map erase l0) <= 1 ->
  nth_error (sthreads c) j = Some t ->
  exists o x, nth_error (heap (st c)) o = Some x /\
              forall ob, In ob (slog t) -> snd (fst ob) = o /\ snd ob = x.
Proof.
  intros v p0 x0 tr c j l0 t W N R Hl Hc Ht.
  destruct (InvK_reach _ _ _ _ _ N R) as [[SL SS] K].
  assert (j < length (threads (base c))) as Hj by (rewrite <- SL; apply nth_error_Some; congruence).
  destruct (nth_error_lt_some _ _ Hj) as [bt Hbt].
  assert (W' : forallb wf (map (map erase) tr) = true).
  { unfold swf in W. rewrite forallb_forall in *. intros l Hin. apply in_map_iff in Hin.
    destruct Hin as [l1 [<- H1]]. apply W; auto. }
  assert (Hl' : nth_error (map (map erase) tr) j = Some (map erase l0)) by (rewrite nth_error_map, Hl; reflexivity).
  destruct (one_section_one_selector v _ (base c) j _ bt W' (sreach_base _ _ R) Hl' Hc Hbt) as [u [_ Hu]].
  pose proof (k_lock _ _ K j t bt Ht Hbt) as EL.
  destruct (slog t) as [|[[e0 o0] x0'] rest] eqn:Es.
  - exists (inst (st c)), (nth (inst (st c)) (heap (st c)) 0). split.
    + apply nth_nth_error. apply (k_inst _ _ K).
    + intros ob [].
  - assert (OB : forall e o x, In (e, o, x) (slog t) -> e = u).
    { intros e o x Hin. apply Hu. rewrite <- EL. unfold versions_of.
      exact (in_map (fun ob : sobs => fst (fst ob)) (slog t) (e, o, x) Hin). }
    destruct (k_obs _ _ K j t e0 o0 x0' Ht) as [_ [H1 H2]]; [rewrite Es; left; reflexivity|].
    assert (e0 = u) by (eapply OB; rewrite Es; left; reflexivity). subst e0.
    exists o0, x0'. split; auto.
    intros [[e o] x] Hin. rewrite <- Es in Hin.
    pose proof (OB _ _ _ Hin). subst e.
    destruct (k_obs _ _ K j t u o x Ht Hin) as [_ [H3 H4]]. simpl.
    rewrite H1 in H3. inversion H3; subst o. rewrite H2 in H4. inversion H4; auto.
Qed.

(* ---------- provenance: the contents of every object are one whole file generation ---------- *)
Definition pool (x0 : nat) (tr : list (list sop)) : list nat := x0 :: 0 :: concat (map written tr).

Record InvP (V : list nat) (c : scfg) : Prop := {
  p_heap  : forall x, In x (heap (st c)) -> In x V;
  p_files : forall p x, alookup p (files (st c)) = Some x -> In x V;
  p_todo  : forall i t x, nth_error (sthreads c) i = Some t -> In x (written (stodo t)) -> In x V;
  p_zero  : In 0 V
}.

Lemma In_set_nth {A} : forall (l : list A) i x y, In y (set_nth i x l) -> y = x \/ In y l.
Proof.
  induction l; destruct i; simpl; intros; auto.
  - destruct H; auto.
  - destruct H; auto. destruct (IHl _ _ _ H); auto.
Qed.

Lemma file_at_pool : forall V c p, InvP V c -> In (file_at (st c) p) V.
Proof.
  intros V c p P. unfold file_at. destruct (alookup p (files (st c))) eqn:E.
  - eapply p_files; eauto.
  - apply (p_zero _ _ P).
Qed.

Lemma written_tail : forall o l x, In x (written l) -> In x (written (o :: l)).
Proof. intros o l x H. destruct o; simpl; auto. Qed.

Lemma InvP_step : forall V c i c', InvP V c -> sstep c i = Some c' -> InvP V c'.
Proof.
  intros V c i c' P H. destruct (sstep_inv _ _ _ H) as [t [o [rest [b' [Ht [Eo [_ ->]]]]]]].
  assert (FA : forall p, In (file_at (st c) p) V) by (intro; apply file_at_pool; auto).
  assert (TD : forall s' l' j tj x, nth_error (set_nth i (mkST rest s' l') (sthreads c)) j = Some tj ->
                In x (written (stodo tj)) -> In x V).
  { intros s' l' j tj x Hj Hin. destruct (Nat.eq_dec i j) as [->|Hne].
    - rewrite (nth_error_set_nth_eq _ _ _ _ Ht) in Hj. inversion Hj; subst. simpl in Hin.
      eapply (p_todo _ _ P j t); eauto. rewrite Eo. apply written_tail. auto.
    - rewrite nth_error_set_nth_neq in Hj by auto. eapply (p_todo _ _ P); eauto. }
  destruct o; simpl; try (constructor; simpl; [apply (p_heap _ _ P) | apply (p_files _ _ P) | apply TD | apply (p_zero _ _ P)]).
  - (* SLoad *)
    constructor; simpl; [| apply (p_files _ _ P) | apply TD | apply (p_zero _ _ P)].
    intros x Hin. apply in_app_or in Hin. destruct Hin as [Hin|[<-|[]]]; [apply (p_heap _ _ P); auto | apply FA; auto].
  - (* SLoadInPlace *)
    destruct (alookup path (cache (st c))) as [o'|]; simpl.
    + constructor; simpl; [| apply (p_files _ _ P) | apply TD | apply (p_zero _ _ P)].
      intros x Hin. apply In_set_nth in Hin. destruct Hin as [->|Hin]; [apply FA; auto | apply (p_heap _ _ P); auto].
    + constructor; simpl; [| apply (p_files _ _ P) | apply TD | apply (p_zero _ _ P)].
      intros x Hin. apply in_app_or in Hin. destruct Hin as [Hin|[<-|[]]]; [apply (p_heap _ _ P); auto | apply FA; auto].
  - (* SWrite *)
    constructor; simpl; [apply (p_heap _ _ P) | | apply TD | apply (p_zero _ _ P)].
    intros p x Hl. destruct (Nat.eqb path p).
    + inversion Hl; subst. eapply (p_todo _ _ P i t); eauto. rewrite Eo. simpl. auto.
    + eapply (p_files _ _ P); eauto.
Qed.

Lemma InvP_init : forall v p0 x0 tr, InvP (pool x0 tr) (sinit v p0 x0 tr).
Proof.
  intros. unfold pool. constructor; simpl.
  - intros x [<-|[]]. auto.
  - intros p x H. destruct (Nat.eqb p0 p); try discriminate. inversion H; subst. auto.
  - intros i t x Hi Hin. rewrite nth_error_map in Hi. destruct (nth_error tr i) as [l|] eqn:E; try discriminate.
    inversion Hi; subst. simpl in Hin. right. right. apply in_concat. exists (written l). split; auto.
    apply in_map. eapply nth_error_In; eauto.
  - auto.
Qed.

Lemma InvP_reach : forall v p0 x0 tr c, sreach (sinit v p0 x0 tr) c -> InvP (pool x0 tr) c.
Proof.
  intros v p0 x0 tr c R. remember (sinit v p0 x0 tr) as c0. induction R.
  - subst. apply InvP_init.
  - eapply InvP_step; eauto.
Qed.

(* whatever a selection finds in an object is the set of the initial file or one the operator wrote *)
Lemma observed_sets_are_file_generations : forall v p0 x0 tr c j t ob,
  forallb no_inplace tr = true -> sreach (sinit v p0 x0 tr) c ->
  nth_error (sthreads c) j = Some t -> In ob (slog t) -> In (snd ob) (pool x0 tr).
Proof.
  intros v p0 x0 tr c j t [[e o] x] N R Ht Hin.
  destruct (InvK_reach _ _ _ _ _ N R) as [_ K].
  destruct (k_obs _ _ K j t e o x Ht Hin) as [_ [_ H]]. simpl.
  apply (p_heap _ _ (InvP_reach _ _ _ _ _ R)). eapply nth_error_In; eauto.
Qed.

(* ---------- the traces of the code ---------- *)
Lemma erase_lift : forall o, erase (lift o) = o.
Proof. destruct o; reflexivity. Qed.

Lemma erase_sreq : forall k, map erase (sreq k) = trace_of_req k.
Proof. intros. unfold sreq. rewrite map_map. rewrite <- (map_id (trace_of_req k)) at 2. apply map_ext. apply erase_lift. Qed.

Lemma wf_taus : forall l, (forall o, In o l -> o = OTau) -> wf_from LNone l = true.
Proof.
  induction l; simpl; auto. intros H. rewrite (H a) by auto. apply IHl. intros; apply H; auto.
Qed.

Lemma swriter_erase : forall ws o, In o (map erase (swriter ws)) -> o = OTau.
Proof.
  intros ws o H. unfold swriter in H. rewrite map_map in H. apply in_map_iff in H.
  destruct H as [pv [<- _]]. reflexivity.
Qed.

Lemma scode_swf : forall reqs paths f writers, swf (scode_traces reqs paths f writers) = true.
Proof.
  intros. unfold swf, scode_traces. rewrite !forallb_app, !andb_true_iff. repeat split.
  - apply forallb_forall. intros l H. apply in_map_iff in H. destruct H as [k [<- _]].
    rewrite erase_sreq. apply trace_of_req_wf.
  - apply forallb_forall. intros l H. apply in_map_iff in H. destruct H as [p [<- _]]. reflexivity.
  - apply forallb_forall. intros l H. apply repeat_spec in H. subst. reflexivity.
  - apply forallb_forall. intros l H. apply in_map_iff in H. destruct H as [ws [<- _]].
    apply wf_taus. apply swriter_erase.
Qed.

Lemma lift_not_inplace : forall l, no_inplace (map lift l) = true.
Proof.
  unfold no_inplace. induction l as [|o r IH]; simpl; auto.
  apply Bool.negb_true_iff. apply Bool.negb_true_iff in IH.
  destruct o; simpl; auto.
Qed.

Lemma swriter_not_inplace : forall ws, no_inplace (swriter ws) = true.
Proof.
  unfold no_inplace, swriter. induction ws as [|pv r IH]; simpl; auto.
Qed.

Lemma scode_no_inplace : forall reqs paths f writers, forallb no_inplace (scode_traces reqs paths f writers) = true.
Proof.
  intros. unfold scode_traces. rewrite !forallb_app, !andb_true_iff. repeat split.
  - apply forallb_forall. intros l H. apply in_map_iff in H. destruct H as [k [<- _]]. apply lift_not_inplace.
  - apply forallb_forall. intros l H. apply in_map_iff in H. destruct H as [p [<- _]]. reflexivity.
  - apply forallb_forall. intros l H. apply repeat_spec in H. subst. reflexivity.
  - apply forallb_forall. intros l H. apply in_map_iff in H. destruct H as [ws [<- _]]. apply swriter_not_inplace.
Qed.

Lemma scode_deadlock_free : forall v p0 x0 reqs paths f writers c,
  sreach (sinit v p0 x0 (scode_traces reqs paths f writers)) c ->
  all_done (base c) = true \/ exists i c', sstep c i = Some c'.
Proof. intros. eapply s_deadlock_free; eauto. apply scode_swf. Qed.

Lemma scode_request_one_set : forall v p0 x0 reqs paths f writers c j t,
  sreach (sinit v p0 x0 (scode_traces reqs paths f writers)) c -> j < length reqs ->
  nth_error (sthreads c) j = Some t ->
  exists o x, nth_error (heap (st c)) o = Some x /\ In x (pool x0 (scode_traces reqs paths f writers)) /\
              forall ob, In ob (slog t) -> snd (fst ob) = o /\ snd ob = x.
Proof.
  intros v p0 x0 reqs paths f writers c j t R Hj Ht.
  destruct (nth_error_lt_some reqs j Hj) as [k Hk].
  assert (Hl : nth_error (scode_traces reqs paths f writers) j = Some (sreq k)).
  { unfold scode_traces. rewrite nth_error_app1 by (rewrite map_length; auto). rewrite nth_error_map, Hk. reflexivity. }
  destruct (one_set_in_full v p0 x0 _ c j (sreq k) t (scode_swf _ _ _ _) (scode_no_inplace _ _ _ _) R Hl) as [o [x [H1 H2]]]; auto.
  { rewrite erase_sreq, trace_of_req_one_rlock. auto. }
  exists o, x. split; auto. split; auto.
  apply (p_heap _ _ (InvP_reach _ _ _ _ _ R)). eapply nth_error_In; eauto.
Qed.
