(* C13 model, part 2: the phantom selector as a shared OBJECT.
   Definitions only; executable.

   Model.v counts selector versions.  Here the selector is what it is in the code: a pointer
   (RegProcessor.ipSelector) to an object on the heap (a phantoms.PhantomIPSelector) whose
   contents were parsed from the subnets file.  A request reads the pointer and then the object's
   contents at each address selection; a reload

       phantoms.GetPhantomSubnetSelector()      SLoad p        parse the file at path p into a FRESH object
       selectorMutex.Lock()                     SAnnounce ; SEnter
       p.ipSelector = loaded                    SInstall       swap the pointer
       selectorMutex.Unlock()                   SUnlock

   and the operator rewrites the file (SWrite).  The variant SLoadInPlace keeps one object per
   path and refreshes it in place when the file is read again; it is NOT what the code does and is
   here to show that the theorem `one set in full` depends on the reload building a fresh object
   (ExamplesS.inplace_refresh_mixes).

   Every s-operation erases to an operation of Model.v; a step of this model is a step of the lock
   model plus an effect on the store, so every schedule of this model is a schedule of Model.v. *)
From CJ Require Export Common.Base C13.Model.
Local Open Scope nat_scope.

Inductive sop :=
| SRLock | SRUnlock | SAnnounce | SEnter | SUnlock | STau
| SSel (v6 : bool)              (* read p.ipSelector, select from the object's contents *)
| SLoad (path : nat)
| SLoadInPlace (path : nat)
| SInstall
| SWrite (path : nat) (v : nat). (* the operator replaces the file at `path` by subnet set v *)

Definition erase (s : sop) : op :=
  match s with
  | SRLock => ORLock | SRUnlock => ORUnlock | SAnnounce => OAnnounce | SEnter => OEnter
  | SUnlock => OUnlock | STau => OTau
  | SSel b => OSel b
  | SLoad _ | SLoadInPlace _ | SWrite _ _ => OTau
  | SInstall => OSwap
  end.

Fixpoint alookup (k : nat) (l : list (nat * nat)) : option nat :=
  match l with
  | [] => None
  | (a, b) :: r => if Nat.eqb a k then Some b else alookup k r
  end.

Record store := mkS {
  files : list (nat * nat);    (* path -> subnet set in the file (newest binding first); no file: set 0 *)
  heap  : list nat;            (* selector objects: object id -> contents (the subnet set it was parsed from) *)
  inst  : nat;                 (* p.ipSelector: the installed object *)
  cache : list (nat * nat);    (* in-place variant only: path -> object *)
  hist  : list nat             (* ghost: the pointers installed so far, oldest first *)
}.

Definition file_at (s : store) (p : nat) : nat := match alookup p (files s) with Some v => v | None => 0 end.

(* one observation of a selection: (selector version of Model.v, object read, contents read) *)
Definition sobs := (nat * nat * nat)%type.

Record sthread := mkST {
  stodo : list sop;
  sloc  : option nat;          (* the reload's local variable: the object it loaded *)
  slog  : list sobs            (* newest first *)
}.

Record scfg := mkSC { base : cfg; st : store; sthreads : list sthread }.

(* effect of one s-operation on the store and on the thread's local state; `v` is the version of
   the lock model before the step *)
Definition effect (s : store) (v : nat) (o : sop) (loc : option nat) (lg : list sobs)
  : store * option nat * list sobs :=
  match o with
  | SSel _ => (s, loc, (v, inst s, nth (inst s) (heap s) 0) :: lg)
  | SLoad p => (mkS (files s) (heap s ++ [file_at s p]) (inst s) (cache s) (hist s), Some (length (heap s)), lg)
  | SLoadInPlace p =>
    match alookup p (cache s) with
    | Some o' => (mkS (files s) (set_nth o' (file_at s p) (heap s)) (inst s) (cache s) (hist s), Some o', lg)
    | None => (mkS (files s) (heap s ++ [file_at s p]) (inst s) ((p, length (heap s)) :: cache s) (hist s),
               Some (length (heap s)), lg)
    end
  | SInstall =>
    let i' := match loc with Some o' => o' | None => inst s end in
    (mkS (files s) (heap s) i' (cache s) (hist s ++ [i']), loc, lg)
  | SWrite p x => (mkS ((p, x) :: files s) (heap s) (inst s) (cache s) (hist s), loc, lg)
  | _ => (s, loc, lg)
  end.

Definition sstep (c : scfg) (i : nat) : option scfg :=
  match nth_error (sthreads c) i with
  | Some t =>
    match stodo t with
    | [] => None
    | o :: rest =>
      match step (base c) i with
      | Some b' =>
        let '(s', loc', lg') := effect (st c) (ver (base c)) o (sloc t) (slog t) in
        Some (mkSC b' s' (set_nth i (mkST rest loc' lg') (sthreads c)))
      | None => None
      end
    end
  | None => None
  end.

Inductive sreach : scfg -> scfg -> Prop :=
| sr0 c : sreach c c
| sr1 c c' c'' i : sreach c c' -> sstep c' i = Some c'' -> sreach c c''.

Fixpoint srun (c : scfg) (s : list nat) : scfg :=
  match s with
  | [] => c
  | i :: r => match sstep c i with Some c' => srun c' r | None => srun c r end
  end.

Definition sfresh (l : list sop) : sthread := mkST l None [].

(* the registrar after start-up: object 0 holds the set parsed from the file at path p0 and is installed
   (and, for the in-place variant, cached under p0) *)
Definition init_store (p0 x0 : nat) : store := mkS [(p0, x0)] [x0] 0 [(p0, 0)] [0].

Definition sinit (v p0 x0 : nat) (traces : list (list sop)) : scfg :=
  mkSC (init_cfg v (map (map erase) traces)) (init_store p0 x0) (map sfresh traces).

Definition is_inplace (o : sop) : bool := match o with SLoadInPlace _ => true | _ => false end.
Definition no_inplace (l : list sop) : bool := negb (existsb is_inplace l).

(* ---- the traces of the code ---- *)
Definition lift (o : op) : sop :=
  match o with
  | ORLock => SRLock | ORUnlock => SRUnlock | OSel b => SSel b | OAnnounce => SAnnounce
  | OEnter => SEnter | OSwap => SInstall | OUnlock => SUnlock | OTau => STau
  end.

(* processBdReq: the lock trace of Model.v, the selections read the installed object *)
Definition sreq (k : reqkind) : list sop := map lift (trace_of_req k).
(* ReloadSubnets, reading the file at path p *)
Definition sreload (p : nat) : list sop := [SLoad p; SAnnounce; SEnter; SInstall; SUnlock].
(* the refuted variant: GetPhantomSubnetSelector refreshes the cached object of the path *)
Definition sreload_inplace (p : nat) : list sop := [SLoadInPlace p; SAnnounce; SEnter; SInstall; SUnlock].
(* a reload whose file does not parse *)
Definition sreload_fail : list sop := [STau].
(* the operator: a sequence of file replacements *)
Definition swriter (ws : list (nat * nat)) : list sop := map (fun pv => SWrite (fst pv) (snd pv)) ws.

Definition scode_traces (reqs : list reqkind) (paths : list nat) (f : nat) (writers : list (list (nat * nat))) : list (list sop) :=
  map sreq reqs ++ map sreload paths ++ repeat sreload_fail f ++ map swriter writers.

Definition contents_of (t : sthread) : list nat := map (fun o : sobs => snd o) (slog t).
Definition objects_of (t : sthread) : list nat := map (fun o : sobs => snd (fst o)) (slog t).
Definition versions_of (t : sthread) : list nat := map (fun o : sobs => fst (fst o)) (slog t).

(* the subnet sets that can ever be in a file: those in the initial files and those the operator writes *)
Fixpoint written (l : list sop) : list nat :=
  match l with
  | [] => []
  | SWrite _ x :: r => x :: written r
  | _ :: r => written r
  end.
