(* C13 proofs, part 2: every read section sees one selector version (old or new, in full),
   and every reload takes effect. *)
From CJ Require Import Common.Base C13.Model C13.Proofs.
From Coq Require Import Lia Arith PeanoNat.
Local Open Scope nat_scope.

Definition sec_const (v : nat) (s : list nat) : Prop := forall x, In x s -> x = v.

(* per-thread part of the version invariant, relative to the first version v0 and the current one vc *)
Definition TV (v0 vc : nat) (t : thread) : Prop :=
  (forall s, In s (tlog t) -> exists v, v0 <= v <= vc /\ sec_const v s) /\
  (1 <= rd t -> exists s r, tlog t = s :: r /\ sec_const vc s).

Definition InvV (v0 : nat) (c : cfg) : Prop :=
  v0 <= ver c /\ forall j t, nth_error (threads c) j = Some t -> TV v0 (ver c) t.

Lemma TV_mono : forall v0 vc vc' t, TV v0 vc t -> rd t = 0 -> vc <= vc' -> TV v0 vc' t.
Proof.
  intros v0 vc vc' t [A B] R L. split.
  - intros s Hs. destruct (A s Hs) as [v [Hv Hc]]. exists v. split; auto. lia.
  - intros. lia.
Qed.

Lemma tstep_V : forall v0 c i t t' r w v,
  thread_ok t -> wp t = wp_expected (ws c) i -> held_ok (ws c) (readers c) ->
  v0 <= ver c -> TV v0 (ver c) t ->
  tstep c i t = Some (t', r, w, v) ->
  ver c <= v /\ (v <> ver c -> readers c = 0) /\ TV v0 v t' /\
  length (tlog t') + count_rlock (todo t') = length (tlog t) + count_rlock (todo t).
Proof.
  intros v0 c i t t' r w v [p [Hp Hwf]] Hwp Hheld Hv0 [TA TB] H.
  unfold tstep in H. destruct (todo t) as [|o rest] eqn:E; [discriminate|].
  unfold lphase_of in Hp. unfold TV.
  destruct (rd t) as [|[|n]] eqn:Erd; destruct (wp t) eqn:Ewp; try discriminate; inv_some;
    destruct o; simpl in Hwf; try discriminate;
    destruct (ws c) as [|k|k] eqn:Ews; simpl in Hwp, Hheld; try discriminate;
    try (destruct (Nat.eqb i k) eqn:Eik; try discriminate);
    try (destruct (readers c) eqn:Erc; try discriminate);
    try inv_some; simpl;
    try (split; [lia|]; split; [intros; congruence|]; split; [|lia]; split;
         [intros s Hs; destruct (TA s Hs) as [u [Hu Hc]]; exists u; split; auto; lia | intros; lia]).
  all: try (destruct TB as [s0 [rr [El Hc]]]; [lia|]; rewrite El in *; simpl).
  all: split; [lia|]; split; [intros; congruence|]; split; [|lia]; split.
  all: unfold sec_const in *.
  all: try (intros _; do 2 eexists; split; [reflexivity|]; simpl; intros x Hx; intuition (subst; auto)).
  all: intros s' Hs';
       first [ apply TA; exact Hs'
             | destruct Hs' as [<-|Hs'];
               [ exists (ver c); split; [lia|]; simpl; intros x Hx; intuition (subst; auto)
               | apply TA; simpl; auto ] ].
Qed.

(* section bookkeeping: sections opened so far + RLocks still to come is constant per thread *)
Definition InvN (orig : list (list op)) (c : cfg) : Prop :=
  forall j t, nth_error (threads c) j = Some t ->
    exists l0, nth_error orig j = Some l0 /\ length (tlog t) + count_rlock (todo t) = count_rlock l0.

Lemma step_preserves_V : forall v0 orig c i c',
  Inv c -> InvV v0 c -> InvN orig c -> step c i = Some c' -> InvV v0 c' /\ InvN orig c'.
Proof.
  intros v0 orig c i c' I [V0 V] N H. apply step_spec in H.
  destruct H as [t [t' [r [w [v [Hn [Ht ->]]]]]]].
  destruct (inv_threads c I i t Hn) as [Hok Hwp].
  destruct (tstep_V v0 _ _ _ _ _ _ _ Hok Hwp (inv_held c I) V0 (V i t Hn) Ht) as [F1 [F2 [F3 F4]]].
  split.
  - split; simpl; [lia|]. intros j tj Hj. destruct (Nat.eq_dec i j) as [->|Hne].
    + rewrite (nth_error_set_nth_eq _ _ _ _ Hn) in Hj. inversion Hj; subst. auto.
    + rewrite nth_error_set_nth_neq in Hj by auto.
      destruct (Nat.eq_dec v (ver c)) as [->|Hv]; [eapply V; exact Hj|].
      pose proof (nth_le_sum rd _ _ _ Hj) as L. rewrite <- (inv_readers c I), (F2 Hv) in L.
      apply TV_mono with (vc := ver c); [eapply V; exact Hj | lia | exact F1].
  - intros j tj Hj. simpl in Hj. destruct (Nat.eq_dec i j) as [->|Hne].
    + rewrite (nth_error_set_nth_eq _ _ _ _ Hn) in Hj. inversion Hj; subst.
      destruct (N j t Hn) as [l0 [A B]]. exists l0. split; auto. lia.
    + rewrite nth_error_set_nth_neq in Hj by auto. apply N; auto.
Qed.

Lemma init_V : forall v tr, InvV v (init_cfg v tr) /\ InvN tr (init_cfg v tr).
Proof.
  intros v tr. split.
  - split; simpl; auto. intros j t Hj. rewrite nth_error_map in Hj.
    destruct (nth_error tr j); try discriminate. inversion Hj; subst. split; simpl.
    + intros s [].
    + intros; lia.
  - intros j t Hj. simpl in Hj. rewrite nth_error_map in Hj.
    destruct (nth_error tr j) as [l|] eqn:E; try discriminate. inversion Hj; subst.
    exists l. split; auto.
Qed.

Lemma reach_V : forall v tr c, forallb wf tr = true -> reach (init_cfg v tr) c ->
  Inv c /\ InvV v c /\ InvN tr c.
Proof.
  intros v tr c W R.
  assert (I0 : Inv (init_cfg v tr)) by (apply wf_init_Inv; exists v, tr; auto).
  remember (init_cfg v tr) as c0. induction R.
  - subst. destruct (init_V v tr). auto.
  - destruct (IHR Heqc0 I0) as [I [V N]].
    destruct (step_preserves_V _ _ _ _ _ I V N H). split; [|auto].
    eapply step_preserves_Inv; eauto.
Qed.

Lemma old_or_new_in_full : forall c0 c, wf_init c0 -> reach c0 c ->
  forall j t s, nth_error (threads c) j = Some t -> In s (tlog t) ->
    exists v, ver c0 <= v <= ver c /\ forall x, In x s -> x = v.
Proof.
  intros c0 c [v [tr [-> W]]] R j t s Hj Hs.
  destruct (reach_V _ _ _ W R) as [_ [[_ V] _]].
  destruct (V j t Hj) as [A _]. apply A; auto.
Qed.

(* a thread whose trace takes the read lock at most once sees a single selector *)
Lemma one_section_one_selector : forall v tr c j l0 t,
  forallb wf tr = true -> reach (init_cfg v tr) c ->
  nth_error tr j = Some l0 -> count_rlock l0 <= 1 ->
  nth_error (threads c) j = Some t ->
  exists u, v <= u <= ver c /\ forall x, In x (concat (tlog t)) -> x = u.
Proof.
  intros v tr c j l0 t W R Hl Hc Hj.
  destruct (reach_V _ _ _ W R) as [_ [[V0 V] N]].
  destruct (N j t Hj) as [l1 [A B]]. rewrite Hl in A. inversion A; subst l1.
  destruct (V j t Hj) as [TA _].
  destruct (tlog t) as [|s [|s2 rest]] eqn:E.
  - exists v. simpl. split; [lia|]. intros x [].
  - destruct (TA s) as [u [Hu Hs]]; [left; auto|]. exists u. split; auto.
    simpl. intros x Hx. rewrite app_nil_r in Hx. auto.
  - simpl in B. lia.
Qed.

(* ---------- every reload takes effect ---------- *)
Fixpoint count_swap (l : list op) : nat :=
  match l with
  | [] => 0
  | OSwap :: r => S (count_swap r)
  | _ :: r => count_swap r
  end.
Definition swaps_left (c : cfg) : nat := list_sum (map (fun t => count_swap (todo t)) (threads c)).

Lemma step_swaps : forall c i c', step c i = Some c' -> ver c' + swaps_left c' = ver c + swaps_left c.
Proof.
  intros c i c' H. apply step_spec in H.
  destruct H as [t [t' [r [w [v [Hn [Ht ->]]]]]]]. unfold swaps_left; simpl.
  pose proof (sum_set_nth (fun t => count_swap (todo t)) (threads c) i t' t Hn) as S1.
  cbv beta in S1.
  unfold tstep in Ht. destruct (todo t) as [|o rest]; try discriminate.
  destruct o;
    repeat match goal with
           | H : match ?x with _ => _ end = Some _ |- _ => destruct x; try discriminate
           end; inv_some; simpl in *; lia.
Qed.

Lemma reach_swaps : forall c0 c, reach c0 c -> ver c + swaps_left c = ver c0 + swaps_left c0.
Proof. induction 1; auto. apply step_swaps in H0. lia. Qed.

Lemma all_done_no_swaps : forall c, all_done c = true -> swaps_left c = 0.
Proof.
  unfold all_done, swaps_left. intros c. induction (threads c); simpl; auto.
  intros H. apply andb_true_iff in H. destruct H as [A B]. rewrite IHl; auto.
  unfold thread_done in A. destruct (todo a); try discriminate. reflexivity.
Qed.

(* ---------- the traces of the code ---------- *)
Lemma trace_of_req_wf : forall k, wf (trace_of_req k) = true.
Proof. intros [[] [] [] []]; reflexivity. Qed.

Lemma trace_of_req_one_rlock : forall k, count_rlock (trace_of_req k) = 1.
Proof. intros [[] [] [] []]; reflexivity. Qed.

Lemma reload_trace_wf : wf reload_trace = true.
Proof. reflexivity. Qed.

Lemma code_traces_wf : forall reqs m f, forallb wf (code_traces reqs m f) = true.
Proof.
  intros. unfold code_traces. rewrite !forallb_app. rewrite !andb_true_iff. repeat split.
  - induction reqs; simpl; auto. rewrite trace_of_req_wf. auto.
  - induction m; simpl; auto.
  - induction f; simpl; auto.
Qed.

Lemma code_wf_init : forall v reqs m f, wf_init (code_cfg v reqs m f).
Proof. intros. exists v, (code_traces reqs m f). split; auto. apply code_traces_wf. Qed.

Lemma code_deadlock_free : forall v reqs m f c, reach (code_cfg v reqs m f) c ->
  all_done c = true \/ exists i c', step c i = Some c'.
Proof. intros. eapply wf_trace_deadlock_free; eauto. apply code_wf_init. Qed.

Lemma code_request_one_selector : forall v reqs m f c j t,
  reach (code_cfg v reqs m f) c -> j < length reqs -> nth_error (threads c) j = Some t ->
  exists u, v <= u <= ver c /\ forall x, In x (concat (tlog t)) -> x = u.
Proof.
  intros v reqs m f c j t R Hj Ht.
  destruct (nth_error_lt_some reqs j Hj) as [k Hk].
  eapply one_section_one_selector with (l0 := trace_of_req k); eauto.
  - apply code_traces_wf.
  - unfold code_traces. rewrite nth_error_app1 by (rewrite map_length; auto). rewrite nth_error_map, Hk. reflexivity.
  - rewrite trace_of_req_one_rlock. auto.
Qed.

Lemma count_swap_reqs : forall reqs, list_sum (map (fun t => count_swap (todo t)) (map fresh (map trace_of_req reqs))) = 0.
Proof. induction reqs as [|[[] [] [] []] r]; simpl; auto. Qed.

Lemma code_reloads_take_effect : forall v reqs m f c,
  reach (code_cfg v reqs m f) c -> all_done c = true -> ver c = v + m.
Proof.
  intros v reqs m f c R D. pose proof (reach_swaps _ _ R) as S1.
  rewrite (all_done_no_swaps _ D) in S1. simpl in S1.
  unfold swaps_left, code_cfg, init_cfg, code_traces in S1. simpl in S1.
  rewrite !map_app, !list_sum_app, count_swap_reqs in S1.
  assert (list_sum (map (fun t => count_swap (todo t)) (map fresh (repeat reload_trace m))) = m) as E.
  { clear. induction m; simpl; auto. }
  assert (list_sum (map (fun t => count_swap (todo t)) (map fresh (repeat reload_fail_trace f))) = 0) as E0.
  { clear. induction f; simpl; auto. }
  rewrite E, E0 in S1. lia.
Qed.
