(* C13 examples for the reload sequence of main.go: the swapped order fails, the hypotheses are needed
   and satisfiable. *)
From CJ Require Import Common.Base C13.ModelR C13.ProofsR.
Local Open Scope nat_scope.

Lemma yrun_yreach : forall s y, yreach y (yrun y s).
Proof.
  induction s as [|a r IH]; intros y; simpl; [constructor|].
  destruct (ystep y a) as [y'|] eqn:E; [|apply IH].
  assert (G : forall a b, yreach a b -> forall z, yreach z a -> yreach z b).
  { induction 1; auto. intros z Hz. eapply yr1; [apply IHyreach; exact Hz | exact H0]. }
  eapply G; [apply IH|]. eapply yr1; [constructor | exact E].
Qed.

(* the registrar serves generation 1; the operator publishes ClientConf generation 2 together with a
   subnets file that keeps generation 1 and adds generation 2 *)
Definition s1 : rstate := mkR 1 [1] 1 1.
Definition pub2 : pub := mkP (Some 2) 2 [1; 2] true.

Lemma pub2_meets_the_hypothesis : chain_ok (r_gens s1) [pub2] = true /\ mem (r_api s1) (r_gens s1) = true.
Proof. split; reflexivity. Qed.

(* swapped order (front ends first, subnets last): a generation-1 client that arrives after
   NewClientConf and before ReloadSubnets is moved to generation 2 and is not answered *)
Definition y_swapped : sys := yrun (yinit s1 swapped_order [pub2] [(false, 1)]) [0; 0; 1; 1].

Lemma swapped_order_fails :
  yreach (yinit s1 swapped_order [pub2] [(false, 1)]) y_swapped /\
  map q_phase (y_reqs y_swapped) = [QDone false 1 2 (Some 2)] /\
  mem (r_api (y_st y_swapped)) (r_gens (y_st y_swapped)) = false /\
  handler_ok (r_gens s1) None (hprog swapped_order [pub2]) = false.
Proof. split; [apply yrun_yreach|]. vm_compute. repeat split; reflexivity. Qed.

(* hence the statement of pinned_order_safe is false for the swapped order *)
Lemma swapped_order_refuted :
  ~ (forall s pubs reqs y, mem (r_api s) (r_gens s) = true -> chain_ok (r_gens s) pubs = true ->
       yreach (yinit s swapped_order pubs reqs) y ->
       forall i q ok set g' cc, nth_error (y_reqs y) i = Some q -> q_phase q = QDone ok set g' cc ->
         (mem (q_gen q) (r_gens s) = true \/ (q_dns q = false /\ cc <> None)) -> ok = true).
Proof.
  intros H.
  assert (false = true); [|discriminate].
  eapply (H s1 [pub2] [(false, 1)] y_swapped eq_refl eq_refl (yrun_yreach _ _) 0 _ false 1 2 (Some 2)); try reflexivity.
  left. reflexivity.
Qed.

(* the pinned order, every position of the same request among the handler's four steps: answered,
   from the old set (generation 1) or from the new one (generation 1 or moved to 2) *)
Definition pinned_runs : list (list nat) :=
  [[1;1;0;0;0;0]; [0;1;1;0;0;0]; [0;0;1;1;0;0]; [0;0;0;1;1;0]; [0;0;0;0;1;1];
   [1;0;1;0;0;0]; [1;0;0;1;0;0]; [1;0;0;0;1;0]; [1;0;0;0;0;1]; [0;1;0;1;0;0]; [0;1;0;0;0;1]; [0;0;1;0;0;1]; [0;0;0;1;0;1]].

Lemma pinned_order_all_positions :
  map (fun sch => map q_phase (y_reqs (yrun (yinit s1 pinned_order [pub2] [(false, 1)]) sch))) pinned_runs =
  [ [QDone true 1 1 None]; [QDone true 1 1 None]; [QDone true 2 1 None]; [QDone true 2 2 (Some 2)]; [QDone true 2 2 (Some 2)];
    [QDone true 1 1 None]; [QDone true 2 1 None]; [QDone true 2 1 None]; [QDone true 2 1 None];
    [QDone true 2 1 None]; [QDone true 2 1 None]; [QDone true 2 1 None]; [QDone true 2 2 (Some 2)] ].
Proof. vm_compute. reflexivity. Qed.

(* the publication hypothesis is needed: a subnets file that DROPS generation 1 makes a request that
   was accepted for generation 1 fail when the swap lands between its two steps - with the pinned
   order too (the front end's decision and the selection are not atomic) *)
Definition pub_drop : pub := mkP (Some 2) 2 [2] true.
Lemma cumulative_files_needed :
  chain_ok (r_gens s1) [pub_drop] = false /\
  map q_phase (y_reqs (yrun (yinit s1 pinned_order [pub_drop] [(false, 1)]) [1; 0; 0; 1])) = [QDone false 2 1 None].
Proof. vm_compute. split; reflexivity. Qed.

(* a reload whose subnets file does not load: the handler aborts, nothing changes, every position of a
   request among the handler's steps is answered from the old set - no hypothesis on the failing publication *)
Definition pub_broken : pub := mkP (Some 2) 2 [1; 2] false.
Lemma failed_reload_changes_nothing :
  chain_ok (r_gens s1) [pub_broken] = true /\
  map (fun sch => let y := yrun (yinit s1 pinned_order [pub_broken] [(false, 1); (false, 0)]) sch in (y_st y, map q_phase (y_reqs y)))
      [[0; 0; 0; 0; 1; 1; 2; 2]; [1; 2; 0; 0; 0; 0; 1; 2]; [0; 0; 1; 2; 0; 0; 1; 2]] =
  [ (s1, [QDone true 1 1 None; QDone true 1 1 (Some 1)]); (s1, [QDone true 1 1 None; QDone true 1 1 (Some 1)]);
    (s1, [QDone true 1 1 None; QDone true 1 1 (Some 1)]) ].
Proof. vm_compute. split; reflexivity. Qed.

(* "log the failure and carry on" (main.go before the fix): the new ClientConf is handed to the front ends
   although the old set is still installed; from then on every outdated API client is moved to a
   generation the installed set lacks *)
Definition y_noabort : sys := yrun (yinit s1 noabort_order [pub_broken] [(false, 1)]) [0; 0; 0; 0; 1; 1].
Lemma continue_past_failure_fails :
  yreach (yinit s1 noabort_order [pub_broken] [(false, 1)]) y_noabort /\
  y_todo y_noabort = [] /\
  map q_phase (y_reqs y_noabort) = [QDone false 1 2 (Some 2)] /\
  mem (r_api (y_st y_noabort)) (r_gens (y_st y_noabort)) = false /\
  handler_ok (r_gens s1) None (hprog noabort_order [pub_broken]) = false.
Proof. split; [apply yrun_yreach|]. vm_compute. repeat split; reflexivity. Qed.

Lemma noabort_order_refuted :
  ~ (forall s pubs reqs y, mem (r_api s) (r_gens s) = true -> chain_ok (r_gens s) pubs = true ->
       yreach (yinit s noabort_order pubs reqs) y ->
       mem (r_api (y_st y)) (r_gens (y_st y)) = true).
Proof.
  intros H.
  assert (false = true); [|discriminate].
  exact (H s1 [pub_broken] [(false, 1)] y_noabort eq_refl eq_refl (yrun_yreach _ _)).
Qed.

(* four reloads (a new generation, an unparsable ClientConf, a new generation whose subnets file does not load, a subnets-only change), API and DNS
   requests of old, current and unknown generations: a run in which everything that counts is answered *)
Definition pubs3 : list pub := [pub2; mkP None 9 [9] true; mkP (Some 7) 8 [7] false; mkP (Some 2) 3 [1; 2] true].
Lemma three_reloads_hypothesis : chain_ok (r_gens s1) pubs3 = true.
Proof. reflexivity. Qed.
Definition y3 : sys :=
  yrun (yinit s1 pinned_order pubs3 [(false, 0); (false, 1); (true, 1); (false, 5)])
       [1; 0; 0; 2; 1; 0; 0; 3; 0; 0; 0; 0; 4; 0; 0; 0; 0; 2; 3; 0; 0; 0; 0; 4].
Lemma three_reloads_run :
  y_todo y3 = [] /\ y_st y3 = mkR 3 [1; 2] 2 2 /\
  map q_phase (y_reqs y3) = [QDone true 2 1 (Some 1); QDone true 2 1 None; QDone true 2 1 (Some 2); QDone false 3 5 None].
Proof. vm_compute. repeat split; reflexivity. Qed.
