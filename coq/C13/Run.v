(* C13: evaluation of the model on recorded cases (correspondence check). *)
From CJ Require Import Common.Base C13.Model.
Local Open Scope nat_scope.

Definition pair_eqb (a b : bool * nat) : bool := Bool.eqb (fst a) (fst b) && Nat.eqb (snd a) (snd b).

(* what a request of kind k returns when it was served by selector version u *)
Definition req_failed (k : reqkind) : bool := (k_v4 k && k_err4 k) || (k_v6 k && k_err6 k).
(* selection errors are injected by the driver's selector, i.e. only by version 0; the
   selectors installed by ReloadSubnets (versions >= 1) are real ones and do not fail *)
Definition req_outcome (k : reqkind) (u : nat) : bool * option nat * option nat :=
  if req_failed k && Nat.eqb u 0 then (true, None, None)
  else (false, if k_v4 k then Some u else None, if k_v6 k then Some u else None).

Definition onat_eqb := option_eqb Nat.eqb.
Definition outcome_eqb (a b : bool * option nat * option nat) : bool :=
  let '(e1, x1, y1) := a in let '(e2, x2, y2) := b in
  Bool.eqb e1 e2 && onat_eqb x1 x2 && onat_eqb y1 y2.

Inductive case :=
| CDepth (k : reqkind) (sels : list (bool * nat)) (final : nat)
| CSched (reqs : list reqkind) (m : nat) (nfail : nat) (completed : bool)
         (obs : list (bool * option nat * option nat)) (reloads_done : nat) (reload_errs : nat) (final_ver : nat).

Fixpoint all2 {A B} (f : A -> B -> bool) (l : list A) (r : list B) : bool :=
  match l, r with
  | [], [] => true
  | x :: l', y :: r' => f x y && all2 f l' r'
  | _, _ => false
  end.

Definition chk (c : case) : bool :=
  match c with
  | CDepth k sels final =>
    (* the observed lock-depth trace is the model's trace of that request kind, which is wf *)
    let '(s, f) := depth_trace 0 (trace_of_req k) in
    wf (trace_of_req k) && list_eqb pair_eqb s sels && Nat.eqb f final
  | CSched reqs m nfail completed obs rdone rerrs fv =>
    (* the model's theorems: everything completes (the m reloads that succeed and the nfail
       that fail); each request is served by ONE version u <= m; the final selector is the
       initial one iff m = 0 *)
    completed && Nat.eqb rdone (m + nfail) && Nat.eqb rerrs nfail &&
    all2 (fun k o => existsb (fun u => outcome_eqb (req_outcome k u) o) (seq 0 (S m))) reqs obs &&
    (if Nat.eqb m 0 then Nat.eqb fv 0 else Nat.leb 1 fv && Nat.leb fv m)
  end.
