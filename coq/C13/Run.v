(* C13: evaluation of the model on recorded cases (correspondence check). *)
From CJ Require Import Common.Base C13.Model C13.ModelS C13.ModelR.
Local Open Scope nat_scope.

Definition pair_eqb (a b : bool * nat) : bool := Bool.eqb (fst a) (fst b) && Nat.eqb (snd a) (snd b).

(* what a request of kind k returns when it was served by selector version u *)
Definition req_failed (k : reqkind) : bool := (k_v4 k && k_err4 k) || (k_v6 k && k_err6 k).
(* selection errors are injected by the driver's selector, i.e. only by version 0; the
   selectors installed by ReloadSubnets (versions >= 1) are real ones and do not fail *)
Definition req_outcome (k : reqkind) (u : nat) : bool * option nat * option nat :=
  if req_failed k && Nat.eqb u 0 then (true, None, None)
  else (false, if k_v4 k then Some u else None, if k_v6 k then Some u else None).

Definition onat_eqb := option_eqb Nat.eqb.
Definition outcome_eqb (a b : bool * option nat * option nat) : bool :=
  let '(e1, x1, y1) := a in let '(e2, x2, y2) := b in
  Bool.eqb e1 e2 && onat_eqb x1 x2 && onat_eqb y1 y2.

(* ---- the mutex model against the real sync.RWMutex ----
   A script of lock calls issued to threads (a thread that is still inside a call is busy and
   skips; an unlock of a lock the thread does not hold is refused by the thread itself).  After
   every call everything that can complete does complete, in Go's order: queued readers are
   admitted before a queued writer, queued writers first-come first-served. *)
Inductive mop := MRLock | MRUnlock | MLock | MUnlock.
Definition mops (o : mop) : list op :=
  match o with MRLock => [ORLock] | MRUnlock => [ORUnlock] | MLock => [OAnnounce; OEnter] | MUnlock => [OUnlock] end.

Definition busy (c : cfg) (i : nat) : bool :=
  match nth_error (threads c) i with Some t => negb (thread_done t) | None => true end.
Definition next_is_rlock (c : cfg) (i : nat) : bool :=
  match nth_error (threads c) i with
  | Some t => match todo t with ORLock :: _ => true | _ => false end
  | None => false
  end.
Definition invalid (c : cfg) (i : nat) (o : mop) : bool :=
  match nth_error (threads c) i with
  | Some t => match o with
              | MRUnlock => Nat.eqb (rd t) 0
              | MUnlock => match wp t with WHeld => false | _ => true end
              | _ => false
              end
  | None => true
  end.

Fixpoint find_enabled (c : cfg) (pred : nat -> bool) (q : list nat) : option nat :=
  match q with
  | [] => None
  | i :: r => if pred i && enabled c i then Some i else find_enabled c pred r
  end.

Fixpoint settle (fuel : nat) (c : cfg) (q : list nat) : cfg * list nat :=
  match fuel with
  | O => (c, q)
  | S f =>
    match (match find_enabled c (next_is_rlock c) q with
           | Some i => Some i
           | None => find_enabled c (fun _ => true) q
           end) with
    | None => (c, q)
    | Some i =>
      match step c i with
      | Some c' => settle f c' (if busy c' i then q else remove Nat.eq_dec i q)
      | None => (c, q)
      end
    end
  end.

Definition issue (c : cfg) (i : nat) (o : mop) : cfg :=
  match nth_error (threads c) i with
  | Some t => mkC (readers c) (ws c) (ver c) (set_nth i (mkT (mops o) (rd t) (wp t) (tlog t)) (threads c))
  | None => c
  end.

Definition blocked_set (c : cfg) : list bool := map (fun t => negb (thread_done t)) (threads c).

(* observation per script step: 0 issued / 1 busy / 2 refused, and who is blocked afterwards *)
Fixpoint go_run (c : cfg) (q : list nat) (script : list (nat * mop)) : list (nat * list bool) :=
  match script with
  | [] => []
  | (i, o) :: r =>
    if busy c i then (1, blocked_set c) :: go_run c q r
    else if invalid c i o then (2, blocked_set c) :: go_run c q r
    else let '(c', q') := settle 64 (issue c i o) (q ++ [i]) in
         (0, blocked_set c') :: go_run c' q' r
  end.

Definition step_obs_eqb (a b : nat * list bool) : bool :=
  Nat.eqb (fst a) (fst b) && list_eqb Bool.eqb (snd a) (snd b).

Definition chk_rwm (n : nat) (script : list (nat * mop)) (observed : list (nat * list bool)) : bool :=
  list_eqb step_obs_eqb (go_run (init_cfg 0 (repeat [] n)) [] script) observed.

(* ---- the selector-object model (ModelS.v) replayed on a script of the real-selector lane ----
   Threads: requests 0..k-1, then the reloads, then one writer thread per file replacement.
   A script action launches a thread / hands a request one token (a wrapped selector lets a
   selection pass only with a token) / starts a new round (everything launched runs to its end,
   the installed selector is wrapped again).  After every action everything that can move does
   move, in Go's order (readers queued on the mutex before a queued writer, then launch order).
   ReloadSubnets installs the bare selector: from then on selections need no token. *)
Inductive ract := AReq (i : nat) | ARel (i : nat) | ALaunch (t : nat) | ARewrap.

Record rp := mkRP { rp_c : scfg; rp_on : list bool; rp_tok : list nat; rp_wrapped : bool; rp_q : list nat;
                    rp_inits : list nat }.

Definition snext (c : scfg) (i : nat) : option sop :=
  match nth_error (sthreads c) i with
  | Some t => match stodo t with o :: _ => Some o | [] => None end
  | None => None
  end.

Definition needs_token (p : rp) (k i : nat) : bool :=
  rp_wrapped p && Nat.ltb i k && match snext (rp_c p) i with Some (SSel _) => true | _ => false end.

Definition can_move (p : rp) (k i : nat) : bool :=
  nth i (rp_on p) false && enabled (base (rp_c p)) i &&
  (negb (needs_token p k i) || Nat.ltb 0 (nth i (rp_tok p) 0)).

Definition is_rlock_next (p : rp) (i : nat) : bool :=
  match snext (rp_c p) i with Some SRLock => true | _ => false end.

Fixpoint pick (p : rp) (k : nat) (f : nat -> bool) (q : list nat) : option nat :=
  match q with
  | [] => None
  | i :: r => if f i && can_move p k i then Some i else pick p k f r
  end.

Definition move (p : rp) (k i : nat) : rp :=
  match sstep (rp_c p) i with
  | Some c' =>
    let tok := if needs_token p k i then set_nth i (pred (nth i (rp_tok p) 0)) (rp_tok p) else rp_tok p in
    let wr := match snext (rp_c p) i with Some SInstall => false | _ => rp_wrapped p end in
    let q := match snext c' i with None => remove Nat.eq_dec i (rp_q p) | Some _ => rp_q p end in
    mkRP c' (rp_on p) tok wr q (rp_inits p)
  | None => p
  end.

Fixpoint rsettle (fuel : nat) (p : rp) (k : nat) : rp :=
  match fuel with
  | O => p
  | S f =>
    match (match pick p k (is_rlock_next p) (rp_q p) with Some i => Some i | None => pick p k (fun _ => true) (rp_q p) end) with
    | Some i => rsettle f (move p k i) k
    | None => p
    end
  end.

Definition installed_set (c : scfg) : nat := nth (inst (st c)) (heap (st c)) 0.

Definition ract_do (p : rp) (k : nat) (a : ract) : rp :=
  match a with
  | AReq i | ALaunch i =>
    rsettle 256 (mkRP (rp_c p) (set_nth i true (rp_on p)) (rp_tok p) (rp_wrapped p) (rp_q p ++ [i]) (rp_inits p)) k
  | ARel i =>
    rsettle 256 (mkRP (rp_c p) (rp_on p) (set_nth i (S (nth i (rp_tok p) 0)) (rp_tok p)) (rp_wrapped p) (rp_q p) (rp_inits p)) k
  | ARewrap =>
    let p1 := rsettle 512 (mkRP (rp_c p) (rp_on p) (rp_tok p) false (rp_q p) (rp_inits p)) k in
    mkRP (rp_c p1) (rp_on p1) (map (fun _ => 0) (rp_tok p1)) true (rp_q p1) (rp_inits p1 ++ [installed_set (rp_c p1)])
  end.

Definition real_traces (reqs : list reqkind) (reloads : list (option nat)) (writes : list (nat * nat)) : list (list sop) :=
  map sreq reqs ++ map (fun r => match r with Some p => sreload p | None => sreload_fail end) reloads ++
  map (fun w => [SWrite (fst w) (snd w)]) writes.

(* result: per request the sets its selections found (oldest first), the set installed at the start of
   every round and at the end, and whether every thread finished *)
Definition real_replay (reqs : list reqkind) (reloads : list (option nat)) (writes : list (nat * nat)) (script : list ract)
  : list (list nat) * list nat * nat * bool :=
  let tr := real_traces reqs reloads writes in
  let k := length reqs in
  let p0 := mkRP (sinit 0 0 0 tr) (map (fun _ => false) tr) (map (fun _ => 0) tr) false [] [] in
  let p := fold_left (fun p a => ract_do p k a) (ARewrap :: script ++ [ARewrap]) p0 in
  (map (fun i => rev (match nth_error (sthreads (rp_c p)) i with Some t => contents_of t | None => [] end)) (seq 0 k),
   removelast (rp_inits p), installed_set (rp_c p), all_done (base (rp_c p))).

Definition expected_real (k : reqkind) (sets : list nat) : bool * option nat * option nat :=
  if req_failed k then (true, None, None)
  else match k_v4 k, k_v6 k, sets with
       | true, true, [a; b] => (false, Some a, Some b)
       | true, false, [a] => (false, Some a, None)
       | false, true, [b] => (false, None, Some b)
       | false, false, [] => (false, None, None)
       | _, _, _ => (true, Some 999, Some 999)
       end.

(* ---- the reload sequence of main.go (ModelR.v) against the real handler ----
   an observed answer: client generation, through the DNS registrar?, v4, v6, late (answered only after the held handler was
   released), HTTP 200?, subnet set and generation of the IPv4 / IPv6 phantom, ClientConf generation
   handed back *)
Definition pobs := (nat * bool * bool * bool * bool * bool * (option nat * option nat) * (option nat * option nat) * option nat)%type.

(* the front end decides in state sf, the selection happens in state ss (the two steps of a request in ModelR.v) *)
Definition pobs_matches2x (strict_dns : bool) (sf ss : rstate) (o : pobs) : bool :=
  let '(g, dns, v4, v6, late, ok, sets, gens, cc) := o in
  let '(g', ecc) := front sf dns g in
  (* the DNS response only says WHETHER the client is outdated *)
  (* while the handler is held the DNS flag is not compared: when the DNS registrar learns the new generation
     relative to the other steps does not matter to a DNS client, which is never moved *)
  let cc_ok := if dns then negb strict_dns || Bool.eqb (match cc with Some _ => true | None => false end) (match ecc with Some _ => true | None => false end)
               else onat_eqb cc ecc in
  if mem g' (r_gens ss) then
    ok && onat_eqb (fst sets) (if v4 then Some (r_set ss) else None) && onat_eqb (snd sets) (if v6 then Some (r_set ss) else None)
       && onat_eqb (fst gens) (if v4 then Some g' else None) && onat_eqb (snd gens) (if v6 then Some g' else None)
       && cc_ok
  else negb ok && (negb dns || cc_ok).
Definition pobs_matches2 := pobs_matches2x false.
Definition pobs_matches (s : rstate) (o : pobs) : bool := pobs_matches2 s s o.
Definition pobs_matches_strict (s : rstate) (o : pobs) : bool := pobs_matches2x true s s o.

Definition is_late (o : pobs) : bool := let '(_, _, _, _, late, _, _, _, _) := o in late.

(* the state the registrar is in while the handler performs step h of the pinned order *)
Fixpoint state_before (h : hstep) (ord : list hstep) (s : rstate) (conf : option nat) (P : pub) : rstate :=
  match ord with
  | [] => s
  | x :: r =>
    if (match x, h with HParse, HParse | HSubnets, HSubnets | HSubnetsNoAbort, HSubnetsNoAbort | HApi, HApi | HDns, HDns => true | _, _ => false end) then s
    else let '(s', c') := hexec s conf (x, P) in state_before h r s' c' P
  end.

Definition state_after (s : rstate) (P : pub) : rstate :=
  fst (fold_left (fun sc x => hexec (fst sc) (snd sc) (x, P)) pinned_order (s, None)).

Definition mround := (pub * list pobs * list pobs * list pobs)%type.

Fixpoint chk_main (s : rstate) (rounds : list mround) : bool :=
  match rounds with
  | [] => true
  | (P, at_cc, at_sub, after) :: r =>
    let s_cc := state_before HParse pinned_order s None P in
    let s_sub := state_before HSubnets pinned_order s None P in
    let s' := state_after s P in
    (* an answer that arrived only after the held handler was released: its two steps may lie on either side *)
    forallb (fun o => pobs_matches s_cc o || (is_late o && (pobs_matches s' o || pobs_matches2 s_cc s' o))) at_cc &&
    forallb (fun o => pobs_matches s_sub o || (is_late o && (pobs_matches s' o || pobs_matches2 s_sub s' o))) at_sub &&
    forallb (pobs_matches_strict s') after &&
    chk_main s' r
  end.

Inductive case :=
| CDepth (k : reqkind) (sels : list (bool * nat)) (final : nat)
| CSched (reqs : list reqkind) (m : nat) (nfail : nat) (maxid : nat) (completed : bool)
         (obs : list (bool * option nat * option nat)) (reloads_done : nat) (reload_errs : nat) (final_ver : nat)
| CRwm (n : nat) (script : list (nat * mop)) (observed : list (nat * list bool))
| CReal (reqs : list reqkind) (reloads : list (option nat)) (writes : list (nat * nat)) (script : list ract)
        (obs : list (bool * option nat * option nat)) (inits : list nat) (final : nat)
| CMain (s0 : rstate) (rounds : list mround).

Fixpoint all2 {A B} (f : A -> B -> bool) (l : list A) (r : list B) : bool :=
  match l, r with
  | [], [] => true
  | x :: l', y :: r' => f x y && all2 f l' r'
  | _, _ => false
  end.

Definition chk (c : case) : bool :=
  match c with
  | CDepth k sels final =>
    (* the observed lock-depth trace is the model's trace of that request kind, which is wf *)
    let '(s, f) := depth_trace 0 (trace_of_req k) in
    wf (trace_of_req k) && list_eqb pair_eqb s sels && Nat.eqb f final
  | CSched reqs m nfail maxid completed obs rdone rerrs fv =>
    (* the model's theorems: everything completes (the m reloads that succeed and the nfail
       that fail); each request is served by ONE selector (the driver numbers the reloads'
       subnet files 1..maxid, 0 is the initial selector); the final selector is the initial
       one iff no reload succeeded *)
    completed && Nat.eqb rdone (m + nfail) && Nat.eqb rerrs nfail && Nat.leb m maxid &&
    all2 (fun k o => existsb (fun u => outcome_eqb (req_outcome k u) o) (seq 0 (S (if Nat.eqb m 0 then 0 else maxid)))) reqs obs &&
    (if Nat.eqb m 0 then Nat.eqb fv 0 else Nat.leb 1 fv && Nat.leb fv maxid)
  | CRwm n script observed => chk_rwm n script observed
  | CReal reqs reloads writes script obs inits final =>
    (* the object model replayed on the script gives exactly the observed sets *)
    let '(sets, rinits, fin, done) := real_replay reqs reloads writes script in
    done && all2 (fun ks o => outcome_eqb (expected_real (fst ks) (snd ks)) o) (combine reqs sets) obs &&
    list_eqb Nat.eqb rinits inits && Nat.eqb fin final
  | CMain s0 rounds => chk_main s0 rounds
  end.

