(* C13: evaluation of the model on recorded cases (correspondence check). *)
From CJ Require Import Common.Base C13.Model.
Local Open Scope nat_scope.

Definition pair_eqb (a b : bool * nat) : bool := Bool.eqb (fst a) (fst b) && Nat.eqb (snd a) (snd b).

(* what a request of kind k returns when it was served by selector version u *)
Definition req_failed (k : reqkind) : bool := (k_v4 k && k_err4 k) || (k_v6 k && k_err6 k).
(* selection errors are injected by the driver's selector, i.e. only by version 0; the
   selectors installed by ReloadSubnets (versions >= 1) are real ones and do not fail *)
Definition req_outcome (k : reqkind) (u : nat) : bool * option nat * option nat :=
  if req_failed k && Nat.eqb u 0 then (true, None, None)
  else (false, if k_v4 k then Some u else None, if k_v6 k then Some u else None).

Definition onat_eqb := option_eqb Nat.eqb.
Definition outcome_eqb (a b : bool * option nat * option nat) : bool :=
  let '(e1, x1, y1) := a in let '(e2, x2, y2) := b in
  Bool.eqb e1 e2 && onat_eqb x1 x2 && onat_eqb y1 y2.

(* ---- the mutex model against the real sync.RWMutex ----
   A script of lock calls issued to threads (a thread that is still inside a call is busy and
   skips; an unlock of a lock the thread does not hold is refused by the thread itself).  After
   every call everything that can complete does complete, in Go's order: queued readers are
   admitted before a queued writer, queued writers first-come first-served. *)
Inductive mop := MRLock | MRUnlock | MLock | MUnlock.
Definition mops (o : mop) : list op :=
  match o with MRLock => [ORLock] | MRUnlock => [ORUnlock] | MLock => [OAnnounce; OEnter] | MUnlock => [OUnlock] end.

Definition busy (c : cfg) (i : nat) : bool :=
  match nth_error (threads c) i with Some t => negb (thread_done t) | None => true end.
Definition next_is_rlock (c : cfg) (i : nat) : bool :=
  match nth_error (threads c) i with
  | Some t => match todo t with ORLock :: _ => true | _ => false end
  | None => false
  end.
Definition invalid (c : cfg) (i : nat) (o : mop) : bool :=
  match nth_error (threads c) i with
  | Some t => match o with
              | MRUnlock => Nat.eqb (rd t) 0
              | MUnlock => match wp t with WHeld => false | _ => true end
              | _ => false
              end
  | None => true
  end.

Fixpoint find_enabled (c : cfg) (pred : nat -> bool) (q : list nat) : option nat :=
  match q with
  | [] => None
  | i :: r => if pred i && enabled c i then Some i else find_enabled c pred r
  end.

Fixpoint settle (fuel : nat) (c : cfg) (q : list nat) : cfg * list nat :=
  match fuel with
  | O => (c, q)
  | S f =>
    match (match find_enabled c (next_is_rlock c) q with
           | Some i => Some i
           | None => find_enabled c (fun _ => true) q
           end) with
    | None => (c, q)
    | Some i =>
      match step c i with
      | Some c' => settle f c' (if busy c' i then q else remove Nat.eq_dec i q)
      | None => (c, q)
      end
    end
  end.

Definition issue (c : cfg) (i : nat) (o : mop) : cfg :=
  match nth_error (threads c) i with
  | Some t => mkC (readers c) (ws c) (ver c) (set_nth i (mkT (mops o) (rd t) (wp t) (tlog t)) (threads c))
  | None => c
  end.

Definition blocked_set (c : cfg) : list bool := map (fun t => negb (thread_done t)) (threads c).

(* observation per script step: 0 issued / 1 busy / 2 refused, and who is blocked afterwards *)
Fixpoint go_run (c : cfg) (q : list nat) (script : list (nat * mop)) : list (nat * list bool) :=
  match script with
  | [] => []
  | (i, o) :: r =>
    if busy c i then (1, blocked_set c) :: go_run c q r
    else if invalid c i o then (2, blocked_set c) :: go_run c q r
    else let '(c', q') := settle 64 (issue c i o) (q ++ [i]) in
         (0, blocked_set c') :: go_run c' q' r
  end.

Definition step_obs_eqb (a b : nat * list bool) : bool :=
  Nat.eqb (fst a) (fst b) && list_eqb Bool.eqb (snd a) (snd b).

Definition chk_rwm (n : nat) (script : list (nat * mop)) (observed : list (nat * list bool)) : bool :=
  list_eqb step_obs_eqb (go_run (init_cfg 0 (repeat [] n)) [] script) observed.

Inductive case :=
| CDepth (k : reqkind) (sels : list (bool * nat)) (final : nat)
| CSched (reqs : list reqkind) (m : nat) (nfail : nat) (maxid : nat) (completed : bool)
         (obs : list (bool * option nat * option nat)) (reloads_done : nat) (reload_errs : nat) (final_ver : nat)
| CRwm (n : nat) (script : list (nat * mop)) (observed : list (nat * list bool)).

Fixpoint all2 {A B} (f : A -> B -> bool) (l : list A) (r : list B) : bool :=
  match l, r with
  | [], [] => true
  | x :: l', y :: r' => f x y && all2 f l' r'
  | _, _ => false
  end.

Definition chk (c : case) : bool :=
  match c with
  | CDepth k sels final =>
    (* the observed lock-depth trace is the model's trace of that request kind, which is wf *)
    let '(s, f) := depth_trace 0 (trace_of_req k) in
    wf (trace_of_req k) && list_eqb pair_eqb s sels && Nat.eqb f final
  | CSched reqs m nfail maxid completed obs rdone rerrs fv =>
    (* the model's theorems: everything completes (the m reloads that succeed and the nfail
       that fail); each request is served by ONE selector (the driver numbers the reloads'
       subnet files 1..maxid, 0 is the initial selector); the final selector is the initial
       one iff no reload succeeded *)
    completed && Nat.eqb rdone (m + nfail) && Nat.eqb rerrs nfail && Nat.leb m maxid &&
    all2 (fun k o => existsb (fun u => outcome_eqb (req_outcome k u) o) (seq 0 (S (if Nat.eqb m 0 then 0 else maxid)))) reqs obs &&
    (if Nat.eqb m 0 then Nat.eqb fv 0 else Nat.leb 1 fv && Nat.leb fv maxid)
  | CRwm n script observed => chk_rwm n script observed
  end.

