(* C13 examples: non-vacuity of the theorems, and the deadlock of the trace the code had
   before the fix (why `wf` is needed). *)
From CJ Require Import Common.Base C13.Model C13.Proofs C13.ProofsV.
From Coq Require Import Lia Arith PeanoNat.
Local Open Scope nat_scope.

Lemma run_reach : forall s c, reach c (run c s).
Proof.
  induction s; simpl; intros. - constructor.
  - destruct (step c a) eqn:E; auto.
    eapply reach_trans; [|apply IHs]. econstructor; [constructor|eauto].
Qed.

Lemma stuck_spec : forall c, stuck c = true -> all_done c = false /\ forall i, step c i = None.
Proof.
  unfold stuck. intros c H. apply andb_true_iff in H. destruct H as [A B].
  apply negb_true_iff in A. apply negb_true_iff in B. split; auto.
  intros i. destruct (lt_dec i (length (threads c))) as [L|L].
  - destruct (step c i) eqn:E; auto.
    assert (existsb (enabled c) (seq 0 (length (threads c))) = true).
    { apply existsb_exists. exists i. split. apply in_seq. lia. unfold enabled. rewrite E. auto. }
    congruence.
  - unfold step. assert (nth_error (threads c) i = None) as -> by (apply nth_error_None; lia). auto.
Qed.

(* ---- the pinned code before the fix ---- *)
Definition dual := mkReq true true false false.
Definition old_cfg := init_cfg 0 [old_trace_dual; reload_trace].

Example old_trace_not_wf : wf old_trace_dual = false.
Proof. reflexivity. Qed.

(* request: tau, RLock, select v4 | reload: tau, announce | request: RLock queues behind the
   pending writer, the writer waits for the request's first read lock: nobody can move *)
Definition deadlock_schedule := [0; 0; 0; 1; 1].

Example old_trace_deadlock_state : stuck (run old_cfg deadlock_schedule) = true.
Proof. vm_compute. reflexivity. Qed.

Theorem old_trace_deadlocks :
  exists c, reach old_cfg c /\ all_done c = false /\ forall i, step c i = None.
Proof.
  exists (run old_cfg deadlock_schedule). split; [apply run_reach|].
  apply stuck_spec. exact old_trace_deadlock_state.
Qed.

(* the same schedule on the fixed trace goes through *)
Definition new_cfg := code_cfg 0 [dual] 1 0.
Example new_trace_same_schedule :
  let c := run new_cfg (deadlock_schedule ++ [0; 0; 0; 0; 1; 1; 1]) in
  all_done c = true /\ ver c = 1 /\ map tlog (threads c) = [[[0; 0]]; []].
Proof. vm_compute. auto. Qed.

(* ---- non-vacuity: a configuration with 3 requests of different kinds and 2 reloads ---- *)
Definition ex_reqs := [dual; mkReq true false false false; mkReq true true false true; mkReq false false false false].
Definition ex_cfg := code_cfg 5 ex_reqs 2 1.

Example ex_wf_init : wf_init ex_cfg.
Proof. apply code_wf_init. Qed.

(* a schedule in which request 0 sees the old selector for both families, request 1 the
   selector of the first reload and request 2 the one of the second *)
Definition ex_schedule :=
  [0; 0; 0;  4; 4;  1;  0; 0; 0;  4; 4; 4;  1; 1; 1; 1;  5; 5; 5; 5; 5;  2; 2; 2; 2; 2;  3; 3; 3; 3; 1; 1; 6].

Example ex_run :
  let c := run ex_cfg ex_schedule in
  all_done c = true /\ ver c = 7 /\
  map (fun t => concat (tlog t)) (threads c) = [[5; 5]; [6]; [7; 7]; []; []; []; []].
Proof. vm_compute. auto. Qed.

(* an intermediate configuration where a writer is pending and a reader holds the lock: the
   progress theorem's interesting case is reachable *)
Example ex_pending :
  let c := run ex_cfg [0; 0; 0; 4; 4; 1] in
  ws c = WPending 4 /\ readers c = 1 /\ enabled c 1 = false /\ enabled c 4 = false /\ enabled c 0 = true.
Proof. vm_compute. auto. Qed.

(* wf rejects what it must *)
Example wf_rejects_unbalanced : wf [ORLock; OSel false] = false. Proof. reflexivity. Qed.
Example wf_rejects_upgrade : wf [ORLock; OAnnounce; OEnter; OUnlock; ORUnlock] = false. Proof. reflexivity. Qed.
Example wf_rejects_unlocked_select : wf [OSel false] = false. Proof. reflexivity. Qed.
Example wf_accepts_two_sections : wf [ORLock; OSel false; ORUnlock; ORLock; OSel true; ORUnlock] = true. Proof. reflexivity. Qed.

(* two separate read sections are deadlock-free but NOT old-or-new-in-full for the request as
   a whole: the single-section hypothesis of C13_one_section_one_selector is needed *)
Example two_sections_mixed :
  let c := run (init_cfg 0 [[ORLock; OSel false; ORUnlock; ORLock; OSel true; ORUnlock]; reload_trace])
               [0; 0; 0; 1; 1; 1; 1; 1; 0; 0; 0] in
  all_done c = true /\ map (fun t => concat (tlog t)) (threads c) = [[1; 0]; []].
Proof. vm_compute. auto. Qed.
