(* C13 proofs: invariant, progress, termination, old-or-new. *)
From CJ Require Import Common.Base C13.Model.
From Coq Require Import Lia Arith PeanoNat.
Local Open Scope nat_scope.

(* ---------- lists ---------- *)
Lemma nth_error_set_nth_eq {A} : forall (l : list A) i x t,
  nth_error l i = Some t -> nth_error (set_nth i x l) i = Some x.
Proof. induction l; destruct i; simpl; intros; try discriminate; eauto. Qed.

Lemma nth_error_set_nth_neq {A} : forall (l : list A) i j x,
  i <> j -> nth_error (set_nth i x l) j = nth_error l j.
Proof. induction l; destruct i, j; simpl; intros; try congruence; eauto. Qed.

Lemma length_set_nth {A} : forall (l : list A) i x, length (set_nth i x l) = length l.
Proof. induction l; destruct i; simpl; intros; auto. Qed.

Lemma sum_set_nth {A} (f : A -> nat) : forall l i x t,
  nth_error l i = Some t -> list_sum (map f (set_nth i x l)) + f t = list_sum (map f l) + f x.
Proof.
  induction l; destruct i; simpl; intros; try discriminate.
  - inversion H; subst; lia.
  - specialize (IHl _ x _ H). lia.
Qed.

Lemma nth_le_sum {A} (f : A -> nat) : forall l i t,
  nth_error l i = Some t -> f t <= list_sum (map f l).
Proof.
  induction l; destruct i; simpl; intros; try discriminate.
  - inversion H; subst; lia.
  - specialize (IHl _ _ H). lia.
Qed.

Lemma sum_pos_ex {A} (f : A -> nat) : forall l,
  0 < list_sum (map f l) -> exists i t, nth_error l i = Some t /\ 0 < f t.
Proof.
  induction l; simpl; intros. - lia.
  - destruct (f a) eqn:E.
    + destruct IHl as [i [t [H1 H2]]]; [lia|]. exists (S i), t. auto.
    + exists 0, a. simpl. split; auto. lia.
Qed.

Lemma nth_error_lt_some {A} : forall (l : list A) i, i < length l -> exists t, nth_error l i = Some t.
Proof.
  intros. destruct (nth_error l i) eqn:E; eauto.
  apply nth_error_None in E. lia.
Qed.

(* ---------- the invariant ---------- *)
Definition lphase_of (t : thread) : option lphase :=
  match rd t, wp t with
  | 0, WNone => Some LNone
  | 1, WNone => Some LRead
  | 0, WPend => Some LPend
  | 0, WHeld => Some LWrite
  | _, _ => None
  end.

Definition thread_ok (t : thread) : Prop :=
  exists p, lphase_of t = Some p /\ wf_from p (todo t) = true.

Definition wp_expected (w : wstate) (j : nat) : wphase :=
  match w with
  | WFree => WNone
  | WPending i => if Nat.eqb j i then WPend else WNone
  | WHolding i => if Nat.eqb j i then WHeld else WNone
  end.

Definition held_ok (w : wstate) (r : nat) : Prop :=
  match w with WHolding _ => r = 0 | _ => True end.

Record Inv (c : cfg) : Prop := {
  inv_readers : readers c = list_sum (map rd (threads c));
  inv_threads : forall j t, nth_error (threads c) j = Some t ->
                  thread_ok t /\ wp t = wp_expected (ws c) j;
  inv_windex : match ws c with WFree => True | WPending i | WHolding i => i < length (threads c) end;
  inv_held : held_ok (ws c) (readers c)
}.

Lemma step_spec : forall c i c',
  step c i = Some c' ->
  exists t t' r w v, nth_error (threads c) i = Some t /\ tstep c i t = Some (t', r, w, v) /\
                     c' = mkC r w v (set_nth i t' (threads c)).
Proof.
  unfold step; intros. destruct (nth_error (threads c) i) as [t|] eqn:E; try discriminate.
  destruct (tstep c i t) as [[[[t' r] w] v]|] eqn:T; try discriminate.
  inversion H; subst. repeat eexists; eauto.
Qed.

Ltac inv_some := match goal with H : Some _ = Some _ |- _ => inversion H; subst; clear H end.

Lemma tstep_facts : forall c i t t' r w v,
  thread_ok t -> wp t = wp_expected (ws c) i -> held_ok (ws c) (readers c) ->
  tstep c i t = Some (t', r, w, v) ->
  r + rd t = readers c + rd t' /\
  thread_ok t' /\
  wp t' = wp_expected w i /\
  (forall j, j <> i -> wp_expected w j = wp_expected (ws c) j) /\
  held_ok w r /\
  (match w with WFree => True | WPending k | WHolding k => k = i \/ ws c = w end) /\
  (exists o, todo t = o :: todo t').
Proof.
  intros c i t t' r w v [p [Hp Hwf]] Hwp Hheld H.
  unfold tstep in H. destruct (todo t) as [|o rest] eqn:E; [discriminate|].
  unfold lphase_of in Hp. unfold thread_ok, lphase_of.
  destruct (rd t) as [|[|n]] eqn:Erd; destruct (wp t) eqn:Ewp; try discriminate; inv_some;
    destruct o; simpl in Hwf; try discriminate;
    destruct (ws c) as [|k|k] eqn:Ews; simpl in Hwp, Hheld; try discriminate;
    try (destruct (Nat.eqb i k) eqn:Eik; try discriminate);
    try (apply Nat.eqb_eq in Eik; subst k);
    try (destruct (readers c) eqn:Erc; try discriminate);
    try inv_some; simpl;
    repeat (rewrite ?Nat.eqb_refl; simpl); rewrite ?Eik;
    (repeat split; auto; try lia; eauto;
     try (intros j Hj; apply Nat.eqb_neq in Hj; rewrite ?Hj; reflexivity)).
Qed.

Lemma step_preserves_Inv : forall c i c', Inv c -> step c i = Some c' -> Inv c'.
Proof.
  intros c i c' I H. apply step_spec in H.
  destruct H as [t [t' [r [w [v [Hn [Ht Hc]]]]]]]. subst c'.
  destruct (inv_threads c I i t Hn) as [Hok Hwp].
  destruct (tstep_facts _ _ _ _ _ _ _ Hok Hwp (inv_held c I) Ht)
    as [F1 [F2 [F3 [F4 [F5 [F6 F7]]]]]].
  constructor; simpl.
  - pose proof (sum_set_nth rd (threads c) i t' t Hn). pose proof (inv_readers c I). lia.
  - intros j tj Hj. destruct (Nat.eq_dec i j) as [->|Hne].
    + rewrite (nth_error_set_nth_eq _ _ _ _ Hn) in Hj. inversion Hj; subst. auto.
    + rewrite nth_error_set_nth_neq in Hj by auto.
      destruct (inv_threads c I j tj Hj) as [A B]. split; auto.
      rewrite B. symmetry. apply F4. auto.
  - rewrite length_set_nth. pose proof (inv_windex c I).
    assert (i < length (threads c)) by (apply nth_error_Some; congruence).
    destruct w; auto; destruct F6 as [->|E]; auto; rewrite E in *; auto.
  - exact F5.
Qed.

Lemma wf_init_Inv : forall c, wf_init c -> Inv c.
Proof.
  intros c [v [tr [-> Hwf]]]. unfold init_cfg. constructor; simpl; auto.
  - induction tr; simpl; auto.
    simpl in Hwf. apply andb_true_iff in Hwf. destruct Hwf. rewrite <- IHtr; auto.
  - intros j t Hj. rewrite nth_error_map in Hj.
    destruct (nth_error tr j) as [l|] eqn:E; try discriminate. inversion Hj; subst.
    split; auto. exists LNone. split; auto. simpl.
    rewrite forallb_forall in Hwf. apply Hwf. eapply nth_error_In; eauto.
Qed.

Lemma reach_Inv : forall c0 c, Inv c0 -> reach c0 c -> Inv c.
Proof. intros c0 c I R. induction R; auto. eapply step_preserves_Inv; [apply IHR; exact I | exact H]. Qed.

(* ---------- progress ---------- *)
Lemma wf_from_nonempty : forall p l, p <> LNone -> wf_from p l = true -> exists o r, l = o :: r.
Proof. intros p [|o r] Hp H; eauto. destruct p; simpl in H; congruence. Qed.

Lemma progress : forall c, Inv c -> all_done c = true \/ exists i c', step c i = Some c'.
Proof.
  intros c I. destruct (all_done c) eqn:D; auto. right.
  pose proof (inv_windex c I) as WI. pose proof (inv_held c I) as HH.
  unfold step.
  destruct (ws c) as [|k|k] eqn:Ews.
  - (* free: any unfinished thread can move *)
    unfold all_done in D.
    assert (exists j t, nth_error (threads c) j = Some t /\ thread_done t = false) as [j [t [Hn Ht]]].
    { clear -D. induction (threads c); simpl in D; try discriminate.
      destruct (thread_done a) eqn:E.
      - destruct IHl as [j [t [A B]]]; auto. exists (S j), t; auto.
      - exists 0, a; auto. }
    destruct (inv_threads c I j t Hn) as [[p [Hp Hwf]] Hwp]. rewrite Ews in Hwp. simpl in Hwp.
    exists j. rewrite Hn. unfold tstep. unfold thread_done in Ht.
    destruct (todo t) as [|o rest] eqn:E; try discriminate.
    unfold lphase_of in Hp. rewrite Hwp in Hp.
    pose proof (nth_le_sum rd _ _ _ Hn) as Hle. rewrite <- (inv_readers c I) in Hle.
    destruct (rd t) as [|[|n]] eqn:Erd; try discriminate; inv_some;
      destruct o; simpl in Hwf; try discriminate; rewrite ?Ews; eauto.
    destruct (readers c); [lia|eauto].
  - (* a writer is pending *)
    destruct (nth_error_lt_some _ _ WI) as [t Hn].
    destruct (inv_threads c I k t Hn) as [[p [Hp Hwf]] Hwp]. rewrite Ews in Hwp. simpl in Hwp.
    rewrite Nat.eqb_refl in Hwp.
    destruct (readers c) as [|r] eqn:Erc.
    + (* no readers left: the writer enters *)
      exists k. rewrite Hn. unfold tstep.
      unfold lphase_of in Hp. rewrite Hwp in Hp.
      destruct (rd t) as [|[|n]] eqn:Erd; try discriminate. inv_some.
      destruct (todo t) as [|o rest] eqn:E; simpl in Hwf; try discriminate.
      destruct o; try discriminate. rewrite Ews, Erc, Nat.eqb_refl. eauto.
    + (* some thread holds a read lock; its next operation is not a lock acquisition *)
      pose proof (inv_readers c I) as HR. rewrite Erc in HR.
      destruct (sum_pos_ex rd (threads c)) as [j [tj [Hj Hpos]]]; [lia|].
      destruct (inv_threads c I j tj Hj) as [[pj [Hpj Hwfj]] Hwpj].
      exists j. rewrite Hj. unfold tstep. unfold lphase_of in Hpj.
      destruct (rd tj) as [|[|n]] eqn:Erd; try lia; destruct (wp tj); try discriminate; inv_some.
      destruct (todo tj) as [|o rest] eqn:E; simpl in Hwfj; try discriminate.
      destruct o; try discriminate; rewrite ?Erc; eauto.
  - (* the write lock is held: its holder's next operation is never an acquisition *)
    destruct (nth_error_lt_some _ _ WI) as [t Hn].
    destruct (inv_threads c I k t Hn) as [[p [Hp Hwf]] Hwp]. rewrite Ews in Hwp. simpl in Hwp.
    rewrite Nat.eqb_refl in Hwp.
    exists k. rewrite Hn. unfold tstep.
    unfold lphase_of in Hp. rewrite Hwp in Hp.
    destruct (rd t) as [|[|n]] eqn:Erd; try discriminate. inv_some.
    destruct (todo t) as [|o rest] eqn:E; simpl in Hwf; try discriminate.
    destruct o; try discriminate; rewrite ?Ews, ?Nat.eqb_refl; eauto.
Qed.

Lemma wf_trace_deadlock_free : forall c0 c,
  wf_init c0 -> reach c0 c -> all_done c = true \/ exists i c', step c i = Some c'.
Proof. intros. apply progress. eapply reach_Inv; eauto. apply wf_init_Inv; auto. Qed.

(* ---------- termination ---------- *)
Lemma step_measure : forall c i c', step c i = Some c' -> measure c = S (measure c').
Proof.
  intros c i c' H. apply step_spec in H.
  destruct H as [t [t' [r [w [v [Hn [Ht ->]]]]]]]. unfold measure; simpl.
  pose proof (sum_set_nth (fun t => length (todo t)) (threads c) i t' t Hn) as S1.
  assert (exists o, todo t = o :: todo t') as [o Ho].
  { unfold tstep in Ht. destruct (todo t) as [|o rest]; try discriminate. exists o.
    destruct o; try (inv_some; reflexivity);
      repeat match goal with
             | H : match ?x with _ => _ end = Some _ |- _ => destruct x; try discriminate
             end; inv_some; reflexivity. }
  cbv beta in S1. rewrite Ho in S1. simpl in S1. lia.
Qed.

Lemma schedules_bounded : forall c0 n c, reach_n c0 n c -> n + measure c = measure c0.
Proof.
  induction 1; auto. apply step_measure in H0. lia.
Qed.

Lemma reach_n_reach : forall c0 n c, reach_n c0 n c -> reach c0 c.
Proof. induction 1; econstructor; eauto. Qed.

Lemma reach_reach_n : forall c0 c, reach c0 c -> exists n, reach_n c0 n c.
Proof. induction 1. - exists 0; constructor. - destruct IHreach as [n Hn]. exists (S n). econstructor; eauto. Qed.

Lemma reach_trans : forall a b c, reach a b -> reach b c -> reach a c.
Proof. intros a b c R1 R2. induction R2; auto. eapply r1; [apply IHR2; exact R1 | exact H]. Qed.

Lemma can_finish_Inv : forall n c, measure c <= n -> Inv c -> exists c', reach c c' /\ all_done c' = true.
Proof.
  induction n; intros c Hm I.
  - destruct (progress c I) as [D|[i [c' S1]]].
    + exists c; split; auto; constructor.
    + apply step_measure in S1. lia.
  - destruct (progress c I) as [D|[i [c' S1]]].
    + exists c; split; auto; constructor.
    + pose proof (step_measure _ _ _ S1).
      destruct (IHn c') as [c'' [R D]]; [lia | eapply step_preserves_Inv; eauto |].
      exists c''. split; auto. eapply reach_trans; [|exact R]. econstructor; [constructor|eauto].
Qed.

Lemma can_always_finish : forall c0 c, wf_init c0 -> reach c0 c -> exists c', reach c c' /\ all_done c' = true.
Proof.
  intros. eapply can_finish_Inv; eauto. eapply reach_Inv; eauto. apply wf_init_Inv; auto.
Qed.

Lemma maximal_runs_complete : forall c0 c, wf_init c0 -> reach c0 c -> (forall i, step c i = None) -> all_done c = true.
Proof.
  intros c0 c W R N. destruct (wf_trace_deadlock_free c0 c W R) as [D|[i [c' S1]]]; auto.
  rewrite N in S1. discriminate.
Qed.
