(* C13 examples for the selector-object model: the refuted in-place variant, and non-vacuity. *)
From CJ Require Import Common.Base C13.Model C13.Proofs C13.ProofsV C13.ModelS C13.ProofsS.
Local Open Scope nat_scope.

Lemma srun_sreach : forall s c, sreach c (srun c s).
Proof.
  induction s as [|i r IH]; intros c; simpl; [constructor|].
  destruct (sstep c i) as [c'|] eqn:E; [|apply IH].
  assert (G : forall a b, sreach a b -> forall z, sreach z a -> sreach z b).
  { induction 1; auto. intros z Hz. eapply sr1; [apply IHsreach; exact Hz | exact H0]. }
  eapply G; [apply IH|]. eapply sr1; [constructor | exact E].
Qed.

Definition dual : reqkind := mkReq true true false false.

(* One dual-stack request; the operator replaces the file at THE SAME path by set 1; a reload runs
   between the request's IPv4 and IPv6 selections (it cannot take the write lock, it has only read
   the file).  Threads: 0 request, 1 operator, 2 reload. *)
Definition between : list nat := [0; 0; 0; 1; 2; 0].

(* the refuted variant: GetPhantomSubnetSelector refreshes the object cached for the path in place *)
Definition tr_inplace : list (list sop) := [sreq dual; [SWrite 0 1]; sreload_inplace 0].
Definition c_inplace : scfg := srun (sinit 0 0 0 tr_inplace) between.

Lemma inplace_refresh_mixes :
  exists c t, sreach (sinit 0 0 0 tr_inplace) c /\ swf tr_inplace = true /\
    nth_error (sthreads c) 0 = Some t /\
    rev (objects_of t) = [0; 0] /\          (* the request read the same object twice, under one read lock ... *)
    rev (versions_of t) = [0; 0] /\         (* ... no swap happened in between ...                            *)
    rev (contents_of t) = [0; 1].           (* ... and yet IPv4 came from set 0 and IPv6 from set 1           *)
Proof.
  exists c_inplace. eexists. split; [apply srun_sreach|]. vm_compute. repeat split; reflexivity.
Qed.

(* so `one set in full` is false without the no_inplace hypothesis *)
Lemma one_set_in_full_needs_fresh_objects :
  ~ (forall v p0 x0 tr c j l0 t, swf tr = true ->
       sreach (sinit v p0 x0 tr) c -> nth_error tr j = Some l0 -> count_rlock (map erase l0) <= 1 ->
       nth_error (sthreads c) j = Some t ->
       exists o x, nth_error (heap (st c)) o = Some x /\ forall ob, In ob (slog t) -> snd (fst ob) = o /\ snd ob = x).
Proof.
  intros H.
  assert (R : sreach (sinit 0 0 0 tr_inplace) c_inplace) by apply srun_sreach.
  assert (T : nth_error (sthreads c_inplace) 0 = Some (mkST [STau; SRUnlock] None [(0, 0, 1); (0, 0, 0)])) by (vm_compute; reflexivity).
  assert (C : count_rlock (map erase (sreq dual)) <= 1) by (vm_compute; auto).
  destruct (H 0 0 0 tr_inplace c_inplace 0 (sreq dual) _ eq_refl R eq_refl C T) as [o [x [_ A]]].
  destruct (A (0, 0, 1)) as [_ B1]; [left; reflexivity|].
  destruct (A (0, 0, 0)) as [_ B2]; [right; left; reflexivity|]. simpl in *. congruence.
Qed.

(* the code (a fresh object per load), same schedule: both selections find set 0; the reload is the
   pending writer, it installs object 1 (set 1) once the request has left *)
Definition tr_fresh : list (list sop) := [sreq dual; [SWrite 0 1]; sreload 0].
Definition c_fresh : scfg := srun (sinit 0 0 0 tr_fresh) between.

Lemma fresh_object_same_schedule :
  match nth_error (sthreads c_fresh) 0 with Some t => rev (contents_of t) = [0; 0] | None => False end /\
  heap (st c_fresh) = [0; 1] /\ inst (st c_fresh) = 0 /\ ws (base c_fresh) = WFree /\
  (* the reload goes on: announce; then it waits for the reader *)
  enabled (base (srun c_fresh [2])) 2 = false /\
  (* request finishes, reload enters, installs, unlocks: set 1 is installed *)
  let c := srun c_fresh [2; 0; 0; 2; 2; 2] in
  all_done (base c) = true /\ inst (st c) = 1 /\ nth (inst (st c)) (heap (st c)) 9 = 1 /\ hist (st c) = [0; 1].
Proof. vm_compute. repeat split; reflexivity. Qed.

(* non-vacuity of scode_request_one_set: 3 requests, 2 reloads of two paths, a failing reload, two
   operators; a run in which the three requests are answered from three different sets *)
Definition tr_code : list (list sop) :=
  scode_traces [dual; mkReq true false false false; dual] [0; 7] 1 [[(0, 1)]; [(7, 2)]].
Definition c_code : scfg :=
  srun (sinit 0 0 0 tr_code)
    [0;0;0;0;0;0;   6; 3;3;3;3;3;   1;1;1;1;1;   7; 4;4;4;4;4;   2;2;2;2;2;2;  5].

Lemma three_requests_three_sets :
  sreach (sinit 0 0 0 tr_code) c_code /\ all_done (base c_code) = true /\
  map (fun t => rev (contents_of t)) (firstn 3 (sthreads c_code)) = [[0; 0]; [1]; [2; 2]] /\
  pool 0 tr_code = [0; 0; 1; 2].
Proof. split; [apply srun_sreach|]. vm_compute. repeat split; reflexivity. Qed.
