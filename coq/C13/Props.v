(* C13 property theorems: statements + `exact lemma` only. *)
From CJ Require Import Common.Base C13.Model C13.Proofs C13.ProofsV C13.ModelS C13.ProofsS C13.ModelR C13.ProofsR C13.ExamplesS C13.ExamplesR.
Local Open Scope nat_scope.

(* For ANY number of threads whose traces satisfy the boolean wf, no reachable configuration
   is blocked: either every thread is finished or some thread can take a step. *)
Theorem C13_wf_trace_deadlock_free : forall c0 c,
  wf_init c0 -> reach c0 c -> all_done c = true \/ exists i c', step c i = Some c'.
Proof. exact wf_trace_deadlock_free. Qed.
Print Assumptions C13_wf_trace_deadlock_free.

(* Every schedule is finite: a path of n steps consumes exactly n operations. *)
Theorem C13_every_schedule_terminates : forall c0 n c,
  reach_n c0 n c -> n + measure c = measure c0.
Proof. exact schedules_bounded. Qed.
Print Assumptions C13_every_schedule_terminates.

(* A schedule that cannot be extended has completed every request and every reload. *)
Theorem C13_maximal_runs_complete : forall c0 c,
  wf_init c0 -> reach c0 c -> (forall i, step c i = None) -> all_done c = true.
Proof. exact maximal_runs_complete. Qed.
Print Assumptions C13_maximal_runs_complete.

Theorem C13_can_always_finish : forall c0 c,
  wf_init c0 -> reach c0 c -> exists c', reach c c' /\ all_done c' = true.
Proof. exact can_always_finish. Qed.
Print Assumptions C13_can_always_finish.

(* Every read section of every thread observed exactly one selector version, and it is one
   that was installed between the start and now. *)
Theorem C13_old_or_new_in_full : forall c0 c, wf_init c0 -> reach c0 c ->
  forall j t s, nth_error (threads c) j = Some t -> In s (tlog t) ->
    exists v, ver c0 <= v <= ver c /\ forall x, In x s -> x = v.
Proof. exact old_or_new_in_full. Qed.
Print Assumptions C13_old_or_new_in_full.

Theorem C13_one_section_one_selector : forall v tr c j l0 t,
  forallb wf tr = true -> reach (init_cfg v tr) c ->
  nth_error tr j = Some l0 -> count_rlock l0 <= 1 ->
  nth_error (threads c) j = Some t ->
  exists u, v <= u <= ver c /\ forall x, In x (concat (tlog t)) -> x = u.
Proof. exact one_section_one_selector. Qed.
Print Assumptions C13_one_section_one_selector.

(* The traces of the code (processBdReq for every request kind, ReloadSubnets) are wf ... *)
Theorem C13_code_traces_wf :
  (forall k, wf (trace_of_req k) = true) /\ wf reload_trace = true /\ wf reload_fail_trace = true.
Proof. exact (conj trace_of_req_wf (conj reload_trace_wf eq_refl)). Qed.
Print Assumptions C13_code_traces_wf.

(* ... hence k requests of any kinds, m reloads that succeed and f that fail never block, *)
Theorem C13_code_deadlock_free : forall v reqs m f c, reach (code_cfg v reqs m f) c ->
  all_done c = true \/ exists i c', step c i = Some c'.
Proof. exact code_deadlock_free. Qed.
Print Assumptions C13_code_deadlock_free.

(* each request's selections (IPv4 and IPv6) come from one selector, *)
Theorem C13_code_request_one_selector : forall v reqs m f c j t,
  reach (code_cfg v reqs m f) c -> j < length reqs -> nth_error (threads c) j = Some t ->
  exists u, v <= u <= ver c /\ forall x, In x (concat (tlog t)) -> x = u.
Proof. exact code_request_one_selector. Qed.
Print Assumptions C13_code_request_one_selector.

(* and when everything has finished exactly the m successful reloads have taken effect. *)
Theorem C13_code_reloads_take_effect : forall v reqs m f c,
  reach (code_cfg v reqs m f) c -> all_done c = true -> ver c = v + m.
Proof. exact code_reloads_take_effect. Qed.
Print Assumptions C13_code_reloads_take_effect.

(* ================= the selector as a shared object (ModelS.v) ================= *)

(* Every schedule of the object model is a schedule of the lock model: all theorems above apply. *)
Theorem C13_object_model_projects : forall c c', sreach c c' -> reach (base c) (base c').
Proof. exact sreach_base. Qed.
Print Assumptions C13_object_model_projects.

(* No interleaving of requests, reloads (load file, lock, swap, unlock) and file replacements blocks. *)
Theorem C13_object_model_deadlock_free : forall v p0 x0 tr c, swf tr = true -> sreach (sinit v p0 x0 tr) c ->
  all_done (base c) = true \/ exists i c', sstep c i = Some c'.
Proof. exact s_deadlock_free. Qed.
Print Assumptions C13_object_model_deadlock_free.

(* When every reload builds a fresh object, a thread that takes the read lock once reads, at all of
   its selections, ONE object holding ONE subnet set - for any threads, any number of reloads of any
   paths, any file replacements, any interleaving. *)
Theorem C13_one_set_in_full : forall v p0 x0 tr c j l0 t,
  swf tr = true -> forallb no_inplace tr = true ->
  sreach (sinit v p0 x0 tr) c ->
  nth_error tr j = Some l0 -> count_rlock (map erase l0) <= 1 ->
  nth_error (sthreads c) j = Some t ->
  exists o x, nth_error (heap (st c)) o = Some x /\
              forall ob, In ob (slog t) -> snd (fst ob) = o /\ snd ob = x.
Proof. exact one_set_in_full. Qed.
Print Assumptions C13_one_set_in_full.

(* That set is a whole file generation: the initial file's or one the operator published. *)
Theorem C13_observed_sets_are_file_generations : forall v p0 x0 tr c j t ob,
  forallb no_inplace tr = true -> sreach (sinit v p0 x0 tr) c ->
  nth_error (sthreads c) j = Some t -> In ob (slog t) -> In (snd ob) (pool x0 tr).
Proof. exact observed_sets_are_file_generations. Qed.
Print Assumptions C13_observed_sets_are_file_generations.

(* The code: k requests of any kinds, reloads of any paths (the same path or different ones), f reloads
   whose file does not parse, any number of operators replacing files. *)
Theorem C13_code_objects_deadlock_free : forall v p0 x0 reqs paths f writers c,
  sreach (sinit v p0 x0 (scode_traces reqs paths f writers)) c ->
  all_done (base c) = true \/ exists i c', sstep c i = Some c'.
Proof. exact scode_deadlock_free. Qed.
Print Assumptions C13_code_objects_deadlock_free.

Theorem C13_code_request_one_set : forall v p0 x0 reqs paths f writers c j t,
  sreach (sinit v p0 x0 (scode_traces reqs paths f writers)) c -> j < length reqs ->
  nth_error (sthreads c) j = Some t ->
  exists o x, nth_error (heap (st c)) o = Some x /\ In x (pool x0 (scode_traces reqs paths f writers)) /\
              forall ob, In ob (slog t) -> snd (fst ob) = o /\ snd ob = x.
Proof. exact scode_request_one_set. Qed.
Print Assumptions C13_code_request_one_set.

(* The statement is FALSE when a reload refreshes the cached object of its path in place (all other
   hypotheses kept): a witness schedule mixes set 0 (IPv4) with set 1 (IPv6) under one read lock. *)
Theorem C13_inplace_refresh_refuted :
  ~ (forall v p0 x0 tr c j l0 t, swf tr = true ->
       sreach (sinit v p0 x0 tr) c -> nth_error tr j = Some l0 -> count_rlock (map erase l0) <= 1 ->
       nth_error (sthreads c) j = Some t ->
       exists o x, nth_error (heap (st c)) o = Some x /\ forall ob, In ob (slog t) -> snd (fst ob) = o /\ snd ob = x).
Proof. exact one_set_in_full_needs_fresh_objects. Qed.
Print Assumptions C13_inplace_refresh_refuted.

(* ================= the reload as main.go performs it (ModelR.v) ================= *)

(* For ANY handler program that passes the executable test handler_ok (it never hands a front end a
   generation the installed set lacks, and only installs supersets), any requests, any interleaving:
   the registrar stays consistent, and every request that the front end moved to the registrar's
   generation, or whose generation the registrar knew from the start, is answered. *)
Theorem C13_reload_sequence_safe : forall s todo reqs y,
  mem (r_api s) (r_gens s) = true -> handler_ok (r_gens s) None todo = true ->
  yreach (mkSys s None todo (map (fun r => newq (fst r) (snd r)) reqs)) y ->
  mem (r_api (y_st y)) (r_gens (y_st y)) = true /\
  forall i q ok set g' cc, nth_error (y_reqs y) i = Some q -> q_phase q = QDone ok set g' cc ->
    (mem (q_gen q) (r_gens s) = true \/ (q_dns q = false /\ cc <> None)) -> ok = true.
Proof. exact reload_sequence_safe. Qed.
Print Assumptions C13_reload_sequence_safe.

(* main.go's order (parse, ReloadSubnets - abort when it fails -, NewClientConf, UpdateLatestCCGen), any
   number of reloads of which ANY SUBSET may fail (unparsable ClientConf, subnets file that does not load):
   chain_ok constrains only the publications that load. *)
Theorem C13_pinned_order_safe : forall s pubs reqs y,
  mem (r_api s) (r_gens s) = true -> chain_ok (r_gens s) pubs = true ->
  yreach (yinit s pinned_order pubs reqs) y ->
  mem (r_api (y_st y)) (r_gens (y_st y)) = true /\
  forall i q ok set g' cc, nth_error (y_reqs y) i = Some q -> q_phase q = QDone ok set g' cc ->
    (mem (q_gen q) (r_gens s) = true \/ (q_dns q = false /\ cc <> None)) -> ok = true.
Proof. exact pinned_order_safe. Qed.
Print Assumptions C13_pinned_order_safe.

(* The same statement is FALSE for the swapped order (front ends first, ReloadSubnets last). *)
Theorem C13_swapped_order_refuted :
  ~ (forall s pubs reqs y, mem (r_api s) (r_gens s) = true -> chain_ok (r_gens s) pubs = true ->
       yreach (yinit s swapped_order pubs reqs) y ->
       forall i q ok set g' cc, nth_error (y_reqs y) i = Some q -> q_phase q = QDone ok set g' cc ->
         (mem (q_gen q) (r_gens s) = true \/ (q_dns q = false /\ cc <> None)) -> ok = true).
Proof. exact swapped_order_refuted. Qed.
Print Assumptions C13_swapped_order_refuted.

(* Without the abort ("log the failure of ReloadSubnets and carry on") the registrar's generation leaves
   the installed set as soon as one reload fails. *)
Theorem C13_continue_past_failed_reload_refuted :
  ~ (forall s pubs reqs y, mem (r_api s) (r_gens s) = true -> chain_ok (r_gens s) pubs = true ->
       yreach (yinit s noabort_order pubs reqs) y ->
       mem (r_api (y_st y)) (r_gens (y_st y)) = true).
Proof. exact noabort_order_refuted. Qed.
Print Assumptions C13_continue_past_failed_reload_refuted.

(* Nothing in the reload sequence blocks, and every schedule is finite. *)
Theorem C13_reload_sequence_never_blocked : forall y,
  (y_todo y <> [] -> exists y', ystep y 0 = Some y') /\
  (forall i q, nth_error (y_reqs y) i = Some q -> (forall ok s g cc, q_phase q <> QDone ok s g cc) ->
     exists y', ystep y (S i) = Some y').
Proof. exact (fun y => conj (handler_never_blocked y) (request_never_blocked y)). Qed.
Print Assumptions C13_reload_sequence_never_blocked.

Theorem C13_reload_sequence_terminates : forall y a y', ystep y a = Some y' -> S (ymeasure y') = ymeasure y.
Proof. exact ystep_measure. Qed.
Print Assumptions C13_reload_sequence_terminates.
