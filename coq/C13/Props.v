(* C13 property theorems: statements + `exact lemma` only. *)
From CJ Require Import Common.Base C13.Model C13.Proofs C13.ProofsV.
Local Open Scope nat_scope.

(* For ANY number of threads whose traces satisfy the boolean wf, no reachable configuration
   is blocked: either every thread is finished or some thread can take a step. *)
Theorem C13_wf_trace_deadlock_free : forall c0 c,
  wf_init c0 -> reach c0 c -> all_done c = true \/ exists i c', step c i = Some c'.
Proof. exact wf_trace_deadlock_free. Qed.
Print Assumptions C13_wf_trace_deadlock_free.

(* Every schedule is finite: a path of n steps consumes exactly n operations. *)
Theorem C13_every_schedule_terminates : forall c0 n c,
  reach_n c0 n c -> n + measure c = measure c0.
Proof. exact schedules_bounded. Qed.
Print Assumptions C13_every_schedule_terminates.

(* A schedule that cannot be extended has completed every request and every reload. *)
Theorem C13_maximal_runs_complete : forall c0 c,
  wf_init c0 -> reach c0 c -> (forall i, step c i = None) -> all_done c = true.
Proof. exact maximal_runs_complete. Qed.
Print Assumptions C13_maximal_runs_complete.

Theorem C13_can_always_finish : forall c0 c,
  wf_init c0 -> reach c0 c -> exists c', reach c c' /\ all_done c' = true.
Proof. exact can_always_finish. Qed.
Print Assumptions C13_can_always_finish.

(* Every read section of every thread observed exactly one selector version, and it is one
   that was installed between the start and now. *)
Theorem C13_old_or_new_in_full : forall c0 c, wf_init c0 -> reach c0 c ->
  forall j t s, nth_error (threads c) j = Some t -> In s (tlog t) ->
    exists v, ver c0 <= v <= ver c /\ forall x, In x s -> x = v.
Proof. exact old_or_new_in_full. Qed.
Print Assumptions C13_old_or_new_in_full.

Theorem C13_one_section_one_selector : forall v tr c j l0 t,
  forallb wf tr = true -> reach (init_cfg v tr) c ->
  nth_error tr j = Some l0 -> count_rlock l0 <= 1 ->
  nth_error (threads c) j = Some t ->
  exists u, v <= u <= ver c /\ forall x, In x (concat (tlog t)) -> x = u.
Proof. exact one_section_one_selector. Qed.
Print Assumptions C13_one_section_one_selector.

(* The traces of the code (processBdReq for every request kind, ReloadSubnets) are wf ... *)
Theorem C13_code_traces_wf :
  (forall k, wf (trace_of_req k) = true) /\ wf reload_trace = true /\ wf reload_fail_trace = true.
Proof. exact (conj trace_of_req_wf (conj reload_trace_wf eq_refl)). Qed.
Print Assumptions C13_code_traces_wf.

(* ... hence k requests of any kinds, m reloads that succeed and f that fail never block, *)
Theorem C13_code_deadlock_free : forall v reqs m f c, reach (code_cfg v reqs m f) c ->
  all_done c = true \/ exists i c', step c i = Some c'.
Proof. exact code_deadlock_free. Qed.
Print Assumptions C13_code_deadlock_free.

(* each request's selections (IPv4 and IPv6) come from one selector, *)
Theorem C13_code_request_one_selector : forall v reqs m f c j t,
  reach (code_cfg v reqs m f) c -> j < length reqs -> nth_error (threads c) j = Some t ->
  exists u, v <= u <= ver c /\ forall x, In x (concat (tlog t)) -> x = u.
Proof. exact code_request_one_selector. Qed.
Print Assumptions C13_code_request_one_selector.

(* and when everything has finished exactly the m successful reloads have taken effect. *)
Theorem C13_code_reloads_take_effect : forall v reqs m f c,
  reach (code_cfg v reqs m f) c -> all_done c = true -> ver c = v + m.
Proof. exact code_reloads_take_effect. Qed.
Print Assumptions C13_code_reloads_take_effect.
