(* C06 with C07's ingest model: the covert that was checked is the covert that is dialled. *)
From CJ Require Import Common.Base C06.Model C06.Proofs C07.Model C07.Proofs.

Lemma in_announced_regs r l : In (Announce r) l -> In r (announced_regs l).
Proof.
  unfold announced_regs. intro H. apply in_flat_map. exists (Announce r). split; [exact H | now left].
Qed.

Section Dialed.
  Variable parse_ip : bytes -> option ipraw.
  Variable ip_str : ipraw -> bytes.
  Variable re_match : N -> bytes -> bool.
  Hypothesis ip_str_no_brackets : forall a, valid_ip a = true -> wf_bytes a = true -> no_brackets (ip_str a) = true.

  (* the covert policy function the station hands to ingest *)
  Definition covert_fn resolve pol : bytes -> option bytes :=
    fun s => fst (parse_or_resolve parse_ip resolve ip_str re_match pol s).

  (* Proxy dials reg.Covert of the registration object that lookups return.  For every registration that
     becomes valid: that object carries the literal computed for it at admission, and dialling the literal
     reaches the checked address whatever the name system answers by then. *)
  Lemma checked_is_dialed resolve resolve_later pol live cfg st r r' :
    zone_law resolve -> resolver_wf resolve -> literal_law ip_str resolve_later ->
    In (Announce r') (snd (ingest (covert_fn resolve pol) live cfg st r)) ->
    In r' (visible_all (fst (ingest (covert_fn resolve pol) live cfg st r))) /\
    exists lk host port a z a',
      parse_or_resolve parse_ip resolve ip_str re_match pol (r_covert r) = (Some (r_covert r'), lk) /\
      split_host_port (r_covert r) = Some (host, port) /\ resolve host = Some (a, z) /\
      valid_ip a = true /\ blocked pol a = false /\
      dial_target resolve_later (r_covert r') = Some (a', z, port) /\
      norm a' = norm a /\ blocked pol a' = false.
  Proof.
    intros Hz Hwf Hlit Hin. split.
    - rewrite ingest_visible. apply in_app_iff. right. now apply in_announced_regs.
    - destruct (ingest_announced_is_checked _ _ _ _ _ _ Hin) as (lit & Hc & ->).
      unfold covert_fn in Hc.
      destruct (parse_or_resolve parse_ip resolve ip_str re_match pol (r_covert r)) as [o lk] eqn:E.
      cbn [fst] in Hc. subst o.
      destruct (dial_target_is_checked parse_ip ip_str re_match ip_str_no_brackets resolve resolve_later pol _ _ _ Hz Hwf Hlit E)
        as (host & port & a & z & a' & H1 & H2 & H3 & H4 & H5 & H6 & H7).
      exists lk, host, port, a, z, a'. cbn [r_covert set_covert]. repeat split; auto.
  Qed.
End Dialed.
