(* C06 fifth round — the host TEXT dimension against the domain patterns.

   ParseOrResolveBlocklisted hands ONE string, the host part of the covert as written, both to
   isBlocklistedCovertDomain and to net.ResolveIPAddr.  por_norm is the policy function with two
   text transformations made explicit: nc is applied to the host before the pattern check, nr
   before the resolution.  The code is por_norm id id (por_norm_id: it IS Model.parse_or_resolve_tr).

   Proved, for every nc = nr (in particular the code): the name the name system is asked for is
   the text the patterns were checked against, and a checked text that matches a pattern is never
   resolved, let alone accepted.
   Refuted by counterexample (section Refuted): nr <> nc ("normalise after the check": the host is
   mapped onto another name between check and resolution) and nc <> nr ("fold the host only": the
   host is case-folded for the check while the patterns are not). *)
From CJ Require Import Common.Base C06.Model.

Section HostText.
  Variable parse_ip : bytes -> option ipraw.
  Variable resolve : bytes -> option (ipraw * bytes).
  Variable ip_str : ipraw -> bytes.
  Variable re_match : N -> bytes -> bool.
  Variable nc nr : bytes -> bytes.

  (* result, lookup flag, names handed to the resolver, texts handed to the pattern matcher *)
  Definition por_norm (pol : policy) (s : bytes) : option bytes * bool * list bytes * list bytes :=
    match parse_ip s with
    | Some _ => (None, false, [], [])
    | None =>
      match split_host_port s with
      | None => (None, false, [], [])
      | Some (host, port) =>
        if dom_blocked re_match pol (nc host) then (None, false, [], [nc host])
        else if negb (port_ok port) then (None, false, [], [nc host])
        else
          let lookup := match parse_ip host with None => true | Some _ => false end in
          match resolve (nr host) with
          | None => (None, lookup, [nr host], [nc host])
          | Some (ip, zone) =>
            if negb (valid_ip ip) then (None, lookup, [nr host], [nc host])
            else if zoned_v4 ip zone then (None, lookup, [nr host], [nc host])
            else if blocked pol ip then (None, lookup, [nr host], [nc host])
            else (Some (join_host_port (ip_text ip_str ip zone) port), lookup, [nr host], [nc host])
          end
      end
    end.

  Definition pn_out (r : option bytes * bool * list bytes * list bytes) := fst (fst (fst r)).
  Definition pn_resolved (r : option bytes * bool * list bytes * list bytes) := snd (fst r).
  Definition pn_checked (r : option bytes * bool * list bytes * list bytes) := snd r.

  (* every name resolved is a text that was checked, and it matched no pattern *)
  Lemma por_norm_same_text pol s :
    (forall h, nr h = nc h) ->
    forall n, In n (pn_resolved (por_norm pol s)) ->
      In n (pn_checked (por_norm pol s)) /\ dom_blocked re_match pol n = false.
  Proof.
    intros E n. unfold por_norm, pn_resolved, pn_checked.
    destruct (parse_ip s); [cbn; tauto|].
    destruct (split_host_port s) as [[host port]|]; [|cbn; tauto].
    destruct (dom_blocked re_match pol (nc host)) eqn:Ed; [cbn; tauto|].
    destruct (negb (port_ok port)); [cbn; tauto|].
    rewrite E.
    assert (G : In n [nc host] -> In n [nc host] /\ dom_blocked re_match pol n = false).
    { intros [<-|[]]. split; [now left|exact Ed]. }
    destruct (resolve (nc host)) as [[a z]|]; [|exact G].
    destruct (negb (valid_ip a)); [exact G|].
    destruct (zoned_v4 a z); [exact G|].
    destruct (blocked pol a); exact G.
  Qed.

  (* an accepted covert: exactly one text was checked, exactly that text was resolved, it matches no pattern *)
  Lemma por_norm_accepted pol s out :
    (forall h, nr h = nc h) ->
    pn_out (por_norm pol s) = Some out ->
    exists host port, split_host_port s = Some (host, port) /\
      pn_checked (por_norm pol s) = [nc host] /\ pn_resolved (por_norm pol s) = [nc host] /\
      dom_blocked re_match pol (nc host) = false.
  Proof.
    intros E. unfold por_norm, pn_out, pn_resolved, pn_checked.
    destruct (parse_ip s); [discriminate|].
    destruct (split_host_port s) as [[host port]|]; [|discriminate].
    destruct (dom_blocked re_match pol (nc host)) eqn:Ed; [discriminate|].
    destruct (negb (port_ok port)); [discriminate|].
    rewrite E.
    destruct (resolve (nc host)) as [[a z]|]; [|discriminate].
    destruct (negb (valid_ip a)); [discriminate|].
    destruct (zoned_v4 a z); [discriminate|].
    destruct (blocked pol a); [discriminate|].
    intros _. exists host, port. cbn. auto.
  Qed.

  (* a checked text that matches a pattern: rejected, nothing is resolved (whatever nr is) *)
  Lemma por_norm_match_rejected pol s host port p :
    parse_ip s = None -> split_host_port s = Some (host, port) ->
    In p (p_dom pol) -> re_match p (nc host) = true ->
    por_norm pol s = (None, false, [], [nc host]).
  Proof.
    intros Ep Es Hin Hm. unfold por_norm. rewrite Ep, Es.
    assert (D : dom_blocked re_match pol (nc host) = true).
    { unfold dom_blocked. apply existsb_exists. now exists p. }
    now rewrite D.
  Qed.
End HostText.

(* the code: no transformation at either place *)
Lemma por_norm_id parse_ip resolve ip_str re_match pol s :
  let r := por_norm parse_ip resolve ip_str re_match (fun h => h) (fun h => h) pol s in
  (pn_out r, snd (fst (fst r)), pn_resolved r) = parse_or_resolve_tr parse_ip resolve ip_str re_match pol s.
Proof.
  unfold por_norm, parse_or_resolve_tr, pn_out, pn_resolved. cbn zeta.
  destruct (parse_ip s); [reflexivity|].
  destruct (split_host_port s) as [[host port]|]; [|reflexivity].
  destruct (dom_blocked re_match pol host); [reflexivity|].
  destruct (negb (port_ok port)); [reflexivity|].
  destruct (resolve host) as [[a z]|]; [|reflexivity].
  destruct (negb (valid_ip a)); [reflexivity|].
  destruct (zoned_v4 a z); [reflexivity|].
  destruct (blocked pol a); reflexivity.
Qed.

(* stated on the model the correspondence run compares with the code *)
Lemma checked_text_is_resolved_name parse_ip resolve ip_str re_match pol s out lk :
  parse_or_resolve parse_ip resolve ip_str re_match pol s = (Some out, lk) ->
  exists host port, split_host_port s = Some (host, port) /\
    snd (parse_or_resolve_tr parse_ip resolve ip_str re_match pol s) = [host] /\
    dom_blocked re_match pol host = false.
Proof.
  intros H.
  pose proof (por_norm_id parse_ip resolve ip_str re_match pol s) as I. cbn zeta in I.
  assert (O : pn_out (por_norm parse_ip resolve ip_str re_match (fun h => h) (fun h => h) pol s) = Some out).
  { unfold parse_or_resolve in H. rewrite <- I in H. cbn in H. now inversion H. }
  destruct (por_norm_accepted parse_ip resolve ip_str re_match (fun h => h) (fun h => h) pol s out
              (fun _ => eq_refl) O) as (host & port & Es & _ & Er & Ed).
  exists host, port. split; [exact Es|]. split; [|exact Ed].
  rewrite <- I. cbn. exact Er.
Qed.

(* ---------------------------------------------------------------- the two refuted variants *)
Section Refuted.
  (* a tiny world: no string is an IP literal, every name resolves to 8.8.8.8, pattern 0 matches exactly "AB" and
     pattern 1 exactly "ab"; the policy has no subnets, so the pattern is the only thing forbidding anything *)
  Let parse_ip (_ : bytes) : option ipraw := None.
  Let resolve (_ : bytes) : option (ipraw * bytes) := Some ([8; 8; 8; 8], []).
  Let ip_str (_ : ipraw) : bytes := [56].
  Let re_match (p : N) (h : bytes) : bool :=
    if p =? 0 then bytes_eqb h [65; 66] else bytes_eqb h [97; 98].
  Let lower (h : bytes) : bytes := map (fun c => if (65 <=? c) && (c <=? 90) then c + 32 else c) h.
  Let pol_upper := {| p_block := []; p_allow := []; p_allow_on := false; p_dom := [0] |}.
  Let pol_lower := {| p_block := []; p_allow := []; p_allow_on := false; p_dom := [1] |}.

  (* fold-host-only: "AB:1" under pattern ^AB$ — the checked text "ab" does not match, the name asked is "AB" *)
  Example fold_host_only_refuted :
    let r := por_norm parse_ip resolve ip_str re_match lower (fun h => h) pol_upper [65; 66; 58; 49] in
    pn_out r <> None /\ pn_resolved r = [[65; 66]] /\ dom_blocked re_match pol_upper [65; 66] = true.
  Proof. vm_compute. repeat split; discriminate. Qed.

  (* normalise-after-check: "AB:1" under pattern ^ab$ — checked "AB", asked "ab" *)
  Example normalise_after_check_refuted :
    let r := por_norm parse_ip resolve ip_str re_match (fun h => h) lower pol_lower [65; 66; 58; 49] in
    pn_out r <> None /\ pn_checked r = [[65; 66]] /\ pn_resolved r = [[97; 98]] /\
    dom_blocked re_match pol_lower [97; 98] = true.
  Proof. vm_compute. repeat split; discriminate. Qed.

  (* the code's shape on the same inputs: rejected, nothing resolved *)
  Example same_text_rejects :
    por_norm parse_ip resolve ip_str re_match (fun h => h) (fun h => h) pol_upper [65; 66; 58; 49]
      = (None, false, [], [[65; 66]]).
  Proof. vm_compute. reflexivity. Qed.
End Refuted.
