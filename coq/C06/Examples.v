(* C06 non-vacuity: concrete externals and inputs meeting each theorem's hypotheses. *)
From CJ Require Import Common.Base C06.Model C06.Proofs.
From Coq Require Import Lia ZifyN ZifyNat ZifyBool.
Local Open Scope N_scope.

Definition s_ (x : string) : bytes := map N_of_ascii (list_ascii_of_string x).

(* ---------------------------------------------------------------- a small world *)
Definition ip4 (a b c d : N) : bytes := [a; b; c; d].
Definition ip16of4 (a b c d : N) : bytes := v4in6_prefix ++ [a; b; c; d].

Definition ex_parse_ip (s : bytes) : option bytes :=
  if bytes_eqb s (s_ "1.2.3.4") then Some (ip16of4 1 2 3 4)
  else if bytes_eqb s (s_ "10.0.0.1") then Some (ip16of4 10 0 0 1)
  else if bytes_eqb s (s_ "::ffff:10.0.0.1") then Some (ip16of4 10 0 0 1)
  else None.

Definition ex_resolve (h : bytes) : option (bytes * bytes) :=
  if bytes_eqb h [] then Some ([], [])                                  (* Go: &IPAddr{} for an empty host *)
  else if bytes_eqb h (s_ "h.test") then Some (ip4 93 184 216 34, [])  (* a name, answered by DNS *)
  else if bytes_eqb h (s_ "evil.test") then Some (ip4 10 0 0 1, [])
  else match ex_parse_ip h with Some a => Some (a, []) | None => None end.

Definition ex_ip_str (a : bytes) : bytes :=
  let n := norm a in
  if bytes_eqb n (ip4 1 2 3 4) then s_ "1.2.3.4"
  else if bytes_eqb n (ip4 10 0 0 1) then s_ "10.0.0.1"
  else if bytes_eqb n (ip4 93 184 216 34) then s_ "93.184.216.34"
  else s_ "?".

Definition ex_re (p : N) (h : bytes) : bool := (p =? 0) && bytes_eqb h (s_ "localhost").

Definition net10 : ipnet := (ip4 10 0 0 0, ip4 255 0 0 0).
Definition net1234 : ipnet := (ip4 1 2 3 4, ip4 255 255 255 255).
Definition pol_block : policy := {| p_block := [net10]; p_allow := []; p_allow_on := false; p_dom := [0] |}.
Definition pol_allow : policy := {| p_block := [net1234]; p_allow := [net1234]; p_allow_on := true; p_dom := [] |}.

Notation run pol s := (parse_or_resolve ex_parse_ip ex_resolve ex_ip_str ex_re pol (s_ s)).

(* accepted literal, returned unchanged *)
Example ex_accept : run pol_block "1.2.3.4:80" = (Some (s_ "1.2.3.4:80"), false).
Proof. vm_compute. reflexivity. Qed.
(* blocked subnet *)
Example ex_block : run pol_block "10.0.0.1:80" = (None, false).
Proof. vm_compute. reflexivity. Qed.
(* the v4-in-v6 form of a blocked address is blocked too *)
Example ex_block_mapped : run pol_block "[::ffff:10.0.0.1]:80" = (None, false).
Proof. vm_compute. reflexivity. Qed.
(* a name: resolved once, the literal of the answer is returned *)
Example ex_name : run pol_block "h.test:443" = (Some (s_ "93.184.216.34:443"), true).
Proof. vm_compute. reflexivity. Qed.
Example ex_name_trace :
  snd (parse_or_resolve_tr ex_parse_ip ex_resolve ex_ip_str ex_re pol_block (s_ "h.test:443")) = [s_ "h.test"].
Proof. vm_compute. reflexivity. Qed.
(* a name that resolves into a blocked subnet *)
Example ex_name_blocked : run pol_block "evil.test:443" = (None, true).
Proof. vm_compute. reflexivity. Qed.
(* blocklisted domain pattern, bad ports, no host *)
Example ex_domain : run pol_block "localhost:80" = (None, false).
Proof. vm_compute. reflexivity. Qed.
Example ex_port_range : run pol_block "1.2.3.4:65536" = (None, false).
Proof. vm_compute. reflexivity. Qed.
Example ex_port_sign : run pol_block "1.2.3.4:+80" = (None, false).
Proof. vm_compute. reflexivity. Qed.
Example ex_port_max : run pol_block "1.2.3.4:65535" = (Some (s_ "1.2.3.4:65535"), false).
Proof. vm_compute. reflexivity. Qed.
Example ex_empty_host : run pol_block ":80" = (None, true).
Proof. vm_compute. reflexivity. Qed.
Example ex_empty_host_hyp : split_host_port (s_ ":80") = Some ([], s_ "80") /\ ex_resolve [] = Some ([], []).
Proof. vm_compute. auto. Qed.
(* allowlist precedence: 1.2.3.4 is in both lists and passes; everything else is refused *)
Example ex_allow_in : run pol_allow "1.2.3.4:80" = (Some (s_ "1.2.3.4:80"), false).
Proof. vm_compute. reflexivity. Qed.
Example ex_allow_out : run pol_allow "h.test:80" = (None, true).
Proof. vm_compute. reflexivity. Qed.
(* SplitHostPort examples from Go's documentation and error cases *)
Example ex_split1 : split_host_port (s_ "[::1%lo0]:80") = Some (s_ "::1%lo0", s_ "80").
Proof. vm_compute. reflexivity. Qed.
Example ex_split2 : split_host_port (s_ "::1:80") = None.
Proof. vm_compute. reflexivity. Qed.
Example ex_split3 : split_host_port (s_ "[::1]") = None.
Proof. vm_compute. reflexivity. Qed.
Example ex_mapped : blocked pol_block (mapped (ip4 10 0 0 1)) = true /\ length (ip4 10 0 0 1) = 4%nat.
Proof. vm_compute. auto. Qed.

(* ---------------------------------------------------------------- an instance of the assumed laws G1-G5
   A toy "net package" in which an address prints as two letters per byte of its To4-normal form and
   the resolver parses that text back.  It shows that the hypotheses of C06_permitted_literal_unchanged
   and C06_dial_target_is_checked are jointly satisfiable. *)
Definition enc_byte (b : N) : bytes := [97 + b / 16; 97 + b mod 16].
Definition toy_str (a : bytes) : bytes := flat_map enc_byte (norm a).

Fixpoint dec (s : bytes) : bytes :=
  match s with
  | c1 :: c2 :: r => ((c1 - 97) * 16 + (c2 - 97)) :: dec r
  | _ => []
  end.

Fixpoint cut_pct (s : bytes) : bytes * bytes :=
  match s with
  | [] => ([], [])
  | c :: r => if c =? c_pct then ([], r) else let '(a, z) := cut_pct r in (c :: a, z)
  end.

Definition toy_resolve (h : bytes) : option (bytes * bytes) :=
  let '(a, z) := cut_pct h in Some (dec a, z).

Definition toy_parse_ip (s : bytes) : option bytes :=
  match split_host_port s with Some _ => None | None => Some (dec s) end.

Lemma dec_enc l : dec (flat_map enc_byte l) = l.
Proof.
  induction l as [|b l IH]; [reflexivity|]. cbn [flat_map enc_byte app dec]. rewrite IH. f_equal.
  replace (97 + b / 16 - 97) with (b / 16) by lia. replace (97 + b mod 16 - 97) with (b mod 16) by lia.
  pose proof (N.div_mod b 16). lia.
Qed.

Lemma enc_no c l : c < 97 -> has_byte c (flat_map enc_byte l) = false.
Proof.
  intro Hc. induction l as [|b l IH]; [reflexivity|].
  cbn [flat_map enc_byte app]. rewrite !has_byte_cons, IH.
  assert ((97 + b / 16 =? c) = false) by lia. assert ((97 + b mod 16 =? c) = false) by lia.
  now rewrite H, H0.
Qed.

Lemma cut_pct_app a z : has_byte c_pct a = false -> cut_pct (a ++ c_pct :: z) = (a, z).
Proof.
  induction a as [|c a IH]; intro H.
  - cbn. reflexivity.
  - rewrite has_byte_cons in H. apply orb_false_iff in H as [H1 H2].
    cbn [app cut_pct]. rewrite H1, (IH H2). reflexivity.
Qed.

Lemma cut_pct_none a : has_byte c_pct a = false -> cut_pct a = (a, []).
Proof.
  induction a as [|c a IH]; intro H; [reflexivity|].
  rewrite has_byte_cons in H. apply orb_false_iff in H as [H1 H2].
  cbn [cut_pct]. rewrite H1, (IH H2). reflexivity.
Qed.

Lemma to4_len4 a x : to4 a = Some x -> length x = 4%nat.
Proof.
  unfold to4, len_is, ipraw, bytes, byte in *. destruct (Nat.eqb (length a) 4) eqn:E4.
  - intro H; injection H as <-. now apply Nat.eqb_eq.
  - destruct (Nat.eqb (length a) 16) eqn:E16; [|discriminate]. cbn [andb].
    destruct (bytes_eqb (firstn 12 a) v4in6_prefix); [|discriminate].
    apply Nat.eqb_eq in E16.
    assert (Hl : length (skipn 12 a) = 4%nat) by (rewrite skipn_length; lia).
    intro H; injection H as <-. exact Hl.
Qed.

Lemma norm_idem a : valid_ip a = true -> norm (norm a) = norm a /\ valid_ip (norm a) = true.
Proof.
  intro H. destruct (to4 a) as [x|] eqn:E.
  - assert (Hn : norm a = x) by (unfold norm; now rewrite E). rewrite Hn.
    pose proof (to4_len4 a x E) as Hl. unfold norm, to4, valid_ip, len_is. rewrite Hl. cbn. auto.
  - assert (Hn : norm a = a) by (unfold norm; now rewrite E). rewrite !Hn. auto.
Qed.

Theorem toy_G1 : forall s, split_host_port s <> None -> toy_parse_ip s = None.
Proof. intros s H. unfold toy_parse_ip. destruct (split_host_port s); congruence. Qed.

Theorem toy_G2 : forall a, valid_ip a = true -> wf_bytes a = true -> no_brackets (toy_str a) = true.
Proof.
  intros a _ _. apply no_brackets_iff. unfold toy_str. split; apply enc_no; unfold c_lbr, c_rbr; lia.
Qed.

Theorem toy_G5 : forall a a', valid_ip a = true -> valid_ip a' = true -> norm a = norm a' -> toy_str a = toy_str a'.
Proof. intros a a' _ _ H. unfold toy_str. now rewrite H. Qed.

Theorem toy_literal_law : literal_law toy_str toy_resolve.
Proof.
  intros a z Ha _ _ _. exists (norm a). destruct (norm_idem a Ha) as [Hn Hv]. repeat split; auto.
  unfold toy_resolve, ip_text, with_zone, toy_str.
  assert (Hp : has_byte c_pct (flat_map enc_byte (norm a)) = false) by (apply enc_no; unfold c_pct; lia).
  destruct z as [|c z].
  - rewrite (cut_pct_none _ Hp). now rewrite dec_enc.
  - rewrite (cut_pct_app _ _ Hp). now rewrite dec_enc.
Qed.

(* with them, the conditional theorems apply to a concrete permitted address *)
Example toy_permitted_unchanged :
  let a := ip16of4 1 2 3 4 in
  let s := join_host_port (ip_text toy_str a []) (s_ "443") in
  fst (parse_or_resolve toy_parse_ip toy_resolve toy_str ex_re pol_block s) = Some s.
Proof.
  intros a s. unfold s.
  apply (permitted_literal_unchanged toy_parse_ip toy_str ex_re toy_G1 toy_G2 toy_G5 toy_resolve pol_block a [] (s_ "443") toy_literal_law);
    try (vm_compute; reflexivity); intros _; reflexivity.
Qed.
