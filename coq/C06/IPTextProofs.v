(* C06: Go's textual forms of addresses — print/parse facts. *)
From CJ Require Import Common.Base C06.Model C06.Proofs C06.IPText.
From Coq Require Import Lia ZifyN ZifyNat ZifyBool.
Local Open Scope N_scope.

(* ---- a boolean fact for every number below 2^k, checked by computation ---- *)
Fixpoint all_below (P : N -> bool) (k : nat) (base : N) : bool :=
  match k with
  | O => P base
  | S k' => all_below P k' base && all_below P k' (base + 2 ^ N.of_nat k')
  end.

Lemma all_below_spec P k : forall base, all_below P k base = true ->
  forall x, base <= x < base + 2 ^ N.of_nat k -> P x = true.
Proof.
  induction k as [|k IH]; intros base H x Hx.
  - cbn in *. assert (x = base) by lia. now subst.
  - cbn [all_below] in H. apply andb_true_iff in H as [H1 H2].
    rewrite Nat2N.inj_succ, N.pow_succ_r' in Hx.
    destruct (N.lt_ge_cases x (base + 2 ^ N.of_nat k)).
    + apply (IH base H1). lia.
    + apply (IH _ H2). lia.
Qed.

Definition wf_ip (a : bytes) : Prop := forallb wf_byte a = true.

(* ================================================================ IPv4 *)
Fixpoint feed4 (ds : bytes) (val : N) (dl : nat) : option (N * nat) :=
  match ds with
  | [] => Some (val, dl)
  | c :: r =>
    if is_digit c then
      if Nat.eqb dl 1 && (val =? 0) then None
      else let v := val * 10 + (c - 48) in if 255 <? v then None else feed4 r v (S dl)
    else None
  end.

Lemma p4_feed ds : forall first pd val dl fields rest v' dl',
  ds <> [] -> feed4 ds val dl = Some (v', dl') ->
  p4_loop (ds ++ rest) first pd val dl fields = p4_loop rest false false v' dl' fields.
Proof.
  induction ds as [|c r IH]; intros first pd val dl fields rest v' dl' Hne H; [congruence|].
  cbn [feed4] in H. cbn [app p4_loop].
  destruct (is_digit c); [|discriminate].
  destruct (Nat.eqb dl 1 && (val =? 0)); [discriminate|].
  destruct (255 <? val * 10 + (c - 48)); [discriminate|].
  destruct r as [|c' r'].
  - cbn in H. injection H as <- <-. reflexivity.
  - apply IH; [discriminate | exact H].
Qed.

Definition dec_ok (b : N) : bool :=
  match feed4 (dec_byte b) 0 0 with
  | Some (v, k) => (v =? b) && Nat.leb 1 k
  | None => false
  end && match dec_byte b with c :: _ => is_digit c | [] => false end.

Lemma dec_ok_all : all_below dec_ok 8 0 = true.
Proof. vm_compute. reflexivity. Qed.

Lemma dec_byte_feed b : b < 256 ->
  exists k c r, feed4 (dec_byte b) 0 0 = Some (b, k) /\ dec_byte b = c :: r /\ is_digit c = true.
Proof.
  intro Hb. pose proof (all_below_spec dec_ok 8 0 dec_ok_all b) as H.
  assert (Hr : 0 <= b < 0 + 2 ^ N.of_nat 8) by (cbn; lia). specialize (H Hr).
  unfold dec_ok in H. apply andb_true_iff in H as [H1 H2].
  destruct (feed4 (dec_byte b) 0 0) as [[v k]|]; [|discriminate].
  apply andb_true_iff in H1 as [Hv _]. apply N.eqb_eq in Hv. subst v.
  destruct (dec_byte b) as [|c r]; [discriminate|]. exists k, c, r. auto.
Qed.

Lemma p4_field b first pd fields rest : b < 256 ->
  exists k, p4_loop (dec_byte b ++ rest) first pd 0 0 fields = p4_loop rest false false b k fields.
Proof.
  intro Hb. destruct (dec_byte_feed b Hb) as (k & c & r & Hf & Hd & _). exists k.
  apply p4_feed; [rewrite Hd; discriminate | exact Hf].
Qed.

Lemma dec_byte_nonempty b rest : exists c r, dec_byte b ++ rest = c :: r.
Proof.
  unfold dec_byte. destruct (100 <=? b); [|destruct (10 <=? b)]; cbn; eauto.
Qed.

Theorem parse4_print4 a0 a1 a2 a3 :
  a0 < 256 -> a1 < 256 -> a2 < 256 -> a3 < 256 ->
  parse4 (print4 [a0; a1; a2; a3]) = Some [a0; a1; a2; a3].
Proof.
  intros H0 H1 H2 H3. unfold parse4, print4.
  destruct (p4_field a0 true false [] (c_dot :: dec_byte a1 ++ c_dot :: dec_byte a2 ++ c_dot :: dec_byte a3) H0) as (k0 & ->).
  destruct (dec_byte_nonempty a1 (c_dot :: dec_byte a2 ++ c_dot :: dec_byte a3)) as (c1 & r1 & E1).
  cbn [p4_loop]. change (is_digit c_dot) with false. cbv iota. rewrite N.eqb_refl. rewrite E1. cbn [orb length Nat.eqb app].
  rewrite <- E1.
  destruct (p4_field a1 false true [a0] (c_dot :: dec_byte a2 ++ c_dot :: dec_byte a3) H1) as (k1 & ->).
  destruct (dec_byte_nonempty a2 (c_dot :: dec_byte a3)) as (c2 & r2 & E2).
  cbn [p4_loop]. change (is_digit c_dot) with false. cbv iota. rewrite N.eqb_refl. rewrite E2. cbn [orb length Nat.eqb app].
  rewrite <- E2.
  destruct (p4_field a2 false true [a0; a1] (c_dot :: dec_byte a3) H2) as (k2 & ->).
  destruct (dec_byte_nonempty a3 []) as (c3 & r3 & E3). rewrite app_nil_r in E3.
  cbn [p4_loop]. change (is_digit c_dot) with false. cbv iota. rewrite N.eqb_refl. rewrite E3. cbn [orb length Nat.eqb app].
  rewrite <- E3.
  destruct (p4_field a3 false true [a0; a1; a2] [] H3) as (k3 & E). rewrite app_nil_r in E. rewrite E.
  reflexivity.
Qed.

(* ================================================================ IPv6: hex groups *)
Fixpoint feedhex (ds : bytes) (n : nat) (acc : N) : option (nat * N) :=
  match ds with
  | [] => Some (n, acc)
  | c :: r => match hexdig c with
              | Some d => if Nat.leb 4 n then None else feedhex r (S n) (acc * 16 + d)
              | None => None
              end
  end.

Definition stops (rest : bytes) : Prop := match rest with [] => True | c :: _ => hexdig c = None end.

Lemma read_hex_feed ds : forall n acc rest n' acc',
  feedhex ds n acc = Some (n', acc') -> stops rest -> read_hex (ds ++ rest) n acc = Some (n', acc', rest).
Proof.
  induction ds as [|c r IH]; intros n acc rest n' acc' H Hs.
  - cbn in H. injection H as <- <-. cbn [app]. destruct rest as [|c r]; [reflexivity|].
    cbn in Hs. cbn [read_hex]. now rewrite Hs.
  - cbn [feedhex] in H. cbn [app read_hex]. destruct (hexdig c); [|discriminate].
    destruct (Nat.leb 4 n); [discriminate|]. now apply IH.
Qed.

Definition hex_ok (g : N) : bool :=
  match feedhex (hex_group g) 0 0 with
  | Some (k, v) => (v =? g) && Nat.leb 1 k
  | None => false
  end &&
  match hex_group g with c :: _ => match hexdig c with Some _ => true | None => false end | [] => false end &&
  forallb (fun c => negb (c =? c_pct)) (hex_group g).

Lemma hex_ok_all : all_below hex_ok 16 0 = true.
Proof. vm_compute. reflexivity. Qed.

Lemma hex_group_facts g : g < 65536 ->
  (exists k, feedhex (hex_group g) 0 0 = Some (S k, g)) /\
  (exists c r d, hex_group g = c :: r /\ hexdig c = Some d) /\
  has_byte c_pct (hex_group g) = false.
Proof.
  intro Hg. pose proof (all_below_spec hex_ok 16 0 hex_ok_all g) as H.
  assert (Hr : 0 <= g < 0 + 2 ^ N.of_nat 16) by (cbn; lia). specialize (H Hr).
  unfold hex_ok in H. apply andb_true_iff in H as [H H3]. apply andb_true_iff in H as [H1 H2].
  repeat split.
  - destruct (feedhex (hex_group g) 0 0) as [[k v]|]; [|discriminate].
    apply andb_true_iff in H1 as [Hv Hk]. apply N.eqb_eq in Hv. subst v.
    destruct k; [discriminate|]. now exists k.
  - destruct (hex_group g) as [|c r]; [discriminate|]. destruct (hexdig c) as [d|] eqn:E; [|discriminate].
    now exists c, r, d.
  - rewrite has_byte_existsb. apply Bool.not_true_is_false. intro E. apply existsb_exists in E as (x & Hin & Hx).
    rewrite forallb_forall in H3. specialize (H3 x Hin). rewrite Hx in H3. discriminate.
Qed.

Lemma hexdig_colon : hexdig c_colon = None. Proof. reflexivity. Qed.

Definition gbytes (g : N) : bytes := [g / 256; g mod 256].

(* ---- one iteration of the loop on a printed group ---- *)
Lemma p6_step_end f g ell ip : g < 65536 -> (length ip < 16)%nat ->
  p6_loop (S f) (hex_group g) ell ip = Some (ip ++ gbytes g, ell, []).
Proof.
  intros Hg Hl. destruct (hex_group_facts g Hg) as ((k & Hf) & _ & _).
  cbn [p6_loop]. replace (Nat.leb 16 (length ip)) with false by (symmetry; apply Nat.leb_gt; lia).
  rewrite <- (app_nil_r (hex_group g)) at 1. rewrite (read_hex_feed _ _ _ [] _ _ Hf I). reflexivity.
Qed.

Lemma p6_step_colon f g ell ip c r : g < 65536 -> (length ip < 16)%nat -> (c =? c_colon) = false ->
  p6_loop (S f) (hex_group g ++ c_colon :: c :: r) ell ip = p6_loop f (c :: r) ell (ip ++ gbytes g).
Proof.
  intros Hg Hl Hc. destruct (hex_group_facts g Hg) as ((k & Hf) & _ & _).
  cbn [p6_loop]. replace (Nat.leb 16 (length ip)) with false by (symmetry; apply Nat.leb_gt; lia).
  rewrite (read_hex_feed _ _ _ (c_colon :: c :: r) _ _ Hf hexdig_colon).
  cbn [Nat.eqb]. change (c_colon =? c_dot) with false. cbv iota. rewrite N.eqb_refl. cbn [negb]. rewrite Hc. reflexivity.
Qed.

Lemma p6_step_ell_end f g ip : g < 65536 -> (length ip < 16)%nat ->
  p6_loop (S f) (hex_group g ++ [c_colon; c_colon]) None ip = Some (ip ++ gbytes g, Some (length (ip ++ gbytes g)), []).
Proof.
  intros Hg Hl. destruct (hex_group_facts g Hg) as ((k & Hf) & _ & _).
  cbn [p6_loop]. replace (Nat.leb 16 (length ip)) with false by (symmetry; apply Nat.leb_gt; lia).
  rewrite (read_hex_feed _ _ _ [c_colon; c_colon] _ _ Hf hexdig_colon).
  cbn [Nat.eqb]. change (c_colon =? c_dot) with false. cbv iota. rewrite N.eqb_refl. cbn [negb]. reflexivity.
Qed.

Lemma p6_step_ell f g ip c r : g < 65536 -> (length ip < 16)%nat ->
  p6_loop (S f) (hex_group g ++ c_colon :: c_colon :: c :: r) None ip =
  p6_loop f (c :: r) (Some (length (ip ++ gbytes g))) (ip ++ gbytes g).
Proof.
  intros Hg Hl. destruct (hex_group_facts g Hg) as ((k & Hf) & _ & _).
  cbn [p6_loop]. replace (Nat.leb 16 (length ip)) with false by (symmetry; apply Nat.leb_gt; lia).
  rewrite (read_hex_feed _ _ _ (c_colon :: c_colon :: c :: r) _ _ Hf hexdig_colon).
  cbn [Nat.eqb]. change (c_colon =? c_dot) with false. cbv iota. rewrite N.eqb_refl. cbn [negb]. reflexivity.
Qed.

Definition groups_ok (gs : list N) : Prop := Forall (fun g => g < 65536) gs.

Lemma hex_group_head g : g < 65536 -> exists c r, hex_group g = c :: r /\ (c =? c_colon) = false.
Proof.
  intro Hg. destruct (hex_group_facts g Hg) as (_ & (c & r & d & E & Hd) & _). exists c, r. split; [exact E|].
  destruct (c =? c_colon) eqn:Ec; [|reflexivity]. apply N.eqb_eq in Ec. subst c. discriminate.
Qed.

Lemma p6_step_colon' f g g' ell ip rest : g < 65536 -> g' < 65536 -> (length ip < 16)%nat ->
  p6_loop (S f) (hex_group g ++ c_colon :: hex_group g' ++ rest) ell ip = p6_loop f (hex_group g' ++ rest) ell (ip ++ gbytes g).
Proof.
  intros Hg Hg' Hl. destruct (hex_group_head g' Hg') as (c & t & E & Hc). rewrite E. cbn [app].
  now apply p6_step_colon.
Qed.

Lemma p6_step_ell' f g g' ip rest : g < 65536 -> g' < 65536 -> (length ip < 16)%nat ->
  p6_loop (S f) (hex_group g ++ c_colon :: c_colon :: hex_group g' ++ rest) None ip =
  p6_loop f (hex_group g' ++ rest) (Some (length (ip ++ gbytes g))) (ip ++ gbytes g).
Proof.
  intros Hg Hg' Hl. destruct (hex_group_head g' Hg') as (c & t & E & Hc). rewrite E. cbn [app].
  now apply p6_step_ell.
Qed.

Lemma bytes_of_cons g gs : bytes_of (g :: gs) = gbytes g ++ bytes_of gs.
Proof. reflexivity. Qed.

Lemma bytes_of_app a b : bytes_of (a ++ b) = bytes_of a ++ bytes_of b.
Proof. unfold bytes_of. apply flat_map_app. Qed.

Lemma bytes_of_length gs : length (bytes_of gs) = (2 * length gs)%nat.
Proof. induction gs; cbn [bytes_of flat_map app length] in *; [reflexivity|]. unfold bytes_of in IHgs. lia. Qed.

(* a run of printed groups separated by colons, to the end of the text *)
Lemma colon_groups_cons g r : colon_groups (g :: r) = c_colon :: hex_group g ++ colon_groups r.
Proof. reflexivity. Qed.

Lemma p6_plain gs : forall g ell ip f,
  g < 65536 -> groups_ok gs -> (length ip + 2 * (1 + length gs) <= 16)%nat -> (length gs < f)%nat ->
  p6_loop f (hex_group g ++ colon_groups gs) ell ip = Some (ip ++ bytes_of (g :: gs), ell, []).
Proof.
  induction gs as [|g' r IH]; intros g ell ip f Hg Hgs Hlen Hf.
  - destruct f as [|f]; [lia|]. cbn [colon_groups flat_map]. rewrite app_nil_r.
    rewrite p6_step_end by (auto; cbn in Hlen; lia). cbn [bytes_of flat_map]. now rewrite app_nil_r.
  - destruct f as [|f]; [cbn in Hf; lia|]. inversion Hgs as [|? ? Hg' Hr]; subst.
    rewrite colon_groups_cons.
    rewrite p6_step_colon' by (auto; cbn in Hlen; lia).
    rewrite IH; auto.
    + rewrite (bytes_of_cons g (g' :: r)), <- app_assoc. reflexivity.
    + rewrite app_length. cbn [gbytes length] in *. lia.
    + cbn in Hf. lia.
Qed.

Definition dcolon : bytes := [c_colon; c_colon].

(* printed groups, then "::", then either the end or more printed groups *)
Lemma p6_ell pre : forall g ip f post,
  g < 65536 -> groups_ok pre -> groups_ok post ->
  (length ip + 2 * (1 + length pre + length post) < 16)%nat -> (length pre + length post + 1 < f)%nat ->
  p6_loop f (hex_group g ++ colon_groups pre ++ dcolon ++ join_groups post) None ip =
  Some (ip ++ bytes_of (g :: pre) ++ bytes_of post, Some (length (ip ++ bytes_of (g :: pre))), []).
Proof.
  induction pre as [|g' r IH]; intros g ip f post Hg Hpre Hpost Hlen Hf.
  - cbn [colon_groups flat_map app]. destruct f as [|f]; [lia|].
    destruct post as [|p post'].
    + cbn [join_groups]. unfold dcolon. cbn [app]. rewrite p6_step_ell_end by (auto; lia).
      cbn [bytes_of flat_map]. rewrite !app_nil_r. reflexivity.
    + inversion Hpost as [|? ? Hp Hpost']; subst.
      cbn [join_groups]. unfold dcolon. cbn [app].
      rewrite p6_step_ell' by (auto; lia).
      rewrite p6_plain; auto.
      * cbn [bytes_of flat_map]. rewrite !app_nil_r, <- app_assoc. reflexivity.
      * rewrite app_length. cbn [gbytes length] in *. lia.
      * cbn [length] in Hf. lia.
  - destruct f as [|f]; [lia|]. inversion Hpre as [|? ? Hg' Hr]; subst.
    rewrite colon_groups_cons. cbn [app]. rewrite <- app_assoc.
    rewrite p6_step_colon' by (auto; cbn [length] in Hlen; lia).
    rewrite IH; auto.
    + rewrite (bytes_of_cons g (g' :: r)), <- !app_assoc. reflexivity.
    + rewrite app_length. cbn [gbytes length] in *. lia.
    + cbn [length] in Hf. lia.
Qed.

(* ================================================================ IPv6: the zero run *)
Lemma zrun_zeros gs : firstn (zrun gs) gs = repeat 0 (zrun gs).
Proof.
  induction gs as [|g r IH]; [reflexivity|]. cbn [zrun]. destruct (g =? 0) eqn:E; [|reflexivity].
  apply N.eqb_eq in E. subst g. cbn [firstn repeat]. now rewrite IH.
Qed.

Lemma zrun_le gs : (zrun gs <= length gs)%nat.
Proof. induction gs as [|g r IH]; cbn [zrun length]; [lia|]. destruct (g =? 0); lia. Qed.

Lemma skipn_add {A} (b : nat) : forall (l : list A) a, skipn a (skipn b l) = skipn (b + a) l.
Proof.
  induction b as [|b IH]; intros l a; [reflexivity|].
  destruct l as [|x l]; [now rewrite !skipn_nil|]. cbn [skipn Nat.add]. apply IH.
Qed.

(* best_run returns a run that really is a run of zeros of the original list *)
Lemma best_run_spec gs0 : forall gs i best,
  gs = skipn i gs0 -> (i + length gs = length gs0)%nat ->
  (forall j l, best = Some (j, l) -> (2 <= l)%nat /\ (j + l <= length gs0)%nat /\ firstn l (skipn j gs0) = repeat 0 l) ->
  forall j l, best_run gs i best = Some (j, l) ->
    (2 <= l)%nat /\ (j + l <= length gs0)%nat /\ firstn l (skipn j gs0) = repeat 0 l.
Proof.
  induction gs as [|g r IH]; intros i best Hgs Hlen Hbest j l H.
  - cbn in H. now apply Hbest.
  - cbn [best_run] in H. eapply (IH (S i)); [| |  | exact H].
    + replace (S i) with (i + 1)%nat by lia. rewrite <- skipn_add, <- Hgs. reflexivity.
    + cbn [length] in Hlen. lia.
    + intros j' l' Hb.
      destruct (Nat.leb 2 (zrun (g :: r)) && match best with None => true | Some (_, bl) => Nat.ltb bl (zrun (g :: r)) end) eqn:E.
      * injection Hb as <- <-. apply andb_true_iff in E as [E _]. apply Nat.leb_le in E.
        split; [exact E|]. split.
        -- rewrite <- Hlen. apply Nat.add_le_mono_l. exact (zrun_le (g :: r)).
        -- rewrite <- Hgs. exact (zrun_zeros (g :: r)).
      * now apply Hbest.
Qed.

Lemma best_run_top gs j l : best_run gs 0 None = Some (j, l) ->
  (2 <= l)%nat /\ (j + l <= length gs)%nat /\ gs = firstn j gs ++ repeat 0 l ++ skipn (j + l) gs.
Proof.
  intro H. destruct (best_run_spec gs gs 0%nat None eq_refl (eq_refl) ltac:(discriminate) j l H) as (H1 & H2 & H3).
  repeat split; auto.
  rewrite <- (firstn_skipn j gs) at 1. f_equal.
  rewrite <- (firstn_skipn l (skipn j gs)) at 1. rewrite H3, skipn_add. reflexivity.
Qed.

(* ================================================================ bytes <-> groups *)
Lemma bytes_groups ip : wf_ip ip -> Nat.even (length ip) = true -> bytes_of (groups_of ip) = ip.
Proof.
  revert ip. fix IH 1. intros [|hi [|lo r]] Hwf Hev; try reflexivity; [discriminate|].
  unfold wf_ip in Hwf. cbn [forallb] in Hwf. apply andb_true_iff in Hwf as [Hh Hwf]. apply andb_true_iff in Hwf as [Hl Hwf].
  cbn [groups_of]. rewrite bytes_of_cons. unfold gbytes. unfold wf_byte in *.
  cbn [app]. f_equal; [|f_equal].
  - symmetry. apply N.div_unique with lo; lia.
  - symmetry. apply N.mod_unique with hi; lia.
  - apply IH; [exact Hwf | exact Hev].
Qed.

Lemma groups_ok_of ip : wf_ip ip -> groups_ok (groups_of ip).
Proof.
  revert ip. fix IH 1. intros [|hi [|lo r]] Hwf; try constructor.
  - unfold wf_ip in Hwf. cbn [forallb] in Hwf. apply andb_true_iff in Hwf as [Hh Hwf]. apply andb_true_iff in Hwf as [Hl Hwf].
    unfold wf_byte in *. lia.
  - apply IH. unfold wf_ip in *. cbn [forallb] in Hwf. apply andb_true_iff in Hwf as [_ Hwf]. now apply andb_true_iff in Hwf as [_ Hwf].
Qed.

Lemma groups_of_length ip : length ip = 16%nat -> length (groups_of ip) = 8%nat.
Proof. intro H. do 17 (destruct ip as [|? ip]; try discriminate). reflexivity. Qed.

Lemma groups_ok_app a b : groups_ok (a ++ b) <-> groups_ok a /\ groups_ok b.
Proof. apply Forall_app. Qed.

Lemma bytes_of_zeros n : bytes_of (repeat 0 n) = repeat 0 (2 * n).
Proof. induction n; [reflexivity|]. cbn [repeat]. rewrite bytes_of_cons, IHn. replace (2 * S n)%nat with (S (S (2 * n))) by lia. reflexivity. Qed.

(* ---- no '%' in printed text ---- *)
Lemma colon_groups_no_pct gs : groups_ok gs -> has_byte c_pct (colon_groups gs) = false.
Proof.
  induction 1 as [|g r Hg Hr IH]; [reflexivity|]. rewrite colon_groups_cons, has_byte_cons, has_byte_app, IH.
  destruct (hex_group_facts g Hg) as (_ & _ & ->). reflexivity.
Qed.

Lemma join_groups_no_pct gs : groups_ok gs -> has_byte c_pct (join_groups gs) = false.
Proof.
  intros H. destruct gs as [|g r]; [reflexivity|]. inversion H; subst. cbn [join_groups].
  rewrite has_byte_app, colon_groups_no_pct by auto. destruct (hex_group_facts g) as (_ & _ & ->); auto.
Qed.

Lemma cut_at_none c s : has_byte c s = false -> cut_at c s = None.
Proof.
  induction s as [|x r IH]; intro H; [reflexivity|]. rewrite has_byte_cons in H. apply orb_false_iff in H as [H1 H2].
  cbn [cut_at]. now rewrite H1, (IH H2).
Qed.

Lemma cut_at_app c a b : has_byte c a = false -> cut_at c (a ++ c :: b) = Some (a, b).
Proof.
  induction a as [|x r IH]; intro H.
  - cbn. now rewrite N.eqb_refl.
  - rewrite has_byte_cons in H. apply orb_false_iff in H as [H1 H2]. cbn [app cut_at]. now rewrite H1, (IH H2).
Qed.

Lemma colon_groups_len gs : (length gs <= length (colon_groups gs))%nat.
Proof. induction gs as [|g r IH]; [cbn; lia|]. rewrite colon_groups_cons. cbn [length]. rewrite app_length. lia. Qed.

Lemma join_groups_len gs : (length gs <= S (length (join_groups gs)))%nat.
Proof.
  destruct gs as [|g r]; [cbn; lia|]. cbn [join_groups length]. rewrite app_length. pose proof (colon_groups_len r). lia.
Qed.

(* ---- the text of print6, taken apart ---- *)
Lemma strip_lead_plain c t : (c =? c_colon) = false -> strip_lead (c :: t) = (c :: t, None, false).
Proof. intro H. unfold strip_lead. destruct t; [reflexivity|]. now rewrite H. Qed.

Lemma strip_lead_group g rest : g < 65536 -> strip_lead (hex_group g ++ rest) = (hex_group g ++ rest, None, false).
Proof. intro Hg. destruct (hex_group_head g Hg) as (c & t & E & Hc). rewrite E. cbn [app]. now apply strip_lead_plain. Qed.

Lemma body_join gs : groups_ok gs -> length gs = 8%nat -> parse6_body (join_groups gs) = Some (bytes_of gs).
Proof.
  intros Hok Hlen. destruct gs as [|g r]; [discriminate|]. inversion Hok as [|? ? Hg Hr]; subst.
  unfold parse6_body. cbn [join_groups]. rewrite (strip_lead_group g _ Hg).
  rewrite p6_plain; auto.
  - cbn [app]. rewrite bytes_of_length. cbn [length] in Hlen. injection Hlen as Hlen. cbn [length]. rewrite Hlen. reflexivity.
  - cbn [length] in *. lia.
  - pose proof (colon_groups_len r). rewrite app_length. lia.
Qed.

Lemma firstn_app_len {A} (a b : list A) n : n = length a -> firstn n (a ++ b) = a.
Proof. intros ->. apply firstn_app_exact. Qed.
Lemma skipn_app_len {A} (a b : list A) n : n = length a -> skipn n (a ++ b) = b.
Proof. intros ->. apply skipn_app_exact. Qed.

Lemma body_compressed pre l post :
  groups_ok pre -> groups_ok post -> (2 <= l)%nat -> (length pre + l + length post = 8)%nat ->
  parse6_body (join_groups pre ++ dcolon ++ join_groups post) = Some (bytes_of (pre ++ repeat 0 l ++ post)).
Proof.
  intros Hpre Hpost Hl Hlen. rewrite !bytes_of_app, bytes_of_zeros.
  destruct pre as [|g pre'].
  - cbn [join_groups app length] in *. unfold parse6_body, dcolon. cbn [app strip_lead]. rewrite !N.eqb_refl. cbn [andb].
    destruct post as [|p post'].
    + cbn [join_groups]. cbn [bytes_of flat_map app]. rewrite app_nil_r. cbn [length] in Hlen. f_equal. f_equal. lia.
    + inversion Hpost as [|? ? Hp Hpost']; subst. cbn [join_groups].
      destruct (hex_group_head p Hp) as (c & t & E & Hc).
      assert (Hne : match hex_group p ++ colon_groups post' with [] => true | _ :: _ => false end = false) by (rewrite E; reflexivity).
      rewrite Hne. rewrite p6_plain; auto.
      * cbn [app]. rewrite bytes_of_length. cbn [length] in *.
        replace (Nat.ltb (2 * S (length post')) 16) with true by (symmetry; apply Nat.ltb_lt; lia).
        cbn [firstn skipn app]. f_equal. unfold bytes_of at 2. cbn [flat_map app]. f_equal. f_equal. lia.
      * cbn [length] in *. lia.
      * pose proof (colon_groups_len post'). rewrite app_length. lia.
  - inversion Hpre as [|? ? Hg Hpre']; subst. cbn [join_groups]. rewrite <- app_assoc.
    unfold parse6_body. rewrite (strip_lead_group g _ Hg).
    rewrite p6_ell; auto.
    + cbn [app]. rewrite app_length, !bytes_of_length. cbn [length] in *.
      replace (Nat.ltb (2 * S (length pre') + 2 * length post) 16) with true by (symmetry; apply Nat.ltb_lt; lia).
      rewrite firstn_app_len by (rewrite bytes_of_length; reflexivity). rewrite skipn_app_len by (rewrite bytes_of_length; reflexivity).
      f_equal. f_equal. f_equal. f_equal. lia.
    + cbn [length] in *. lia.
    + pose proof (colon_groups_len pre'). pose proof (join_groups_len post). rewrite !app_length. cbn [length] in *.
      unfold dcolon. cbn [length]. lia.
Qed.

Lemma dcolon_join_no_pct a b : groups_ok a -> groups_ok b -> has_byte c_pct (join_groups a ++ dcolon ++ join_groups b) = false.
Proof. intros Ha Hb. rewrite !has_byte_app, !join_groups_no_pct by auto. reflexivity. Qed.

Lemma forall_firstn {A} (P : A -> Prop) n l : Forall P l -> Forall P (firstn n l).
Proof. revert n; induction l; intros [|n] H; try constructor; inversion H; subst; auto. Qed.
Lemma forall_skipn {A} (P : A -> Prop) n l : Forall P l -> Forall P (skipn n l).
Proof.
  revert n; induction l as [|x l IH]; intros n H.
  - rewrite skipn_nil. constructor.
  - destruct n; [exact H|]. inversion H; subst. cbn [skipn]. now apply IH.
Qed.

(* parse (print a) = a for every IPv6 address *)
Theorem parse6_print6 ip : wf_ip ip -> length ip = 16%nat -> parse6 (print6 ip) = Some (ip, []).
Proof.
  intros Hwf Hlen. pose proof (groups_ok_of ip Hwf) as Hok. pose proof (groups_of_length ip Hlen) as H8.
  assert (Hb : bytes_of (groups_of ip) = ip) by (apply bytes_groups; [exact Hwf | now rewrite Hlen]).
  unfold print6, parse6. destruct (best_run (groups_of ip) 0 None) as [[st l]|] eqn:E.
  - destruct (best_run_top _ _ _ E) as (Hl & Hle & Hdec).
    set (pre := firstn st (groups_of ip)) in *. set (post := skipn (st + l) (groups_of ip)) in *.
    assert (Hpre : groups_ok pre) by (apply forall_firstn; exact Hok).
    assert (Hpost : groups_ok post) by (apply forall_skipn; exact Hok).
    change (join_groups pre ++ c_colon :: c_colon :: join_groups post) with (join_groups pre ++ dcolon ++ join_groups post).
    rewrite (cut_at_none _ _ (dcolon_join_no_pct _ _ Hpre Hpost)).
    rewrite (body_compressed pre l post Hpre Hpost Hl).
    + now rewrite <- Hdec, Hb.
    + unfold pre, post. rewrite firstn_length, skipn_length. lia.
  - rewrite (cut_at_none _ _ (join_groups_no_pct _ Hok)). rewrite (body_join _ Hok H8). now rewrite Hb.
Qed.

(* a zone never changes the IP *)
Theorem parse6_print6_zone ip z : wf_ip ip -> length ip = 16%nat -> z <> [] ->
  parse6 (print6 ip ++ c_pct :: z) = Some (ip, z).
Proof.
  intros Hwf Hlen Hz.
  assert (Hbody : parse6_body (print6 ip) = Some ip /\ has_byte c_pct (print6 ip) = false).
  { pose proof (parse6_print6 ip Hwf Hlen) as H. unfold parse6 in H.
    pose proof (groups_ok_of ip Hwf) as Hok.
    assert (Hn : has_byte c_pct (print6 ip) = false).
    { unfold print6. destruct (best_run (groups_of ip) 0 None) as [[st l]|].
      - change (join_groups (firstn st (groups_of ip)) ++ c_colon :: c_colon :: join_groups (skipn (st + l) (groups_of ip)))
          with (join_groups (firstn st (groups_of ip)) ++ dcolon ++ join_groups (skipn (st + l) (groups_of ip))).
        apply dcolon_join_no_pct; [apply forall_firstn | apply forall_skipn]; exact Hok.
      - now apply join_groups_no_pct. }
    rewrite (cut_at_none _ _ Hn) in H. destruct (parse6_body (print6 ip)); [|discriminate]. injection H as ->. auto. }
  destruct Hbody as [Hb Hn]. unfold parse6. rewrite (cut_at_app _ _ _ Hn). destruct z; [congruence|]. now rewrite Hb.
Qed.

(* ================================================================ character classes of printed text *)
Definition hexlow (c : N) : bool := is_digit c || ((97 <=? c) && (c <=? 102)).
Definition plainc (c : N) : bool := negb ((c =? c_dot) || (c =? c_colon) || (c =? c_pct)).
Definition textc (c : N) : bool := hexlow c || (c =? c_colon) || (c =? c_dot).

Definition dec_chars_ok (b : N) : bool :=
  forallb is_digit (dec_byte b) &&
  match feedhex (dec_byte b) 0 0 with Some (S _, _) => true | _ => false end.
Lemma dec_chars_all : all_below dec_chars_ok 8 0 = true.
Proof. vm_compute. reflexivity. Qed.
Lemma dec_chars b : b < 256 ->
  forallb is_digit (dec_byte b) = true /\ exists k v, feedhex (dec_byte b) 0 0 = Some (S k, v).
Proof.
  intro Hb. pose proof (all_below_spec dec_chars_ok 8 0 dec_chars_all b) as H.
  assert (Hr : 0 <= b < 0 + 2 ^ N.of_nat 8) by (cbn; lia). specialize (H Hr).
  unfold dec_chars_ok in H. apply andb_true_iff in H as [H1 H2]. split; [exact H1|].
  destruct (feedhex (dec_byte b) 0 0) as [[[|k] v]|]; try discriminate. eauto.
Qed.

Definition hex_chars_ok (g : N) : bool := forallb hexlow (hex_group g).
Lemma hex_chars_all : all_below hex_chars_ok 16 0 = true.
Proof. vm_compute. reflexivity. Qed.
Lemma hex_chars g : g < 65536 -> forallb hexlow (hex_group g) = true.
Proof.
  intro Hg. apply (all_below_spec hex_chars_ok 16 0 hex_chars_all g). cbn; lia.
Qed.

Lemma forallb_impl {A} (p q : A -> bool) l : (forall x, p x = true -> q x = true) -> forallb p l = true -> forallb q l = true.
Proof. intros H. induction l; cbn; [auto|]. intro E. apply andb_true_iff in E as [E1 E2]. now rewrite (H _ E1), IHl. Qed.

Lemma digit_hexlow c : is_digit c = true -> hexlow c = true.
Proof. unfold hexlow. now intros ->. Qed.
Lemma hexlow_textc c : hexlow c = true -> textc c = true.
Proof. unfold textc. now intros ->. Qed.
Lemma hexlow_plainc c : hexlow c = true -> plainc c = true.
Proof. unfold hexlow, plainc, is_digit, c_dot, c_colon, c_pct. lia. Qed.

Lemma first_decisive_app h c rest :
  forallb plainc h = true -> (c =? c_dot) || (c =? c_colon) || (c =? c_pct) = true ->
  first_decisive (h ++ c :: rest) = Some c.
Proof.
  intros Hh Hc. induction h as [|x h IH]; cbn [app first_decisive].
  - now rewrite Hc.
  - cbn [forallb] in Hh. apply andb_true_iff in Hh as [Hx Hh]. unfold plainc in Hx. apply negb_true_iff in Hx.
    rewrite Hx. now apply IH.
Qed.

Lemma textc_no c s : forallb textc s = true -> textc c = false -> has_byte c s = false.
Proof.
  intros Hs Hc. rewrite has_byte_existsb. apply Bool.not_true_is_false. intro E.
  apply existsb_exists in E as (x & Hin & Hx). apply N.eqb_eq in Hx. subst x.
  rewrite forallb_forall in Hs. rewrite (Hs c Hin) in Hc. discriminate.
Qed.

(* ---- print4 ---- *)
Lemma print4_textc a0 a1 a2 a3 : a0 < 256 -> a1 < 256 -> a2 < 256 -> a3 < 256 -> forallb textc (print4 [a0; a1; a2; a3]) = true.
Proof.
  intros H0 H1 H2 H3. unfold print4.
  assert (D : forall b, b < 256 -> forallb textc (dec_byte b) = true).
  { intros b Hb. destruct (dec_chars b Hb) as [Hd _]. eapply forallb_impl; [|exact Hd].
    intros x Hx. apply hexlow_textc, digit_hexlow, Hx. }
  repeat (rewrite forallb_app; cbn [forallb]). rewrite !D by auto. reflexivity.
Qed.

Theorem parse_addr_print4 a0 a1 a2 a3 : a0 < 256 -> a1 < 256 -> a2 < 256 -> a3 < 256 ->
  parse_addr (print4 [a0; a1; a2; a3]) = Some ([a0; a1; a2; a3], []).
Proof.
  intros H0 H1 H2 H3. unfold parse_addr.
  assert (Hfd : first_decisive (print4 [a0; a1; a2; a3]) = Some c_dot).
  { unfold print4. apply first_decisive_app; [|reflexivity].
    destruct (dec_chars a0 H0) as [Hd _]. eapply forallb_impl; [|exact Hd].
    intros x Hx. apply hexlow_plainc, digit_hexlow, Hx. }
  rewrite Hfd. rewrite N.eqb_refl. now rewrite parse4_print4.
Qed.

(* ---- print6 ---- *)
Lemma colon_groups_textc gs : groups_ok gs -> forallb textc (colon_groups gs) = true.
Proof.
  induction 1 as [|g r Hg Hr IH]; [reflexivity|]. rewrite colon_groups_cons.
  change (c_colon :: hex_group g ++ colon_groups r) with ([c_colon] ++ hex_group g ++ colon_groups r).
  rewrite !forallb_app. apply andb_true_iff; split; [reflexivity|]. apply andb_true_iff; split;
    [exact (forallb_impl _ _ _ hexlow_textc (hex_chars g Hg)) | exact IH].
Qed.
Lemma join_groups_textc gs : groups_ok gs -> forallb textc (join_groups gs) = true.
Proof.
  intro H. destruct gs as [|g r]; [reflexivity|]. inversion H; subst. cbn [join_groups].
  rewrite forallb_app. apply andb_true_iff; split;
    [exact (forallb_impl _ _ _ hexlow_textc (hex_chars g H2)) | now apply colon_groups_textc].
Qed.

Lemma print6_textc ip : wf_ip ip -> forallb textc (print6 ip) = true.
Proof.
  intro Hwf. pose proof (groups_ok_of ip Hwf) as Hok. unfold print6.
  destruct (best_run (groups_of ip) 0 None) as [[st l]|].
  - change (join_groups (firstn st (groups_of ip)) ++ c_colon :: c_colon :: join_groups (skipn (st + l) (groups_of ip)))
      with (join_groups (firstn st (groups_of ip)) ++ dcolon ++ join_groups (skipn (st + l) (groups_of ip))).
    rewrite !forallb_app. apply andb_true_iff; split; [apply join_groups_textc, forall_firstn, Hok|].
    apply andb_true_iff; split; [reflexivity | apply join_groups_textc, forall_skipn, Hok].
  - now apply join_groups_textc.
Qed.

Lemma join_groups_shape g r rest : g < 65536 -> (r <> [] \/ exists t, rest = c_colon :: t) ->
  exists h t, join_groups (g :: r) ++ rest = h ++ c_colon :: t /\ forallb plainc h = true.
Proof.
  intros Hg Hor. exists (hex_group g). cbn [join_groups].
  assert (Hp : forallb plainc (hex_group g) = true) by (exact (forallb_impl _ _ _ hexlow_plainc (hex_chars g Hg))).
  destruct r as [|g' r'].
  - destruct Hor as [Hr|(t & ->)]; [congruence|]. exists t. cbn [colon_groups flat_map]. rewrite app_nil_r. auto.
  - rewrite colon_groups_cons. eexists. rewrite <- app_assoc. cbn [app]. split; [reflexivity | exact Hp].
Qed.

Lemma print6_shape ip : wf_ip ip -> length ip = 16%nat ->
  exists h t, print6 ip = h ++ c_colon :: t /\ forallb plainc h = true.
Proof.
  intros Hwf Hlen. pose proof (groups_ok_of ip Hwf) as Hok. pose proof (groups_of_length ip Hlen) as H8.
  unfold print6. destruct (best_run (groups_of ip) 0 None) as [[st l]|] eqn:E.
  - destruct (firstn st (groups_of ip)) as [|g pre'] eqn:Ep.
    + exists [], (c_colon :: join_groups (skipn (st + l) (groups_of ip))). auto.
    + assert (Hg : g < 65536).
      { pose proof (forall_firstn _ st _ Hok) as F. rewrite Ep in F. now inversion F. }
      apply join_groups_shape; [exact Hg|]. right. eauto.
  - destruct (groups_of ip) as [|g [|g' r]]; try discriminate. inversion Hok; subst.
    destruct (join_groups_shape g (g' :: r) [] H1) as (h & t & Hs & Hp); [left; discriminate|].
    rewrite app_nil_r in Hs. eauto.
Qed.

Theorem parse_addr_print6 ip z : wf_ip ip -> length ip = 16%nat ->
  parse_addr (with_zone (print6 ip) z) = Some (ip, z).
Proof.
  intros Hwf Hlen. destruct (print6_shape ip Hwf Hlen) as (h & t & Hs & Hp).
  unfold parse_addr, with_zone. destruct z as [|c z].
  - rewrite Hs at 1. rewrite (first_decisive_app h c_colon t Hp eq_refl).
    change (c_colon =? c_dot) with false. cbv iota. rewrite N.eqb_refl. now apply parse6_print6.
  - rewrite Hs at 1. rewrite <- app_assoc. cbn [app]. rewrite (first_decisive_app h c_colon _ Hp eq_refl).
    change (c_colon =? c_dot) with false. cbv iota. rewrite N.eqb_refl. apply parse6_print6_zone; auto. discriminate.
Qed.

(* ================================================================ the v4-in-v6 text *)
Definition mapped_prefix_text : bytes := [58; 58; 102; 102; 102; 102; 58].      (* "::ffff:" *)

Lemma hexdig_dot : hexdig c_dot = None. Proof. reflexivity. Qed.

Lemma p6_step_v4 f ip e a0 a1 a2 a3 :
  a0 < 256 -> a1 < 256 -> a2 < 256 -> a3 < 256 -> (length ip + 4 <= 16)%nat ->
  p6_loop (S f) (print4 [a0; a1; a2; a3]) (Some e) ip = Some (ip ++ [a0; a1; a2; a3], Some e, []).
Proof.
  intros H0 H1 H2 H3 Hl. pose proof (parse4_print4 a0 a1 a2 a3 H0 H1 H2 H3) as P.
  destruct (dec_chars a0 H0) as [_ (k & v & Hf)]. unfold print4 in *.
  cbn [p6_loop]. replace (Nat.leb 16 (length ip)) with false by (symmetry; apply Nat.leb_gt; lia).
  rewrite (read_hex_feed _ _ _ (c_dot :: dec_byte a1 ++ c_dot :: dec_byte a2 ++ c_dot :: dec_byte a3) _ _ Hf hexdig_dot).
  cbn [Nat.eqb]. rewrite N.eqb_refl. cbn [andb].
  replace (Nat.ltb 16 (length ip + 4)) with false by (symmetry; apply Nat.ltb_ge; lia).
  now rewrite P.
Qed.

(* concrete instances of the IPv4-in-IPv6 text (the general statement is covered at byte level by
   C06_v4_mapped_same and on every run by the correspondence) *)
Example mapped_text_1 : parse_addr (mapped_prefix_text ++ print4 [10; 0; 0; 1]) = Some (mapped [10; 0; 0; 1], []).
Proof. vm_compute. reflexivity. Qed.
Example mapped_text_2 : parse_addr (mapped_prefix_text ++ print4 [255; 255; 255; 255]) = Some (mapped [255; 255; 255; 255], []).
Proof. vm_compute. reflexivity. Qed.

(* ================================================================ discharging the assumptions about Go's net
   package for literals: with the concrete ParseIP / IP.String / literal ResolveIPAddr, G2, G4 (literal law)
   and G5 are theorems; only the name system stays external *)
Lemma to4_len4 a x : to4 a = Some x -> length x = 4%nat.
Proof.
  unfold to4, len_is. destruct (Nat.eqb (length a) 4) eqn:E4.
  - intro H; injection H as <-. now apply Nat.eqb_eq.
  - destruct (Nat.eqb (length a) 16) eqn:E16; [|discriminate]. cbn [andb].
    destruct (bytes_eqb (firstn 12 a) v4in6_prefix); [|discriminate].
    apply Nat.eqb_eq in E16.
    assert (Hl : length (skipn 12 a) = 4%nat) by (rewrite skipn_length; lia).
    intro H; injection H as <-. exact Hl.
Qed.

Lemma wf_skipn n a : wf_bytes a = true -> wf_bytes (skipn n a) = true.
Proof.
  unfold wf_bytes. revert n; induction a as [|x a IH]; intros [|n] H; auto.
  cbn [forallb] in H. apply andb_true_iff in H as [_ H]. now apply IH.
Qed.

Lemma to4_wf a x : to4 a = Some x -> wf_bytes a = true -> wf_bytes x = true.
Proof.
  unfold to4. destruct (len_is 4 a); [intro H; injection H as <-; auto|].
  destruct (len_is 16 a && bytes_eqb (firstn 12 a) v4in6_prefix); [|discriminate].
  intros H Hw. pose proof (wf_skipn 12 a Hw) as W. injection H as <-. exact W.
Qed.

Lemma four_bytes x : length x = 4%nat -> wf_bytes x = true ->
  exists a0 a1 a2 a3, x = [a0; a1; a2; a3] /\ a0 < 256 /\ a1 < 256 /\ a2 < 256 /\ a3 < 256.
Proof.
  intros Hl Hw. do 5 (destruct x as [|? x]; try discriminate).
  unfold wf_bytes, wf_byte in Hw. cbn [forallb] in Hw.
  repeat (apply andb_true_iff in Hw as [? Hw]). exists b, b0, b1, b2. repeat split; auto; lia.
Qed.

Lemma valid_not_v4_len16 a : valid_ip a = true -> to4 a = None -> length a = 16%nat.
Proof.
  unfold valid_ip, to4, len_is. destruct (Nat.eqb (length a) 4); [discriminate|]. cbn [orb].
  intros H _. now apply Nat.eqb_eq.
Qed.

Lemma ip_str_c_v4 a x : valid_ip a = true -> to4 a = Some x -> ip_str_c a = print4 x.
Proof.
  intros Hv E. unfold ip_str_c. destruct a as [|b a]; [discriminate|]. now rewrite Hv, E.
Qed.
Lemma ip_str_c_v6 a : valid_ip a = true -> to4 a = None -> ip_str_c a = print6 a.
Proof.
  intros Hv E. unfold ip_str_c. destruct a as [|b a]; [discriminate|]. now rewrite Hv, E.
Qed.

Theorem ip_str_c_textc a : valid_ip a = true -> wf_bytes a = true -> forallb textc (ip_str_c a) = true.
Proof.
  intros Hv Hw. destruct (to4 a) as [x|] eqn:E.
  - rewrite (ip_str_c_v4 a x Hv E).
    destruct (four_bytes x (to4_len4 a x E) (to4_wf a x E Hw)) as (a0 & a1 & a2 & a3 & -> & ? & ? & ? & ?).
    now apply print4_textc.
  - rewrite (ip_str_c_v6 a Hv E). now apply print6_textc.
Qed.

(* G2 *)
Theorem ip_str_c_no_brackets a : valid_ip a = true -> wf_bytes a = true -> no_brackets (ip_str_c a) = true.
Proof.
  intros Hv Hw. pose proof (ip_str_c_textc a Hv Hw) as Ht. apply no_brackets_iff.
  split; apply (textc_no _ _ Ht); reflexivity.
Qed.

(* G5 *)
Theorem ip_str_c_norm a a' : valid_ip a = true -> valid_ip a' = true -> norm a = norm a' -> ip_str_c a = ip_str_c a'.
Proof.
  intros Hv Hv' Hn. unfold norm in Hn.
  destruct (to4 a) as [x|] eqn:E; destruct (to4 a') as [x'|] eqn:E'.
  - subst x'. now rewrite (ip_str_c_v4 a x Hv E), (ip_str_c_v4 a' x Hv' E').
  - subst x. exfalso. pose proof (to4_len4 _ _ E) as L. pose proof (valid_not_v4_len16 _ Hv' E') as L'. lia.
  - subst x'. exfalso. pose proof (to4_len4 _ _ E') as L. pose proof (valid_not_v4_len16 _ Hv E) as L'. lia.
  - now subst a'.
Qed.

Lemma resolve_with_literal names h r : resolve_literal h = Some r -> resolve_with names h = Some r.
Proof.
  intro H. unfold resolve_with. destruct h as [|c t]; [discriminate|]. now rewrite H.
Qed.

(* G4: the literal law holds for the concrete functions, whatever the name system answers *)
Theorem literal_law_concrete names : literal_law ip_str_c (resolve_with names).
Proof.
  intros a z Hv Hw H4 Hz. unfold ip_text. destruct (to4 a) as [x|] eqn:E.
  - assert (z = []) by (apply H4; unfold addr_is_v4; now rewrite E). subst z. unfold with_zone.
    rewrite (ip_str_c_v4 a x Hv E).
    destruct (four_bytes x (to4_len4 a x E) (to4_wf a x E Hw)) as (a0 & a1 & a2 & a3 & -> & ? & ? & ? & ?).
    exists (to16 [a0; a1; a2; a3]). split; [|split].
    + apply resolve_with_literal. unfold resolve_literal. now rewrite parse_addr_print4.
    + unfold norm at 2. rewrite E. reflexivity.
    + reflexivity.
  - rewrite (ip_str_c_v6 a Hv E). pose proof (valid_not_v4_len16 a Hv E) as L. exists a. split; [|split; auto].
    apply resolve_with_literal. unfold resolve_literal. rewrite (parse_addr_print6 a z Hw L).
    unfold to16, len_is. rewrite L. reflexivity.
Qed.

(* G3 for the literal branch: the zone is a piece of the host *)
Lemma cut_at_spec c s a b : cut_at c s = Some (a, b) -> s = a ++ c :: b.
Proof.
  revert a; induction s as [|x r IH]; intros a H; [discriminate|]. cbn [cut_at] in H.
  destruct (x =? c) eqn:E.
  - injection H as <- <-. apply N.eqb_eq in E. now subst.
  - destruct (cut_at c r) as [[a' b']|]; [|discriminate]. injection H as <- <-. cbn [app]. f_equal. now apply IH.
Qed.

Lemma parse_addr_zone_piece h a z : parse_addr h = Some (a, z) -> no_brackets h = true -> no_brackets z = true.
Proof.
  unfold parse_addr. destruct (first_decisive h) as [c|]; [|discriminate].
  destruct (c =? c_dot).
  - destruct (parse4 h); [|discriminate]. intro H; injection H as _ <-. reflexivity.
  - destruct (c =? c_colon); [|discriminate]. unfold parse6.
    destruct (cut_at c_pct h) as [[s zz]|] eqn:Ec.
    + destruct zz as [|q zz]; [discriminate|]. destruct (parse6_body s); [|discriminate].
      intro H; injection H as _ <-. intro Hb. apply cut_at_spec in Ec. subst h.
      rewrite no_brackets_app in Hb. apply andb_true_iff in Hb as [_ Hb].
      change (c_pct :: q :: zz) with ([c_pct] ++ q :: zz) in Hb. rewrite no_brackets_app in Hb.
      now apply andb_true_iff in Hb as [_ Hb].
    + destruct (parse6_body h); [|discriminate]. intro H; injection H as _ <-. reflexivity.
Qed.

Theorem zone_law_concrete names :
  (forall h a z, names h = Some (a, z) -> no_brackets z = true) -> zone_law (resolve_with names).
Proof.
  intros Hn h a z H Hb. unfold resolve_with in H. destruct h as [|c t].
  - injection H as _ <-. reflexivity.
  - unfold resolve_literal in H. destruct (parse_addr (c :: t)) as [[a0 z0]|] eqn:E.
    + injection H as _ <-. eapply parse_addr_zone_piece; eauto.
    + eapply Hn; eauto.
Qed.

(* ================================================================ G1 for the printed forms: the joined text
   "a.b.c.d:port" / "[v6%zone]:port" is not itself accepted by ParseIP *)
Lemma p4_print4_rest a0 a1 a2 a3 rest :
  a0 < 256 -> a1 < 256 -> a2 < 256 -> a3 < 256 ->
  exists k, p4_loop (print4 [a0; a1; a2; a3] ++ rest) true false 0 0 [] = p4_loop rest false false a3 k [a0; a1; a2].
Proof.
  intros H0 H1 H2 H3.
  assert (Eq : print4 [a0; a1; a2; a3] ++ rest =
               dec_byte a0 ++ c_dot :: dec_byte a1 ++ c_dot :: dec_byte a2 ++ c_dot :: dec_byte a3 ++ rest).
  { unfold print4. repeat (rewrite <- app_assoc; cbn [app]). reflexivity. }
  rewrite Eq.
  destruct (p4_field a0 true false [] (c_dot :: dec_byte a1 ++ c_dot :: dec_byte a2 ++ c_dot :: dec_byte a3 ++ rest) H0) as (k0 & ->).
  destruct (dec_byte_nonempty a1 (c_dot :: dec_byte a2 ++ c_dot :: dec_byte a3 ++ rest)) as (c1 & r1 & E1).
  cbn [p4_loop]. change (is_digit c_dot) with false. cbv iota. rewrite N.eqb_refl. rewrite E1. cbn [orb length Nat.eqb app].
  rewrite <- E1.
  destruct (p4_field a1 false true [a0] (c_dot :: dec_byte a2 ++ c_dot :: dec_byte a3 ++ rest) H1) as (k1 & ->).
  destruct (dec_byte_nonempty a2 (c_dot :: dec_byte a3 ++ rest)) as (c2 & r2 & E2).
  cbn [p4_loop]. change (is_digit c_dot) with false. cbv iota. rewrite N.eqb_refl. rewrite E2. cbn [orb length Nat.eqb app].
  rewrite <- E2.
  destruct (p4_field a2 false true [a0; a1] (c_dot :: dec_byte a3 ++ rest) H2) as (k2 & ->).
  destruct (dec_byte_nonempty a3 rest) as (c3 & r3 & E3).
  cbn [p4_loop]. change (is_digit c_dot) with false. cbv iota. rewrite N.eqb_refl. rewrite E3. cbn [orb length Nat.eqb app].
  rewrite <- E3.
  destruct (p4_field a3 false true [a0; a1; a2] rest H3) as (k3 & ->). now exists k3.
Qed.

Definition v4c (c : N) : bool := is_digit c || (c =? c_dot).

Lemma print4_v4c a0 a1 a2 a3 : a0 < 256 -> a1 < 256 -> a2 < 256 -> a3 < 256 -> forallb v4c (print4 [a0; a1; a2; a3]) = true.
Proof.
  intros H0 H1 H2 H3. unfold print4.
  assert (D : forall b, b < 256 -> forallb v4c (dec_byte b) = true).
  { intros b Hb. destruct (dec_chars b Hb) as [Hd _]. eapply forallb_impl; [|exact Hd]. intros x Hx. unfold v4c. now rewrite Hx. }
  repeat (rewrite forallb_app; cbn [forallb]). rewrite !D by auto. reflexivity.
Qed.

Lemma v4c_no c s : forallb v4c s = true -> v4c c = false -> has_byte c s = false.
Proof.
  intros Hs Hc. rewrite has_byte_existsb. apply Bool.not_true_is_false. intro E.
  apply existsb_exists in E as (x & Hin & Hx). apply N.eqb_eq in Hx. subst x.
  rewrite forallb_forall in Hs. rewrite (Hs c Hin) in Hc. discriminate.
Qed.

Lemma parse_addr_v4_joined a0 a1 a2 a3 port :
  a0 < 256 -> a1 < 256 -> a2 < 256 -> a3 < 256 ->
  parse_addr (print4 [a0; a1; a2; a3] ++ c_colon :: port) = None.
Proof.
  intros H0 H1 H2 H3. unfold parse_addr.
  assert (Hfd : first_decisive (print4 [a0; a1; a2; a3] ++ c_colon :: port) = Some c_dot).
  { unfold print4. rewrite <- app_assoc. cbn [app]. apply first_decisive_app; [|reflexivity].
    destruct (dec_chars a0 H0) as [Hd _]. eapply forallb_impl; [|exact Hd].
    intros x Hx. apply hexlow_plainc, digit_hexlow, Hx. }
  rewrite Hfd, N.eqb_refl. unfold parse4.
  destruct (p4_print4_rest a0 a1 a2 a3 (c_colon :: port) H0 H1 H2 H3) as (k & ->). reflexivity.
Qed.

Lemma body_bracket x : parse6_body (c_lbr :: x) = None.
Proof.
  unfold parse6_body.
  assert (Hs : strip_lead (c_lbr :: x) = (c_lbr :: x, None, false)) by (destruct x; reflexivity).
  rewrite Hs. reflexivity.
Qed.

Lemma digits_no_pct p : forallb is_digit p = true -> has_byte c_pct p = false.
Proof.
  intro H. rewrite has_byte_existsb. apply Bool.not_true_is_false. intro E.
  apply existsb_exists in E as (x & Hin & Hx). apply N.eqb_eq in Hx. subst x.
  rewrite forallb_forall in H. specialize (H _ Hin). discriminate.
Qed.

Lemma parse_addr_v6_joined ip z port : wf_ip ip -> length ip = 16%nat -> forallb is_digit port = true ->
  match parse_addr (c_lbr :: with_zone (print6 ip) z ++ c_rbr :: c_colon :: port) with
  | Some (_, []) => False | _ => True end.
Proof.
  intros Hwf Hlen Hport. destruct (print6_shape ip Hwf Hlen) as (h & t & Hs & Hp).
  pose proof (print6_textc ip Hwf) as Ht.
  assert (Hnp : has_byte c_pct (print6 ip) = false) by (apply (textc_no _ _ Ht); reflexivity).
  unfold parse_addr, with_zone.
  assert (Hfd : forall tail, first_decisive (c_lbr :: (print6 ip ++ tail)) = Some c_colon).
  { intro tail. rewrite Hs. rewrite <- app_assoc. cbn [app].
    change (c_lbr :: h ++ c_colon :: t ++ tail) with ((c_lbr :: h) ++ c_colon :: t ++ tail).
    apply first_decisive_app; [|reflexivity]. cbn [forallb]. now rewrite Hp. }
  destruct z as [|q z].
  - rewrite (Hfd (c_rbr :: c_colon :: port)). change (c_colon =? c_dot) with false. cbv iota. rewrite N.eqb_refl.
    unfold parse6.
    assert (Hn : has_byte c_pct (c_lbr :: print6 ip ++ c_rbr :: c_colon :: port) = false).
    { rewrite has_byte_cons, has_byte_app, Hnp, !has_byte_cons, (digits_no_pct _ Hport). reflexivity. }
    rewrite (cut_at_none _ _ Hn). now rewrite body_bracket.
  - assert (Eq : c_lbr :: (print6 ip ++ c_pct :: q :: z) ++ c_rbr :: c_colon :: port =
                 c_lbr :: (print6 ip ++ (c_pct :: q :: z ++ c_rbr :: c_colon :: port)))
      by (rewrite <- app_assoc; reflexivity).
    rewrite Eq, (Hfd (c_pct :: q :: z ++ c_rbr :: c_colon :: port)).
    change (c_colon =? c_dot) with false. cbv iota. rewrite N.eqb_refl. unfold parse6.
    assert (Ec : cut_at c_pct (c_lbr :: (print6 ip ++ (c_pct :: q :: z ++ c_rbr :: c_colon :: port))) =
                 Some (c_lbr :: print6 ip, q :: z ++ c_rbr :: c_colon :: port)).
    { apply (cut_at_app c_pct (c_lbr :: print6 ip)). rewrite has_byte_cons, Hnp. reflexivity. }
    rewrite Ec. now rewrite body_bracket.
Qed.

(* G1 for the strings the function itself produces *)
Theorem parse_ip_c_joined a z port :
  valid_ip a = true -> wf_bytes a = true -> (addr_is_v4 a = true -> z = []) -> port_ok port = true ->
  parse_ip_c (join_host_port (ip_text ip_str_c a z) port) = None.
Proof.
  intros Hv Hw H4 Hport. apply port_ok_spec in Hport as (_ & Hd & _).
  unfold ip_text, parse_ip_c. destruct (to4 a) as [x|] eqn:E.
  - assert (z = []) by (apply H4; unfold addr_is_v4; now rewrite E). subst z. unfold with_zone.
    rewrite (ip_str_c_v4 a x Hv E).
    destruct (four_bytes x (to4_len4 a x E) (to4_wf a x E Hw)) as (a0 & a1 & a2 & a3 & -> & ? & ? & ? & ?).
    pose proof (v4c_no c_colon _ (print4_v4c a0 a1 a2 a3 H H0 H1 H2) eq_refl) as Hnc.
    unfold join_host_port.
    match goal with |- context [if ?b then _ else _] => assert (Hb : b = false) by exact Hnc; rewrite Hb end.
    pose proof (parse_addr_v4_joined a0 a1 a2 a3 port H H0 H1 H2) as P.
    match goal with |- context [parse_addr ?x] => assert (He : parse_addr x = None) by exact P; rewrite He end.
    reflexivity.
  - rewrite (ip_str_c_v6 a Hv E). pose proof (valid_not_v4_len16 a Hv E) as L.
    destruct (print6_shape a Hw L) as (h & t & Hs & Hp).
    assert (Hc : has_byte c_colon (with_zone (print6 a) z) = true).
    { assert (Hm : forall (c : N) (hh tt : bytes), has_byte c (hh ++ c :: tt) = true).
      { intros c hh tt. induction hh as [|y hh IH]; cbn [app]; rewrite has_byte_cons; [now rewrite N.eqb_refl | now rewrite IH, orb_true_r]. }
      unfold with_zone. destruct z as [|q z].
      - rewrite Hs. apply Hm.
      - rewrite has_byte_app. rewrite Hs at 1. now rewrite Hm. }
    unfold join_host_port.
    match goal with |- context [if ?b then _ else _] => assert (Hb : b = true) by exact Hc; rewrite Hb end.
    pose proof (parse_addr_v6_joined a z port Hw L Hd) as P.
    match goal with |- context [parse_addr ?x] =>
      assert (He : match parse_addr x with Some (_, []) => False | _ => True end) by exact P;
      destruct (parse_addr x) as [[? [|? ?]]|]; auto; destruct He end.
Qed.

(* a permitted canonical literal is returned unchanged — no assumption about Go's net package left *)
Theorem permitted_literal_unchanged_concrete names re_match pol a z port :
  valid_ip a = true -> wf_bytes a = true -> (addr_is_v4 a = true -> z = []) -> no_brackets z = true ->
  port_ok port = true -> blocked pol a = false ->
  dom_blocked re_match pol (ip_text ip_str_c a z) = false ->
  let s := join_host_port (ip_text ip_str_c a z) port in
  fst (parse_or_resolve parse_ip_c (resolve_with names) ip_str_c re_match pol s) = Some s.
Proof.
  intros Hv Hw H4 Hz Hp Hb Hd s.
  exact (permitted_literal_unchanged_local parse_ip_c ip_str_c re_match ip_str_c_no_brackets ip_str_c_norm
           (resolve_with names) pol a z port (literal_law_concrete names) Hv Hw H4 Hz Hp Hb Hd
           (parse_ip_c_joined a z port Hv Hw H4 Hp)).
Qed.
