(* C06 — textual forms of IP addresses, concretely: Go's netip.ParseAddr (IPv4 dotted quad; IPv6 with "::",
   embedded IPv4 tail, zone), net.ParseIP, the literal branch of net.ResolveIPAddr, and IP.String
   (dotted quad for IPv4 and IPv4-mapped, RFC 5952 for IPv6).  Definitions only.
   Go 1.23: net/netip/netip.go parseIPv4Fields, parseIPv6, appendTo4, appendTo6, appendHex; net/ip.go String. *)
From CJ Require Import Common.Base C06.Model.

Definition c_dot : N := 46.

(* ---------------------------------------------------------------- IPv4 *)
(* parseIPv4Fields: val, digLen, "first character", "previous was a dot", fields so far *)
Fixpoint p4_loop (s : bytes) (first prevdot : bool) (val : N) (diglen : nat) (fields : list N) : option (list N) :=
  match s with
  | [] => if Nat.ltb (length fields) 3 then None else Some (fields ++ [val])
  | c :: r =>
    if is_digit c then
      if Nat.eqb diglen 1 && (val =? 0) then None                      (* leading zero *)
      else let v := val * 10 + (c - 48) in
           if 255 <? v then None else p4_loop r false false v (S diglen) fields
    else if c =? c_dot then
      if first || (match r with [] => true | _ => false end) || prevdot then None
      else if Nat.eqb (length fields) 3 then None                       (* too long *)
      else p4_loop r false true 0 0 (fields ++ [val])
    else None
  end.

Definition parse4 (s : bytes) : option (list N) := p4_loop s true false 0 0 [].

(* appendDecimal *)
Definition dec_byte (b : N) : bytes :=
  if 100 <=? b then [48 + b / 100; 48 + (b / 10) mod 10; 48 + b mod 10]
  else if 10 <=? b then [48 + b / 10; 48 + b mod 10]
  else [48 + b].

Definition print4 (a : bytes) : bytes :=
  match a with
  | [a0; a1; a2; a3] => dec_byte a0 ++ c_dot :: dec_byte a1 ++ c_dot :: dec_byte a2 ++ c_dot :: dec_byte a3
  | _ => []
  end.

(* ---------------------------------------------------------------- IPv6 *)
Definition hexdig (c : N) : option N :=
  if (48 <=? c) && (c <=? 57) then Some (c - 48)
  else if (97 <=? c) && (c <=? 102) then Some (c - 87)
  else if (65 <=? c) && (c <=? 70) then Some (c - 55)
  else None.

(* the hex-number loop of parseIPv6: digits read, value, rest; None = a fifth digit *)
Fixpoint read_hex (s : bytes) (n : nat) (acc : N) : option (nat * N * bytes) :=
  match s with
  | [] => Some (n, acc, [])
  | c :: r => match hexdig c with
              | Some d => if Nat.leb 4 n then None else read_hex r (S n) (acc * 16 + d)
              | None => Some (n, acc, s)
              end
  end.

(* the main loop: remaining text, position of the ellipsis (in bytes), bytes so far *)
Fixpoint p6_loop (fuel : nat) (s : bytes) (ell : option nat) (ip : bytes) : option (bytes * option nat * bytes) :=
  match fuel with
  | O => None
  | S f =>
    if Nat.leb 16 (length ip) then Some (ip, ell, s)
    else match read_hex s 0 0 with
    | None => None
    | Some (off, acc, rest) =>
      if Nat.eqb off 0 then None
      else
        let embedded := match rest with c :: _ => c =? c_dot | [] => false end in
        if embedded then
          if (match ell with None => true | Some _ => false end) && negb (Nat.eqb (length ip) 12) then None
          else if Nat.ltb 16 (length ip + 4) then None
          else match parse4 s with
               | Some f4 => Some (ip ++ f4, ell, [])
               | None => None
               end
        else
          let ip' := ip ++ [acc / 256; acc mod 256] in
          match rest with
          | [] => Some (ip', ell, [])
          | c :: r1 =>
            if negb (c =? c_colon) then None
            else match r1 with
            | [] => None
            | c2 :: r2 =>
              if c2 =? c_colon then
                match ell with
                | Some _ => None
                | None => match r2 with
                          | [] => Some (ip', Some (length ip'), [])
                          | _ => p6_loop f r2 (Some (length ip')) ip'
                          end
                end
              else p6_loop f r1 ell ip'
            end
          end
    end
  end.

Fixpoint cut_at (c : N) (s : bytes) : option (bytes * bytes) :=
  match s with
  | [] => None
  | x :: r => if x =? c then Some ([], r)
              else match cut_at c r with Some (a, b) => Some (x :: a, b) | None => None end
  end.

(* a leading "::" : remaining text, ellipsis position, "nothing else follows" *)
Definition strip_lead (s : bytes) : bytes * option nat * bool :=
  match s with
  | c1 :: c2 :: r => if (c1 =? c_colon) && (c2 =? c_colon)
                     then (r, Some O, match r with [] => true | _ => false end)
                     else (s, None, false)
  | _ => (s, None, false)
  end.

(* the part of parseIPv6 after the zone has been cut off *)
Definition parse6_body (s : bytes) : option bytes :=
  let '(s1, ell0, only) := strip_lead s in
  if only then Some (repeat 0 16)
  else match p6_loop (S (length s1)) s1 ell0 [] with
  | None => None
  | Some (ip, ell, rest) =>
    match rest with
    | _ :: _ => None                                      (* trailing garbage *)
    | [] =>
      if Nat.ltb (length ip) 16 then
        match ell with
        | None => None                                    (* too short *)
        | Some e => Some (firstn e ip ++ repeat 0 (16 - length ip) ++ skipn e ip)
        end
      else match ell with
           | Some _ => None                               (* :: must expand to at least one group *)
           | None => Some ip
           end
    end
  end.

(* parseIPv6: 16 bytes and the zone (cut at the first '%'; an explicitly empty zone is an error) *)
Definition parse6 (s0 : bytes) : option (bytes * bytes) :=
  match cut_at c_pct s0 with
  | Some (_, []) => None
  | Some (s, z) => match parse6_body s with Some ip => Some (ip, z) | None => None end
  | None => match parse6_body s0 with Some ip => Some (ip, []) | None => None end
  end.

(* netip.ParseAddr: the first of '.', ':', '%' decides *)
Fixpoint first_decisive (s : bytes) : option N :=
  match s with
  | [] => None
  | c :: r => if (c =? c_dot) || (c =? c_colon) || (c =? c_pct) then Some c else first_decisive r
  end.

Definition parse_addr (s : bytes) : option (bytes * bytes) :=
  match first_decisive s with
  | Some c => if c =? c_dot then match parse4 s with Some a => Some (a, []) | None => None end
              else if c =? c_colon then parse6 s
              else None
  | None => None
  end.

Definition to16 (a : bytes) : bytes := if len_is 4 a then v4in6_prefix ++ a else a.

(* net.ParseIP: no zone allowed, always the 16-byte form *)
Definition parse_ip_c (s : bytes) : option bytes :=
  match parse_addr s with
  | Some (a, []) => Some (to16 a)
  | _ => None
  end.

(* the literal branch of lookupIPAddr (ResolveIPAddr): 16-byte form, zone kept *)
Definition resolve_literal (host : bytes) : option (bytes * bytes) :=
  match parse_addr host with
  | Some (a, z) => Some (to16 a, z)
  | None => None
  end.

(* ResolveIPAddr("ip", host): empty host = address without IP; a literal is parsed; a name goes to the
   name system, which stays external *)
Definition resolve_with (names : bytes -> option (bytes * bytes)) (host : bytes) : option (bytes * bytes) :=
  match host with
  | [] => Some ([], [])
  | _ => match resolve_literal host with
         | Some r => Some r
         | None => names host
         end
  end.

(* ---- printing ---- *)
Definition hexchar (d : N) : N := if d <? 10 then 48 + d else 87 + d.

(* appendHex: no leading zeros *)
Definition hex_group (x : N) : bytes :=
  (if 4096 <=? x then [hexchar (x / 4096)] else []) ++
  (if 256 <=? x then [hexchar ((x / 256) mod 16)] else []) ++
  (if 16 <=? x then [hexchar ((x / 16) mod 16)] else []) ++
  [hexchar (x mod 16)].

Fixpoint groups_of (ip : bytes) : list N :=
  match ip with
  | hi :: lo :: r => (hi * 256 + lo) :: groups_of r
  | _ => []
  end.

Definition bytes_of (gs : list N) : bytes := flat_map (fun g => [g / 256; g mod 256]) gs.

Fixpoint zrun (gs : list N) : nat :=
  match gs with
  | g :: r => if g =? 0 then S (zrun r) else O
  | [] => O
  end.

(* the first longest run of at least two zero groups: (start, length) *)
Fixpoint best_run (gs : list N) (i : nat) (best : option (nat * nat)) : option (nat * nat) :=
  match gs with
  | [] => best
  | _ :: r =>
    let l := zrun gs in
    let better := Nat.leb 2 l && match best with None => true | Some (_, bl) => Nat.ltb bl l end in
    best_run r (S i) (if better then Some (i, l) else best)
  end.

Definition colon_groups (gs : list N) : bytes := flat_map (fun g => c_colon :: hex_group g) gs.
Definition join_groups (gs : list N) : bytes :=
  match gs with [] => [] | g :: r => hex_group g ++ colon_groups r end.

Definition print6 (ip : bytes) : bytes :=
  let gs := groups_of ip in
  match best_run gs 0 None with
  | None => join_groups gs
  | Some (st, l) => join_groups (firstn st gs) ++ c_colon :: c_colon :: join_groups (skipn (st + l) gs)
  end.

Definition hexstring (b : bytes) : bytes := flat_map (fun x => [hexchar (x / 16); hexchar (x mod 16)]) b.

(* ipEmptyString / IP.String *)
Definition ip_str_c (a : bytes) : bytes :=
  match a with
  | [] => []
  | _ => if valid_ip a
         then match to4 a with Some a4 => print4 a4 | None => print6 a end
         else 63 :: hexstring a
  end.
