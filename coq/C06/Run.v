(* C06: evaluation of the model on recorded cases (correspondence check). *)
From CJ Require Import Common.Base C06.Model C06.IPText.

(* Oracle values of the external functions on this input, recorded by the driver
   from Go's net / regexp packages in the same resolver epoch:
     parse_whole  = net.ParseIP(s)
     split        = net.SplitHostPort(s)            (compared with the model's, not fed to it)
     parse_host   = net.ParseIP(host)
     res          = net.ResolveIPAddr("ip", host)   as (IP, Zone)
     ipstr        = IP.String() of that address ("" for no IP)
     dom          = MatchString(host) for every configured pattern, in order *)
Record oracle := {
  o_parse_whole : option bytes;
  o_split : option (bytes * bytes);
  o_parse_host : option bytes;
  o_res : option (bytes * bytes);
  o_ipstr : bytes;
  o_dom : list bool
}.

Definition case := (policy * bytes * oracle * (option bytes * bool))%type.

Definition opt_bytes_eqb := option_eqb bytes_eqb.

(* ParseIP, IP.String and the literal branch of ResolveIPAddr are the concrete functions of IPText.v;
   only the name system (o_res, consulted for hosts that are not literals) and regexp matching are oracle values *)
Definition model (pol : policy) (s : bytes) (o : oracle) : option bytes * bool :=
  parse_or_resolve
    parse_ip_c
    (resolve_with (fun _ => o_res o))
    ip_str_c
    (fun p _ => nth (N.to_nat p) (o_dom o) false)
    pol s.

(* the same with every external function taken from the oracle values (kept as a cross-check of the oracles) *)
Definition model_oracle (pol : policy) (s : bytes) (o : oracle) : option bytes * bool :=
  parse_or_resolve
    (fun x => if bytes_eqb x s then o_parse_whole o else o_parse_host o)
    (fun _ => o_res o)
    (fun _ => o_ipstr o)
    (fun p _ => nth (N.to_nat p) (o_dom o) false)
    pol s.

Definition split_agrees (s : bytes) (o : oracle) : bool :=
  option_eqb (fun a b => bytes_eqb (fst a) (fst b) && bytes_eqb (snd a) (snd b))
             (split_host_port s) (o_split o).

(* what the property talks about: the returned string *)
Definition chk (c : case) : bool :=
  let '(pol, s, o, (out, lk)) := c in
  split_agrees s o && opt_bytes_eqb (fst (model pol s o)) out && opt_bytes_eqb (fst (model_oracle pol s o)) out.

(* the "did a lookup" flag only feeds a statistics counter; compared separately, informational *)
Definition chk_lookup (c : case) : bool :=
  let '(pol, s, o, (out, lk)) := c in Bool.eqb (snd (model pol s o)) lk.

(* stand-alone checks of the concrete string functions against Go *)
Definition chk_port (c : bytes * bool) : bool := Bool.eqb (port_ok (fst c)) (snd c).
Definition chk_join (c : bytes * bytes * bytes) : bool :=
  let '(h, p, o) := c in bytes_eqb (join_host_port h p) o.
Definition chk_contains (c : ipnet * bytes * bool) : bool :=
  let '(n, ip, o) := c in Bool.eqb (contains n ip) o.

(* netip.ParseAddr / net.ParseIP / IP.String against Go *)
Definition chk_parseaddr (c : bytes * option (bytes * bytes) * option bytes) : bool :=
  let '(s, pa, pip) := c in
  option_eqb (fun a b => bytes_eqb (fst a) (fst b) && bytes_eqb (snd a) (snd b)) (parse_addr s) pa &&
  opt_bytes_eqb (parse_ip_c s) pip.
Definition chk_ipstr (c : bytes * bytes) : bool := bytes_eqb (ip_str_c (fst c)) (snd c).
