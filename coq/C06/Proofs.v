(* C06: lemmas about the covert-address model. *)
From CJ Require Import Common.Base C06.Model.
From Coq Require Import Lia ZifyN ZifyNat ZifyBool.

Local Open Scope N_scope.

(* ================================================================ strings *)
Lemma has_byte_cons c x r :
  has_byte c (x :: r) = (x =? c) || has_byte c r.
Proof.
  unfold has_byte; cbn [index_byte].
  destruct (x =? c); [reflexivity|]. destruct (index_byte c r); reflexivity.
Qed.

Lemma has_byte_nil c : has_byte c [] = false.
Proof. reflexivity. Qed.

Lemma has_byte_app c a b : has_byte c (a ++ b) = has_byte c a || has_byte c b.
Proof.
  induction a as [|x a IH]; [reflexivity|].
  cbn [app]. rewrite !has_byte_cons, IH. now rewrite orb_assoc.
Qed.

Lemma has_byte_existsb c s : has_byte c s = existsb (fun x => x =? c) s.
Proof.
  induction s as [|x s IH]; [reflexivity|]. rewrite has_byte_cons, IH. reflexivity.
Qed.

Lemma has_byte_firstn c n s : has_byte c s = false -> has_byte c (firstn n s) = false.
Proof.
  revert n; induction s as [|x s IH]; intros [|n] H; try reflexivity.
  cbn [firstn]. rewrite has_byte_cons in *. apply orb_false_iff in H as [H1 H2].
  rewrite H1, (IH n H2). reflexivity.
Qed.

Lemma has_byte_skipn c n s : has_byte c s = false -> has_byte c (skipn n s) = false.
Proof.
  revert n; induction s as [|x s IH]; intros [|n] H; try (exact H || reflexivity).
  cbn [skipn]. rewrite has_byte_cons in H. apply orb_false_iff in H as [_ H2]. now apply IH.
Qed.

Lemma index_byte_firstn c s e : index_byte c s = Some e -> has_byte c (firstn e s) = false.
Proof.
  revert e; induction s as [|x s IH]; intros e H; [discriminate|].
  cbn [index_byte] in H. destruct (x =? c) eqn:E.
  - injection H as <-. reflexivity.
  - destruct (index_byte c s) eqn:E2; [|discriminate]. injection H as <-.
    cbn [firstn]. rewrite has_byte_cons, E, (IH n eq_refl). reflexivity.
Qed.

Lemma index_byte_app_notin c a b :
  has_byte c a = false ->
  index_byte c (a ++ b) = match index_byte c b with Some i => Some (length a + i)%nat | None => None end.
Proof.
  induction a as [|x a IH]; intro H.
  - cbn. destruct (index_byte c b); reflexivity.
  - rewrite has_byte_cons in H. apply orb_false_iff in H as [H1 H2].
    cbn [app index_byte]. rewrite H1, (IH H2). destruct (index_byte c b); reflexivity.
Qed.

Lemma last_index_none c s : has_byte c s = false -> last_index_byte c s = None.
Proof.
  induction s as [|x s IH]; intro H; [reflexivity|].
  rewrite has_byte_cons in H. apply orb_false_iff in H as [H1 H2].
  cbn [last_index_byte]. rewrite (IH H2), H1. reflexivity.
Qed.

Lemma last_index_app_sep c a b :
  has_byte c b = false -> last_index_byte c (a ++ c :: b) = Some (length a).
Proof.
  intro H. induction a as [|x a IH].
  - cbn [app last_index_byte]. rewrite (last_index_none _ _ H), N.eqb_refl. reflexivity.
  - cbn [app last_index_byte length]. rewrite IH. reflexivity.
Qed.

Lemma firstn_app_exact {A} (a b : list A) : firstn (length a) (a ++ b) = a.
Proof. induction a; cbn; [destruct b; reflexivity | now f_equal]. Qed.

Lemma skipn_app_exact {A} (a b : list A) : skipn (length a) (a ++ b) = b.
Proof. induction a; cbn; auto. Qed.

(* the bytes a host / port may not contain for Join and Split to be inverse *)
Definition no_brackets (s : bytes) : bool := negb (has_byte c_lbr s) && negb (has_byte c_rbr s).
Definition plain_port (p : bytes) : bool := negb (has_byte c_colon p) && no_brackets p.

Lemma no_brackets_iff s : no_brackets s = true <-> has_byte c_lbr s = false /\ has_byte c_rbr s = false.
Proof.
  unfold no_brackets. rewrite andb_true_iff, !negb_true_iff. tauto.
Qed.

Lemma no_brackets_app a b : no_brackets (a ++ b) = no_brackets a && no_brackets b.
Proof.
  unfold no_brackets. rewrite !has_byte_app.
  destruct (has_byte c_lbr a), (has_byte c_rbr a), (has_byte c_lbr b), (has_byte c_rbr b); reflexivity.
Qed.

(* ---- SplitHostPort inverts JoinHostPort ---- *)
Lemma split_bracketed host port :
  has_byte c_lbr host = false -> has_byte c_rbr host = false ->
  has_byte c_colon port = false -> has_byte c_lbr port = false -> has_byte c_rbr port = false ->
  split_host_port (c_lbr :: host ++ c_rbr :: c_colon :: port) = Some (host, port).
Proof.
  intros Hl Hr Hpc Hpl Hpr.
  set (n := length host).
  assert (E1 : last_index_byte c_colon (c_lbr :: host ++ c_rbr :: c_colon :: port) = Some (S (S n))).
  { cbn [last_index_byte].
    replace (host ++ c_rbr :: c_colon :: port) with ((host ++ [c_rbr]) ++ c_colon :: port)
      by (rewrite <- app_assoc; reflexivity).
    rewrite (last_index_app_sep c_colon _ _ Hpc), app_length. cbn [length]. f_equal. unfold n. lia. }
  assert (E2 : index_byte c_rbr (c_lbr :: host ++ c_rbr :: c_colon :: port) = Some (S n)).
  { cbn [index_byte]. change (c_lbr =? c_rbr) with false. cbv iota.
    rewrite (index_byte_app_notin _ _ _ Hr). cbn [index_byte]. rewrite N.eqb_refl.
    unfold n. f_equal. lia. }
  assert (E3 : has_byte c_lbr (host ++ c_rbr :: c_colon :: port) = false).
  { rewrite has_byte_app, !has_byte_cons, Hl, Hpl. reflexivity. }
  assert (E4 : skipn (S (S n)) (c_lbr :: host ++ c_rbr :: c_colon :: port) = c_colon :: port).
  { rewrite skipn_cons.
    replace (host ++ c_rbr :: c_colon :: port) with ((host ++ [c_rbr]) ++ c_colon :: port)
      by (rewrite <- app_assoc; reflexivity).
    replace (S n) with (length (host ++ [c_rbr])) by (rewrite app_length; cbn; unfold n; lia).
    apply skipn_app_exact. }
  assert (E5 : skipn (S (S (S n))) (c_lbr :: host ++ c_rbr :: c_colon :: port) = port).
  { rewrite skipn_cons.
    replace (host ++ c_rbr :: c_colon :: port) with ((host ++ [c_rbr; c_colon]) ++ port)
      by (rewrite <- app_assoc; reflexivity).
    replace (S (S n)) with (length (host ++ [c_rbr; c_colon])) by (rewrite app_length; cbn; unfold n; lia).
    apply skipn_app_exact. }
  unfold split_host_port, bytes, byte in *. rewrite E1, E2. rewrite N.eqb_refl, Nat.eqb_refl, E3. rewrite E4. rewrite E5.
  rewrite has_byte_cons, Hpr. change (c_colon =? c_rbr) with false. cbn [orb].
  replace (S n - 1)%nat with n by lia. unfold n. now rewrite firstn_app_exact.
Qed.

Lemma split_plain host port :
  has_byte c_colon host = false ->
  has_byte c_lbr host = false -> has_byte c_rbr host = false ->
  has_byte c_colon port = false -> has_byte c_lbr port = false -> has_byte c_rbr port = false ->
  split_host_port (host ++ c_colon :: port) = Some (host, port).
Proof.
  intros Hc Hl Hr Hpc Hpl Hpr.
  assert (E1 : last_index_byte c_colon (host ++ c_colon :: port) = Some (length host))
    by (now apply last_index_app_sep).
  assert (E3 : has_byte c_lbr (host ++ c_colon :: port) = false).
  { rewrite has_byte_app, has_byte_cons, Hl, Hpl. reflexivity. }
  assert (E4 : has_byte c_rbr (host ++ c_colon :: port) = false).
  { rewrite has_byte_app, has_byte_cons, Hr, Hpr. reflexivity. }
  assert (E5 : skipn (S (length host)) (host ++ c_colon :: port) = port).
  { replace (host ++ c_colon :: port) with ((host ++ [c_colon]) ++ port) by (rewrite <- app_assoc; reflexivity).
    replace (S (length host)) with (length (host ++ [c_colon])) by (rewrite app_length; cbn; lia).
    apply skipn_app_exact. }
  assert (E6 : firstn (length host) (host ++ c_colon :: port) = host) by apply firstn_app_exact.
  unfold split_host_port, bytes, byte in *.
  remember (host ++ c_colon :: port) as s eqn:Es.
  rewrite E1. destruct s as [|c rest].
  { destruct host; discriminate. }
  assert (Hhead : (c =? c_lbr) = false).
  { rewrite has_byte_cons in E3. now apply orb_false_iff in E3 as [E3 _]. }
  rewrite Hhead, E6, Hc, E3, E4, E5. reflexivity.
Qed.

Lemma split_join host port :
  no_brackets host = true -> plain_port port = true ->
  split_host_port (join_host_port host port) = Some (host, port).
Proof.
  intros Hh Hp. apply no_brackets_iff in Hh as [Hl Hr].
  unfold plain_port in Hp. apply andb_true_iff in Hp as [Hpc Hpb].
  apply negb_true_iff in Hpc. apply no_brackets_iff in Hpb as [Hpl Hpr].
  unfold join_host_port. destruct (has_byte c_colon host) eqn:Hc.
  - now apply split_bracketed.
  - now apply split_plain.
Qed.

(* ---- what a successful split guarantees about the host ---- *)
Lemma split_host_no_brackets s host port :
  split_host_port s = Some (host, port) -> no_brackets host = true.
Proof.
  unfold split_host_port. destruct (last_index_byte c_colon s) as [i|]; [|discriminate].
  destruct s as [|c rest]; [discriminate|].
  destruct (c =? c_lbr) eqn:Ec.
  - destruct (index_byte c_rbr (c :: rest)) as [e|] eqn:Ee; [|discriminate].
    destruct (Nat.eqb (S e) i); [|discriminate].
    destruct (has_byte c_lbr rest) eqn:Hl; [discriminate|].
    destruct (has_byte c_rbr (skipn (S e) (c :: rest))); [discriminate|].
    intro H; injection H as <- _.
    apply no_brackets_iff; split.
    + now apply has_byte_firstn.
    + pose proof (index_byte_firstn _ _ _ Ee) as Hf.
      destruct e as [|e].
      * cbn. reflexivity.
      * cbn [firstn] in Hf. rewrite has_byte_cons in Hf. apply orb_false_iff in Hf as [_ Hf].
        replace (S e - 1)%nat with e by lia. exact Hf.
  - destruct (has_byte c_colon (firstn i (c :: rest))); [discriminate|].
    destruct (has_byte c_lbr (c :: rest)) eqn:Hl; [discriminate|].
    destruct (has_byte c_rbr (c :: rest)) eqn:Hr; [discriminate|].
    intro H; injection H as <- _.
    apply no_brackets_iff; split; now apply has_byte_firstn.
Qed.

(* ---- ports ---- *)
Lemma dec_value_acc_digits acc s v : dec_value_acc acc s = Some v -> forallb is_digit s = true.
Proof.
  revert acc; induction s as [|c s IH]; intros acc H; [reflexivity|].
  cbn [dec_value_acc] in H. cbn [forallb]. destruct (is_digit c); [|discriminate].
  now rewrite (IH _ H).
Qed.

Definition dec_spec (s : bytes) : N := fold_left (fun acc c => 10 * acc + (c - 48)) s 0.

Lemma dec_value_acc_spec acc s v :
  dec_value_acc acc s = Some v -> v = fold_left (fun a c => 10 * a + (c - 48)) s acc.
Proof.
  revert acc; induction s as [|c s IH]; intros acc H.
  - cbn in *. now injection H as <-.
  - cbn [dec_value_acc] in H. destruct (is_digit c); [|discriminate]. cbn [fold_left]. now apply IH.
Qed.

Lemma port_ok_spec p :
  port_ok p = true <-> p <> [] /\ forallb is_digit p = true /\ dec_spec p <= 65535.
Proof.
  unfold port_ok, dec_value, dec_spec. split.
  - destruct p as [|c p]; [discriminate|]. intro H.
    destruct (dec_value_acc 0 (c :: p)) as [v|] eqn:E; [|discriminate].
    split; [discriminate|]. split; [eapply dec_value_acc_digits; eauto|].
    rewrite <- (dec_value_acc_spec _ _ _ E). lia.
  - intros (Hne & Hd & Hv). destruct p as [|c p]; [congruence|].
    assert (Hs : forall s acc, forallb is_digit s = true ->
                 dec_value_acc acc s = Some (fold_left (fun a c => 10 * a + (c - 48)) s acc)).
    { induction s as [|x s IH]; intros acc H; [reflexivity|].
      cbn [forallb] in H. apply andb_true_iff in H as [H1 H2].
      cbn [dec_value_acc fold_left]. rewrite H1. now apply IH. }
    rewrite (Hs _ 0 Hd). lia.
Qed.

Lemma digits_plain p : forallb is_digit p = true -> plain_port p = true.
Proof.
  intro H. unfold plain_port, no_brackets. rewrite !has_byte_existsb.
  assert (forall c, (c =? c_colon) = true \/ (c =? c_lbr) = true \/ (c =? c_rbr) = true -> is_digit c = false).
  { intros c. unfold is_digit, c_colon, c_lbr, c_rbr. lia. }
  induction p as [|c p IH]; [reflexivity|].
  cbn [forallb] in H. apply andb_true_iff in H as [H1 H2]. specialize (IH H2).
  cbn [existsb].
  destruct (c =? c_colon) eqn:E1. { rewrite H0 in H1 by auto. discriminate. }
  destruct (c =? c_lbr) eqn:E2. { rewrite H0 in H1 by auto. discriminate. }
  destruct (c =? c_rbr) eqn:E3. { rewrite H0 in H1 by auto. discriminate. }
  exact IH.
Qed.

Lemma port_ok_plain p : port_ok p = true -> plain_port p = true.
Proof. intro H. apply port_ok_spec in H as (_ & H & _). now apply digits_plain. Qed.

(* ================================================================ addresses *)
Lemma contains_norm n a a' : norm a = norm a' -> contains n a = contains n a'.
Proof. unfold contains. now intros ->. Qed.

Lemma in_nets_norm l a a' : norm a = norm a' -> in_nets l a = in_nets l a'.
Proof.
  intro H. unfold in_nets. induction l as [|n l IH]; [reflexivity|].
  cbn [existsb]. now rewrite IH, (contains_norm n _ _ H).
Qed.

Lemma blocked_norm pol a a' : norm a = norm a' -> blocked pol a = blocked pol a'.
Proof.
  intro H. unfold blocked. now rewrite (in_nets_norm _ _ _ H), (in_nets_norm (p_block pol) _ _ H).
Qed.

(* the 16-byte v4-in-v6 form of a 4-byte address *)
Definition mapped (a4 : bytes) : bytes := v4in6_prefix ++ a4.

Lemma norm_mapped a4 : length a4 = 4%nat -> norm (mapped a4) = norm a4.
Proof.
  intro H. destruct a4 as [|b0 [|b1 [|b2 [|b3 [|? ?]]]]]; try discriminate.
  unfold norm, to4, mapped, len_is. cbn. reflexivity.
Qed.

Lemma v4_mapped_same pol a4 : length a4 = 4%nat -> blocked pol (mapped a4) = blocked pol a4.
Proof. intro H. apply blocked_norm. now apply norm_mapped. Qed.

(* nothing contains the nil address under a well-formed subnet *)
Lemma nil_not_contained n nn m :
  net_num_mask n = Some (nn, m) -> nn <> [] -> contains n [] = false.
Proof.
  intros H Hn. unfold contains. rewrite H. cbn. destruct nn; [congruence|reflexivity].
Qed.

(* allowlist precedence *)
Lemma allowlist_on pol a :
  p_allow_on pol = true -> blocked pol a = negb (in_nets (p_allow pol) a).
Proof. unfold blocked. now intros ->. Qed.

Lemma allowlist_off pol a :
  p_allow_on pol = false -> blocked pol a = in_nets (p_block pol) a.
Proof. unfold blocked. now intros ->. Qed.

Lemma allowlist_precedence pol a :
  (p_allow_on pol = true -> blocked pol a = negb (in_nets (p_allow pol) a)) /\
  (p_allow_on pol = false -> blocked pol a = in_nets (p_block pol) a).
Proof. split; [exact (allowlist_on pol a) | exact (allowlist_off pol a)]. Qed.

Lemma in_nets_exists l a : in_nets l a = true <-> exists n, In n l /\ contains n a = true.
Proof. unfold in_nets. apply existsb_exists. Qed.

(* ================================================================ the function *)
Section Fun.
  Variable parse_ip : bytes -> option ipraw.
  Variable resolve : bytes -> option (ipraw * bytes).
  Variable ip_str : ipraw -> bytes.
  Variable re_match : N -> bytes -> bool.

  Notation por := (parse_or_resolve parse_ip resolve ip_str re_match).
  Notation por_tr := (parse_or_resolve_tr parse_ip resolve ip_str re_match).
  Notation lookup_flag host := (match parse_ip host with None => true | Some _ => false end).

  Lemma accepted_is_checked_literal pol s out lk :
    por pol s = (Some out, lk) ->
    exists host port a z,
      parse_ip s = None /\
      split_host_port s = Some (host, port) /\
      port_ok port = true /\
      dom_blocked re_match pol host = false /\
      resolve host = Some (a, z) /\
      valid_ip a = true /\
      blocked pol a = false /\
      out = join_host_port (ip_text ip_str a z) port /\
      lk = lookup_flag host /\
      zoned_v4 a z = false.
  Proof.
    unfold parse_or_resolve, parse_or_resolve_tr.
    destruct (parse_ip s) eqn:Ep; [discriminate|].
    destruct (split_host_port s) as [[host port]|] eqn:Es; [|discriminate].
    destruct (dom_blocked re_match pol host) eqn:Ed; [discriminate|].
    destruct (port_ok port) eqn:Epo; [|discriminate]. cbn [negb].
    destruct (resolve host) as [[a z]|] eqn:Er; [|discriminate].
    destruct (valid_ip a) eqn:Ev; [|discriminate]. cbn [negb].
    destruct (zoned_v4 a z) eqn:Ez; [discriminate|].
    destruct (blocked pol a) eqn:Eb; [discriminate|].
    cbn [fst]. intro H. injection H as <- <-.
    exists host, port, a, z. repeat split; auto.
  Qed.

  (* completeness: when every condition holds the literal is returned *)
  Lemma accepted_when_permitted pol s host port a z :
    parse_ip s = None -> split_host_port s = Some (host, port) -> port_ok port = true ->
    dom_blocked re_match pol host = false -> resolve host = Some (a, z) -> valid_ip a = true ->
    zoned_v4 a z = false -> blocked pol a = false ->
    por pol s = (Some (join_host_port (ip_text ip_str a z) port), lookup_flag host).
  Proof.
    intros Hp Hs Hpo Hd Hr Hv Hz Hb. unfold parse_or_resolve, parse_or_resolve_tr.
    rewrite Hp, Hs, Hd, Hpo, Hr, Hv, Hz, Hb. reflexivity.
  Qed.

  (* each way of being forbidden is a rejection *)
  Lemma rejected_when_forbidden pol s host port :
    split_host_port s = Some (host, port) ->
    (dom_blocked re_match pol host = true \/ port_ok port = false \/ resolve host = None \/
     (exists a z, resolve host = Some (a, z) /\ (valid_ip a = false \/ blocked pol a = true \/ zoned_v4 a z = true))) ->
    fst (por pol s) = None.
  Proof.
    intros Hs H. unfold parse_or_resolve, parse_or_resolve_tr.
    destruct (parse_ip s); [reflexivity|]. rewrite Hs.
    destruct (dom_blocked re_match pol host) eqn:Ed; [reflexivity|].
    destruct (port_ok port) eqn:Ep; [|reflexivity]. cbn [negb].
    destruct H as [H|[H|[H|(a & z & Hr & H)]]]; try discriminate.
    - rewrite H. reflexivity.
    - rewrite Hr. destruct H as [H|[H|H]].
      + rewrite H. reflexivity.
      + destruct (valid_ip a); [|reflexivity]. cbn [negb]. destruct (zoned_v4 a z); [reflexivity|]. rewrite H. reflexivity.
      + destruct (valid_ip a); [|reflexivity]. cbn [negb]. rewrite H. reflexivity.
  Qed.

  Lemma no_split_rejected pol s : split_host_port s = None -> por pol s = (None, false).
  Proof.
    intro H. unfold parse_or_resolve, parse_or_resolve_tr. destruct (parse_ip s); [reflexivity|].
    now rewrite H.
  Qed.

  (* the empty host never gets through, whatever the resolver returns for it,
     as long as that carries no IP (Go: ResolveIPAddr("ip", "") = &IPAddr{}) *)
  Lemma empty_host_rejected pol s port z :
    split_host_port s = Some ([], port) -> resolve [] = Some ([], z) -> fst (por pol s) = None.
  Proof.
    intros Hs Hr. eapply rejected_when_forbidden; eauto.
    right; right; right. exists [], z. split; auto.
  Qed.

  (* ---- the resolver is consulted at most once, for the host of s ---- *)
  Lemma resolved_once_count pol s : (length (snd (por_tr pol s)) <= 1)%nat.
  Proof.
    unfold parse_or_resolve_tr.
    destruct (parse_ip s); [cbn; lia|].
    destruct (split_host_port s) as [[host port]|]; [|cbn; lia].
    destruct (dom_blocked re_match pol host); [cbn; lia|].
    destruct (negb (port_ok port)); [cbn; lia|].
    destruct (resolve host) as [[a z]|]; [|cbn; lia].
    destruct (negb (valid_ip a)); [cbn; lia|].
    destruct (zoned_v4 a z); [cbn; lia|].
    destruct (blocked pol a); cbn; lia.
  Qed.

  Lemma resolved_once_host pol s h :
    In h (snd (por_tr pol s)) -> exists port, split_host_port s = Some (h, port).
  Proof.
    unfold parse_or_resolve_tr.
    destruct (parse_ip s); [cbn; tauto|].
    destruct (split_host_port s) as [[host port]|]; [|cbn; tauto].
    destruct (dom_blocked re_match pol host); [cbn; tauto|].
    destruct (negb (port_ok port)); [cbn; tauto|].
    assert (G : In h [host] -> exists port0, Some (host, port) = Some (h, port0)).
    { intros [<-|[]]. now exists port. }
    destruct (resolve host) as [[a z]|]; [|exact G].
    destruct (negb (valid_ip a)); [exact G|].
    destruct (zoned_v4 a z); [exact G|].
    destruct (blocked pol a); exact G.
  Qed.

  (* an accepted string was resolved exactly once *)
  Lemma resolved_once_accepted pol s out lk :
    por pol s = (Some out, lk) ->
    exists host port, split_host_port s = Some (host, port) /\ snd (por_tr pol s) = [host].
  Proof.
    unfold parse_or_resolve, parse_or_resolve_tr.
    destruct (parse_ip s) eqn:Ep; [discriminate|].
    destruct (split_host_port s) as [[host port]|] eqn:Es; [|discriminate].
    destruct (dom_blocked re_match pol host) eqn:Ed; [discriminate|].
    destruct (port_ok port) eqn:Epo; [|discriminate]. cbn [negb].
    destruct (resolve host) as [[a z]|] eqn:Er; [|discriminate].
    destruct (valid_ip a) eqn:Ev; [|discriminate]. cbn [negb].
    destruct (zoned_v4 a z) eqn:Ez; [discriminate|].
    destruct (blocked pol a) eqn:Eb; [discriminate|].
    intros _. exists host, port. split; reflexivity.
  Qed.
End Fun.

(* the outcome depends on the resolver only through its answer for the host of s *)
Lemma resolver_used_only_at_host parse_ip r1 r2 ip_str re_match pol s :
  (forall h p, split_host_port s = Some (h, p) -> r1 h = r2 h) ->
  parse_or_resolve_tr parse_ip r1 ip_str re_match pol s =
  parse_or_resolve_tr parse_ip r2 ip_str re_match pol s.
Proof.
  intro H. unfold parse_or_resolve_tr.
  destruct (parse_ip s); [reflexivity|].
  destruct (split_host_port s) as [[host port]|]; [|reflexivity].
  rewrite (H host port eq_refl). reflexivity.
Qed.

Lemma resolved_once parse_ip resolve ip_str re_match pol s :
  (length (snd (parse_or_resolve_tr parse_ip resolve ip_str re_match pol s)) <= 1)%nat /\
  (forall h, In h (snd (parse_or_resolve_tr parse_ip resolve ip_str re_match pol s)) ->
             exists port, split_host_port s = Some (h, port)) /\
  (forall out lk, parse_or_resolve parse_ip resolve ip_str re_match pol s = (Some out, lk) ->
             exists host port, split_host_port s = Some (host, port) /\
               snd (parse_or_resolve_tr parse_ip resolve ip_str re_match pol s) = [host]) /\
  (forall resolve2, (forall h p, split_host_port s = Some (h, p) -> resolve h = resolve2 h) ->
             parse_or_resolve_tr parse_ip resolve ip_str re_match pol s =
             parse_or_resolve_tr parse_ip resolve2 ip_str re_match pol s).
Proof.
  repeat split.
  - apply resolved_once_count.
  - apply resolved_once_host.
  - apply resolved_once_accepted.
  - intros. now apply resolver_used_only_at_host.
Qed.

(* ================================================================ histories: no state besides the installed policy *)
Lemma history_stateless parse_ip resolve_at ip_str re_match pre : forall pol n s,
  run_history parse_ip resolve_at ip_str re_match pol n (pre ++ [HCheck s]) =
  run_history parse_ip resolve_at ip_str re_match pol n pre ++
  [parse_or_resolve parse_ip (resolve_at (n + length pre)%nat) ip_str re_match (policy_after pol pre) s].
Proof.
  induction pre as [|op pre IH]; intros pol n s.
  - cbn. now rewrite Nat.add_0_r.
  - destruct op as [s0|p]; cbn [app run_history policy_after length].
    + rewrite IH. cbn [app]. now rewrite Nat.add_succ_r.
    + rewrite IH. now rewrite Nat.add_succ_r.
Qed.

(* whatever was checked and admitted before, whatever the policies were: a string accepted now is accepted
   under the policy in force now *)
Lemma history_accepted_under_current_policy parse_ip resolve_at ip_str re_match pre pol n s out lk :
  last (run_history parse_ip resolve_at ip_str re_match pol n (pre ++ [HCheck s])) (None, false) = (Some out, lk) ->
  exists host port a z,
    split_host_port s = Some (host, port) /\ port_ok port = true /\
    dom_blocked re_match (policy_after pol pre) host = false /\
    resolve_at (n + length pre)%nat host = Some (a, z) /\ valid_ip a = true /\
    blocked (policy_after pol pre) a = false /\ out = join_host_port (ip_text ip_str a z) port.
Proof.
  rewrite history_stateless, last_last. intro H.
  destruct (accepted_is_checked_literal _ _ _ _ _ _ _ _ H) as (host & port & a & z & _ & Hs & Hp & Hd & Hr & Hv & Hb & Ho & _).
  exists host, port, a, z. repeat split; auto.
Qed.

Definition addr_is_v4 (ip : ipraw) : bool := match to4 ip with Some _ => true | None => false end.

Lemma zoned_v4_false_iff a z : zoned_v4 a z = false <-> (addr_is_v4 a = true -> z = []).
Proof.
  unfold zoned_v4, addr_is_v4. destruct z as [|c z].
  - split; [intros _ _; reflexivity | reflexivity].
  - destruct (to4 a).
    + split; [discriminate | intro H; now specialize (H eq_refl)].
    + split; [intros _ H; discriminate | reflexivity].
Qed.

(* for a real address: it has an IPv4 form iff its To4-normal form is 4 bytes long *)
Lemma addr_is_v4_length a : valid_ip a = true -> addr_is_v4 a = Nat.eqb (length (norm a)) 4.
Proof.
  unfold valid_ip, addr_is_v4, norm, to4, len_is. intro Hv.
  destruct (Nat.eqb (length a) 4) eqn:E4; [now rewrite E4|].
  cbn [orb] in Hv. rewrite Hv. cbn [andb].
  destruct (bytes_eqb (firstn 12 a) v4in6_prefix).
  - apply Nat.eqb_eq in Hv. rewrite skipn_length, Hv. reflexivity.
  - now rewrite E4.
Qed.

Lemma addr_is_v4_norm a a' : valid_ip a = true -> valid_ip a' = true -> norm a = norm a' -> addr_is_v4 a = addr_is_v4 a'.
Proof. intros Hv Hv' Hn. now rewrite (addr_is_v4_length a Hv), (addr_is_v4_length a' Hv'), Hn. Qed.

(* ================================================================ Go's net package, assumed *)
Section GoNet.
  Variable parse_ip : bytes -> option ipraw.
  Variable ip_str : ipraw -> bytes.
  Variable re_match : N -> bytes -> bool.

  (* G1: a string that splits into host and port is not itself an IP literal *)
  Hypothesis parse_ip_not_hostport : forall s, split_host_port s <> None -> parse_ip s = None.
  (* G2: IP.String of a real address uses only hex digits, ':' and '.' — in particular no brackets *)
  Hypothesis ip_str_no_brackets : forall a, valid_ip a = true -> wf_bytes a = true -> no_brackets (ip_str a) = true.
  (* G5: IP.String prints the To4 form when there is one *)
  Hypothesis ip_str_norm : forall a a', valid_ip a = true -> valid_ip a' = true -> norm a = norm a' -> ip_str a = ip_str a'.

  (* the literal law for a resolver: ResolveIPAddr of the text of (a, z) gives that address back
     (possibly in the other raw form), whatever the state of the name system *)
  Definition literal_law (resolve : bytes -> option (ipraw * bytes)) : Prop :=
    forall a z, valid_ip a = true -> wf_bytes a = true -> (addr_is_v4 a = true -> z = []) -> no_brackets z = true ->
      exists a', resolve (ip_text ip_str a z) = Some (a', z) /\ norm a' = norm a /\ valid_ip a' = true.
  (* what a resolver returns is made of bytes *)
  Definition resolver_wf (resolve : bytes -> option (ipraw * bytes)) : Prop :=
    forall h a z, resolve h = Some (a, z) -> wf_bytes a = true.
  (* G3: the zone returned for a host is a piece of that host *)
  Definition zone_law (resolve : bytes -> option (ipraw * bytes)) : Prop :=
    forall h a z, resolve h = Some (a, z) -> no_brackets h = true -> no_brackets z = true.

  Lemma ip_text_no_brackets a z :
    valid_ip a = true -> wf_bytes a = true -> no_brackets z = true -> no_brackets (ip_text ip_str a z) = true.
  Proof.
    intros Ha Hw Hz. unfold ip_text, with_zone. destruct z as [|c z]; [now apply ip_str_no_brackets|].
    rewrite no_brackets_app, (ip_str_no_brackets _ Ha Hw).
    change (c_pct :: c :: z) with ([c_pct] ++ c :: z). rewrite no_brackets_app, Hz. reflexivity.
  Qed.

  Lemma ip_text_norm a a' z : valid_ip a = true -> valid_ip a' = true -> norm a = norm a' -> ip_text ip_str a z = ip_text ip_str a' z.
  Proof. intros Hv Hv' H. unfold ip_text. now rewrite (ip_str_norm _ _ Hv Hv' H). Qed.

  (* a well-formed, permitted IP:port in canonical form is accepted unchanged *)
  Lemma permitted_literal_unchanged resolve pol a z port :
    literal_law resolve ->
    valid_ip a = true -> wf_bytes a = true -> (addr_is_v4 a = true -> z = []) -> no_brackets z = true -> port_ok port = true ->
    blocked pol a = false ->
    dom_blocked re_match pol (ip_text ip_str a z) = false ->
    let s := join_host_port (ip_text ip_str a z) port in
    fst (parse_or_resolve parse_ip resolve ip_str re_match pol s) = Some s.
  Proof.
    intros Hlit Ha Hw H4 Hz Hp Hb Hd s.
    assert (Hs : split_host_port s = Some (ip_text ip_str a z, port)).
    { apply split_join; [now apply ip_text_no_brackets | now apply port_ok_plain]. }
    destruct (Hlit a z Ha Hw H4 Hz) as (a' & Hr & Hn & Hv').
    assert (Hpi : parse_ip s = None) by (apply parse_ip_not_hostport; congruence).
    assert (Hzv : zoned_v4 a' z = false).
    { apply zoned_v4_false_iff. rewrite (addr_is_v4_norm a' a Hv' Ha Hn). exact H4. }
    rewrite (accepted_when_permitted parse_ip resolve ip_str re_match pol s _ _ a' z Hpi Hs Hp Hd Hr Hv' Hzv).
    - cbn [fst]. unfold s. now rewrite (ip_text_norm a' a z Hv' Ha Hn).
    - now rewrite (blocked_norm pol a' a Hn).
  Qed.

  (* the same with the only use of G1 made explicit: the joined text is not itself an IP literal *)
  Lemma permitted_literal_unchanged_local resolve pol a z port :
    literal_law resolve ->
    valid_ip a = true -> wf_bytes a = true -> (addr_is_v4 a = true -> z = []) -> no_brackets z = true -> port_ok port = true ->
    blocked pol a = false ->
    dom_blocked re_match pol (ip_text ip_str a z) = false ->
    let s := join_host_port (ip_text ip_str a z) port in
    parse_ip s = None ->
    fst (parse_or_resolve parse_ip resolve ip_str re_match pol s) = Some s.
  Proof.
    intros Hlit Ha Hw H4 Hz Hp Hb Hd s Hpi.
    assert (Hs : split_host_port s = Some (ip_text ip_str a z, port)).
    { apply split_join; [now apply ip_text_no_brackets | now apply port_ok_plain]. }
    destruct (Hlit a z Ha Hw H4 Hz) as (a' & Hr & Hn & Hv').
    assert (Hzv : zoned_v4 a' z = false).
    { apply zoned_v4_false_iff. rewrite (addr_is_v4_norm a' a Hv' Ha Hn). exact H4. }
    rewrite (accepted_when_permitted parse_ip resolve ip_str re_match pol s _ _ a' z Hpi Hs Hp Hd Hr Hv' Hzv).
    - cbn [fst]. unfold s. now rewrite (ip_text_norm a' a z Hv' Ha Hn).
    - now rewrite (blocked_norm pol a' a Hn).
  Qed.

  (* the address that was checked is the address that is dialled: whatever the name system says
     when the connection is made, the returned literal leads to the checked address *)
  Lemma dial_target_is_checked resolve resolve_later pol s out lk :
    zone_law resolve -> resolver_wf resolve -> literal_law resolve_later ->
    parse_or_resolve parse_ip resolve ip_str re_match pol s = (Some out, lk) ->
    exists host port a z a',
      split_host_port s = Some (host, port) /\ resolve host = Some (a, z) /\
      valid_ip a = true /\ blocked pol a = false /\
      dial_target resolve_later out = Some (a', z, port) /\
      norm a' = norm a /\ blocked pol a' = false.
  Proof.
    intros Hz Hwf Hlit H.
    destruct (accepted_is_checked_literal _ _ _ _ _ _ _ _ H)
      as (host & port & a & z & _ & Hs & Hp & _ & Hr & Hv & Hb & -> & _ & Hzv).
    pose proof (split_host_no_brackets _ _ _ Hs) as Hh.
    pose proof (Hz _ _ _ Hr Hh) as Hzz.
    pose proof (Hwf _ _ _ Hr) as Hw.
    pose proof (proj1 (zoned_v4_false_iff a z) Hzv) as H4.
    destruct (Hlit a z Hv Hw H4 Hzz) as (a' & Hr' & Hn & Hv').
    exists host, port, a, z, a'. repeat split; auto.
    - unfold dial_target. rewrite split_join.
      + now rewrite Hr'.
      + now apply ip_text_no_brackets.
      + now apply port_ok_plain.
    - now rewrite (blocked_norm pol a' a Hn).
  Qed.
End GoNet.

(* the same with the quantifiers in the order of the statement in Props.v *)
Lemma dial_target_is_checked_q :
  forall ip_str : ipraw -> bytes,
    (forall a, valid_ip a = true -> wf_bytes a = true -> no_brackets (ip_str a) = true) ->
    forall parse_ip re_match resolve resolve_later pol s out lk,
      zone_law resolve -> resolver_wf resolve -> literal_law ip_str resolve_later ->
      parse_or_resolve parse_ip resolve ip_str re_match pol s = (Some out, lk) ->
      exists host port a z a',
        split_host_port s = Some (host, port) /\ resolve host = Some (a, z) /\
        valid_ip a = true /\ blocked pol a = false /\
        dial_target resolve_later out = Some (a', z, port) /\
        norm a' = norm a /\ blocked pol a' = false.
Proof.
  intros ip_str G2 parse_ip re_match. exact (dial_target_is_checked parse_ip ip_str re_match G2).
Qed.
