(* C06 — covert address policy (pkg/station/lib/registration_config.go,
   ParseOrResolveBlocklisted and its helpers).  Definitions only.

   Concrete: net.SplitHostPort, strconv.ParseUint(port, 10, 16) acceptance,
   net.JoinHostPort, IPAddr.String's zone suffix, IP.To4, IPNet.Contains
   (with networkNumberAndMask) over raw byte strings, the allowlist /
   blocklist decision.
   External (Section variables, values supplied per case by the driver):
   net.ParseIP, net.ResolveIPAddr("ip", .), IP.String, regexp matching. *)
From CJ Require Import Common.Base.

Definition c_colon : N := 58.   (* ':' *)
Definition c_lbr : N := 91.     (* '[' *)
Definition c_rbr : N := 93.     (* ']' *)
Definition c_pct : N := 37.     (* '%' *)

(* ---------------------------------------------------------------- strings *)
Fixpoint index_byte (c : N) (s : bytes) : option nat :=
  match s with
  | [] => None
  | x :: r => if x =? c then Some O
              else match index_byte c r with Some i => Some (S i) | None => None end
  end.

Fixpoint last_index_byte (c : N) (s : bytes) : option nat :=
  match s with
  | [] => None
  | x :: r => match last_index_byte c r with
              | Some i => Some (S i)
              | None => if x =? c then Some O else None
              end
  end.

Definition has_byte (c : N) (s : bytes) : bool :=
  match index_byte c s with Some _ => true | None => false end.

(* net.SplitHostPort: None = any of its errors *)
Definition split_host_port (s : bytes) : option (bytes * bytes) :=
  match last_index_byte c_colon s with
  | None => None                                            (* missing port *)
  | Some i =>
    match s with
    | [] => None
    | c :: rest =>
      if c =? c_lbr then
        match index_byte c_rbr s with
        | None => None                                      (* missing ']' *)
        | Some e =>
          if Nat.eqb (S e) i then
            if has_byte c_lbr rest then None                (* unexpected '[' *)
            else if has_byte c_rbr (skipn (S e) s) then None (* unexpected ']' *)
            else Some (firstn (e - 1) rest, skipn (S i) s)
          else None                                         (* missing port / too many colons *)
        end
      else
        let host := firstn i s in
        if has_byte c_colon host then None                  (* too many colons *)
        else if has_byte c_lbr s then None
        else if has_byte c_rbr s then None
        else Some (host, skipn (S i) s)
    end
  end.

(* net.JoinHostPort *)
Definition join_host_port (host port : bytes) : bytes :=
  if has_byte c_colon host
  then c_lbr :: host ++ c_rbr :: c_colon :: port
  else host ++ c_colon :: port.

(* strconv.ParseUint(s, 10, 16): value of a non-empty all-digit string *)
Definition is_digit (c : N) : bool := (48 <=? c) && (c <=? 57).

Fixpoint dec_value_acc (acc : N) (s : bytes) : option N :=
  match s with
  | [] => Some acc
  | c :: r => if is_digit c then dec_value_acc (10 * acc + (c - 48)) r else None
  end.

Definition dec_value (s : bytes) : option N :=
  match s with [] => None | _ => dec_value_acc 0 s end.

Definition port_ok (p : bytes) : bool :=
  match dec_value p with Some v => v <=? 65535 | None => false end.

(* ---------------------------------------------------------------- addresses *)
(* A net.IP is its raw byte string: 4 bytes, 16 bytes, or (nil) empty. *)
Definition ipraw := bytes.
Definition v4in6_prefix : bytes := [0;0;0;0;0;0;0;0;0;0;255;255].

Definition len_is (n : nat) (b : bytes) : bool := Nat.eqb (length b) n.

(* IP.To4: the 4-byte form, if the address is an IPv4 address *)
Definition to4 (ip : ipraw) : option ipraw :=
  if len_is 4 ip then Some ip
  else if len_is 16 ip && bytes_eqb (firstn 12 ip) v4in6_prefix then Some (skipn 12 ip)
  else None.

(* the canonical form used by Contains / String: 4-byte when IPv4 *)
Definition norm (ip : ipraw) : ipraw :=
  match to4 ip with Some x => x | None => ip end.

(* IP.To16() != nil : a real address *)
Definition valid_ip (ip : ipraw) : bool := len_is 4 ip || len_is 16 ip.

(* net.IPNet as (IP, Mask) raw *)
Definition ipnet := (bytes * bytes)%type.

(* net.networkNumberAndMask *)
Definition net_num_mask (n : ipnet) : option (bytes * bytes) :=
  let '(nip, m) := n in
  let oip := match to4 nip with
             | Some x => Some x
             | None => if len_is 16 nip then Some nip else None
             end in
  match oip with
  | None => None
  | Some ip =>
    if len_is 4 m then (if len_is 4 ip then Some (ip, m) else None)
    else if len_is 16 m then (if len_is 4 ip then Some (ip, skipn 12 m) else Some (ip, m))
    else None
  end.

Fixpoint masked_eq (nn m ip : bytes) : bool :=
  match nn, m, ip with
  | [], _, _ => true
  | a :: nn', k :: m', b :: ip' => (N.land a k =? N.land b k) && masked_eq nn' m' ip'
  | _, _, _ => false
  end.

(* IPNet.Contains *)
Definition contains (n : ipnet) (ip : ipraw) : bool :=
  let ip' := norm ip in
  match net_num_mask n with
  | None => len_is 0 ip'
  | Some (nn, m) => Nat.eqb (length ip') (length nn) && masked_eq nn m ip'
  end.

(* A zone on an address that has an IPv4 form ("::ffff:1.2.3.4%eth0" resolves to such an IPAddr): IPAddr.String
   prints "1.2.3.4%eth0", which is not an address literal — net.Dial would look it up as a host name. *)
Definition zoned_v4 (ip : ipraw) (zone : bytes) : bool :=
  match zone with
  | [] => false
  | _ => match to4 ip with Some _ => true | None => false end
  end.

(* ---------------------------------------------------------------- policy *)
Record policy := {
  p_block : list ipnet;        (* covertBlocklistSubnets *)
  p_allow : list ipnet;        (* covertAllowlistSubnets *)
  p_allow_on : bool;           (* enableCovertAllowlist *)
  p_dom : list N               (* covertBlocklistDomains, as pattern identifiers *)
}.

Definition in_nets (l : list ipnet) (ip : ipraw) : bool := existsb (fun n => contains n ip) l.

(* isBlocklistedCovertAddr: the allowlist, when enabled, takes precedence *)
Definition blocked (pol : policy) (ip : ipraw) : bool :=
  if p_allow_on pol then negb (in_nets (p_allow pol) ip) else in_nets (p_block pol) ip.

(* IPAddr.String given IP.String: zone suffix *)
Definition with_zone (ipstr zone : bytes) : bytes :=
  match zone with [] => ipstr | _ => ipstr ++ c_pct :: zone end.

Section External.
  Variable parse_ip : bytes -> option ipraw.                 (* net.ParseIP; None = nil *)
  Variable resolve : bytes -> option (ipraw * bytes).        (* net.ResolveIPAddr("ip", host): None = error, else (IP, Zone) *)
  Variable ip_str : ipraw -> bytes.                          (* IP.String (ipEmptyString) *)
  Variable re_match : N -> bytes -> bool.                    (* Regexp.MatchString *)

  Definition ip_text (a : ipraw) (z : bytes) : bytes := with_zone (ip_str a) z.

  (* isBlocklistedCovertDomain *)
  Definition dom_blocked (pol : policy) (host : bytes) : bool :=
    existsb (fun p => re_match p host) (p_dom pol).

  (* The function, instrumented: result, lookup flag, and the list of hosts handed to the resolver. *)
  Definition parse_or_resolve_tr (pol : policy) (s : bytes) : option bytes * bool * list bytes :=
    match parse_ip s with
    | Some _ => (None, false, [])                               (* bare IP, no port *)
    | None =>
      match split_host_port s with
      | None => (None, false, [])
      | Some (host, port) =>
        if dom_blocked pol host then (None, false, [])
        else if negb (port_ok port) then (None, false, [])
        else
          let lookup := match parse_ip host with None => true | Some _ => false end in
          match resolve host with
          | None => (None, lookup, [host])
          | Some (ip, zone) =>
            if negb (valid_ip ip) then (None, lookup, [host])    (* no IP (empty host): rejected *)
            else if zoned_v4 ip zone then (None, lookup, [host]) (* IPv4(-mapped) address with a zone: rejected *)
            else if blocked pol ip then (None, lookup, [host])
            else (Some (join_host_port (ip_text ip zone) port), lookup, [host])
          end
      end
    end.

  Definition parse_or_resolve (pol : policy) (s : bytes) : option bytes * bool :=
    fst (parse_or_resolve_tr pol s).

  (* What net.Dial("tcp", s) connects to, as far as the address is concerned:
     the host part resolved by whatever the resolver says at dial time. *)
  Definition dial_target (s : bytes) : option (ipraw * bytes * bytes) :=
    match split_host_port s with
    | None => None
    | Some (host, port) =>
      match resolve host with
      | None => None
      | Some (ip, zone) => Some (ip, zone, port)
      end
    end.
End External.

(* ---------------------------------------------------------------- histories on one RegConfig: checks interleaved
   with configuration reloads (RegistrationManager.OnReload swaps the lists).  The function has no state of
   its own: the only thing a history leaves behind is the policy installed last.  The resolver may answer
   differently at every call (indexed by the position in the history). *)
Inductive hop := HCheck (s : bytes) | HReload (p : policy).

Section History.
  Variable parse_ip : bytes -> option ipraw.
  Variable resolve_at : nat -> bytes -> option (ipraw * bytes).
  Variable ip_str : ipraw -> bytes.
  Variable re_match : N -> bytes -> bool.

  Fixpoint policy_after (pol : policy) (ops : list hop) : policy :=
    match ops with
    | [] => pol
    | HReload p :: r => policy_after p r
    | HCheck _ :: r => policy_after pol r
    end.

  Fixpoint run_history (pol : policy) (n : nat) (ops : list hop) : list (option bytes * bool) :=
    match ops with
    | [] => []
    | HReload p :: r => run_history p (S n) r
    | HCheck s :: r => parse_or_resolve parse_ip (resolve_at n) ip_str re_match pol s :: run_history pol (S n) r
    end.
End History.
