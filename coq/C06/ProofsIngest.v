(* C06 — every registration object that reaches a dial site carries a covert produced by the policy check. *)
From Coq Require Import Lia.
From CJ Require Import Common.Base C06.Model C06.Proofs C06.IPText C06.IPTextProofs C06.IPTextWf C06.ModelIngest.

Lemma find_entry_in st k e : find_entry st k = Some e -> In e st /\ e_key e = k.
Proof.
  induction st as [|a st IH]; cbn [find_entry]; [discriminate|].
  destruct (e_key a =? k) eqn:E.
  - intros [= <-]. split; [now left | now apply N.eqb_eq].
  - intro H. destruct (IH H). split; [now right | assumption].
Qed.

Lemma find_entry_app_l st k e x : find_entry st k = Some e -> find_entry (st ++ x) k = Some e.
Proof.
  induction st as [|a st IH]; cbn [find_entry app]; [discriminate|].
  destruct (e_key a =? k); auto.
Qed.

Lemma find_entry_app_none st k x : find_entry st k = None -> find_entry (st ++ x) k = find_entry x k.
Proof.
  induction st as [|a st IH]; cbn [find_entry app]; [reflexivity|].
  destruct (e_key a =? k); [discriminate | auto].
Qed.

Lemma find_remove_other st k k' : k' <> k -> find_entry (remove_entry st k') k = find_entry st k.
Proof.
  intro Hne. induction st as [|a st IH]; [reflexivity|].
  unfold remove_entry in *. cbn [filter find_entry].
  destruct (e_key a =? k') eqn:E1; cbn [negb].
  - apply N.eqb_eq in E1. destruct (e_key a =? k) eqn:E2; [|exact IH].
    apply N.eqb_eq in E2. congruence.
  - cbn [find_entry]. destruct (e_key a =? k); [reflexivity | exact IH].
Qed.

Lemma find_remove_same st k : find_entry (remove_entry st k) k = None.
Proof.
  induction st as [|a st IH]; [reflexivity|].
  unfold remove_entry in *. cbn [filter].
  destruct (e_key a =? k) eqn:E; cbn [negb]; [exact IH|].
  cbn [find_entry]. now rewrite E.
Qed.

Lemma in_remove_entry st k e : In e (remove_entry st k) -> In e st.
Proof. unfold remove_entry. intro H. now apply filter_In in H. Qed.

Section Ingest.
  Variable parse_ip : bytes -> option ipraw.
  Variable resolve_at : nat -> bytes -> option (ipraw * bytes).
  Variable ip_str : ipraw -> bytes.
  Variable re_match : N -> bytes -> bool.

  Notation check := (check parse_ip resolve_at ip_str re_match).
  Notation ingest := (ingest parse_ip resolve_at ip_str re_match).
  Notation step := (step parse_ip resolve_at ip_str re_match).
  Notation run := (run parse_ip resolve_at ip_str re_match).
  Notation admitted_at := (admitted_at parse_ip resolve_at ip_str re_match).

  Definition is_handoff (x : eff) (k : N) (c : bytes) : Prop := x = EDial k c \/ x = EConnect k c.

  (* the covert string c was produced by the policy check of operation o, executed at step n under pol *)
  Definition adm1 (pol : policy) (n : nat) (o : iop) (k : N) (c : bytes) : Prop :=
    exists r ok lk, o = IIngest r ok /\ g_key r = k /\
      parse_or_resolve parse_ip (resolve_at n) ip_str re_match pol (g_covert r) = (Some c, lk).

  Lemma check_some pol n s c : check pol n s = Some c ->
    exists lk, parse_or_resolve parse_ip (resolve_at n) ip_str re_match pol s = (Some c, lk).
  Proof.
    unfold ModelIngest.check. destruct (parse_or_resolve parse_ip (resolve_at n) ip_str re_match pol s) as [o lk].
    cbn [fst]. intros ->. now exists lk.
  Qed.

  Lemma handoff_in k kind c ok x k' c' :
    In x (connecting_handoff k kind c ok) -> is_handoff x k' c' -> k' = k /\ c' = c.
  Proof.
    unfold connecting_handoff, is_handoff. destruct kind; [intros []|].
    intros [<-|Hin] [H|H]; try discriminate; try (injection H as <- <-; now split).
    - destruct ok; [destruct Hin as [<-|[]]|destruct Hin]. injection H as <- <-. now split.
    - destruct ok; [destruct Hin as [<-|[]]|destruct Hin]. discriminate.
  Qed.

  (* ingestRegistration: what can become valid, and what is handed over *)
  Lemma ingest_spec pol n st r ok :
    (forall e, In e (fst (ingest pol n st r ok)) -> e_valid e = true ->
       In e st \/ adm1 pol n (IIngest r ok) (e_key e) (e_covert e)) /\
    (forall x k c, In x (snd (ingest pol n st r ok)) -> is_handoff x k c -> adm1 pol n (IIngest r ok) k c).
  Proof.
    unfold ModelIngest.ingest.
    destruct (negb (g_valid_in r)); [split; [now left | intros ? ? ? []]|].
    destruct (find_entry st (g_key r)); [split; [now left | intros ? ? ? []]|].
    destruct (check pol n (g_covert r)) as [lit|] eqn:Ec.
    - destruct (check_some _ _ _ _ Ec) as (lk & Hp).
      destruct (g_live r || g_pblock r); cbn [fst snd].
      + split; [|intros ? ? ? []]. intros e Hin Hv. apply in_app_iff in Hin as [Hin|[<-|[]]]; [now left|discriminate].
      + split.
        * intros e Hin Hv. apply in_app_iff in Hin as [Hin|[<-|[]]]; [now left|]. right.
          cbn [e_key e_covert]. now exists r, ok, lk.
        * intros x k c Hin Hh. destruct (handoff_in _ _ _ _ _ _ _ Hin Hh) as (-> & ->). now exists r, ok, lk.
    - cbn [fst snd]. split; [|intros ? ? ? []].
      intros e Hin Hv. apply in_app_iff in Hin as [Hin|[<-|[]]]; [now left|discriminate].
  Qed.

  Definition step_pol (pol : policy) (o : iop) : policy := match o with IReload p => p | _ => pol end.

  Lemma step_fst pol n st o : fst (fst (step pol n st o)) = step_pol pol o.
  Proof. destruct o; cbn [ModelIngest.step step_pol]; try reflexivity. now destruct (ingest pol n st r conn_ok). Qed.

  Lemma policy_after_i_cons pol o pre : policy_after_i pol (o :: pre) = policy_after_i (step_pol pol o) pre.
  Proof. now destruct o. Qed.

  Lemma step_spec pol n st o :
    (forall e, In e (snd (fst (step pol n st o))) -> e_valid e = true ->
       In e st \/ adm1 pol n o (e_key e) (e_covert e)) /\
    (forall x k c, In x (snd (step pol n st o)) -> is_handoff x k c ->
       (exists e, In e st /\ e_valid e = true /\ e_key e = k /\ e_covert e = c) \/ adm1 pol n o k c).
  Proof.
    destruct o as [r ok|p|k0|k0]; cbn [ModelIngest.step].
    - pose proof (ingest_spec pol n st r ok) as [H1 H2].
      destruct (ingest pol n st r ok) as [st' ef]. cbn [fst snd] in *. split; [exact H1|].
      intros x k c Hin Hh. right. eauto.
    - cbn [fst snd]. split; [now left | intros ? ? ? []].
    - cbn [fst snd]. split; [now left|]. intros x k c Hin Hh. left.
      unfold conn_in in Hin. destruct (find_entry st k0) as [e|] eqn:Ef; [|destruct Hin].
      destruct (e_valid e) eqn:Ev; [|destruct Hin]. destruct Hin as [<-|[]].
      destruct (find_entry_in _ _ _ Ef) as (Hin & Hk).
      destruct Hh as [H|H]; [|discriminate]. injection H as <- <-. exists e. auto.
    - cbn [fst snd]. split; [|intros ? ? ? []]. intros e Hin _. left. eapply in_remove_entry; eauto.
  Qed.

  Lemma adm1_admitted pol n o rest k c : adm1 pol n o k c -> admitted_at pol n (o :: rest) n k c.
  Proof.
    intros (r & ok & lk & -> & Hk & Hp). exists [], r, ok, rest, lk. cbn [app length policy_after_i].
    repeat split; auto.
  Qed.

  Lemma admitted_cons pol n o rest m k c :
    admitted_at (step_pol pol o) (S n) rest m k c -> admitted_at pol n (o :: rest) m k c.
  Proof.
    intros (pre & r & ok & post & lk & -> & -> & Hk & Hp).
    exists (o :: pre), r, ok, post, lk. rewrite policy_after_i_cons. cbn [app length].
    repeat split; auto; try lia;
      try (replace (n + S (length pre))%nat with (S n + length pre)%nat by lia; exact Hp).
  Qed.

  (* the invariant, for an arbitrary starting table whose valid objects are justified by J *)
  Lemma run_justified ops : forall pol n st (J : N -> bytes -> Prop),
    (forall e, In e st -> e_valid e = true -> J (e_key e) (e_covert e)) ->
    forall i x k c, In (i, x) (snd (run pol n st ops)) -> is_handoff x k c ->
      (n <= i)%nat /\ (J k c \/ exists m, (m <= i)%nat /\ admitted_at pol n ops m k c).
  Proof.
    induction ops as [|o rest IH]; intros pol n st J HJ i x k c Hin Hh; [destruct Hin|].
    cbn [ModelIngest.run] in Hin.
    pose proof (step_spec pol n st o) as [S1 S2]. pose proof (step_fst pol n st o) as Hpol.
    destruct (step pol n st o) as [[pol1 st1] ef]. cbn [fst snd] in *. subst pol1.
    pose proof (IH (step_pol pol o) (S n) st1 (fun k c => J k c \/ adm1 pol n o k c)) as IH'.
    destruct (run (step_pol pol o) (S n) st1 rest) as [[pol2 st2] efs]. cbn [fst snd] in *.
    apply in_app_iff in Hin as [Hin|Hin].
    - apply in_map_iff in Hin as (x' & [= <- <-] & Hin). split; [lia|].
      destruct (S2 _ _ _ Hin Hh) as [(e & He & Hv & <- & <-)|Ha]; [left; auto|].
      right. exists n. split; [lia|]. now apply adm1_admitted.
    - assert (HJ' : forall e, In e st1 -> e_valid e = true -> J (e_key e) (e_covert e) \/ adm1 pol n o (e_key e) (e_covert e)).
      { intros e He Hv. destruct (S1 e He Hv); auto. }
      destruct (IH' HJ' i x k c Hin Hh) as (Hle & [[Hj|Ha]|(m & Hm & Ha)]).
      + split; [lia|now left].
      + split; [lia|]. right. exists n. split; [lia|]. now apply adm1_admitted.
      + split; [lia|]. right. exists m. split; [exact Hm|]. now apply admitted_cons.
  Qed.

  (* from the empty table: every dial and every hand-off to a connecting transport carries an admitted literal *)
  Lemma handoffs_admitted pol ops i x k c :
    In (i, x) (snd (run pol 0 [] ops)) -> is_handoff x k c ->
    exists m, (m <= i)%nat /\ admitted_at pol 0 ops m k c.
  Proof.
    intros Hin Hh.
    destruct (run_justified ops pol 0%nat [] (fun _ _ => False) (fun e H => match H with end) i x k c Hin Hh) as (_ & [[]|H]).
    exact H.
  Qed.

  (* a repeated registration changes nothing and triggers nothing, whatever its other fields say *)
  Lemma duplicate_inert pol n st r ok :
    find_entry st (g_key r) <> None -> ingest pol n st r ok = (st, []).
  Proof.
    intro H. unfold ModelIngest.ingest. destruct (negb (g_valid_in r)); [reflexivity|].
    destruct (find_entry st (g_key r)); [reflexivity|congruence].
  Qed.

  Lemma ingest_keeps pol n st r ok k e :
    find_entry st k = Some e -> find_entry (fst (ingest pol n st r ok)) k = Some e.
  Proof.
    intro H. unfold ModelIngest.ingest. destruct (negb (g_valid_in r)); [exact H|].
    destruct (find_entry st (g_key r)); [exact H|].
    destruct (check pol n (g_covert r)); [destruct (g_live r || g_pblock r)|]; cbn [fst]; now apply find_entry_app_l.
  Qed.

  (* the object a lookup returns for k stays the same object with the same covert until it is expired:
     duplicates (with any field changed), other registrations, reloads and connections do not touch it *)
  Lemma tracked_stable ops : forall pol n st k e,
    find_entry st k = Some e -> (forall k', In (IExpire k') ops -> k' <> k) ->
    find_entry (snd (fst (run pol n st ops))) k = Some e.
  Proof.
    induction ops as [|o rest IH]; intros pol n st k e Hf Hne; [exact Hf|].
    cbn [ModelIngest.run].
    assert (Hs : find_entry (snd (fst (step pol n st o))) k = Some e).
    { destruct o as [r ok|p|k0|k0]; cbn [ModelIngest.step].
      - pose proof (ingest_keeps pol n st r ok k e Hf) as H. now destruct (ingest pol n st r ok).
      - exact Hf.
      - exact Hf.
      - cbn [fst snd]. rewrite find_remove_other; [exact Hf|]. apply Hne. now left. }
    destruct (step pol n st o) as [[pol1 st1] ef]. cbn [fst snd] in Hs.
    pose proof (IH pol1 (S n) st1 k e Hs (fun k' H => Hne k' (or_intror H))) as H.
    now destruct (run pol1 (S n) st1 rest) as [[pol2 st2] efs].
  Qed.

  (* after expiry the registration is new again: it goes through the check under the policy then in force *)
  Lemma expired_is_untracked pol n st k : find_entry (snd (fst (step pol n st (IExpire k)))) k = None.
  Proof. cbn [ModelIngest.step fst snd]. apply find_remove_same. Qed.
End Ingest.

(* ---------------------------------------------------------------- what is asked of the NAME SYSTEM: its answers are
   made of bytes and carry no bracket in a zone (DNS answers carry no zone at all).  Everything about literals is proved. *)
Definition names_ok (names : bytes -> option (ipraw * bytes)) : Prop :=
  forall h a z, names h = Some (a, z) -> wf_bytes a = true /\ no_brackets z = true.

Lemma names_ok_laws names : names_ok names -> zone_law (resolve_with names) /\ resolver_wf (resolve_with names).
Proof.
  intro H. split.
  - apply zone_law_concrete. intros h a z Hn. now destruct (H h a z Hn).
  - apply resolver_wf_concrete. intros h a z Hn. now destruct (H h a z Hn).
Qed.

(* the single-call dial statement with nothing assumed but names_ok of the admission-time name system *)
Lemma dial_target_is_checked_names names names_later re_match pol s out lk :
  names_ok names ->
  parse_or_resolve parse_ip_c (resolve_with names) ip_str_c re_match pol s = (Some out, lk) ->
  exists host port a z a',
    split_host_port s = Some (host, port) /\ resolve_with names host = Some (a, z) /\
    valid_ip a = true /\ blocked pol a = false /\
    dial_target (resolve_with names_later) out = Some (a', z, port) /\
    norm a' = norm a /\ blocked pol a' = false.
Proof.
  intros Hn. destruct (names_ok_laws names Hn) as (Hz & Hwf).
  exact (dial_target_is_checked_q ip_str_c ip_str_c_no_brackets parse_ip_c re_match (resolve_with names)
           (resolve_with names_later) pol s out lk Hz Hwf (literal_law_concrete names_later)).
Qed.

(* ---------------------------------------------------------------- with the concrete text functions: every
   dialled string is the literal of an address the policy in force at admission permitted, and whatever the name
   system says when the connection is made, net.Dial of that string reaches that address and that port *)
Lemma every_dial_checked_concrete :
  forall (names_at : nat -> bytes -> option (ipraw * bytes)) names_later re_match pol0 ops i k c,
    (forall m, names_ok (names_at m)) ->
    In (i, EDial k c) (snd (run parse_ip_c (fun m => resolve_with (names_at m)) ip_str_c re_match pol0 0 [] ops)) ->
    exists pre r ok post host port a z a',
      ops = pre ++ IIngest r ok :: post /\ (length pre <= i)%nat /\ g_key r = k /\
      split_host_port (g_covert r) = Some (host, port) /\ port_ok port = true /\
      dom_blocked re_match (policy_after_i pol0 pre) host = false /\
      resolve_with (names_at (length pre)) host = Some (a, z) /\ valid_ip a = true /\ zoned_v4 a z = false /\
      blocked (policy_after_i pol0 pre) a = false /\
      c = join_host_port (ip_text ip_str_c a z) port /\
      dial_target (resolve_with names_later) c = Some (a', z, port) /\
      norm a' = norm a /\ blocked (policy_after_i pol0 pre) a' = false.
Proof.
  intros names_at names_later re_match pol0 ops i k c Hn Hin.
  destruct (handoffs_admitted _ _ _ _ pol0 ops i _ k c Hin (or_introl eq_refl))
    as (m & Hm & pre & r & ok & post & lk & -> & -> & Hk & Hp).
  cbn [Nat.add] in *.
  destruct (accepted_is_checked_literal _ _ _ _ _ _ _ _ Hp)
    as (host & port & a & z & _ & Hs & Hpo & Hd & Hr & Hv & Hb & Hout & _ & Hzv).
  destruct (dial_target_is_checked_names _ names_later _ _ _ _ _ (Hn (length pre)) Hp)
    as (host' & port' & a0 & z0 & a' & Hs' & Hr' & _ & _ & Hdt & Hnm & Hb').
  rewrite Hs in Hs'. injection Hs' as <- <-. rewrite Hr in Hr'. injection Hr' as <- <-.
  exists pre, r, ok, post, host, port, a, z, a'. repeat split; auto.
Qed.
