(* C06: the ingest / dial model evaluated on recorded operation sequences (correspondence check).

   One case = the parsed policy the manager started with + a list of steps on ONE RegistrationManager.  Per step the
   driver records what the property talks about: the tracked object of the registration concerned (covert, valid)
   after the step, the covert strings of the objects handed to ConnectingTransport.Connect, and the addresses the dial
   recorder saw.  The policy function inside ingest is the concrete model of Run.v with that step's oracle values
   (name system, regexp matches). *)
From CJ Require Import Common.Base C06.Model C06.IPText C06.Run C06.ModelIngest.

Definition obs_tracked := option (bytes * bool).      (* None = not tracked; Some (Covert, Valid) *)

Inductive sstep :=
| SIngest (r : sreg) (conn_ok : bool) (o : oracle) (tr : obs_tracked) (connects dials : list bytes)
| SReload (p : policy)                                 (* the LIVE parsed lists after OnReload *)
| SConnIn (k : N) (tr : obs_tracked) (dials : list bytes)
| SExpire (k : N) (tr : obs_tracked).

Definition tracked_view (st : table) (k : N) : obs_tracked :=
  match find_entry st k with Some e => Some (e_covert e, e_valid e) | None => None end.

(* the covert of an object that is not valid is not served to anybody: only validity is compared there *)
Definition tracked_agrees (m o : obs_tracked) : bool :=
  match m, o with
  | None, None => true
  | Some (c, v), Some (c', v') => Bool.eqb v v' && (negb v || bytes_eqb c c')
  | _, _ => false
  end.

(* what may be handed to Connect / dialled for k: the covert of the valid tracked object *)
Definition allowed (st : table) (k : N) (d : bytes) : bool :=
  match find_entry st k with Some e => e_valid e && bytes_eqb (e_covert e) d | None => false end.

(* the recorder observes the destination of a connection (address and port number), not the string handed to net.Dial:
   a literal such as "127.0.0.1:0443" is dialled as 127.0.0.1 port 443 *)
Definition endpoint (s : bytes) : option (bytes * bytes * N) :=
  match dial_target (resolve_with (fun _ => None)) s with
  | Some (a, z, p) => match dec_value p with Some v => Some (norm a, z, v) | None => None end
  | None => None
  end.
Definition same_endpoint (lit d : bytes) : bool :=
  bytes_eqb lit d ||
  match endpoint lit, endpoint d with
  | Some (a, z, v), Some (a', z', v') => bytes_eqb a a' && bytes_eqb z z' && (v =? v')
  | _, _ => false
  end.
Definition allowed_dial (st : table) (k : N) (d : bytes) : bool :=
  match find_entry st k with Some e => e_valid e && same_endpoint (e_covert e) d | None => false end.

Definition step_model (o : oracle) :=
  step parse_ip_c (fun _ => resolve_with (fun _ => o_res o)) ip_str_c (fun p _ => nth (N.to_nat p) (o_dom o) false).

Definition no_oracle : oracle :=
  {| o_parse_whole := None; o_split := None; o_parse_host := None; o_res := None; o_ipstr := []; o_dom := [] |}.

Definition eff_dials (l : list eff) : list bytes :=
  flat_map (fun e => match e with EDial _ c => [c] | _ => [] end) l.
Definition eff_connects (l : list eff) : list bytes :=
  flat_map (fun e => match e with EConnect _ c => [c] | _ => [] end) l.

(* relation: the tracked object is the model's, and nothing but the model's admitted literal is handed over *)
Definition chk_step (pol : policy) (n : nat) (st : table) (s : sstep) : policy * table * bool :=
  match s with
  | SIngest r ok o tr cs ds =>
    let '(pol', st', _) := step_model o pol n st (IIngest r ok) in
    (pol', st', tracked_agrees (tracked_view st' (g_key r)) tr &&
                forallb (allowed st' (g_key r)) cs && forallb (allowed_dial st' (g_key r)) ds)
  | SReload p => (p, st, true)
  | SConnIn k tr ds =>
    (pol, st, tracked_agrees (tracked_view st k) tr && forallb (allowed_dial st k) ds)
  | SExpire k tr =>
    let '(pol', st', _) := step_model no_oracle pol n st (IExpire k) in
    (pol', st', tracked_agrees (tracked_view st' k) tr)
  end.

Fixpoint chk_steps (pol : policy) (n : nat) (st : table) (l : list sstep) : bool :=
  match l with
  | [] => true
  | s :: rest => let '(pol', st', ok) := chk_step pol n st s in ok && chk_steps pol' (S n) st' rest
  end.

Definition seq_case := (policy * list sstep)%type.
Definition chk_seq (c : seq_case) : bool := chk_steps (fst c) 0 [] (snd c).

(* informational (never an alarm): the hand-offs are EXACTLY the model's — a connecting registration is connected
   once when it becomes valid, a connection dials once, a duplicate triggers nothing *)
Definition exact_step (pol : policy) (n : nat) (st : table) (s : sstep) : policy * table * bool :=
  match s with
  | SIngest r ok o tr cs ds =>
    let '(pol', st', ef) := step_model o pol n st (IIngest r ok) in
    (pol', st', list_eqb bytes_eqb (eff_connects ef) cs && list_eqb same_endpoint (eff_dials ef) ds)
  | SReload p => (p, st, true)
  | SConnIn k tr ds =>
    let '(pol', st', ef) := step_model no_oracle pol n st (IConnIn k) in
    (pol', st', list_eqb same_endpoint (eff_dials ef) ds)
  | SExpire k tr =>
    let '(pol', st', _) := step_model no_oracle pol n st (IExpire k) in (pol', st', true)
  end.

Fixpoint exact_steps (pol : policy) (n : nat) (st : table) (l : list sstep) : bool :=
  match l with
  | [] => true
  | s :: rest => let '(pol', st', ok) := exact_step pol n st s in ok && exact_steps pol' (S n) st' rest
  end.
Definition chk_seq_exact (c : seq_case) : bool := exact_steps (fst c) 0 [] (snd c).
