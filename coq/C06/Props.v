(* C06 property theorems: statements + `exact lemma` only.
   External behaviour (net.ParseIP, net.ResolveIPAddr, IP.String, regexp matching) is universally
   quantified; what is assumed about Go's net package appears as explicit hypotheses. *)
From CJ Require Import Common.Base C06.Model C06.Proofs C06.IPText C06.IPTextProofs C07.Model C06.Dialed.
From CJ Require C06.ModelIngest C06.ProofsIngest C06.Bridge07 C06.HostText.
Module MI := CJ.C06.ModelIngest.

(* An accepted covert string is the literal text of the single address the resolver returned for
   its host; that address is a real IP, not blocked by policy (inside the allowlist when one is
   configured), the host matched no blocklisted domain pattern, the port is a decimal <= 65535, and an
   address with an IPv4 form carries no zone (its text would not be an address literal; fix 3ada542). *)
Theorem C06_accepted_is_checked_literal :
  forall parse_ip resolve ip_str re_match pol s out lk,
    parse_or_resolve parse_ip resolve ip_str re_match pol s = (Some out, lk) ->
    exists host port a z,
      parse_ip s = None /\
      split_host_port s = Some (host, port) /\
      port_ok port = true /\
      dom_blocked re_match pol host = false /\
      resolve host = Some (a, z) /\
      valid_ip a = true /\
      blocked pol a = false /\
      out = join_host_port (ip_text ip_str a z) port /\
      lk = (match parse_ip host with None => true | Some _ => false end) /\
      zoned_v4 a z = false.
Proof. exact accepted_is_checked_literal. Qed.
Print Assumptions C06_accepted_is_checked_literal.

(* ... and conversely every way of being forbidden is a rejection. *)
Theorem C06_rejected_when_forbidden :
  forall parse_ip resolve ip_str re_match pol s host port,
    split_host_port s = Some (host, port) ->
    (dom_blocked re_match pol host = true \/ port_ok port = false \/ resolve host = None \/
     (exists a z, resolve host = Some (a, z) /\ (valid_ip a = false \/ blocked pol a = true \/ zoned_v4 a z = true))) ->
    fst (parse_or_resolve parse_ip resolve ip_str re_match pol s) = None.
Proof. exact rejected_when_forbidden. Qed.
Print Assumptions C06_rejected_when_forbidden.

Theorem C06_unsplittable_rejected :
  forall parse_ip resolve ip_str re_match pol s,
    split_host_port s = None ->
    parse_or_resolve parse_ip resolve ip_str re_match pol s = (None, false).
Proof. exact no_split_rejected. Qed.
Print Assumptions C06_unsplittable_rejected.

(* A host-less covert (":80"), for which Go's resolver returns an address without IP, is rejected. *)
Theorem C06_empty_host_rejected :
  forall parse_ip resolve ip_str re_match pol s port z,
    split_host_port s = Some ([], port) -> resolve [] = Some ([], z) ->
    fst (parse_or_resolve parse_ip resolve ip_str re_match pol s) = None.
Proof. exact empty_host_rejected. Qed.
Print Assumptions C06_empty_host_rejected.

(* The accepted port text is a non-empty digit string whose value fits 16 bits. *)
Theorem C06_port_ok_spec :
  forall p, port_ok p = true <-> p <> [] /\ forallb is_digit p = true /\ dec_spec p <= 65535.
Proof. exact port_ok_spec. Qed.
Print Assumptions C06_port_ok_spec.

(* Allowlist precedence: with an allowlist, exactly the addresses inside it pass, whatever the
   blocklist says; without one, exactly those outside every blocklisted subnet. *)
Theorem C06_allowlist_precedence :
  forall pol a,
    (p_allow_on pol = true -> blocked pol a = negb (in_nets (p_allow pol) a)) /\
    (p_allow_on pol = false -> blocked pol a = in_nets (p_block pol) a).
Proof. exact allowlist_precedence. Qed.
Print Assumptions C06_allowlist_precedence.

(* The v4-in-v6 form of an address is treated exactly like the address itself. *)
Theorem C06_v4_mapped_same :
  forall pol a4, length a4 = 4%nat -> blocked pol (mapped a4) = blocked pol a4.
Proof. exact v4_mapped_same. Qed.
Print Assumptions C06_v4_mapped_same.

(* Names are resolved once: at most one resolver call, for the host of s, exactly one when the
   string is accepted, and the outcome depends on the resolver only through that answer. *)
Theorem C06_resolved_once :
  forall parse_ip resolve ip_str re_match pol s,
    (length (snd (parse_or_resolve_tr parse_ip resolve ip_str re_match pol s)) <= 1)%nat /\
    (forall h, In h (snd (parse_or_resolve_tr parse_ip resolve ip_str re_match pol s)) ->
               exists port, split_host_port s = Some (h, port)) /\
    (forall out lk, parse_or_resolve parse_ip resolve ip_str re_match pol s = (Some out, lk) ->
               exists host port, split_host_port s = Some (host, port) /\
                 snd (parse_or_resolve_tr parse_ip resolve ip_str re_match pol s) = [host]) /\
    (forall resolve2, (forall h p, split_host_port s = Some (h, p) -> resolve h = resolve2 h) ->
               parse_or_resolve_tr parse_ip resolve ip_str re_match pol s =
               parse_or_resolve_tr parse_ip resolve2 ip_str re_match pol s).
Proof. exact resolved_once. Qed.
Print Assumptions C06_resolved_once.

(* JoinHostPort / SplitHostPort are inverse on bracket-free hosts and digit ports. *)
Theorem C06_split_join :
  forall host port, no_brackets host = true -> plain_port port = true ->
    split_host_port (join_host_port host port) = Some (host, port).
Proof. exact split_join. Qed.
Print Assumptions C06_split_join.

(* A well-formed permitted IP:port in canonical form is accepted unchanged.
   Assumed about Go's net package: G1, G2, G5 and the literal law of the resolver. *)
Theorem C06_permitted_literal_unchanged :
  forall parse_ip ip_str re_match,
    (forall s, split_host_port s <> None -> parse_ip s = None) ->
    (forall a, valid_ip a = true -> wf_bytes a = true -> no_brackets (ip_str a) = true) ->
    (forall a a', valid_ip a = true -> valid_ip a' = true -> norm a = norm a' -> ip_str a = ip_str a') ->
    forall resolve pol a z port,
      literal_law ip_str resolve ->
      valid_ip a = true -> wf_bytes a = true -> (addr_is_v4 a = true -> z = []) -> no_brackets z = true -> port_ok port = true ->
      blocked pol a = false ->
      dom_blocked re_match pol (ip_text ip_str a z) = false ->
      let s := join_host_port (ip_text ip_str a z) port in
      fst (parse_or_resolve parse_ip resolve ip_str re_match pol s) = Some s.
Proof. exact permitted_literal_unchanged. Qed.
Print Assumptions C06_permitted_literal_unchanged.

(* The address that was checked is the address that is dialled: handing the returned literal to
   a dialler whose resolver is in ANY later state (it only has to parse literals) reaches an
   address equal (up to the 4/16-byte form) to the one that passed the policy. *)
Theorem C06_dial_target_is_checked :
  forall ip_str : ipraw -> bytes,
    (forall a, valid_ip a = true -> wf_bytes a = true -> no_brackets (ip_str a) = true) ->
    forall parse_ip re_match resolve resolve_later pol s out lk,
      zone_law resolve -> resolver_wf resolve -> literal_law ip_str resolve_later ->
      parse_or_resolve parse_ip resolve ip_str re_match pol s = (Some out, lk) ->
      exists host port a z a',
        split_host_port s = Some (host, port) /\ resolve host = Some (a, z) /\
        valid_ip a = true /\ blocked pol a = false /\
        dial_target resolve_later out = Some (a', z, port) /\
        norm a' = norm a /\ blocked pol a' = false.
Proof. exact dial_target_is_checked_q. Qed.
Print Assumptions C06_dial_target_is_checked.

(* With C07's ingest model: for every registration that becomes valid, the registration object that
   lookups return (whose Covert field Proxy hands to net.Dial verbatim) carries the literal computed
   for that same registration at admission, and dialling it reaches the checked address. *)
Theorem C06_checked_is_dialed :
  forall (parse_ip : bytes -> option ipraw) (ip_str : ipraw -> bytes) (re_match : N -> bytes -> bool),
    (forall a, valid_ip a = true -> wf_bytes a = true -> no_brackets (ip_str a) = true) ->
    forall resolve resolve_later pol live cfg st r r',
      zone_law resolve -> resolver_wf resolve -> literal_law ip_str resolve_later ->
      In (Announce r') (snd (ingest (covert_fn parse_ip ip_str re_match resolve pol) live cfg st r)) ->
      In r' (visible_all (fst (ingest (covert_fn parse_ip ip_str re_match resolve pol) live cfg st r))) /\
      exists lk host port a z a',
        parse_or_resolve parse_ip resolve ip_str re_match pol (r_covert r) = (Some (r_covert r'), lk) /\
        split_host_port (r_covert r) = Some (host, port) /\ resolve host = Some (a, z) /\
        valid_ip a = true /\ blocked pol a = false /\
        dial_target resolve_later (r_covert r') = Some (a', z, port) /\
        norm a' = norm a /\ blocked pol a' = false.
Proof. exact checked_is_dialed. Qed.
Print Assumptions C06_checked_is_dialed.

(* ------------------------------------------------------------------ textual forms, concretely (IPText.v)
   netip.ParseAddr / net.ParseIP / IP.String / the literal branch of ResolveIPAddr are Gallina functions
   compared with Go on every run; the assumptions G2, G4 (literal law), G5 become theorems. *)

(* parse (print a) = a for every IPv4 address *)
Theorem C06_parse_print_v4 :
  forall a0 a1 a2 a3, a0 < 256 -> a1 < 256 -> a2 < 256 -> a3 < 256 ->
    parse_addr (print4 [a0; a1; a2; a3]) = Some ([a0; a1; a2; a3], []).
Proof. exact parse_addr_print4. Qed.
Print Assumptions C06_parse_print_v4.

(* parse (print a) = a for every IPv6 address (RFC 5952 text with "::"), and a zone never changes the IP *)
Theorem C06_parse_print_v6_zone :
  forall ip z, wf_ip ip -> length ip = 16%nat -> parse_addr (with_zone (print6 ip) z) = Some (ip, z).
Proof. exact parse_addr_print6. Qed.
Print Assumptions C06_parse_print_v6_zone.

(* G2 and G5 for the concrete IP.String *)
Theorem C06_ip_string_no_brackets :
  forall a, valid_ip a = true -> wf_bytes a = true -> no_brackets (ip_str_c a) = true.
Proof. exact ip_str_c_no_brackets. Qed.
Print Assumptions C06_ip_string_no_brackets.

Theorem C06_ip_string_norm :
  forall a a', valid_ip a = true -> valid_ip a' = true -> norm a = norm a' -> ip_str_c a = ip_str_c a'.
Proof. exact ip_str_c_norm. Qed.
Print Assumptions C06_ip_string_norm.

(* G4: resolving the printed text of any address (with its zone) gives that address back, whatever the
   name system answers — names stay an arbitrary function *)
Theorem C06_literal_law_concrete : forall names, literal_law ip_str_c (resolve_with names).
Proof. exact literal_law_concrete. Qed.
Print Assumptions C06_literal_law_concrete.

(* G3 for literals: the zone is a piece of the host; for names it is a statement about the name system *)
Theorem C06_zone_law_concrete :
  forall names, (forall h a z, names h = Some (a, z) -> no_brackets z = true) -> zone_law (resolve_with names).
Proof. exact zone_law_concrete. Qed.
Print Assumptions C06_zone_law_concrete.

(* The dial statement with NO assumption about Go's parsing and printing: admission and dial both use the
   concrete ParseIP / IP.String / literal resolution; the name system at admission (names) and at dial time
   (names_later) are arbitrary, unrelated functions.  What is asked of the admission-time resolver: zones
   without brackets, answers made of bytes, no zone on IPv4. *)
Theorem C06_dial_target_is_checked_concrete :
  forall names names_later re_match pol s out lk,
    zone_law (resolve_with names) -> resolver_wf (resolve_with names) ->
    parse_or_resolve parse_ip_c (resolve_with names) ip_str_c re_match pol s = (Some out, lk) ->
    exists host port a z a',
      split_host_port s = Some (host, port) /\ resolve_with names host = Some (a, z) /\
      valid_ip a = true /\ blocked pol a = false /\
      dial_target (resolve_with names_later) out = Some (a', z, port) /\
      norm a' = norm a /\ blocked pol a' = false.
Proof.
  intros names names_later re_match pol s out lk Hz Hwf.
  exact (dial_target_is_checked_q ip_str_c ip_str_c_no_brackets parse_ip_c re_match (resolve_with names)
           (resolve_with names_later) pol s out lk Hz Hwf (literal_law_concrete names_later)).
Qed.
Print Assumptions C06_dial_target_is_checked_concrete.

(* The resolver hypotheses of the theorem above, discharged: literals are proved (IPTextWf.v: every byte ParseAddr
   returns is < 256; a zone is a piece of the host), so they reduce to a statement about the name system's answers. *)
Theorem C06_resolver_laws_from_names :
  forall names, ProofsIngest.names_ok names -> zone_law (resolve_with names) /\ resolver_wf (resolve_with names).
Proof. exact ProofsIngest.names_ok_laws. Qed.
Print Assumptions C06_resolver_laws_from_names.

Theorem C06_dial_target_is_checked_names :
  forall names names_later re_match pol s out lk,
    ProofsIngest.names_ok names ->
    parse_or_resolve parse_ip_c (resolve_with names) ip_str_c re_match pol s = (Some out, lk) ->
    exists host port a z a',
      split_host_port s = Some (host, port) /\ resolve_with names host = Some (a, z) /\
      valid_ip a = true /\ blocked pol a = false /\
      dial_target (resolve_with names_later) out = Some (a', z, port) /\
      norm a' = norm a /\ blocked pol a' = false.
Proof. exact ProofsIngest.dial_target_is_checked_names. Qed.
Print Assumptions C06_dial_target_is_checked_names.

(* A permitted canonical literal is returned unchanged, for the concrete functions and ANY name system:
   no assumption about Go's net package is left (G1 for the joined text is parse_ip_c_joined). *)
Theorem C06_permitted_literal_unchanged_concrete :
  forall names re_match pol a z port,
    valid_ip a = true -> wf_bytes a = true -> (addr_is_v4 a = true -> z = []) -> no_brackets z = true ->
    port_ok port = true -> blocked pol a = false ->
    dom_blocked re_match pol (ip_text ip_str_c a z) = false ->
    let s := join_host_port (ip_text ip_str_c a z) port in
    fst (parse_or_resolve parse_ip_c (resolve_with names) ip_str_c re_match pol s) = Some s.
Proof. exact permitted_literal_unchanged_concrete. Qed.
Print Assumptions C06_permitted_literal_unchanged_concrete.

(* the joined text "a.b.c.d:port" / "[v6%zone]:port" is never itself an IP literal *)
Theorem C06_joined_text_not_a_literal :
  forall a z port,
    valid_ip a = true -> wf_bytes a = true -> (addr_is_v4 a = true -> z = []) -> port_ok port = true ->
    parse_ip_c (join_host_port (ip_text ip_str_c a z) port) = None.
Proof. exact parse_ip_c_joined. Qed.
Print Assumptions C06_joined_text_not_a_literal.

(* ------------------------------------------------------------------ histories on one RegConfig
   Checks interleaved with configuration reloads, the resolver free to answer differently at every call:
   the result of the n-th call is the function applied to the policy installed at that time and that
   call's own inputs — nothing earlier calls did (admitted strings, earlier policies) can influence it. *)
Theorem C06_history_stateless :
  forall parse_ip resolve_at ip_str re_match pre pol n s,
    run_history parse_ip resolve_at ip_str re_match pol n (pre ++ [HCheck s]) =
    run_history parse_ip resolve_at ip_str re_match pol n pre ++
    [parse_or_resolve parse_ip (resolve_at (n + length pre)%nat) ip_str re_match (policy_after pol pre) s].
Proof. exact history_stateless. Qed.
Print Assumptions C06_history_stateless.

Theorem C06_history_accepted_under_current_policy :
  forall parse_ip resolve_at ip_str re_match pre pol n s out lk,
    last (run_history parse_ip resolve_at ip_str re_match pol n (pre ++ [HCheck s])) (None, false) = (Some out, lk) ->
    exists host port a z,
      split_host_port s = Some (host, port) /\ port_ok port = true /\
      dom_blocked re_match (policy_after pol pre) host = false /\
      resolve_at (n + length pre)%nat host = Some (a, z) /\ valid_ip a = true /\
      blocked (policy_after pol pre) a = false /\ out = join_host_port (ip_text ip_str a z) port.
Proof. exact history_accepted_under_current_policy. Qed.
Print Assumptions C06_history_accepted_under_current_policy.

(* ------------------------------------------------------------------ every path to the dial (ModelIngest.v)
   Histories of ingests (new registrations and duplicates with ANY field changed), configuration reloads,
   incoming connections (wrapping transports: the lookup returns the tracked valid object) and expiries on one
   RegistrationManager, for wrapping and connecting transports; the name system may answer differently at every step.
   A registration object carries its covert string; MI.EConnect / MI.EDial record the string of the object handed over. *)

(* Every object handed to ConnectingTransport.Connect and every string handed to net.Dial is the result the
   policy function returned for a registration of that key, ingested at an earlier step m, under the policy in force
   at step m and with the name system of step m (names are resolved once, at admission). *)
Theorem C06_handoffs_carry_admitted_literal :
  forall parse_ip resolve_at ip_str re_match pol ops i x k c,
    In (i, x) (snd (MI.run parse_ip resolve_at ip_str re_match pol 0 [] ops)) ->
    (x = MI.EDial k c \/ x = MI.EConnect k c) ->
    exists m, (m <= i)%nat /\
      exists pre r ok post lk,
        ops = pre ++ MI.IIngest r ok :: post /\ m = (0 + length pre)%nat /\ MI.g_key r = k /\
        parse_or_resolve parse_ip (resolve_at m) ip_str re_match (MI.policy_after_i pol pre) (MI.g_covert r) = (Some c, lk).
Proof. exact ProofsIngest.handoffs_admitted. Qed.
Print Assumptions C06_handoffs_carry_admitted_literal.

(* The same down to the dial site, with the concrete text functions: the dialled string is the literal host:port of
   the single address resolved at admission, which the policy in force then permitted (subnets and domain patterns,
   16-bit port, no zone on an IPv4 form), and net.Dial of it — in ANY later state of the name system — reaches that
   address and that port.  Asked of the name system only: answers made of bytes, no bracket in a zone (names_ok);
   everything about literals (parsing, printing, zones, byte ranges) is proved for the concrete functions. *)
Theorem C06_every_dial_is_checked :
  forall (names_at : nat -> bytes -> option (ipraw * bytes)) names_later re_match pol0 ops i k c,
    (forall m, ProofsIngest.names_ok (names_at m)) ->
    In (i, MI.EDial k c) (snd (MI.run parse_ip_c (fun m => resolve_with (names_at m)) ip_str_c re_match pol0 0 [] ops)) ->
    exists pre r ok post host port a z a',
      ops = pre ++ MI.IIngest r ok :: post /\ (length pre <= i)%nat /\ MI.g_key r = k /\
      split_host_port (MI.g_covert r) = Some (host, port) /\ port_ok port = true /\
      dom_blocked re_match (MI.policy_after_i pol0 pre) host = false /\
      resolve_with (names_at (length pre)) host = Some (a, z) /\ valid_ip a = true /\ zoned_v4 a z = false /\
      blocked (MI.policy_after_i pol0 pre) a = false /\
      c = join_host_port (ip_text ip_str_c a z) port /\
      dial_target (resolve_with names_later) c = Some (a', z, port) /\
      norm a' = norm a /\ blocked (MI.policy_after_i pol0 pre) a' = false.
Proof. exact ProofsIngest.every_dial_checked_concrete. Qed.
Print Assumptions C06_every_dial_is_checked.

(* A repeated registration (same key) changes nothing in the table and triggers no hand-off, whatever its covert
   string, kind or flags say. *)
Theorem C06_duplicate_is_inert :
  forall parse_ip resolve_at ip_str re_match pol n st r ok,
    MI.find_entry st (MI.g_key r) <> None -> MI.ingest parse_ip resolve_at ip_str re_match pol n st r ok = (st, []).
Proof. exact ProofsIngest.duplicate_inert. Qed.
Print Assumptions C06_duplicate_is_inert.

(* The object lookups return for a key — and with it the covert that is dialled — stays the same across duplicates,
   other registrations, reloads and connections, until the sweeper removes it ... *)
Theorem C06_tracked_object_stable :
  forall parse_ip resolve_at ip_str re_match ops pol n st k e,
    MI.find_entry st k = Some e -> (forall k', In (MI.IExpire k') ops -> k' <> k) ->
    MI.find_entry (snd (fst (MI.run parse_ip resolve_at ip_str re_match pol n st ops))) k = Some e.
Proof. exact ProofsIngest.tracked_stable. Qed.
Print Assumptions C06_tracked_object_stable.

(* ... after which the registration is new again and goes through the check under the policy then in force. *)
Theorem C06_expired_is_untracked :
  forall parse_ip resolve_at ip_str re_match pol n st k,
    MI.find_entry (snd (fst (MI.step parse_ip resolve_at ip_str re_match pol n st (MI.IExpire k)))) k = None.
Proof. exact ProofsIngest.expired_is_untracked. Qed.
Print Assumptions C06_expired_is_untracked.

(* C06's ingest model and C07's admission model (tied to the code by C07's own lane: whole messages, both families,
   probes, sharing) agree on what becomes connectable and with which covert: for a registration tracked on neither side,
   C07's ingest announces it with covert lit exactly when C06's model holds a VALID object with covert lit for it. *)
Theorem C06_agrees_with_C07_admission :
  forall parse_ip resolve ip_str re_match live cfg (key : reg -> N) kind pol n st st' r ok lit,
    tracked st r = false -> MI.find_entry st' (key r) = None ->
    In (Announce (set_covert r lit)) (snd (ingest (covert_fn parse_ip ip_str re_match resolve pol) live cfg st r)) <->
    MI.find_entry (fst (MI.ingest parse_ip (fun _ => resolve) ip_str re_match pol n st'
                          (Bridge07.proj live cfg key kind r) ok)) (key r)
      = Some {| MI.e_key := key r; MI.e_kind := kind; MI.e_covert := lit; MI.e_valid := true |}.
Proof. exact Bridge07.bridge_announced. Qed.
Print Assumptions C06_agrees_with_C07_admission.

(* Fifth round — the host TEXT against the domain patterns.  The name the name system is asked for is exactly the text
   the patterns were checked against (no transformation between check and resolution), and that text matches no pattern. *)
Theorem C06_resolved_name_is_checked_text :
  forall parse_ip resolve ip_str re_match pol s out lk,
    parse_or_resolve parse_ip resolve ip_str re_match pol s = (Some out, lk) ->
    exists host port, split_host_port s = Some (host, port) /\
      snd (parse_or_resolve_tr parse_ip resolve ip_str re_match pol s) = [host] /\
      dom_blocked re_match pol host = false.
Proof. exact HostText.checked_text_is_resolved_name. Qed.
Print Assumptions C06_resolved_name_is_checked_text.

(* The same for the policy function with explicit text transformations nc (before the check) and nr (before the
   resolution), whenever both places get the SAME string: every resolved name was checked and matches no pattern.
   (nc <> nr is refuted both ways in HostText.v: fold_host_only_refuted, normalise_after_check_refuted.) *)
Theorem C06_same_text_checked_and_resolved :
  forall parse_ip resolve ip_str re_match nc nr pol s,
    (forall h, nr h = nc h) ->
    forall n, In n (HostText.pn_resolved (HostText.por_norm parse_ip resolve ip_str re_match nc nr pol s)) ->
      In n (HostText.pn_checked (HostText.por_norm parse_ip resolve ip_str re_match nc nr pol s)) /\
      dom_blocked re_match pol n = false.
Proof. exact HostText.por_norm_same_text. Qed.
Print Assumptions C06_same_text_checked_and_resolved.

(* A host whose checked text matches a configured pattern is rejected and nothing is resolved. *)
Theorem C06_pattern_match_never_resolved :
  forall parse_ip resolve ip_str re_match nc nr pol s host port p,
    parse_ip s = None -> split_host_port s = Some (host, port) ->
    In p (p_dom pol) -> re_match p (nc host) = true ->
    HostText.por_norm parse_ip resolve ip_str re_match nc nr pol s = (None, false, [], [nc host]).
Proof. exact HostText.por_norm_match_rejected. Qed.
Print Assumptions C06_pattern_match_never_resolved.

(* The code is the instance without any transformation. *)
Theorem C06_code_is_same_text_instance :
  forall parse_ip resolve ip_str re_match pol s,
    let r := HostText.por_norm parse_ip resolve ip_str re_match (fun h => h) (fun h => h) pol s in
    (HostText.pn_out r, snd (fst (fst r)), HostText.pn_resolved r) = parse_or_resolve_tr parse_ip resolve ip_str re_match pol s.
Proof. exact HostText.por_norm_id. Qed.
Print Assumptions C06_code_is_same_text_instance.
