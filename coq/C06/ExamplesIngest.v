(* C06 — ingest / dial model: non-vacuity, and the two refuted variants (what the seeded changes do). *)
From CJ Require Import Common.Base C06.Model C06.Proofs C06.IPText C06.IPTextProofs C06.ModelIngest C06.ProofsIngest C06.Examples.
From Coq Require Import Lia.
Local Open Scope N_scope.

(* the name system: rebind.test answers a public address at step 0 and 10.0.0.1 afterwards *)
Definition ex_names (n : nat) (h : bytes) : option (bytes * bytes) :=
  if bytes_eqb h (s_ "rebind.test") then Some (match n with O => ip4 93 184 216 34 | _ => ip4 10 0 0 1 end, [])
  else None.
Definition ex_res_at (n : nat) := resolve_with (ex_names n).
Definition ex_later := resolve_with (ex_names 7).

Definition mk (k : N) (kind : tkind) (c : string) : sreg :=
  {| g_key := k; g_kind := kind; g_covert := s_ c; g_valid_in := true; g_live := false; g_pblock := false |}.

Definition hist : list iop :=
  [ IIngest (mk 1 Connecting "rebind.test:443") true;      (* new, a name that is permitted now *)
    IIngest (mk 1 Connecting "10.0.0.1:443") true;         (* duplicate naming a blocklisted literal *)
    IIngest (mk 1 Connecting "rebind.test:443") true;      (* duplicate whose name now points into the blocklist *)
    IIngest (mk 2 Wrapping "1.2.3.4:80") true;
    IIngest (mk 2 Wrapping "10.0.0.1:80") true;            (* duplicate on a wrapping transport *)
    IConnIn 2;
    IReload pol_allow;                                      (* only 1.2.3.4 is allowed from here on *)
    IConnIn 1;                                              (* a served registration keeps its admitted literal *)
    IIngest (mk 3 Connecting "93.184.216.34:443") true;    (* refused under the new policy: tracked, never valid *)
    IConnIn 3;
    IExpire 2;
    IIngest (mk 2 Wrapping "10.0.0.1:80") true;            (* new again: checked under the policy in force now *)
    IConnIn 2 ].

Notation run_c := (ModelIngest.run parse_ip_c ex_res_at ip_str_c ex_re).

(* what the model does on this history: one connect + dial at admission, one dial per connection, nothing for duplicates *)
Example ex_hist_effects :
  snd (run_c pol_block 0 [] hist) =
  [ (0%nat, EConnect 1 (s_ "93.184.216.34:443")); (0%nat, EDial 1 (s_ "93.184.216.34:443"));
    (5%nat, EDial 2 (s_ "1.2.3.4:80")); (7%nat, EDial 1 (s_ "93.184.216.34:443")) ].
Proof. vm_compute. reflexivity. Qed.

(* the name system of the example meets what the theorems ask of it ... *)
Example ex_names_ok : forall m, names_ok (ex_names m).
Proof.
  intros m h a z. unfold ex_names. destruct (bytes_eqb h (s_ "rebind.test")); [|discriminate].
  destruct m; intros [= <- <-]; split; reflexivity.
Qed.

(* ... so the dial theorem applies to the history, and its conclusion speaks about a real dial of it *)
Example ex_theorem_applies :
  exists pre r ok post host port a z a',
    hist = pre ++ IIngest r ok :: post /\ (length pre <= 7)%nat /\ g_key r = 1 /\
    split_host_port (g_covert r) = Some (host, port) /\ port_ok port = true /\
    dom_blocked ex_re (policy_after_i pol_block pre) host = false /\
    resolve_with (ex_names (length pre)) host = Some (a, z) /\ valid_ip a = true /\ zoned_v4 a z = false /\
    blocked (policy_after_i pol_block pre) a = false /\
    s_ "93.184.216.34:443" = join_host_port (ip_text ip_str_c a z) port /\
    dial_target ex_later (s_ "93.184.216.34:443") = Some (a', z, port) /\
    norm a' = norm a /\ blocked (policy_after_i pol_block pre) a' = false.
Proof.
  apply (every_dial_checked_concrete ex_names (ex_names 7) ex_re pol_block hist 7%nat 1 (s_ "93.184.216.34:443") ex_names_ok).
  vm_compute. auto 10.
Qed.

(* the admitted literal, dialled when the name has long been rebound, reaches the checked address and port *)
Example ex_dial_target_permitted :
  dial_target ex_later (s_ "93.184.216.34:443") = Some (ip16of4 93 184 216 34, [], s_ "443") /\
  blocked pol_block (ip16of4 93 184 216 34) = false.
Proof. vm_compute. auto. Qed.

(* ---------------------------------------------------------------- refuted variant 1: "hand the duplicate to the connecting path" *)
Notation run_retry := (run_with parse_ip_c ex_res_at ip_str_c ex_re (ingest_dup_retry parse_ip_c ex_res_at ip_str_c ex_re)).

Example dup_retry_dials_unchecked_literal :
  In (1%nat, EDial 1 (s_ "10.0.0.1:443")) (snd (run_retry pol_block 0 [] hist)) /\
  dial_target ex_later (s_ "10.0.0.1:443") = Some (ip16of4 10 0 0 1, [], s_ "443") /\
  blocked pol_block (ip16of4 10 0 0 1) = true.
Proof. vm_compute. auto 10. Qed.

(* ... and a name is resolved when it is dialled, not once at admission *)
Example dup_retry_dials_name :
  In (2%nat, EDial 1 (s_ "rebind.test:443")) (snd (run_retry pol_block 0 [] hist)) /\
  dial_target ex_later (s_ "rebind.test:443") = Some (ip4 10 0 0 1, [], s_ "443") /\
  blocked pol_block (ip4 10 0 0 1) = true.
Proof. vm_compute. auto 10. Qed.

(* the theorem's conclusion fails for the variant: the dialled string was never the result of a check *)
Example dup_retry_refuted :
  exists i k c, In (i, EDial k c) (snd (run_retry pol_block 0 [] hist)) /\
    forall m pol, check parse_ip_c ex_res_at ip_str_c ex_re pol m c <> Some c \/ blocked pol (ip4 10 0 0 1) = false.
Proof.
  exists 1%nat, 1, (s_ "10.0.0.1:443"). split; [vm_compute; auto 10|].
  intros m pol. destruct (blocked pol (ip4 10 0 0 1)) eqn:Eb; [left|now right].
  unfold check. intro H.
  destruct (parse_or_resolve parse_ip_c (ex_res_at m) ip_str_c ex_re pol (s_ "10.0.0.1:443")) as [o lk] eqn:E.
  cbn [fst] in H. subst o.
  destruct (accepted_is_checked_literal _ _ _ _ _ _ _ _ E) as (host & port & a & z & _ & Hs & _ & _ & Hr & _ & Hb & _).
  assert (Hs' : split_host_port (s_ "10.0.0.1:443") = Some (s_ "10.0.0.1", s_ "443")) by (vm_compute; reflexivity).
  rewrite Hs' in Hs. injection Hs as <- <-.
  assert (Hr' : ex_res_at m (s_ "10.0.0.1") = Some (ip16of4 10 0 0 1, [])) by (vm_compute; reflexivity).
  rewrite Hr' in Hr. injection Hr as <- <-.
  assert (Hm : blocked pol (ip16of4 10 0 0 1) = blocked pol (ip4 10 0 0 1)) by (apply (v4_mapped_same pol (ip4 10 0 0 1)); reflexivity).
  congruence.
Qed.

(* ---------------------------------------------------------------- refuted variant 2: "a duplicate refreshes the tracked object" *)
Notation run_refresh := (run_with parse_ip_c ex_res_at ip_str_c ex_re (ingest_dup_refresh parse_ip_c ex_res_at ip_str_c ex_re)).

Example dup_refresh_dials_unchecked_literal :
  In (5%nat, EDial 2 (s_ "10.0.0.1:80")) (snd (run_refresh pol_block 0 [] hist)) /\
  blocked pol_block (ip16of4 10 0 0 1) = true.
Proof. vm_compute. auto 10. Qed.

(* the stability lemma on the example: the duplicates and the reload leave registration 1's object alone *)
Example ex_tracked_stable :
  find_entry (snd (fst (run_c pol_block 0 [] (firstn 10 hist)))) 1 =
  Some {| e_key := 1; e_kind := Connecting; e_covert := s_ "93.184.216.34:443"; e_valid := true |}.
Proof. vm_compute. reflexivity. Qed.
