(* C06's ingest / dial model and C07's admission model agree on what becomes connectable and with which covert:
   C07's model is tied to the code by C07's own lane (whole messages, both families, probes, sharing); this lemma lets
   C06's dial theorems speak about exactly the registrations C07 announces. *)
From CJ Require Import Common.Base C06.Model C06.Proofs C07.Model C07.Proofs C06.Dialed.
From CJ Require C06.ModelIngest C06.ProofsIngest.
Module MI := CJ.C06.ModelIngest.

Section Bridge.
  Variable parse_ip : bytes -> option ipraw.
  Variable resolve : bytes -> option (ipraw * bytes).
  Variable ip_str : ipraw -> bytes.
  Variable re_match : N -> bytes -> bool.
  Variable live : ipraw -> N -> bool.
  Variable cfg : config.
  Variable key : reg -> N.          (* the identity a registration is tracked under *)
  Variable kind : MI.tkind.

  Definition cf (pol : policy) : bytes -> option bytes := covert_fn parse_ip ip_str re_match resolve pol.

  (* a C07 registration as C06's ingest model sees it *)
  Definition proj (r : reg) : MI.sreg :=
    {| MI.g_key := key r; MI.g_kind := kind; MI.g_covert := r_covert r;
       MI.g_valid_in := validate cfg r;
       MI.g_live := needs_probe r && probe_live live r;
       MI.g_pblock := from_detector r && reg_phantom_blocked cfg r |}.

  Lemma check_is_cf pol n s : MI.check parse_ip (fun _ => resolve) ip_str re_match pol n s = cf pol s.
  Proof. reflexivity. Qed.

  (* for a registration that is not tracked on either side: C06's model makes it valid with covert lit
     exactly when C07's admission conditions hold and the policy function returned lit *)
  Lemma bridge_valid_iff pol n st st' r ok lit :
    tracked st r = false -> MI.find_entry st' (key r) = None ->
    (cf pol (r_covert r) = Some lit /\ admissible (cf pol) live cfg st r = true) <->
    MI.find_entry (fst (MI.ingest parse_ip (fun _ => resolve) ip_str re_match pol n st' (proj r) ok)) (key r)
      = Some {| MI.e_key := key r; MI.e_kind := kind; MI.e_covert := lit; MI.e_valid := true |}.
  Proof.
    intros Ht Hf. unfold MI.ingest, proj, admissible, covert_ok. cbn [MI.g_key MI.g_kind MI.g_covert MI.g_valid_in MI.g_live MI.g_pblock].
    rewrite Hf, Ht, check_is_cf. unfold validate.
    destruct (cf pol (r_covert r)) as [l|];
      destruct (complete r), (transport_enabled cfg (r_transport r)), (from_detector r), (reg_phantom_blocked cfg r),
               (needs_probe r), (probe_live live r);
      cbn [negb andb orb fst]; rewrite ?(ProofsIngest.find_entry_app_none _ _ _ Hf), ?Hf;
      cbn [MI.find_entry MI.e_key]; rewrite ?N.eqb_refl;
      (split; [intros [H1 H2]; try discriminate; try (injection H1 as ->; reflexivity)
              | intro H; try discriminate; try (injection H as ->; split; reflexivity)]).
  Qed.

  (* ... hence exactly when C07's ingest announces the registration with that covert *)
  Lemma bridge_announced pol n st st' r ok lit :
    tracked st r = false -> MI.find_entry st' (key r) = None ->
    In (Announce (set_covert r lit)) (snd (ingest (cf pol) live cfg st r)) <->
    MI.find_entry (fst (MI.ingest parse_ip (fun _ => resolve) ip_str re_match pol n st' (proj r) ok)) (key r)
      = Some {| MI.e_key := key r; MI.e_kind := kind; MI.e_covert := lit; MI.e_valid := true |}.
  Proof.
    intros Ht Hf. rewrite <- (bridge_valid_iff pol n st st' r ok lit Ht Hf). split.
    - intro Hin. destruct (ingest_announced_is_checked _ _ _ _ _ _ Hin) as (l & Hc & Heq).
      assert (l = lit).
      { assert (E : r_covert (set_covert r lit) = r_covert (set_covert r l)) by now rewrite Heq. exact (eq_sym E). }
      subst l. split; [exact Hc|]. apply ingest_announce_iff. eauto.
    - intros [Hc Ha]. apply ingest_announce_iff in Ha as (r' & Hin).
      destruct (ingest_announced_is_checked _ _ _ _ _ _ Hin) as (l & Hc' & ->).
      unfold cf in *. rewrite Hc in Hc'. now injection Hc' as <-.
  Qed.
End Bridge.
