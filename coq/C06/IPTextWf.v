(* C06 — what the concrete parsers return is made of bytes: every element of netip.ParseAddr's address is < 256.
   Discharges the resolver_wf hypothesis of the dial theorems for the literal branch of ResolveIPAddr. *)
From Coq Require Import Lia ZifyN ZifyNat ZifyBool.
From CJ Require Import Common.Base C06.Model C06.Proofs C06.IPText.
Local Open Scope N_scope.
Ltac Zify.zify_post_hook ::= Z.div_mod_to_equations.

Ltac cif H E := match type of H with context [if ?b then _ else _] => destruct b eqn:E end.

Lemma wfb_app a b : wf_bytes (a ++ b) = wf_bytes a && wf_bytes b.
Proof. unfold wf_bytes. apply forallb_app. Qed.

Lemma wfb_repeat0 n : wf_bytes (repeat 0 n) = true.
Proof. induction n; [reflexivity|]. cbn [repeat]. unfold wf_bytes in *. cbn [forallb]. now rewrite IHn. Qed.

Lemma wfb_firstn n a : wf_bytes a = true -> wf_bytes (firstn n a) = true.
Proof.
  unfold wf_bytes. revert n. induction a as [|x a IH]; intros [|n] H; auto.
  cbn [firstn forallb] in *. apply andb_true_iff in H as [Hx Ha]. now rewrite Hx, IH.
Qed.

Lemma wfb_skipn n a : wf_bytes a = true -> wf_bytes (skipn n a) = true.
Proof.
  unfold wf_bytes. revert n. induction a as [|x a IH]; intros [|n] H; auto.
  cbn [skipn forallb] in *. apply andb_true_iff in H as [_ Ha]. now apply IH.
Qed.

Lemma wfb_one v : v < 256 -> wf_bytes [v] = true.
Proof. intro H. unfold wf_bytes, wf_byte. cbn [forallb]. rewrite andb_true_r. now apply N.ltb_lt. Qed.

(* ---------------------------------------------------------------- IPv4 fields *)
Lemma p4_loop_wf s : forall first prevdot val diglen fields out,
  wf_bytes fields = true -> val < 256 ->
  p4_loop s first prevdot val diglen fields = Some out -> wf_bytes out = true.
Proof.
  induction s as [|c r IH]; intros first prevdot val diglen fields out Hf Hv H; cbn [p4_loop] in H.
  - cif H E; [discriminate|]. injection H as <-.
    now rewrite wfb_app, Hf, (wfb_one val Hv).
  - cif H Ed.
    + cif H E0; [discriminate|].
      cif H E; [discriminate|].
      apply N.ltb_ge in E. eapply IH; [exact Hf | | exact H]. lia.
    + cif H E1; [|discriminate].
      cif H E2; [discriminate|].
      cif H E3; [discriminate|].
      eapply IH; [ | | exact H]; [now rewrite wfb_app, Hf, (wfb_one val Hv) | lia].
Qed.

Lemma parse4_wf s a : parse4 s = Some a -> wf_bytes a = true.
Proof. unfold parse4. apply p4_loop_wf; [reflexivity | lia]. Qed.

(* ---------------------------------------------------------------- IPv6 groups *)
Lemma hexdig_lt c d : hexdig c = Some d -> d < 16.
Proof.
  unfold hexdig.
  destruct ((48 <=? c) && (c <=? 57)) eqn:E1; [intros [= <-]; lia|].
  destruct ((97 <=? c) && (c <=? 102)) eqn:E2; [intros [= <-]; lia|].
  destruct ((65 <=? c) && (c <=? 70)) eqn:E3; [intros [= <-]; lia|discriminate].
Qed.

(* after n digits the accumulator is below 16^n; at most four digits are read *)
Lemma read_hex_bound s : forall n acc off v rest,
  (n <= 4)%nat -> acc < 16 ^ N.of_nat n -> read_hex s n acc = Some (off, v, rest) -> v < 65536.
Proof.
  induction s as [|c r IH]; intros n acc off v rest Hn Ha H; cbn [read_hex] in H.
  - injection H as _ <- _. assert (16 ^ N.of_nat n <= 16 ^ 4) by (apply N.pow_le_mono_r; lia). change (16 ^ 4) with 65536 in *. lia.
  - destruct (hexdig c) as [d|] eqn:Ed.
    + destruct (Nat.leb 4 n) eqn:E4; [discriminate|]. apply Nat.leb_gt in E4.
      apply hexdig_lt in Ed.
      eapply (IH (S n) (acc * 16 + d)); [lia | | exact H].
      replace (N.of_nat (S n)) with (N.succ (N.of_nat n)) by lia. rewrite N.pow_succ_r'. lia.
    + injection H as _ <- _. assert (16 ^ N.of_nat n <= 16 ^ 4) by (apply N.pow_le_mono_r; lia). change (16 ^ 4) with 65536 in *. lia.
Qed.

Lemma p6_loop_wf fuel : forall s ell ip out ell' rest,
  wf_bytes ip = true -> p6_loop fuel s ell ip = Some (out, ell', rest) -> wf_bytes out = true.
Proof.
  induction fuel as [|f IH]; intros s ell ip out ell' rest Hip H; cbn [p6_loop] in H; [discriminate|].
  cif H E16; [now injection H as <- _ _|].
  destruct (read_hex s 0 0) as [[[off acc] rst]|] eqn:Er; [|discriminate].
  cif H Eoff; [discriminate|].
  assert (Hacc : acc < 65536) by (eapply (read_hex_bound s 0%nat 0); [lia | cbn; lia | exact Er]).
  assert (Hip' : wf_bytes (ip ++ [acc / 256; acc mod 256]) = true).
  { rewrite wfb_app, Hip. unfold wf_bytes, wf_byte. cbn [forallb andb].
    assert (H0 : acc / 256 < 256) by lia. assert (H1 : acc mod 256 < 256) by lia.
    apply N.ltb_lt in H0, H1. now rewrite H0, H1. }
  cif H Eemb.
  - cif H Ea; [discriminate|].
    cif H Eb; [discriminate|].
    destruct (parse4 s) as [f4|] eqn:E4; [|discriminate]. injection H as <- _ _.
    now rewrite wfb_app, Hip, (parse4_wf _ _ E4).
  - destruct rst as [|c r1]; [now injection H as <- _ _|].
    cif H Ec; [discriminate|].
    destruct r1 as [|c2 r2]; [discriminate|].
    cif H Ec2.
    + destruct ell; [discriminate|]. destruct r2; [now injection H as <- _ _|]. eapply IH; eauto.
    + eapply IH; eauto.
Qed.

Lemma parse6_body_wf s ip : parse6_body s = Some ip -> wf_bytes ip = true.
Proof.
  unfold parse6_body. destruct (strip_lead s) as [[s1 ell0] only].
  destruct only; [intros [= <-]; reflexivity|].
  destruct (p6_loop (S (length s1)) s1 ell0 []) as [[[ip0 ell] rest]|] eqn:E; [|discriminate].
  pose proof (p6_loop_wf _ _ _ [] _ _ _ (eq_refl : wf_bytes [] = true) E) as Hw.
  destruct rest; [|discriminate].
  intro H. cif H El.
  - destruct ell as [e|]; [|discriminate]. injection H as <-.
    now rewrite !wfb_app, (wfb_firstn e _ Hw), wfb_repeat0, (wfb_skipn e _ Hw).
  - destruct ell; [discriminate|]. now injection H as <-.
Qed.

Lemma parse6_wf s ip z : parse6 s = Some (ip, z) -> wf_bytes ip = true.
Proof.
  unfold parse6. destruct (cut_at c_pct s) as [[s1 z1]|].
  - destruct z1; [discriminate|]. destruct (parse6_body s1) eqn:E; [|discriminate]. intros [= <- _]. eapply parse6_body_wf; eauto.
  - destruct (parse6_body s) eqn:E; [|discriminate]. intros [= <- _]. eapply parse6_body_wf; eauto.
Qed.

Lemma parse_addr_wf s a z : parse_addr s = Some (a, z) -> wf_bytes a = true.
Proof.
  unfold parse_addr. destruct (first_decisive s) as [c|]; [|discriminate].
  destruct (c =? c_dot).
  - destruct (parse4 s) eqn:E; [|discriminate]. intros [= <- _]. eapply parse4_wf; eauto.
  - destruct (c =? c_colon); [|discriminate]. apply parse6_wf.
Qed.

Lemma to16_wf a : wf_bytes a = true -> wf_bytes (to16 a) = true.
Proof. unfold to16. destruct (len_is 4 a); [|auto]. intro H. now rewrite wfb_app, H. Qed.

Lemma resolve_literal_wf h a z : resolve_literal h = Some (a, z) -> wf_bytes a = true.
Proof.
  unfold resolve_literal. destruct (parse_addr h) as [[a0 z0]|] eqn:E; [|discriminate].
  intros [= <- _]. apply to16_wf. eapply parse_addr_wf; eauto.
Qed.

(* the resolver of the model is well-formed as soon as the NAME SYSTEM's answers are made of bytes *)
Lemma resolver_wf_concrete names :
  (forall h a z, names h = Some (a, z) -> wf_bytes a = true) -> resolver_wf (resolve_with names).
Proof.
  intros Hn h a z. unfold resolve_with. destruct h as [|c h']; [now intros [= <- _]|].
  destruct (resolve_literal (c :: h')) as [[a0 z0]|] eqn:E.
  - intros [= <- <-]. eapply resolve_literal_wf; eauto.
  - apply Hn.
Qed.
