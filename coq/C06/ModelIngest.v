(* C06 — every path to the dial.  Definitions only.

   pkg/station/lib/registration_ingest.go: ingestRegistration (validation, TrackRegIfNotExists with its duplicate
   branch, the covert check and `reg.Covert = covert`, the liveness / phantom-blocklist drops, AddRegistration,
   handleConnectingTpReg -> ConnectingTransport.Connect -> Proxy), registration.go: RegistrationExists /
   getRegistrations (only valid entries) / removeRegistration, RegistrationManager.OnReload, and
   proxies.go: Proxy -> net.Dial("tcp", reg.Covert).

   A registration OBJECT carries its covert string.  There are two ways an object reaches the dial site:
     wrapping   : a connection arrives, the lookup returns the TRACKED valid object, Proxy dials its Covert;
     connecting : ingest hands an object to Connect and then to Proxy, which dials ITS Covert.
   The model makes the object identity explicit by recording, for every hand-off and every dial, the covert
   string of the object that was handed over. *)
From CJ Require Import Common.Base C06.Model.

Inductive tkind := Wrapping | Connecting.

(* a parsed registration as it enters ingestRegistration *)
Record sreg := {
  g_key : N;            (* what it is tracked under: (phantom, transport identifier of the shared secret) *)
  g_kind : tkind;       (* what the transport registered for its transport type implements *)
  g_covert : bytes;     (* DecoyRegistration.Covert: the raw client string *)
  g_valid_in : bool;    (* ValidateRegistration passes *)
  g_live : bool;        (* a liveness probe is due and the phantom answers: dropped after the covert check *)
  g_pblock : bool       (* from the detector, phantom blocklisted on this station: dropped after the covert check *)
}.

(* one tracked object *)
Record entry := { e_key : N; e_kind : tkind; e_covert : bytes; e_valid : bool }.
Definition table := list entry.

Fixpoint find_entry (st : table) (k : N) : option entry :=
  match st with
  | [] => None
  | e :: r => if e_key e =? k then Some e else find_entry r k
  end.

Definition remove_entry (st : table) (k : N) : table := filter (fun e => negb (e_key e =? k)) st.

(* what leaves the registration table towards the network *)
Inductive eff :=
| EConnect (k : N) (c : bytes)   (* an object with Covert = c handed to ConnectingTransport.Connect (and then to Proxy) *)
| EDial (k : N) (c : bytes).     (* Proxy: net.Dial("tcp", c) *)

Inductive iop :=
| IIngest (r : sreg) (conn_ok : bool)   (* conn_ok: Connect returns a connection (else Proxy is not reached) *)
| IReload (p : policy)                  (* RegistrationManager.OnReload *)
| IConnIn (k : N)                       (* a connection for registration k arrives: lookup among VALID objects, Proxy *)
| IExpire (k : N).                      (* the sweeper removes the tracked object *)

Section Ingest.
  Variable parse_ip : bytes -> option ipraw.
  Variable resolve_at : nat -> bytes -> option (ipraw * bytes).   (* the name system at step n *)
  Variable ip_str : ipraw -> bytes.
  Variable re_match : N -> bytes -> bool.

  Definition check (pol : policy) (n : nat) (s : bytes) : option bytes :=
    fst (parse_or_resolve parse_ip (resolve_at n) ip_str re_match pol s).

  (* handleConnectingTpReg on an object whose Covert is c *)
  Definition connecting_handoff (k : N) (kind : tkind) (c : bytes) (conn_ok : bool) : list eff :=
    match kind with
    | Wrapping => []
    | Connecting => EConnect k c :: (if conn_ok then [EDial k c] else [])
    end.

  (* ingestRegistration *)
  Definition ingest (pol : policy) (n : nat) (st : table) (r : sreg) (conn_ok : bool) : table * list eff :=
    if negb (g_valid_in r) then (st, [])
    else match find_entry st (g_key r) with
    | Some _ => (st, [])                                  (* duplicate: counters only, the new object is dropped *)
    | None =>
      match check pol n (g_covert r) with
      | None => (st ++ [{| e_key := g_key r; e_kind := g_kind r; e_covert := g_covert r; e_valid := false |}], [])
      | Some lit =>                                       (* reg.Covert = covert, on the tracked object *)
        if g_live r || g_pblock r
        then (st ++ [{| e_key := g_key r; e_kind := g_kind r; e_covert := lit; e_valid := false |}], [])
        else (st ++ [{| e_key := g_key r; e_kind := g_kind r; e_covert := lit; e_valid := true |}],
              connecting_handoff (g_key r) (g_kind r) lit conn_ok)
      end
    end.

  (* a connection arrives: getRegistrations returns valid objects only; Proxy dials the object's Covert *)
  Definition conn_in (st : table) (k : N) : list eff :=
    match find_entry st k with
    | Some e => if e_valid e then [EDial k (e_covert e)] else []
    | None => []
    end.

  Definition step (pol : policy) (n : nat) (st : table) (o : iop) : policy * table * list eff :=
    match o with
    | IIngest r ok => let '(st', ef) := ingest pol n st r ok in (pol, st', ef)
    | IReload p => (p, st, [])
    | IConnIn k => (pol, st, conn_in st k)
    | IExpire k => (pol, remove_entry st k, [])
    end.

  (* a history: effects are tagged with the index of the step that produced them *)
  Fixpoint run (pol : policy) (n : nat) (st : table) (ops : list iop) : policy * table * list (nat * eff) :=
    match ops with
    | [] => (pol, st, [])
    | o :: rest =>
      let '(pol1, st1, ef) := step pol n st o in
      let '(pol2, st2, efs) := run pol1 (S n) st1 rest in
      (pol2, st2, map (fun e => (n, e)) ef ++ efs)
    end.

  Fixpoint policy_after_i (pol : policy) (ops : list iop) : policy :=
    match ops with
    | [] => pol
    | IReload p :: r => policy_after_i p r
    | _ :: r => policy_after_i pol r
    end.

  (* the property's vocabulary: covert string c was ADMITTED for key k at step m of the history (pol0, n0, ops):
     the m-th operation is the ingest of a registration with that key whose raw covert string the policy
     function, under the policy in force at that step and with the name system of that step, turned into c *)
  Definition admitted_at (pol0 : policy) (n0 : nat) (ops : list iop) (m : nat) (k : N) (c : bytes) : Prop :=
    exists pre r ok post lk,
      ops = pre ++ IIngest r ok :: post /\ m = (n0 + length pre)%nat /\ g_key r = k /\
      parse_or_resolve parse_ip (resolve_at m) ip_str re_match (policy_after_i pol0 pre) (g_covert r) = (Some c, lk).

  (* ------------------------------------------------------------ refuted variants (what the seeded changes do) *)

  (* "let the client retry": a duplicate of a valid registration is handed to the connecting path — the object
     handed over is the freshly parsed duplicate *)
  Definition ingest_dup_retry (pol : policy) (n : nat) (st : table) (r : sreg) (conn_ok : bool) : table * list eff :=
    if negb (g_valid_in r) then (st, [])
    else match find_entry st (g_key r) with
    | Some e => (st, if e_valid e then connecting_handoff (g_key r) (g_kind r) (g_covert r) conn_ok else [])
    | None => ingest pol n st r conn_ok
    end.

  (* "update tracked registration with new information": a duplicate refreshes the tracked object's covert *)
  Fixpoint refresh (st : table) (k : N) (c : bytes) : table :=
    match st with
    | [] => []
    | e :: rest => if e_key e =? k then {| e_key := e_key e; e_kind := e_kind e; e_covert := c; e_valid := e_valid e |} :: rest
                   else e :: refresh rest k c
    end.

  Definition ingest_dup_refresh (pol : policy) (n : nat) (st : table) (r : sreg) (conn_ok : bool) : table * list eff :=
    if negb (g_valid_in r) then (st, [])
    else match find_entry st (g_key r) with
    | Some e => (refresh st (g_key r) (g_covert r), [])
    | None => ingest pol n st r conn_ok
    end.

  Definition step_with (ing : policy -> nat -> table -> sreg -> bool -> table * list eff)
             (pol : policy) (n : nat) (st : table) (o : iop) : policy * table * list eff :=
    match o with
    | IIngest r ok => let '(st', ef) := ing pol n st r ok in (pol, st', ef)
    | _ => step pol n st o
    end.

  Fixpoint run_with (ing : policy -> nat -> table -> sreg -> bool -> table * list eff)
           (pol : policy) (n : nat) (st : table) (ops : list iop) : policy * table * list (nat * eff) :=
    match ops with
    | [] => (pol, st, [])
    | o :: rest =>
      let '(pol1, st1, ef) := step_with ing pol n st o in
      let '(pol2, st2, efs) := run_with ing pol1 (S n) st1 rest in
      (pol2, st2, map (fun e => (n, e)) ef ++ efs)
    end.
End Ingest.
