(* C12: evaluation of the model on recorded cases (correspondence check). *)
From CJ Require Import Common.Base C12.Model.

Definition obytes_eqb := option_eqb bytes_eqb.
Definition oN_eqb := option_eqb N.eqb.

Definition resp_eqb (a b : resp) : bool :=
  oN_eqb (r_v4 a) (r_v4 b) && obytes_eqb (r_v6 a) (r_v6 b) &&
  oN_eqb (r_port a) (r_port b) && obytes_eqb (r_params a) (r_params b).
Definition oresp_eqb := option_eqb resp_eqb.

(* what the driver decodes from the bytes handed to the sender *)
Record fwd_obs := mkFO {
  fo_secret : bytes; fo_has_payload : bool; fo_payload_eq : bool;
  fo_resp : option resp; fo_signed : option resp;
  fo_has_bytes : bool; fo_has_sig : bool; fo_sig_ok : bool; fo_bytes_ok : bool;
  fo_source : option N; fo_addr : option bytes; fo_decoy : option bytes; fo_unknown : bool;
  fo_gen : option N                   (* decoy_list_generation of the forwarded payload *)
}.

Definition fwd_matches (f : fwd) (o : fwd_obs) : bool :=
  bytes_eqb (f_secret f) (fo_secret o) &&
  Bool.eqb (is_some (f_payload f)) (fo_has_payload o) &&
  (negb (fo_has_payload o) || fo_payload_eq o) &&
  oresp_eqb (f_resp f) (fo_resp o) &&
  oresp_eqb (f_signed f) (fo_signed o) &&
  Bool.eqb (is_some (f_signed f)) (fo_has_bytes o) &&
  Bool.eqb (is_some (f_signed f)) (fo_has_sig o) &&
  (negb (fo_has_bytes o) || (fo_sig_ok o && fo_bytes_ok o)) &&
  oN_eqb (Some (f_source f)) (fo_source o) &&
  obytes_eqb (f_addr f) (fo_addr o) &&
  negb (is_some (fo_decoy o)) && negb (fo_unknown o) &&
  oN_eqb (option_map p_gen (f_payload f)) (fo_gen o).

Definition sreg_obs := (bytes * N * option bytes)%type.

Definition sview_matches (v : sview) (o : sreg_obs) : bool :=
  let '(ph, port, params) := o in
  bytes_eqb (sv_phantom v) ph && (sv_port v =? port) && obytes_eqb (sv_params v) params.

Fixpoint all2 {A B} (f : A -> B -> bool) (l : list A) (r : list B) : bool :=
  match l, r with
  | [], [] => true
  | x :: l', y :: r' => f x y && all2 f l' r'
  | _, _ => false
  end.

Definition station_matches (m : option (list sview)) (o : option (list sreg_obs)) : bool :=
  match m, o with
  | None, None => true
  | Some l, Some r => all2 sview_matches l r
  | _, _ => false
  end.

(* the station's NewRegistration, known at the (at most two) parameter values the run can
   present it with: the client's and the response's.  Each is observed by running the real
   station on the forwarded message with the response stripped, resp. reduced to its parameters;
   a family's entry is None when that run failed. *)
Definition own_obs := (option (bytes * N * option bytes) * option (bytes * N * option bytes))%type.
Definition mk_new_reg (req_params : option bytes) (o1 : own_obs) (resp_params : option bytes) (o2 : own_obs)
  : bool -> option bytes -> option (bytes * N * option bytes) :=
  fun v6 p => let pick (o : own_obs) := if v6 then snd o else fst o in
              if obytes_eqb p resp_params then pick o2 else if obytes_eqb p req_params then pick o1 else None.

Record obs := mkObs {
  o_err : N;                          (* 0 ok, 1 no C2S body, 2 process failed, 3 shared secret, 4 other error, 5 panic, 6 constructor error *)
  o_resp : option resp;
  o_sent : bool;
  o_fwd : option fwd_obs;
  o_station : option (option (list sreg_obs));  (* None = station not run *)
  (* front ends: HTTP status / DNS success, the ClientConf generation attached (API) or the
     outdated flag (DNS), whether the response the client got has any other field *)
  o_status : N; o_cc : option N; o_resp_extra : bool
}.

Definition err_code (x : err) : N :=
  match x with ENoC2S => 1 | EProcFailed => 2 | ESecret => 3 | EOther => 4 end.

Record case := mkCase {
  k_kind : N;                         (* 0 bidirectional, 1 unidirectional, 2 station only *)
  k_fe : N;                           (* 0 the processor's entry points, 1 API handlers, 2 DNS processRequest *)
  k_server_gen : option N; k_body_len : N;
  k_cfg : rcfg; k_req : req; k_client_addr : option bytes; k_method : N; k_env : env;
  k_st : scfg;
  k_obs : obs
}.

Definition fwd_and_station (k : case) (f : fwd) : bool :=
  let o := k_obs k in
  o_sent o &&
  match o_fwd o with Some fo => fwd_matches f fo | None => false end &&
  match o_station o with Some so => station_matches (station (k_st k) f) so | None => false end.

Definition chk_fe (k : case) (m : option fe_out) : bool :=
  let o := k_obs k in
  match m with
  | None => o_err o =? 5
  | Some x =>
    (o_err o =? 0) && (fe_status x =? o_status o) && oresp_eqb (fe_resp x) (o_resp o) &&
    oN_eqb (fe_cc x) (o_cc o) && negb (o_resp_extra o) &&
    match fe_fwd x with
    | Some f => fwd_and_station k f
    | None => negb (o_sent o)
    end
  end.

Definition chk (k : case) : bool :=
  let o := k_obs k in
  if negb (cfg_accepted (k_cfg k)) then o_err o =? 6     (* the real constructor refuses the configuration *)
  else
  match k_kind k, k_fe k with
  | 2, _ =>
    (* an arbitrary (possibly hostile) wrapper is given to the station *)
    let q := k_req k in
    match o_station o with
    | Some so => station_matches (station (k_st k) (mkFwd (q_secret q) (q_payload q) (q_forged_resp q) None (q_source q) (q_addr q))) so
    | None => false
    end
  | 0, 1 => chk_fe k (api_bd (k_cfg k) (k_server_gen k) (k_body_len k) (k_req k) (k_client_addr k) (k_env k))
  | _, 1 => chk_fe k (api_uni (k_cfg k) (k_body_len k) (k_req k) (k_client_addr k))
  | _, 2 => chk_fe k (dns_req (k_cfg k) (match k_server_gen k with Some g => g | None => 0 end) (k_req k) (k_env k))
  | 1, _ =>
    match register_uni (k_cfg k) (k_req k) (k_client_addr k) (k_method k) with
    | Ok f => (o_err o =? 0) && negb (is_some (o_resp o)) && fwd_and_station k f
    | Err x => (o_err o =? err_code x) && negb (o_sent o)
    | Panic => o_err o =? 5
    end
  | _, _ =>
    match register_bd (k_cfg k) (k_req k) (k_client_addr k) (k_method k) (k_env k) with
    | Ok (r, f) => (o_err o =? 0) && oresp_eqb (Some r) (o_resp o) && fwd_and_station k f
    | Err x => (o_err o =? err_code x) && negb (is_some (o_resp o)) && negb (o_sent o)
    | Panic => o_err o =? 5
    end
  end.
