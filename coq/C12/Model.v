(* C12 model: the registrar's decision logic for a registration (RegisterBidirectional /
   RegisterUnidirectional, processBdReq, processC2SWrapper in
   pkg/regserver/regprocessor/regprocessor.go) and the station's reading of the forwarded
   message (parseRegMessage / NewRegistrationC2SWrapper in
   pkg/station/lib/registration_ingest.go).  Definitions only; executable.

   External functions are explicit arguments (record `env`): phantom selection (C01/C14's
   subject), the transport's ParseParams / GetDstPort, the configured RegOverride, the byte
   strings crypto/rand.Reader returns and the value of math/rand.Float64.  Transport parameters
   are opaque byte strings (a canonical form of the anypb message). *)
From CJ Require Export Common.Base.

Inductive err := ENoC2S | EProcFailed | ESecret | EOther.

Record resp := mkResp {
  r_v4 : option N;            (* RegistrationResponse.Ipv4Addr *)
  r_v6 : option bytes;        (* Ipv6Addr *)
  r_port : option N;          (* DstPort *)
  r_params : option bytes     (* TransportParams *)
}.

Record c2s := mkC2S {          (* ClientToStation: the fields the logic reads; the message is forwarded as a whole *)
  p_v4 : bool; p_v6 : bool;
  p_transport : N;
  p_params : option bytes;
  p_disable_ov : bool;        (* disable_registrar_overrides *)
  p_libver : N; p_gen : N
}.

Record req := mkReq {          (* the C2SWrapper a client submits: every field is under its control *)
  q_secret : bytes;
  q_payload : option c2s;
  q_forged_resp : option resp;      (* registration_response *)
  q_forged_bytes : option bytes;    (* reg_resp_bytes *)
  q_forged_sig : option bytes;      (* reg_resp_signature *)
  q_source : N;                     (* registration_source, 0 = unspecified / absent *)
  q_addr : option bytes             (* registration_address *)
}.

Record fwd := mkFwd {          (* the C2SWrapper handed to the ZMQ sender *)
  f_secret : bytes;
  f_payload : option c2s;
  f_resp : option resp;
  f_signed : option resp;     (* the response reg_resp_bytes decodes to; it carries a valid registrar signature *)
  f_source : N;
  f_addr : option bytes
}.

Record subnet := mkSub {
  s_v4net : bool;             (* the CIDR is an IPv4 network *)
  s_base : N; s_ones : N;     (* network address and prefix length *)
  s_weight : N;               (* weights scaled to integers by the emitter (exact) *)
  s_port : N
}.

Record rcfg := mkCfg {
  c_auth : bool;
  c_has_ov : bool;            (* regOverrides != nil *)
  c_transports : list N;
  c_enforce : bool;           (* enforceSubnetOverrides *)
  c_min_subnets : list subnet;
  c_prefix_subnets : list subnet;
  c_exclusions : list subnet;
  c_rmin : N; c_rprefix : N;  (* override iff the draw from 0..9999 is below this *)
  c_send_ok : bool;
  c_other_subnets : list subnet   (* override subnets configured for other transports: validated, never used *)
}.

Record env := mkEnv {
  e_sel4 : option (N * bool);         (* ipSelector.Select(..., v6=false): address, SupportRandomPort; None = error *)
  e_sel6 : option (bytes * bool);
  e_parse_ok : bool;                  (* transport.ParseParams on the client's parameters *)
  e_dstport : option N;               (* transport.GetDstPort *)
  e_ov : option (option bytes);       (* regOverrides.Override: None = error, Some p = the response's parameters afterwards *)
  e_chunks : list bytes;              (* what crypto/rand.Reader returns, one element per Read *)
  e_fnum : N; e_fden : N;             (* math/rand.Float64() = e_fnum / e_fden *)
  e_subnet_params : list (option bytes) (* overridePrefix's parameters for the i-th Prefix subnet; None = error *)
}.

(* ---------------- randomness ---------------- *)
Inductive draw (A : Type) := DOk (a : A) | DErr | DPanic.
Arguments DOk {A}. Arguments DErr {A}. Arguments DPanic {A}.

Definition be_val (b : bytes) : N := fold_left (fun acc x => acc * 256 + x) b 0.

Fixpoint rand_loop (max bits : N) (chunks : list bytes) : draw (N * list bytes) :=
  match chunks with
  | [] => DErr
  | c :: r => let v := be_val c mod 2 ^ bits in
              if v <? max then DOk (v, r) else rand_loop max bits r
  end.

(* crypto/rand.Int(reader, max): panics for max <= 0, reads nothing for max = 1, otherwise
   rejection sampling on BitLen(max-1) bits *)
Definition rand_int (max : N) (chunks : list bytes) : draw (N * list bytes) :=
  if max =? 0 then DPanic
  else if max =? 1 then DOk (0, chunks)
  else rand_loop max (N.size (max - 1)) chunks.

Definition two32 : N := 4294967296.

(* uint64(1) << uint(bits-ones): the number of addresses of the subnet *)
Definition subnet_size (s : subnet) : N := 2 ^ (32 - s_ones s).

(* getRandUint32IPv4: a random address inside the subnet (uint32 arithmetic) *)
Definition rand_host (s : subnet) (chunks : list bytes) : draw N :=
  match rand_int (subnet_size s) chunks with
  | DOk (r, _) => DOk ((s_base s + r) mod two32)
  | DErr => DErr
  | DPanic => DPanic
  end.

(* IPNet.Contains for an IPv4 address *)
Definition contains (s : subnet) (a : N) : bool :=
  s_v4net s && (a / 2 ^ (32 - s_ones s) =? s_base s / 2 ^ (32 - s_ones s)).

Definition excluded (cfg : rcfg) (a : option N) : bool :=
  match a with
  | None => false
  | Some x => existsb (fun s => contains s x) (c_exclusions cfg)
  end.

(* the weighted choice: the first subnet whose cumulative weight / total exceeds the draw
   f = fnum/fden  (fnum * total < cumulative * fden) *)
Definition total_weight (l : list subnet) : N := fold_right (fun s a => s_weight s + a) 0 l.

Fixpoint choose_from (fnum fden total acc : N) (i : nat) (l : list subnet) : option (nat * subnet) :=
  match l with
  | [] => None
  | s :: r => let acc' := acc + s_weight s in
              if fnum * total <? acc' * fden then Some (i, s)
              else choose_from fnum fden total acc' (S i) r
  end.
Definition choose (fnum fden : N) (l : list subnet) : option (nat * subnet) :=
  choose_from fnum fden (total_weight l) 0 0 l.

(* the loop as it was before the fix (no break): the LAST match wins *)
Fixpoint choose_last_from (fnum fden total acc : N) (i : nat) (l : list subnet) (cur : option (nat * subnet)) : option (nat * subnet) :=
  match l with
  | [] => cur
  | s :: r => let acc' := acc + s_weight s in
              choose_last_from fnum fden total acc' (S i) r
                (if fnum * total <? acc' * fden then Some (i, s) else cur)
  end.
Definition choose_last (fnum fden : N) (l : list subnet) : option (nat * subnet) :=
  choose_last_from fnum fden (total_weight l) 0 0 l None.

(* ---------------- processBdReq ---------------- *)
Definition transport_min : N := 1.
Definition transport_prefix : N := 4.

Definition supports_rand (c : c2s) (e : env) : bool :=
  (if p_v4 c then match e_sel4 e with Some (_, r) => r | None => true end else true) &&
  (if p_v6 c then match e_sel6 e with Some (_, r) => r | None => true end else true).

Definition subnets_for (cfg : rcfg) (t : N) : list subnet :=
  if t =? transport_min then c_min_subnets cfg
  else if t =? transport_prefix then c_prefix_subnets cfg else [].

Definition subnet_override (cfg : rcfg) (c : c2s) (e : env) (r : resp) : result err resp :=
  if negb (c_enforce cfg) then Ok r
  else if excluded cfg (r_v4 r) then Ok r
  else match rand_int 10000 (e_chunks e) with
  | DPanic => Panic
  | DErr => Ok r
  | DOk (gate, rest) =>
    if p_transport c =? transport_min then
      if gate <? c_rmin cfg then
        match choose (e_fnum e) (e_fden e) (c_min_subnets cfg) with
        | None => Ok r
        | Some (_, s) =>
          if negb (s_v4net s) then Ok r
          else match rand_host s rest with
               | DPanic => Panic
               | DErr => Ok r
               | DOk ip => Ok (mkResp (Some ip) (r_v6 r) (r_port r) (r_params r))
               end
        end
      else Ok r
    else if p_transport c =? transport_prefix then
      if negb (p_disable_ov c) && (gate <? c_rprefix cfg) then
        match choose (e_fnum e) (e_fden e) (c_prefix_subnets cfg) with
        | None => Ok r
        | Some (i, s) =>
          if negb (s_v4net s) then Ok r
          else match rand_host s rest with
               | DPanic => Panic
               | DErr => Ok r
               | DOk ip =>
                 match nth i (e_subnet_params e) None with
                 | None => Ok r
                 | Some sp => Ok (mkResp (Some ip) (r_v6 r) (Some (s_port s)) (Some sp))
                 end
               end
        end
      else Ok r
    else Ok r
  end.

Definition select4 (c : c2s) (e : env) : option (option N) :=
  if p_v4 c then match e_sel4 e with Some (a, _) => Some (Some a) | None => None end else Some None.
Definition select6 (c : c2s) (e : env) : option (option bytes) :=
  if p_v6 c then match e_sel6 e with Some (a, _) => Some (Some a) | None => None end else Some None.

(* the response before the subnet override *)
Definition base_response (cfg : rcfg) (c : c2s) (e : env) : result err resp :=
  match select4 c e with
  | None => Err EOther
  | Some v4 =>
    match select6 c e with
    | None => Err EOther
    | Some v6 =>
      if negb (existsb (N.eqb (p_transport c)) (c_transports cfg)) then Err EOther
      else if negb (e_parse_ok e) then Err EOther
      else
        match (if c_has_ov cfg && negb (p_disable_ov c) then e_ov e else Some None) with
        | None => Err EOther
        | Some params =>
          match (if supports_rand c e then e_dstport e else Some 443) with
          | None => Err EOther
          | Some port => Ok (mkResp v4 v6 (Some port) params)
          end
        end
    end
  end.

Definition process_bd_req (cfg : rcfg) (q : req) (e : env) : result err resp :=
  match q_payload q with
  | None => Err ENoC2S
  | Some c =>
    match base_response cfg c e with
    | Ok r => subnet_override cfg c e r
    | Err x => Err x
    | Panic => Panic
    end
  end.

(* ---------------- processC2SWrapper ---------------- *)
Definition is_some {A} (o : option A) : bool := match o with Some _ => true | None => false end.

(* `rs` is the registration response attached to the wrapper at this point: None for a
   unidirectional registration (a client-supplied one was cleared on entry), the registrar's own
   for a bidirectional one.  Nothing else of the client's response / signature fields is read. *)
Definition process_c2s_wrapper (cfg : rcfg) (q : req) (rs : option resp)
           (client_addr : option bytes) (method : N) : result err fwd :=
  if blen (q_secret q) <? 8 then Err ESecret
  else Ok (mkFwd (q_secret q) (q_payload q) rs
                 (if c_auth cfg then rs else None)
                 (if q_source q =? 0 then method else q_source q)
                 (if (negb (is_some (q_addr q)) || (q_source q =? method)) && is_some client_addr
                  then client_addr else q_addr q)).

Definition send (cfg : rcfg) {A} (x : A) : result err A :=
  if c_send_ok cfg then Ok x else Err EProcFailed.

Definition register_bd (cfg : rcfg) (q : req) (client_addr : option bytes) (method : N) (e : env)
  : result err (resp * fwd) :=
  match process_bd_req cfg q e with
  | Ok r =>
    match process_c2s_wrapper cfg q (Some r) client_addr method with
    | Ok f => send cfg (r, f)
    | Err x => Err x
    | Panic => Panic
    end
  | Err x => Err x
  | Panic => Panic
  end.

Definition register_uni (cfg : rcfg) (q : req) (client_addr : option bytes) (method : N)
  : result err fwd :=
  match process_c2s_wrapper cfg q None client_addr method with
  | Ok f => send cfg f
  | Err x => Err x
  | Panic => Panic
  end.

Definition clear_forged (q : req) : req :=
  mkReq (q_secret q) (q_payload q) None None None (q_source q) (q_addr q).

(* ---------------- the front ends ----------------
   pkg/regserver/apiregserver (register, registerBidirectional) and pkg/regserver/dnsregserver
   (processRequest) decode the client's bytes into the wrapper, call the processor and encode what
   it returned.  The API front end replaces the payload's decoy-list generation by the server's
   when the client's is older and, after the processor has returned (and published), attaches its
   ClientConf to the response. *)
Definition payload_gen (q : req) : N := match q_payload q with Some c => p_gen c | None => 0 end.

Definition set_gen (q : req) (g : N) : req :=
  match q_payload q with
  | Some c => mkReq (q_secret q)
                    (Some (mkC2S (p_v4 c) (p_v6 c) (p_transport c) (p_params c) (p_disable_ov c) (p_libver c) g))
                    (q_forged_resp q) (q_forged_bytes q) (q_forged_sig q) (q_source q) (q_addr q)
  | None => q
  end.

Definition source_api : N := 2.
Definition source_bdapi : N := 4.
Definition source_dns : N := 5.
Definition source_bddns : N := 6.

Record fe_out := mkFE {
  fe_status : N;             (* HTTP status (API) / 1 = success, 0 = failure (DNS) *)
  fe_resp : option resp;     (* the registration response in the bytes the client receives *)
  fe_cc : option N;          (* API: generation of the ClientConf attached to it; DNS: Some 1 iff clientconf_outdated *)
  fe_fwd : option fwd
}.

Definition api_request (server_gen : option N) (q : req) : req * option N :=
  match server_gen with
  | Some g => if payload_gen q <? g then (set_gen q g, Some g) else (q, None)
  | None => (q, None)
  end.

(* None = the handler panics *)
Definition api_bd (cfg : rcfg) (server_gen : option N) (body_len : N) (q : req) (remote : option bytes) (e : env)
  : option fe_out :=
  match remote with
  | None => Some (mkFE 400 None None None)
  | Some addr =>
    if body_len <? 33 then Some (mkFE 400 None None None)
    else let '(q', cc) := api_request server_gen q in
         match register_bd cfg q' (Some addr) source_bdapi e with
         | Ok (rs, w) => Some (mkFE 200 (Some rs) cc (Some w))
         | Err ENoC2S => Some (mkFE 400 None None None)
         | Err _ => Some (mkFE 500 None None None)
         | Panic => None
         end
  end.

Definition api_uni (cfg : rcfg) (body_len : N) (q : req) (remote : option bytes) : option fe_out :=
  match remote with
  | None => Some (mkFE 400 None None None)
  | Some addr =>
    if body_len <? 33 then Some (mkFE 400 None None None)
    else match register_uni cfg q (Some addr) source_api with
         | Ok w => Some (mkFE 204 None None (Some w))
         | Err _ => Some (mkFE 500 None None None)
         | Panic => None
         end
  end.

Definition dns_req (cfg : rcfg) (latest_gen : N) (q : req) (e : env) : option fe_out :=
  let od := if payload_gen q <? latest_gen then Some 1 else Some 0 in
  if q_source q =? source_bddns then
    match register_bd cfg q None source_bddns e with
    | Ok (rs, w) => Some (mkFE 1 (Some rs) od (Some w))
    | Err _ => Some (mkFE 0 None od None)
    | Panic => None
    end
  else
    match register_uni cfg q None source_dns with
    | Ok w => Some (mkFE 1 None od (Some w))
    | Err _ => Some (mkFE 0 None od None)
    | Panic => None
    end.

(* ---------------- the station ---------------- *)
Record scfg := mkSt {
  st_v4 : bool; st_v6 : bool;          (* EnableIPv4 / EnableIPv6 *)
  (* RegistrationManager.NewRegistration as a function of the family and of the transport
     parameters it is given: the station's own phantom and port derivation and the parsed
     parameters; None = it fails (unknown generation or transport, parameters that do not
     parse, no port for them, ...) *)
  st_new_reg : bool -> option bytes -> option (bytes * N * option bytes)
}.

Record sview := mkSV { sv_v6 : bool; sv_phantom : bytes; sv_port : N; sv_params : option bytes }.

Definition be4 (a : N) : bytes := [a / 16777216 mod 256; a / 65536 mod 256; a / 256 mod 256; a mod 256].

Definition zeros (n : nat) : bytes := repeat 0 n.

(* net.IP.To4() != nil *)
Definition is4 (a : bytes) : bool :=
  (blen a =? 4) ||
  ((blen a =? 16) && bytes_eqb (firstn 12 a) (zeros 10 ++ [255; 255])).

(* which parameters the station uses *)
Definition effective_params (c : c2s) (rr : option resp) : option bytes :=
  match rr with
  | Some r => match r_params r with
              | Some p => if negb (p_disable_ov c) then Some p else p_params c
              | None => p_params c
              end
  | None => p_params c
  end.

Definition station_addr (f : fwd) : bytes :=
  match f_addr f with Some a => a | None => zeros 16 end.

(* the phantom taken from the registration response: None = error, Some None = no override *)
Definition ip_override (rr : option resp) (v6 : bool) : option (option bytes) :=
  match rr with
  | None => Some None
  | Some r =>
    if v6 then
      match r_v6 r with
      | None => Some None
      | Some b => if negb (blen b =? 16) then None       (* not a 16-byte address *)
                  else if is4 b then None                 (* IPv4-mapped *)
                  else Some (Some b)
      end
    else match r_v4 r with
         | Some a => if a =? 0 then Some None else Some (Some (be4 a))
         | None => Some None
         end
  end.

(* NewRegistrationC2SWrapper *)
Definition mk_reg (sc : scfg) (f : fwd) (c : c2s) (v6 : bool) : option sview :=
  let rr := f_resp f in
  match ip_override rr v6 with
  | None => None
  | Some ipov =>
    match st_new_reg sc v6 (effective_params c rr) with
    | None => None
    | Some (own, own_port, parsed) =>
      let phantom := match ipov with Some x => x | None => own end in
      let caddr := station_addr f in
      if negb ((blen caddr =? 4) || (blen caddr =? 16)) then None
      else if is4 phantom && negb (is4 caddr) then None
      else Some (mkSV v6 phantom
                      (match rr with
                       | Some r => match r_port r with Some d => d mod 65536 | None => own_port end
                       | None => own_port
                       end)
                      parsed)
    end
  end.

(* parseRegMessage: None = the message is dropped with an error *)
Definition station (sc : scfg) (f : fwd) : option (list sview) :=
  match f_payload f with
  | None => Some []
  | Some c =>
    let r4 := if p_v4 c && st_v4 sc && is4 (station_addr f)
              then match mk_reg sc f c false with Some r => Some [r] | None => None end
              else Some [] in
    match r4 with
    | None => None
    | Some l4 =>
      if p_v6 c && st_v6 sc
      then match mk_reg sc f c true with Some r => Some (l4 ++ [r]) | None => None end
      else Some l4
    end
  end.

(* ---------------- configuration well-formedness ---------------- *)
Definition wf_subnet (s : subnet) : bool :=
  s_v4net s && (s_ones s <=? 32) && (s_base s <? two32) &&
  (s_base s mod 2 ^ (32 - s_ones s) =? 0) && (s_port s <? 65536).

Definition wf_cfg (cfg : rcfg) : bool :=
  forallb wf_subnet (c_min_subnets cfg) && forallb wf_subnet (c_prefix_subnets cfg).

(* the constructors (newRegProcessor / NewRegProcessorNoAuth) refuse a configuration with an
   override subnet whose port does not fit in 16 bits *)
Definition cfg_accepted (cfg : rcfg) : bool :=
  forallb (fun s => s_port s <? 65536) (c_min_subnets cfg ++ c_prefix_subnets cfg ++ c_other_subnets cfg).

Definition in_subnet (s : subnet) (a : N) : Prop :=
  s_base s <= a /\ a < s_base s + 2 ^ (32 - s_ones s).

(* ---------------- a processor serving a sequence of requests ----------------
   The override configuration is part of the processor's state in the implementation (slices
   and *net.IPNet values reachable from it); serving a request must not change it.  As a state
   machine: the state is the configuration, an input is one request with its client address,
   method and the values of the external functions. *)
Record input := mkIn { i_req : req; i_addr : option bytes; i_method : N; i_env : env }.

Definition serve (cfg : rcfg) (i : input) : rcfg * result err (resp * fwd) :=
  (cfg, register_bd cfg (i_req i) (i_addr i) (i_method i) (i_env i)).

Fixpoint serve_all (cfg : rcfg) (l : list input) : rcfg * list (result err (resp * fwd)) :=
  match l with
  | [] => (cfg, [])
  | i :: r => let '(cfg1, o) := serve cfg i in
              let '(cfg2, os) := serve_all cfg1 r in (cfg2, o :: os)
  end.

(* ---------------- the configuration as the operator wrote it (fifth round) ----------------
   The `cidr` field of override_subnet / excluded_subnet_from_overrides is decoded by
   Ipnet.UnmarshalText = net.ParseCIDR: the text "a.b.c.d/n" (any address, host bits set or
   not) denotes the network obtained by MASKING the written address, and the IPNet kept is
   (masked base, n).  getRandUint32IPv4 adds an offset below 2^(32-n) to IPNet.IP, so it relies on
   the stored address being the masked base. *)
Definition mask_base (written ones : N) : N := written / 2 ^ (32 - ones) * 2 ^ (32 - ones).
Definition cidr_of_text (written ones : N) : N * N := (mask_base written ones, ones).
(* refuted variant: the address is stored as written *)
Definition cidr_keep_hostbits (written ones : N) : N * N := (written, ones).
Definition sub_of_cidr (c : N * N) (w port : N) : subnet := mkSub true (fst c) (snd c) w port.
Definition sub_of_text (written ones w port : N) : subnet := sub_of_cidr (cidr_of_text written ones) w port.
(* the network the operator's text denotes: the addresses that agree with the written one on the first n bits *)
Definition in_written_net (written ones a : N) : Prop := a / 2 ^ (32 - ones) = written / 2 ^ (32 - ones).
