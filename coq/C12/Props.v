(* C12 property theorems: statements + `exact lemma` only. *)
From CJ Require Import Common.Base C12.Model C12.Proofs.

Theorem C12_same_view : forall cfg q ca m e rs w,
  register_bd cfg q ca m e = Ok (rs, w) ->
  f_resp w = Some rs /\ (c_auth cfg = true -> f_signed w = Some rs) /\
  f_payload w = q_payload q /\ f_secret w = q_secret q.
Proof. exact same_view. Qed.
Print Assumptions C12_same_view.
