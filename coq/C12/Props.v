(* C12 property theorems: statements + `exact lemma` only. *)
From CJ Require Import Common.Base C12.Model C12.Proofs.

(* For every request, configuration, selection result and random choice: the response returned
   to the client IS the response attached to the forwarded message (and, when the registrar
   signs, the signed copy); payload and secret are forwarded unchanged. *)
Theorem C12_client_view_eq_station_view : forall cfg q ca m e rs w,
  register_bd cfg q ca m e = Ok (rs, w) ->
  f_resp w = Some rs /\ (c_auth cfg = true -> f_signed w = Some rs) /\
  (c_auth cfg = false -> f_signed w = None) /\
  f_payload w = q_payload q /\ f_secret w = q_secret q.
Proof. exact same_view. Qed.
Print Assumptions C12_client_view_eq_station_view.

(* A station ingesting that message ends up, for every registration it creates, with exactly the
   port, phantom and (effective) parameters of the response the client got. *)
Theorem C12_station_applies : forall cfg q ca m e rs w c sc svs sv,
  register_bd cfg q ca m e = Ok (rs, w) -> q_payload q = Some c ->
  station sc w = Some svs -> In sv svs ->
  (exists port, r_port rs = Some port /\ sv_port sv = port mod 65536) /\
  (sv_v6 sv = true -> r_v6 rs = Some (sv_phantom sv)) /\
  (sv_v6 sv = false -> exists a, r_v4 rs = Some a /\ (a <> 0 -> sv_phantom sv = be4 a)) /\
  (exists own own_port, st_new_reg sc (sv_v6 sv) (effective_params c (Some rs)) = Some (own, own_port, sv_params sv)).
Proof. exact station_applies. Qed.
Print Assumptions C12_station_applies.

(* Response / signature fields supplied by the client have no influence on anything. *)
Theorem C12_forged_fields_discarded : forall cfg q ca m e,
  register_bd cfg q ca m e = register_bd cfg (clear_forged q) ca m e /\
  register_uni cfg q ca m = register_uni cfg (clear_forged q) ca m.
Proof. exact (fun cfg q ca m e => conj (forged_fields_discarded_bd cfg q ca m e) (forged_fields_discarded_uni cfg q ca m)). Qed.
Print Assumptions C12_forged_fields_discarded.

Theorem C12_uni_forwards_no_response : forall cfg q ca m w,
  register_uni cfg q ca m = Ok w -> f_resp w = None /\ f_signed w = None.
Proof. exact uni_forwards_no_response. Qed.
Print Assumptions C12_uni_forwards_no_response.

(* Parameter overrides only when the client has not disabled them: registrar side ... *)
Theorem C12_overrides_only_if_allowed : forall cfg q ca m e rs w c,
  register_bd cfg q ca m e = Ok (rs, w) -> q_payload q = Some c -> p_disable_ov c = true ->
  r_params rs = None.
Proof. exact overrides_only_if_allowed. Qed.
Print Assumptions C12_overrides_only_if_allowed.

(* ... and station side, for ANY forwarded message. *)
Theorem C12_station_respects_disable : forall sc f c svs sv,
  station sc f = Some svs -> In sv svs -> f_payload f = Some c -> p_disable_ov c = true ->
  exists own own_port, st_new_reg sc (sv_v6 sv) (p_params c) = Some (own, own_port, sv_params sv).
Proof. exact station_respects_disable. Qed.
Print Assumptions C12_station_respects_disable.

(* The IPv4 phantom in the response is either the selected one or lies inside an override
   subnet with positive weight configured for the request's transport. *)
Theorem C12_override_inside_configured_subnet : forall cfg q ca m e rs w c a,
  wf_cfg cfg = true ->
  register_bd cfg q ca m e = Ok (rs, w) -> q_payload q = Some c -> r_v4 rs = Some a ->
  (p_v4 c = true /\ exists rnd, e_sel4 e = Some (a, rnd)) \/
  (c_enforce cfg = true /\
   exists s, In s (subnets_for cfg (p_transport c)) /\ 0 < s_weight s /\ in_subnet s a).
Proof. exact override_inside_configured_subnet. Qed.
Print Assumptions C12_override_inside_configured_subnet.

(* A selected phantom inside an excluded subnet is never replaced (nothing of the response is). *)
Theorem C12_excluded_never_replaced : forall cfg q ca m e rs w c a rnd,
  register_bd cfg q ca m e = Ok (rs, w) -> q_payload q = Some c ->
  p_v4 c = true -> e_sel4 e = Some (a, rnd) -> excluded cfg (Some a) = true ->
  r_v4 rs = Some a /\ base_response cfg c e = Ok rs.
Proof. exact excluded_never_replaced. Qed.
Print Assumptions C12_excluded_never_replaced.

(* Every override subnet with a positive weight is chosen for some draw in [0,1) ... *)
Theorem C12_every_positive_weight_reachable : forall l i s,
  nth_error l i = Some s -> 0 < s_weight s ->
  exists fnum fden, fnum < fden /\ choose fnum fden l = Some (i, s).
Proof. exact every_positive_weight_reachable. Qed.
Print Assumptions C12_every_positive_weight_reachable.

(* ... and, for the whole request, some random choices make the registrar substitute an address
   of that subnet (Min transport; Prefix transport). *)
Theorem C12_reachable_min : forall cfg q c e r i s,
  wf_cfg cfg = true -> q_payload q = Some c -> p_transport c = transport_min ->
  c_enforce cfg = true -> 0 < c_rmin cfg ->
  base_response cfg c e = Ok r -> excluded cfg (r_v4 r) = false ->
  nth_error (c_min_subnets cfg) i = Some s -> 0 < s_weight s ->
  exists fnum fden, fnum < fden /\
    process_bd_req cfg q (set_random e zero_chunks fnum fden) =
      Ok (mkResp (Some (s_base s)) (r_v6 r) (r_port r) (r_params r)) /\
    in_subnet s (s_base s).
Proof. exact reachable_min. Qed.
Print Assumptions C12_reachable_min.

Theorem C12_reachable_prefix : forall cfg q c e r i s sp,
  wf_cfg cfg = true -> q_payload q = Some c -> p_transport c = transport_prefix ->
  p_disable_ov c = false ->
  c_enforce cfg = true -> 0 < c_rprefix cfg ->
  base_response cfg c e = Ok r -> excluded cfg (r_v4 r) = false ->
  nth_error (c_prefix_subnets cfg) i = Some s -> 0 < s_weight s ->
  nth i (e_subnet_params e) None = Some sp ->
  exists fnum fden, fnum < fden /\
    process_bd_req cfg q (set_random e zero_chunks fnum fden) =
      Ok (mkResp (Some (s_base s)) (r_v6 r) (Some (s_port s)) (Some sp)) /\
    in_subnet s (s_base s).
Proof. exact reachable_prefix. Qed.
Print Assumptions C12_reachable_prefix.

(* ---- the front ends (what the client actually receives) ---- *)

(* API, status 200: the response in the body is the processor's response for the (generation-
   adjusted) request, which is the one attached to and signed in the forwarded message; the
   front end adds only the ClientConf. *)
Theorem C12_api_preserves_view : forall cfg sg bl q remote e o,
  api_bd cfg sg bl q remote e = Some o -> fe_status o = 200 ->
  exists rs w q' cc,
    fe_resp o = Some rs /\ fe_fwd o = Some w /\ fe_cc o = cc /\
    api_request sg q = (q', cc) /\
    register_bd cfg q' remote source_bdapi e = Ok (rs, w) /\
    f_resp w = Some rs /\ (c_auth cfg = true -> f_signed w = Some rs).
Proof. exact api_preserves_view. Qed.
Print Assumptions C12_api_preserves_view.

Theorem C12_api_station_applies : forall cfg sg bl q remote e o rs w sc svs sv,
  api_bd cfg sg bl q remote e = Some o -> fe_resp o = Some rs -> fe_fwd o = Some w ->
  station sc w = Some svs -> In sv svs ->
  exists c, q_payload q = Some c /\
  (exists port, r_port rs = Some port /\ sv_port sv = port mod 65536) /\
  (sv_v6 sv = true -> r_v6 rs = Some (sv_phantom sv)) /\
  (sv_v6 sv = false -> exists a, r_v4 rs = Some a /\ (a <> 0 -> sv_phantom sv = be4 a)) /\
  (exists own own_port, st_new_reg sc (sv_v6 sv) (effective_params c (Some rs)) = Some (own, own_port, sv_params sv)).
Proof. exact api_station_applies. Qed.
Print Assumptions C12_api_station_applies.

Theorem C12_dns_preserves_view : forall cfg lg q e o rs,
  dns_req cfg lg q e = Some o -> fe_resp o = Some rs ->
  exists w, fe_fwd o = Some w /\ register_bd cfg q None source_bddns e = Ok (rs, w) /\
            f_resp w = Some rs /\ (c_auth cfg = true -> f_signed w = Some rs).
Proof. exact dns_preserves_view. Qed.
Print Assumptions C12_dns_preserves_view.

Theorem C12_front_end_response_implies_published : forall o,
  (forall cfg sg bl q remote e, api_bd cfg sg bl q remote e = Some o -> is_some (fe_resp o) = true -> is_some (fe_fwd o) = true) /\
  (forall cfg lg q e, dns_req cfg lg q e = Some o -> is_some (fe_resp o) = true -> is_some (fe_fwd o) = true).
Proof. exact front_end_response_implies_published. Qed.
Print Assumptions C12_front_end_response_implies_published.

(* With a configuration the constructor accepts (every override subnet's port fits in 16 bits)
   the station's port is exactly the port the client was given. *)
Theorem C12_station_port_exact : forall cfg q ca m e rs w c sc svs sv,
  cfg_accepted cfg = true -> (forall d, e_dstport e = Some d -> d < 65536) ->
  register_bd cfg q ca m e = Ok (rs, w) -> q_payload q = Some c ->
  station sc w = Some svs -> In sv svs ->
  r_port rs = Some (sv_port sv).
Proof. exact station_port_exact. Qed.
Print Assumptions C12_station_port_exact.

(* Serving any list of requests leaves the configuration as it was, and every request is
   answered exactly as if it were the first (no request influences a later one). *)
Theorem C12_config_invariant : forall l cfg,
  fst (serve_all cfg l) = cfg /\
  snd (serve_all cfg l) = map (fun i => register_bd cfg (i_req i) (i_addr i) (i_method i) (i_env i)) l.
Proof. exact serve_all_spec. Qed.
Print Assumptions C12_config_invariant.

(* ---------------- fifth round: the configuration as the operator wrote it ----------------
   cidr_of_text is the parsing step of Ipnet.UnmarshalText (net.ParseCIDR): written address +
   length -> (masked base, length).  For EVERY written address (host bits set or not) the
   subnet obtained is well-formed (so C12_override_in_configured_subnet applies to any
   configuration decoded from text), every address getRandUint32IPv4 draws from it lies in the
   network the text denotes, and Contains is the comparison of the first `ones` bits with the
   written address. *)
Theorem C12_subnet_of_text_wf : forall written ones w port,
  ones <= 32 -> written < two32 -> port < 65536 -> wf_subnet (sub_of_text written ones w port) = true.
Proof. exact sub_of_text_wf. Qed.
Print Assumptions C12_subnet_of_text_wf.

Theorem C12_cfg_of_text_wf : forall cfg,
  (forall s, In s (c_min_subnets cfg ++ c_prefix_subnets cfg) ->
     exists written ones w port, ones <= 32 /\ written < two32 /\ port < 65536 /\ s = sub_of_text written ones w port) ->
  wf_cfg cfg = true.
Proof. exact wf_cfg_of_text. Qed.
Print Assumptions C12_cfg_of_text_wf.

Theorem C12_substituted_in_written_network : forall written ones w port chunks ip,
  ones <= 32 -> written < two32 -> port < 65536 ->
  rand_host (sub_of_text written ones w port) chunks = DOk ip -> in_written_net written ones ip.
Proof. exact rand_host_in_written_net. Qed.
Print Assumptions C12_substituted_in_written_network.

Theorem C12_contains_of_text : forall written ones w port a,
  contains (sub_of_text written ones w port) a = (a / 2 ^ (32 - ones) =? written / 2 ^ (32 - ones)).
Proof. exact contains_of_text. Qed.
Print Assumptions C12_contains_of_text.

(* Refuted variant: storing the address as written (host bits kept).  192.0.2.200/24 with the
   offset 100 yields 192.0.3.44, outside the network the text denotes (and outside by the
   code's own Contains). *)
Theorem C12_keep_hostbits_refuted :
  exists written ones w port chunks ip,
    ones <= 32 /\ written < two32 /\ port < 65536 /\
    rand_host (sub_of_cidr (cidr_keep_hostbits written ones) w port) chunks = DOk ip /\
    ~ in_written_net written ones ip /\
    contains (sub_of_cidr (cidr_keep_hostbits written ones) w port) ip = false.
Proof. exact keep_hostbits_refuted. Qed.
Print Assumptions C12_keep_hostbits_refuted.
