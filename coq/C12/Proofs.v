(* C12 proofs. *)
From CJ Require Import Common.Base C12.Model.
From Coq Require Import Lia ZifyN ZifyNat ZifyBool.

Ltac inv H := inversion H; subst; clear H.

(* ---------------- RegisterBidirectional: structure ---------------- *)
Lemma register_bd_inv : forall cfg q ca m e rs w,
  register_bd cfg q ca m e = Ok (rs, w) ->
  process_bd_req cfg q e = Ok rs /\ process_c2s_wrapper cfg q (Some rs) ca m = Ok w /\ c_send_ok cfg = true.
Proof.
  unfold register_bd, send. intros cfg q ca m e rs w H.
  destruct (process_bd_req cfg q e) as [r| |] eqn:E1; try discriminate.
  destruct (process_c2s_wrapper cfg q (Some r) ca m) as [f| |] eqn:E2; try discriminate.
  destruct (c_send_ok cfg); try discriminate. inv H. auto.
Qed.

(* the response returned to the client is, as a whole, the response attached to the forwarded
   message, and (when the registrar signs) the signed copy *)
Lemma same_view : forall cfg q ca m e rs w,
  register_bd cfg q ca m e = Ok (rs, w) ->
  f_resp w = Some rs /\ (c_auth cfg = true -> f_signed w = Some rs) /\
  (c_auth cfg = false -> f_signed w = None) /\
  f_payload w = q_payload q /\ f_secret w = q_secret q.
Proof.
  intros. apply register_bd_inv in H. destruct H as [_ [H _]].
  unfold process_c2s_wrapper in H. destruct (blen (q_secret q) <? 8); try discriminate.
  inv H. simpl. repeat split; auto; intros ->; reflexivity.
Qed.

(* ---------------- the subnet override ---------------- *)
Lemma subnet_override_spec : forall cfg c e r rs,
  subnet_override cfg c e r = Ok rs ->
  rs = r \/
  (c_enforce cfg = true /\ excluded cfg (r_v4 r) = false /\
   exists gate rest i s ip,
     rand_int 10000 (e_chunks e) = DOk (gate, rest) /\
     choose (e_fnum e) (e_fden e) (subnets_for cfg (p_transport c)) = Some (i, s) /\
     s_v4net s = true /\ rand_host s rest = DOk ip /\
     ((p_transport c = transport_min /\ gate < c_rmin cfg /\
       rs = mkResp (Some ip) (r_v6 r) (r_port r) (r_params r)) \/
      (p_transport c = transport_prefix /\ p_disable_ov c = false /\ gate < c_rprefix cfg /\
       exists sp, nth i (e_subnet_params e) None = Some sp /\
                  rs = mkResp (Some ip) (r_v6 r) (Some (s_port s)) (Some sp)))).
Proof.
  intros cfg c e r rs H. unfold subnet_override in H.
  destruct (c_enforce cfg) eqn:En; simpl in H; [|inv H; auto].
  destruct (excluded cfg (r_v4 r)) eqn:Ex; [inv H; auto|].
  destruct (rand_int 10000 (e_chunks e)) as [[gate rest]| |] eqn:G; try discriminate; [|inv H; auto].
  destruct (p_transport c =? transport_min) eqn:T1.
  - apply N.eqb_eq in T1.
    destruct (gate <? c_rmin cfg) eqn:Gt; [|inv H; auto].
    destruct (choose (e_fnum e) (e_fden e) (c_min_subnets cfg)) as [[i s]|] eqn:Ch; [|inv H; auto].
    destruct (s_v4net s) eqn:V4; simpl in H; [|inv H; auto].
    destruct (rand_host s rest) as [ip| |] eqn:Hs; try discriminate; [|inv H; auto].
    inv H. right. repeat split; auto.
    exists gate, rest, i, s, ip. unfold subnets_for. rewrite T1. simpl.
    repeat split; auto. left. repeat split; auto. lia.
  - destruct (p_transport c =? transport_prefix) eqn:T4; [|inv H; auto].
    apply N.eqb_eq in T4.
    destruct (p_disable_ov c) eqn:Dis; simpl in H; [inv H; auto|].
    destruct (gate <? c_rprefix cfg) eqn:Gt; [|inv H; auto].
    destruct (choose (e_fnum e) (e_fden e) (c_prefix_subnets cfg)) as [[i s]|] eqn:Ch; [|inv H; auto].
    destruct (s_v4net s) eqn:V4; simpl in H; [|inv H; auto].
    destruct (rand_host s rest) as [ip| |] eqn:Hs; try discriminate; [|inv H; auto].
    destruct (nth i (e_subnet_params e) None) as [sp|] eqn:Sp; [|inv H; auto].
    inv H. right. repeat split; auto.
    exists gate, rest, i, s, ip. unfold subnets_for. rewrite T4. simpl.
    repeat split; auto. right. repeat split; auto. lia. exists sp. auto.
Qed.

Lemma subnet_override_shape : forall cfg c e r rs,
  subnet_override cfg c e r = Ok rs ->
  r_v6 rs = r_v6 r /\
  (r_v4 rs = r_v4 r \/ exists ip, r_v4 rs = Some ip) /\
  (forall port, r_port r = Some port -> exists port', r_port rs = Some port') /\
  (p_disable_ov c = true -> r_params rs = r_params r).
Proof.
  intros cfg c e r rs H. apply subnet_override_spec in H.
  destruct H as [->|H]; [repeat split; eauto|].
  destruct H as [_ [_ [gate [rest [i [s [ip [_ [_ [_ [_ H]]]]]]]]]]].
  destruct H as [H|H].
  - destruct H as [_ [_ ->]]. simpl. repeat split; eauto.
  - destruct H as [_ [Dis [_ [sp [_ ->]]]]]. simpl. repeat split; eauto. congruence.
Qed.

Lemma base_response_spec : forall cfg c e r,
  base_response cfg c e = Ok r ->
  select4 c e = Some (r_v4 r) /\ select6 c e = Some (r_v6 r) /\
  (exists port, r_port r = Some port /\
     (if supports_rand c e then e_dstport e else Some 443) = Some port) /\
  (p_disable_ov c = true -> r_params r = None) /\
  (c_has_ov cfg = false -> r_params r = None).
Proof.
  intros cfg c e r H. unfold base_response in H.
  destruct (select4 c e) as [v4|] eqn:S4; try discriminate.
  destruct (select6 c e) as [v6|] eqn:S6; try discriminate.
  destruct (negb (existsb (N.eqb (p_transport c)) (c_transports cfg))); try discriminate.
  destruct (negb (e_parse_ok e)); try discriminate.
  destruct (if c_has_ov cfg && negb (p_disable_ov c) then e_ov e else Some None) as [params|] eqn:Ov; try discriminate.
  destruct (if supports_rand c e then e_dstport e else Some 443) as [port|] eqn:P; try discriminate.
  inv H. simpl. repeat split; auto.
  - exists port. auto.
  - intros D. rewrite D, andb_false_r in Ov. inv Ov. auto.
  - intros D. rewrite D in Ov. simpl in Ov. inv Ov. auto.
Qed.

Lemma process_bd_req_inv : forall cfg q e rs,
  process_bd_req cfg q e = Ok rs ->
  exists c r, q_payload q = Some c /\ base_response cfg c e = Ok r /\ subnet_override cfg c e r = Ok rs.
Proof.
  unfold process_bd_req. intros cfg q e rs H.
  destruct (q_payload q) as [c|]; try discriminate.
  destruct (base_response cfg c e) as [r| |] eqn:B; try discriminate.
  exists c, r. auto.
Qed.

(* shape of a successful response *)
Lemma bd_resp_shape : forall cfg q e rs c,
  process_bd_req cfg q e = Ok rs -> q_payload q = Some c ->
  (exists port, r_port rs = Some port) /\
  (p_v4 c = true -> exists a, r_v4 rs = Some a) /\
  select6 c e = Some (r_v6 rs).
Proof.
  intros cfg q e rs c H Hq. apply process_bd_req_inv in H.
  destruct H as [c' [r [Hq' [B S]]]]. rewrite Hq in Hq'. inv Hq'.
  apply base_response_spec in B. destruct B as [S4 [S6 [[port [P _]] _]]].
  apply subnet_override_shape in S. destruct S as [V6 [V4 [Po _]]].
  split; [eapply Po; eauto|]. split; [|rewrite V6; auto].
  intros V. destruct V4 as [V4|[ip V4]]; [|eauto].
  rewrite V4. unfold select4 in S4. rewrite V in S4.
  destruct (e_sel4 e) as [[a rr]|]; try discriminate. inv S4. eauto.
Qed.

(* ---------------- the station applies exactly the returned view ---------------- *)
Lemma mk_reg_spec : forall sc f c v6 sv,
  mk_reg sc f c v6 = Some sv ->
  sv_v6 sv = v6 /\
  exists ipov own own_port,
    ip_override (f_resp f) v6 = Some ipov /\
    st_new_reg sc v6 (effective_params c (f_resp f)) = Some (own, own_port, sv_params sv) /\
    sv_phantom sv = match ipov with Some x => x | None => own end /\
    sv_port sv = match f_resp f with
                 | Some r => match r_port r with Some d => d mod 65536 | None => own_port end
                 | None => own_port
                 end.
Proof.
  unfold mk_reg. intros sc f c v6 sv H.
  destruct (ip_override (f_resp f) v6) as [ipov|] eqn:I; try discriminate.
  destruct (st_new_reg sc v6 (effective_params c (f_resp f))) as [[[own own_port] parsed]|] eqn:N; try discriminate.
  destruct (negb ((blen (station_addr f) =? 4) || (blen (station_addr f) =? 16))); try discriminate.
  destruct (is4 match ipov with Some x => x | None => own end && negb (is4 (station_addr f))); try discriminate.
  inv H. simpl. split; auto. exists ipov, own, own_port. auto.
Qed.

Lemma station_in : forall sc f svs sv,
  station sc f = Some svs -> In sv svs ->
  exists c, f_payload f = Some c /\
    ((p_v4 c = true /\ mk_reg sc f c false = Some sv) \/ (p_v6 c = true /\ mk_reg sc f c true = Some sv)).
Proof.
  unfold station. intros sc f svs sv H Hin.
  destruct (f_payload f) as [c|]; [|inv H; destruct Hin].
  exists c. split; auto.
  destruct (p_v4 c) eqn:P4; destruct (p_v6 c) eqn:P6; simpl in H.
  - destruct (st_v4 sc && is4 (station_addr f)).
    + destruct (mk_reg sc f c false) as [r4|] eqn:M4; try discriminate.
      destruct (st_v6 sc).
      * destruct (mk_reg sc f c true) as [r6|] eqn:M6; try discriminate. inv H.
        simpl in Hin. destruct Hin as [<-|[<-|[]]]; auto.
      * inv H. destruct Hin as [<-|[]]; auto.
    + destruct (st_v6 sc).
      * destruct (mk_reg sc f c true) as [r6|] eqn:M6; try discriminate. inv H.
        destruct Hin as [<-|[]]; auto.
      * inv H. destruct Hin.
  - destruct (st_v4 sc && is4 (station_addr f)).
    + destruct (mk_reg sc f c false) as [r4|] eqn:M4; try discriminate.
      inv H. destruct Hin as [<-|[]]; auto.
    + inv H. destruct Hin.
  - destruct (st_v6 sc).
    + destruct (mk_reg sc f c true) as [r6|] eqn:M6; try discriminate. inv H.
      destruct Hin as [<-|[]]; auto.
    + inv H. destruct Hin.
  - inv H. destruct Hin.
Qed.

Lemma station_applies : forall cfg q ca m e rs w c sc svs sv,
  register_bd cfg q ca m e = Ok (rs, w) -> q_payload q = Some c ->
  station sc w = Some svs -> In sv svs ->
  (exists port, r_port rs = Some port /\ sv_port sv = port mod 65536) /\
  (sv_v6 sv = true -> r_v6 rs = Some (sv_phantom sv)) /\
  (sv_v6 sv = false -> exists a, r_v4 rs = Some a /\ (a <> 0 -> sv_phantom sv = be4 a)) /\
  (exists own own_port, st_new_reg sc (sv_v6 sv) (effective_params c (Some rs)) = Some (own, own_port, sv_params sv)).
Proof.
  intros cfg q ca m e rs w c sc svs sv H Hq Hst Hin.
  pose proof (same_view _ _ _ _ _ _ _ H) as [Fr [_ [_ [Fp _]]]].
  apply register_bd_inv in H. destruct H as [B _].
  destruct (bd_resp_shape _ _ _ _ _ B Hq) as [[port Hp] [H4 H6]].
  destruct (station_in _ _ _ _ Hst Hin) as [c' [Hc M]]. rewrite Fp, Hq in Hc. inv Hc.
  destruct M as [[P4 M]|[P6 M]]; apply mk_reg_spec in M;
    destruct M as [Hv [ipov [own [own_port [I [N [Ph Po]]]]]]]; rewrite Fr in *; rewrite Hp in Po; rewrite Hv.
  - (* the IPv4 registration *)
    split; [exists port; auto|]. split; [discriminate|]. split; [|eauto].
    intros _. destruct (H4 P4) as [a Ha]. exists a. split; auto.
    intros Hne. unfold ip_override in I. rewrite Ha in I.
    apply N.eqb_neq in Hne. rewrite Hne in I. inv I. auto.
  - (* the IPv6 registration *)
    split; [exists port; auto|]. split; [|split; [discriminate|eauto]].
    intros _. unfold select6 in H6. rewrite P6 in H6.
    destruct (e_sel6 e) as [[b rr]|]; try discriminate. inv H6.
    unfold ip_override in I. rewrite <- H0 in I.
    destruct (negb (blen b =? 16)); try discriminate. destruct (is4 b); try discriminate.
    inv I. rewrite Ph. reflexivity.
Qed.

(* ---------------- forged fields ---------------- *)
Lemma forged_fields_discarded_bd : forall cfg q ca m e,
  register_bd cfg q ca m e = register_bd cfg (clear_forged q) ca m e.
Proof. intros. reflexivity. Qed.

Lemma forged_fields_discarded_uni : forall cfg q ca m,
  register_uni cfg q ca m = register_uni cfg (clear_forged q) ca m.
Proof. intros. reflexivity. Qed.

Lemma uni_forwards_no_response : forall cfg q ca m w,
  register_uni cfg q ca m = Ok w -> f_resp w = None /\ f_signed w = None.
Proof.
  unfold register_uni, process_c2s_wrapper, send. intros cfg q ca m w H.
  destruct (blen (q_secret q) <? 8); try discriminate.
  destruct (c_send_ok cfg); try discriminate. inv H. simpl.
  destruct (c_auth cfg); auto.
Qed.

(* ---------------- overrides only if allowed ---------------- *)
Lemma overrides_only_if_allowed : forall cfg q ca m e rs w c,
  register_bd cfg q ca m e = Ok (rs, w) -> q_payload q = Some c -> p_disable_ov c = true ->
  r_params rs = None.
Proof.
  intros cfg q ca m e rs w c H Hq D. apply register_bd_inv in H. destruct H as [B _].
  apply process_bd_req_inv in B. destruct B as [c' [r [Hq' [B S]]]]. rewrite Hq in Hq'. inv Hq'.
  apply base_response_spec in B. destruct B as [_ [_ [_ [Pn _]]]].
  apply subnet_override_shape in S. destruct S as [_ [_ [_ Pp]]].
  rewrite (Pp D). auto.
Qed.

(* whatever message reaches it, the station keeps the client's parameters when overrides are disabled *)
Lemma station_respects_disable : forall sc f c svs sv,
  station sc f = Some svs -> In sv svs -> f_payload f = Some c -> p_disable_ov c = true ->
  exists own own_port, st_new_reg sc (sv_v6 sv) (p_params c) = Some (own, own_port, sv_params sv).
Proof.
  intros sc f c svs sv Hst Hin Hp D.
  destruct (station_in _ _ _ _ Hst Hin) as [c' [Hc M]]. rewrite Hp in Hc. inv Hc.
  assert (effective_params c' (f_resp f) = p_params c') as E.
  { unfold effective_params. destruct (f_resp f) as [r|]; auto. destruct (r_params r); auto. rewrite D. auto. }
  destruct M as [[_ M]|[_ M]]; apply mk_reg_spec in M; destruct M as [Hv [ipov [own [op [_ [N _]]]]]];
    rewrite E in N; rewrite Hv; eauto.
Qed.

(* ---------------- randomness ---------------- *)
Lemma rand_loop_lt : forall max bits chunks r rest, rand_loop max bits chunks = DOk (r, rest) -> r < max.
Proof.
  induction chunks; simpl; intros; try discriminate.
  destruct (be_val a mod 2 ^ bits <? max) eqn:E.
  - inv H. lia.
  - eauto.
Qed.

Lemma rand_int_lt : forall max chunks r rest, rand_int max chunks = DOk (r, rest) -> r < max.
Proof.
  unfold rand_int. intros max chunks r rest H.
  destruct (max =? 0) eqn:E0; try discriminate.
  destruct (max =? 1) eqn:E1.
  - inv H. lia.
  - eapply rand_loop_lt; eauto.
Qed.

Lemma wf_subnet_size : forall s, wf_subnet s = true ->
  subnet_size s = 2 ^ (32 - s_ones s) /\ 1 <= subnet_size s /\ s_base s + subnet_size s <= two32.
Proof.
  unfold wf_subnet, subnet_size. intros s H.
  rewrite !andb_true_iff in H. destruct H as [[[[_ H2] H1] H0] _].
  apply N.leb_le in H2. apply N.ltb_lt in H1. apply N.eqb_eq in H0.
  assert (P : two32 = 2 ^ s_ones s * 2 ^ (32 - s_ones s)).
  { rewrite <- N.pow_add_r. replace (s_ones s + (32 - s_ones s)) with 32 by lia. reflexivity. }
  assert (0 < 2 ^ (32 - s_ones s)) by (apply N.neq_0_lt_0, N.pow_nonzero; lia).
  split; auto. split; [lia|].
  apply N.mod_divide in H0; [|lia]. destruct H0 as [k Hk].
  remember (2 ^ (32 - s_ones s)) as X. remember (2 ^ s_ones s) as Y.
  rewrite Hk in H1 |- *. rewrite P in H1 |- *.
  assert (k < Y) by nia. nia.
Qed.

Lemma rand_host_in_subnet : forall s chunks ip,
  wf_subnet s = true -> rand_host s chunks = DOk ip -> in_subnet s ip.
Proof.
  intros s chunks ip W H. destruct (wf_subnet_size s W) as [Sz [S1 S2]].
  unfold rand_host in H. destruct (rand_int (subnet_size s) chunks) as [[r rest]| |] eqn:R; try discriminate.
  inv H. apply rand_int_lt in R. unfold in_subnet. rewrite <- Sz.
  rewrite N.mod_small by lia. lia.
Qed.

(* ---------------- the weighted choice ---------------- *)
Lemma choose_from_spec : forall fnum fden total l acc i0 i s,
  choose_from fnum fden total acc i0 l = Some (i, s) -> acc * fden <= fnum * total ->
  exists k, i = (i0 + k)%nat /\ nth_error l k = Some s /\ 0 < s_weight s.
Proof.
  induction l as [|x r IH]; simpl; intros acc i0 i s H Hacc; try discriminate.
  destruct (fnum * total <? (acc + s_weight x) * fden) eqn:E.
  - inv H. exists 0%nat. split; [lia|]. split; auto. apply N.ltb_lt in E. nia.
  - apply N.ltb_ge in E. destruct (IH _ _ _ _ H E) as [k [A [B C]]].
    exists (S k). split; [lia|]. auto.
Qed.

Lemma choose_spec : forall fnum fden l i s,
  choose fnum fden l = Some (i, s) -> nth_error l i = Some s /\ 0 < s_weight s.
Proof.
  unfold choose. intros. apply choose_from_spec in H; [|lia].
  destruct H as [k [-> [A B]]]. auto.
Qed.

Fixpoint sumw (l : list subnet) : N := match l with [] => 0 | s :: r => s_weight s + sumw r end.

Lemma total_weight_sumw : forall l, total_weight l = sumw l.
Proof. induction l; simpl; auto. Qed.

Lemma sumw_firstn_le : forall l i s, nth_error l i = Some s -> sumw (firstn i l) + s_weight s <= sumw l.
Proof.
  induction l; destruct i; simpl; intros; try discriminate.
  - inv H. lia.
  - specialize (IHl _ _ H). lia.
Qed.

Lemma choose_from_hits : forall total l acc i0 i s,
  nth_error l i = Some s -> 0 < s_weight s -> 0 < total ->
  choose_from (acc + sumw (firstn i l)) total total acc i0 l = Some ((i0 + i)%nat, s).
Proof.
  induction l as [|x r IH]; destruct i; simpl; intros; try discriminate.
  - inv H. replace (acc + 0) with acc by lia.
    assert (acc * total <? (acc + s_weight s) * total = true) as -> by (apply N.ltb_lt; nia).
    f_equal. f_equal. lia.
  - assert ((acc + (s_weight x + sumw (firstn i r))) * total <? (acc + s_weight x) * total = false) as ->
      by (apply N.ltb_ge; nia).
    replace (acc + (s_weight x + sumw (firstn i r))) with ((acc + s_weight x) + sumw (firstn i r)) by lia.
    rewrite (IH _ _ _ s); auto. f_equal. f_equal. lia.
Qed.

(* every subnet with a positive weight is chosen for some draw f = fnum/fden in [0,1) *)
Lemma every_positive_weight_reachable : forall l i s,
  nth_error l i = Some s -> 0 < s_weight s ->
  exists fnum fden, fnum < fden /\ choose fnum fden l = Some (i, s).
Proof.
  intros l i s Hn Hw. exists (sumw (firstn i l)), (total_weight l).
  pose proof (sumw_firstn_le _ _ _ Hn). pose proof (total_weight_sumw l) as E.
  split; [lia|]. unfold choose.
  pose proof (choose_from_hits (total_weight l) l 0 0 i s Hn Hw) as C. simpl in C. apply C. lia.
Qed.

(* the loop before the fix: whatever the draw, the last subnet wins *)
Lemma choose_last_from_app : forall fnum fden total l acc i0 cur s,
  fnum * total < (acc + sumw l + s_weight s) * fden ->
  choose_last_from fnum fden total acc i0 (l ++ [s]) cur = Some ((i0 + length l)%nat, s).
Proof.
  induction l as [|x r IH]; simpl; intros.
  - assert (fnum * total <? (acc + s_weight s) * fden = true) as -> by (apply N.ltb_lt; nia).
    f_equal. f_equal. lia.
  - rewrite IH by (replace (acc + s_weight x + sumw r + s_weight s) with (acc + (s_weight x + sumw r) + s_weight s) by lia; auto).
    f_equal. f_equal. lia.
Qed.

Lemma sumw_app : forall a b, sumw (a ++ b) = sumw a + sumw b.
Proof. induction a; simpl; intros; auto. rewrite IHa. lia. Qed.

Lemma old_loop_only_last : forall fnum fden l s,
  fnum < fden -> 0 < sumw (l ++ [s]) ->
  choose_last fnum fden (l ++ [s]) = Some (length l, s).
Proof.
  intros. unfold choose_last. pose proof (total_weight_sumw (l ++ [s])) as E.
  rewrite choose_last_from_app; auto.
  rewrite sumw_app in *. simpl in *. nia.
Qed.

(* ---------------- where a substituted phantom comes from ---------------- *)
Lemma wf_cfg_subnets : forall cfg t s, wf_cfg cfg = true -> In s (subnets_for cfg t) -> wf_subnet s = true.
Proof.
  unfold wf_cfg, subnets_for. intros cfg t s W Hin. apply andb_true_iff in W. destruct W as [W1 W2].
  rewrite forallb_forall in W1, W2.
  destruct (t =? transport_min); auto. destruct (t =? transport_prefix); auto.
Qed.

Lemma override_inside_configured_subnet : forall cfg q ca m e rs w c a,
  wf_cfg cfg = true ->
  register_bd cfg q ca m e = Ok (rs, w) -> q_payload q = Some c -> r_v4 rs = Some a ->
  (p_v4 c = true /\ exists rnd, e_sel4 e = Some (a, rnd)) \/
  (c_enforce cfg = true /\
   exists s, In s (subnets_for cfg (p_transport c)) /\ 0 < s_weight s /\ in_subnet s a).
Proof.
  intros cfg q ca m e rs w c a W H Hq Ha. apply register_bd_inv in H. destruct H as [B _].
  apply process_bd_req_inv in B. destruct B as [c' [r [Hq' [B S]]]]. rewrite Hq in Hq'. inv Hq'.
  apply base_response_spec in B. destruct B as [S4 _].
  apply subnet_override_spec in S.
  assert (forall i s ip rest, choose (e_fnum e) (e_fden e) (subnets_for cfg (p_transport c')) = Some (i, s) ->
            rand_host s rest = DOk ip ->
            exists s, In s (subnets_for cfg (p_transport c')) /\ 0 < s_weight s /\ in_subnet s ip) as K.
  { intros i s ip rest Ch Rh. apply choose_spec in Ch. destruct Ch as [Nth Wt].
    apply nth_error_In in Nth. exists s. split; [auto|]. split; [auto|].
    eapply rand_host_in_subnet; eauto. eapply wf_cfg_subnets; eauto. }
  destruct S as [->|S].
  - left. unfold select4 in S4. destruct (p_v4 c') eqn:P4.
    + destruct (e_sel4 e) as [[a' rnd]|]; try discriminate. inv S4. rewrite Ha in H0. inv H0. eauto.
    + inv S4. congruence.
  - destruct S as [En [_ [gate [rest [i [s [ip [_ [Ch [_ [Rh S]]]]]]]]]]].
    right. split; auto.
    assert (a = ip) as ->.
    { destruct S as [S|S].
      - destruct S as [_ [_ ->]]. simpl in Ha. inv Ha. auto.
      - destruct S as [_ [_ [_ [sp [_ ->]]]]]. simpl in Ha. inv Ha. auto. }
    eapply K; eauto.
Qed.

(* ---------------- exclusions ---------------- *)
Lemma excluded_never_replaced : forall cfg q ca m e rs w c a rnd,
  register_bd cfg q ca m e = Ok (rs, w) -> q_payload q = Some c ->
  p_v4 c = true -> e_sel4 e = Some (a, rnd) -> excluded cfg (Some a) = true ->
  r_v4 rs = Some a /\ base_response cfg c e = Ok rs.
Proof.
  intros cfg q ca m e rs w c a rnd H Hq P4 Sel Ex. apply register_bd_inv in H. destruct H as [B _].
  apply process_bd_req_inv in B. destruct B as [c' [r [Hq' [B S]]]]. rewrite Hq in Hq'. inv Hq'.
  pose proof (base_response_spec _ _ _ _ B) as [S4 _].
  unfold select4 in S4. rewrite P4, Sel in S4. inv S4.
  apply subnet_override_spec in S. destruct S as [->|S].
  - split; auto.
  - destruct S as [_ [Ex' _]]. rewrite <- H0 in Ex'. congruence.
Qed.

(* ---------------- reachability at the level of the whole request ---------------- *)
Definition set_random (e : env) (chunks : list bytes) (fnum fden : N) : env :=
  mkEnv (e_sel4 e) (e_sel6 e) (e_parse_ok e) (e_dstport e) (e_ov e) chunks fnum fden (e_subnet_params e).

Definition zero_chunks : list bytes := [[0; 0]; [0; 0; 0; 0]].

Lemma rand_int_zero : forall max rest, 1 <= max -> exists rest', rand_int max ([0; 0; 0; 0] :: rest) = DOk (0, rest').
Proof.
  intros. unfold rand_int. destruct (max =? 0) eqn:E0; [apply N.eqb_eq in E0; lia|].
  destruct (max =? 1) eqn:E1; [eauto|].
  simpl. replace (be_val [0; 0; 0; 0]) with 0 by reflexivity.
  rewrite N.mod_0_l by (apply N.pow_nonzero; lia).
  assert (0 <? max = true) as -> by (apply N.ltb_lt; lia). eauto.
Qed.

Lemma reachable_min : forall cfg q c e r i s,
  wf_cfg cfg = true -> q_payload q = Some c -> p_transport c = transport_min ->
  c_enforce cfg = true -> 0 < c_rmin cfg ->
  base_response cfg c e = Ok r -> excluded cfg (r_v4 r) = false ->
  nth_error (c_min_subnets cfg) i = Some s -> 0 < s_weight s ->
  exists fnum fden, fnum < fden /\
    process_bd_req cfg q (set_random e zero_chunks fnum fden) =
      Ok (mkResp (Some (s_base s)) (r_v6 r) (r_port r) (r_params r)) /\
    in_subnet s (s_base s).
Proof.
  intros cfg q c e r i s W Hq T En Rm B Ex Nth Wt.
  destruct (every_positive_weight_reachable _ _ _ Nth Wt) as [fnum [fden [Lt Ch]]].
  exists fnum, fden. split; auto.
  assert (Ws : wf_subnet s = true).
  { eapply wf_cfg_subnets with (t := transport_min); eauto. unfold subnets_for. simpl. eapply nth_error_In; eauto. }
  destruct (wf_subnet_size s Ws) as [Sz [S1 S2]].
  split.
  - unfold process_bd_req. rewrite Hq.
    assert (base_response cfg c (set_random e zero_chunks fnum fden) = base_response cfg c e) as -> by reflexivity.
    rewrite B. unfold subnet_override. rewrite En, Ex. simpl negb. cbv iota.
    unfold set_random at 1. simpl e_chunks. unfold zero_chunks.
    replace (rand_int 10000 [[0; 0]; [0; 0; 0; 0]]) with (@DOk (N * list bytes) (0, [[0; 0; 0; 0]])) by reflexivity.
    rewrite T. simpl (transport_min =? transport_min).
    assert (0 <? c_rmin cfg = true) as -> by (apply N.ltb_lt; lia).
    simpl e_fnum. simpl e_fden. rewrite Ch.
    unfold wf_subnet in Ws. rewrite !andb_true_iff in Ws. destruct Ws as [[[[Ws _] _] _] _]. rewrite Ws. simpl negb. cbv iota.
    unfold rand_host. destruct (rand_int_zero (subnet_size s) [] S1) as [rest' ->].
    rewrite N.add_0_r, N.mod_small by (unfold two32 in *; lia). reflexivity.
  - unfold in_subnet. rewrite <- Sz. lia.
Qed.

Lemma reachable_prefix : forall cfg q c e r i s sp,
  wf_cfg cfg = true -> q_payload q = Some c -> p_transport c = transport_prefix ->
  p_disable_ov c = false ->
  c_enforce cfg = true -> 0 < c_rprefix cfg ->
  base_response cfg c e = Ok r -> excluded cfg (r_v4 r) = false ->
  nth_error (c_prefix_subnets cfg) i = Some s -> 0 < s_weight s ->
  nth i (e_subnet_params e) None = Some sp ->
  exists fnum fden, fnum < fden /\
    process_bd_req cfg q (set_random e zero_chunks fnum fden) =
      Ok (mkResp (Some (s_base s)) (r_v6 r) (Some (s_port s)) (Some sp)) /\
    in_subnet s (s_base s).
Proof.
  intros cfg q c e r i s sp W Hq T Dis En Rm B Ex Nth Wt Sp.
  destruct (every_positive_weight_reachable _ _ _ Nth Wt) as [fnum [fden [Lt Ch]]].
  exists fnum, fden. split; auto.
  assert (Ws : wf_subnet s = true).
  { eapply wf_cfg_subnets with (t := transport_prefix); eauto. unfold subnets_for. simpl. eapply nth_error_In; eauto. }
  destruct (wf_subnet_size s Ws) as [Sz [S1 S2]].
  split.
  - unfold process_bd_req. rewrite Hq.
    assert (base_response cfg c (set_random e zero_chunks fnum fden) = base_response cfg c e) as -> by reflexivity.
    rewrite B. unfold subnet_override. rewrite En, Ex. simpl negb. cbv iota.
    unfold set_random at 1. simpl e_chunks. unfold zero_chunks.
    replace (rand_int 10000 [[0; 0]; [0; 0; 0; 0]]) with (@DOk (N * list bytes) (0, [[0; 0; 0; 0]])) by reflexivity.
    rewrite T. simpl (transport_prefix =? transport_min). simpl (transport_prefix =? transport_prefix). cbv iota.
    rewrite Dis. simpl negb.
    assert (0 <? c_rprefix cfg = true) as -> by (apply N.ltb_lt; lia). simpl andb. cbv iota.
    simpl e_fnum. simpl e_fden. rewrite Ch.
    unfold wf_subnet in Ws. rewrite !andb_true_iff in Ws. destruct Ws as [[[[Ws _] _] _] _]. rewrite Ws. simpl negb. cbv iota.
    unfold rand_host. destruct (rand_int_zero (subnet_size s) [] S1) as [rest' ->].
    simpl e_subnet_params. rewrite Sp.
    rewrite N.add_0_r, N.mod_small by (unfold two32 in *; lia). reflexivity.
  - unfold in_subnet. rewrite <- Sz. lia.
Qed.

(* ---------------- the front ends preserve the view ---------------- *)
Lemma api_request_payload : forall sg q q' cc,
  api_request sg q = (q', cc) ->
  q' = q \/ exists g, q' = set_gen q g.
Proof.
  unfold api_request. intros sg q q' cc H. destruct sg as [g|]; [|inv H; auto].
  destruct (payload_gen q <? g); inv H; eauto.
Qed.

Lemma set_gen_payload : forall q g c', q_payload (set_gen q g) = Some c' ->
  exists c, q_payload q = Some c /\ p_params c' = p_params c /\ p_disable_ov c' = p_disable_ov c /\
            p_v4 c' = p_v4 c /\ p_v6 c' = p_v6 c /\ p_transport c' = p_transport c.
Proof.
  unfold set_gen. intros q g c' H. destruct (q_payload q) as [c|] eqn:E.
  - simpl in H. inv H. exists c. simpl. repeat split; reflexivity.
  - rewrite E in H. discriminate.
Qed.

(* a 200 from the API: the response the client receives is the processor's, which is the one
   attached to (and signed in) the forwarded message; only the ClientConf is added *)
Lemma api_preserves_view : forall cfg sg bl q remote e o,
  api_bd cfg sg bl q remote e = Some o -> fe_status o = 200 ->
  exists rs w q' cc,
    fe_resp o = Some rs /\ fe_fwd o = Some w /\ fe_cc o = cc /\
    api_request sg q = (q', cc) /\
    register_bd cfg q' remote source_bdapi e = Ok (rs, w) /\
    f_resp w = Some rs /\ (c_auth cfg = true -> f_signed w = Some rs).
Proof.
  unfold api_bd. intros cfg sg bl q remote e o H St.
  destruct remote as [addr|]; [|inv H; discriminate].
  destruct (bl <? 33); [inv H; discriminate|].
  destruct (api_request sg q) as [q' cc] eqn:A.
  destruct (register_bd cfg q' (Some addr) source_bdapi e) as [[rs w]|x|] eqn:R; try discriminate.
  - inv H. exists rs, w, q', cc. simpl.
    destruct (same_view _ _ _ _ _ _ _ R) as [Fr [Fs _]]. repeat split; auto.
  - destruct x; inv H; discriminate.
Qed.

Lemma api_station_applies : forall cfg sg bl q remote e o rs w sc svs sv,
  api_bd cfg sg bl q remote e = Some o -> fe_resp o = Some rs -> fe_fwd o = Some w ->
  station sc w = Some svs -> In sv svs ->
  exists c, q_payload q = Some c /\
  (exists port, r_port rs = Some port /\ sv_port sv = port mod 65536) /\
  (sv_v6 sv = true -> r_v6 rs = Some (sv_phantom sv)) /\
  (sv_v6 sv = false -> exists a, r_v4 rs = Some a /\ (a <> 0 -> sv_phantom sv = be4 a)) /\
  (exists own own_port, st_new_reg sc (sv_v6 sv) (effective_params c (Some rs)) = Some (own, own_port, sv_params sv)).
Proof.
  unfold api_bd. intros cfg sg bl q remote e o rs w sc svs sv H Hr Hw Hst Hin.
  destruct remote as [addr|]; [|inv H; discriminate].
  destruct (bl <? 33); [inv H; discriminate|].
  destruct (api_request sg q) as [q' cc] eqn:A.
  destruct (register_bd cfg q' (Some addr) source_bdapi e) as [[rs' w']|x|] eqn:R; try discriminate.
  2: { destruct x; inv H; discriminate. }
  inv H. simpl in Hr, Hw. inv Hr. inv Hw.
  destruct (station_in _ _ _ _ Hst Hin) as [c' [Hc' _]].
  destruct (same_view _ _ _ _ _ _ _ R) as [_ [_ [_ [Fp _]]]]. rewrite Fp in Hc'.
  pose proof (station_applies _ _ _ _ _ _ _ _ _ _ _ R Hc' Hst Hin) as [P1 [P2 [P3 P4]]].
  destruct (api_request_payload _ _ _ _ A) as [->|[g ->]].
  - exists c'. auto.
  - destruct (set_gen_payload _ _ _ Hc') as [c [Hc [Ep [Ed _]]]]. exists c. repeat split; auto.
    destruct P4 as [own [op P4]]. exists own, op.
    assert (effective_params c (Some rs) = effective_params c' (Some rs)) as ->; auto.
    unfold effective_params. rewrite Ep, Ed. reflexivity.
Qed.

Lemma dns_preserves_view : forall cfg lg q e o rs,
  dns_req cfg lg q e = Some o -> fe_resp o = Some rs ->
  exists w, fe_fwd o = Some w /\ register_bd cfg q None source_bddns e = Ok (rs, w) /\
            f_resp w = Some rs /\ (c_auth cfg = true -> f_signed w = Some rs).
Proof.
  unfold dns_req. intros cfg lg q e o rs H Hr.
  destruct (q_source q =? source_bddns).
  - destruct (register_bd cfg q None source_bddns e) as [[rs' w]|x|] eqn:R; try discriminate.
    + inv H. simpl in Hr. inv Hr. exists w. simpl.
      destruct (same_view _ _ _ _ _ _ _ R) as [Fr [Fs _]]. repeat split; auto.
    + inv H. discriminate.
  - destruct (register_uni cfg q None source_dns) as [w|x|]; try discriminate; inv H; discriminate.
Qed.

(* a front end answers with a response only if the registration was published *)
Lemma front_end_response_implies_published : forall o,
  (forall cfg sg bl q remote e, api_bd cfg sg bl q remote e = Some o -> is_some (fe_resp o) = true -> is_some (fe_fwd o) = true) /\
  (forall cfg lg q e, dns_req cfg lg q e = Some o -> is_some (fe_resp o) = true -> is_some (fe_fwd o) = true).
Proof.
  intros o. split.
  - unfold api_bd. intros cfg sg bl q remote e H Hr.
    destruct remote as [addr|]; [|inv H; discriminate].
    destruct (bl <? 33); [inv H; discriminate|].
    destruct (api_request sg q) as [q' cc].
    destruct (register_bd cfg q' (Some addr) source_bdapi e) as [[rs w]|x|]; try discriminate.
    + inv H. reflexivity.
    + destruct x; inv H; discriminate.
  - unfold dns_req. intros cfg lg q e H Hr.
    destruct (q_source q =? source_bddns).
    + destruct (register_bd cfg q None source_bddns e) as [[rs w]|x|]; try discriminate; inv H; auto; discriminate.
    + destruct (register_uni cfg q None source_dns) as [w|x|]; try discriminate; inv H; auto; discriminate.
Qed.

(* ---------------- ports fit in 16 bits, so the station's port is exactly the client's ---------------- *)
Lemma bd_port_small : forall cfg q e rs port,
  cfg_accepted cfg = true -> (forall d, e_dstport e = Some d -> d < 65536) ->
  process_bd_req cfg q e = Ok rs -> r_port rs = Some port -> port < 65536.
Proof.
  intros cfg q e rs port A D H Hp. apply process_bd_req_inv in H.
  destruct H as [c [r [Hq [B S]]]].
  apply base_response_spec in B. destruct B as [_ [_ [[p0 [P0 Pd]] _]]].
  assert (p0 < 65536) as L0.
  { destruct (supports_rand c e); [apply D; auto|]. inv Pd. lia. }
  apply subnet_override_spec in S. destruct S as [->|S]; [congruence|].
  destruct S as [_ [_ [gate [rest [i [s [ip [_ [Ch [_ [_ S]]]]]]]]]]].
  destruct S as [S|S].
  - destruct S as [_ [_ ->]]. simpl in Hp. congruence.
  - destruct S as [T [_ [_ [sp [_ ->]]]]]. simpl in Hp. inv Hp.
    apply choose_spec in Ch. destruct Ch as [Nth _]. apply nth_error_In in Nth.
    unfold subnets_for in Nth. rewrite T in Nth. simpl in Nth.
    unfold cfg_accepted in A. rewrite forallb_forall in A.
    specialize (A s). apply N.ltb_lt. apply A. apply in_or_app. right. apply in_or_app. left. auto.
Qed.

Lemma station_port_exact : forall cfg q ca m e rs w c sc svs sv,
  cfg_accepted cfg = true -> (forall d, e_dstport e = Some d -> d < 65536) ->
  register_bd cfg q ca m e = Ok (rs, w) -> q_payload q = Some c ->
  station sc w = Some svs -> In sv svs ->
  r_port rs = Some (sv_port sv).
Proof.
  intros cfg q ca m e rs w c sc svs sv A D H Hq Hst Hin.
  destruct (station_applies _ _ _ _ _ _ _ _ _ _ _ H Hq Hst Hin) as [[port [Hp Hs]] _].
  apply register_bd_inv in H. destruct H as [B _].
  pose proof (bd_port_small _ _ _ _ _ A D B Hp). rewrite Hs, N.mod_small; auto.
Qed.

(* ---------------- the configuration is invariant over any request list ---------------- *)
Lemma serve_all_spec : forall l cfg,
  fst (serve_all cfg l) = cfg /\
  snd (serve_all cfg l) = map (fun i => register_bd cfg (i_req i) (i_addr i) (i_method i) (i_env i)) l.
Proof.
  induction l as [|i r IH]; intros cfg; simpl; auto.
  destruct (serve_all cfg r) as [cfg2 os] eqn:E. specialize (IH cfg). rewrite E in IH. simpl in *.
  destruct IH as [-> ->]. auto.
Qed.

(* ---------------- the configuration as written (fifth round) ---------------- *)
Lemma sub_of_text_wf : forall written ones w port,
  ones <= 32 -> written < two32 -> port < 65536 -> wf_subnet (sub_of_text written ones w port) = true.
Proof.
  intros written ones w port Ho Hw Hp. unfold wf_subnet, sub_of_text, sub_of_cidr, cidr_of_text, mask_base. simpl.
  assert (2 ^ (32 - ones) <> 0) as NZ by (apply N.pow_nonzero; lia).
  rewrite N.mod_mul by exact NZ.
  pose proof (N.mul_div_le written (2 ^ (32 - ones)) NZ) as L. rewrite N.mul_comm in L.
  rewrite !andb_true_iff. repeat split.
  - apply N.leb_le; lia.
  - apply N.ltb_lt; lia.
  - apply N.ltb_lt; lia.
Qed.

Lemma rand_host_in_written_net : forall written ones w port chunks ip,
  ones <= 32 -> written < two32 -> port < 65536 ->
  rand_host (sub_of_text written ones w port) chunks = DOk ip -> in_written_net written ones ip.
Proof.
  intros written ones w port chunks ip Ho Hw Hp H.
  pose proof (rand_host_in_subnet _ _ _ (sub_of_text_wf written ones w port Ho Hw Hp) H) as [L U].
  unfold in_subnet, sub_of_text, sub_of_cidr, cidr_of_text, mask_base in L, U. cbn [fst snd s_base s_ones] in L, U.
  unfold in_written_net.
  assert (2 ^ (32 - ones) <> 0) as NZ by (apply N.pow_nonzero; lia).
  remember (2 ^ (32 - ones)) as X. remember (written / X) as q.
  symmetry. apply N.div_unique with (r := ip - q * X); lia.
Qed.

Lemma contains_of_text : forall written ones w port a,
  contains (sub_of_text written ones w port) a = (a / 2 ^ (32 - ones) =? written / 2 ^ (32 - ones)).
Proof.
  intros. unfold contains, sub_of_text, sub_of_cidr, cidr_of_text, mask_base. simpl.
  rewrite N.div_mul by (apply N.pow_nonzero; lia). reflexivity.
Qed.

(* every configuration decoded from text is well-formed, so the override theorem applies to it *)
Lemma wf_cfg_of_text : forall cfg,
  (forall s, In s (c_min_subnets cfg ++ c_prefix_subnets cfg) ->
     exists written ones w port, ones <= 32 /\ written < two32 /\ port < 65536 /\ s = sub_of_text written ones w port) ->
  wf_cfg cfg = true.
Proof.
  intros cfg H. unfold wf_cfg. rewrite andb_true_iff, !forallb_forall. split; intros s I;
  (destruct (H s) as [wr [o [w [p [A [B [C ->]]]]]]]; [apply in_or_app; auto|apply sub_of_text_wf; auto]).
Qed.

(* refuted variant "keep the host bits": 192.0.2.200/24, offset 100 (< 256) gives 192.0.3.44 *)
Lemma keep_hostbits_refuted :
  exists written ones w port chunks ip,
    ones <= 32 /\ written < two32 /\ port < 65536 /\
    rand_host (sub_of_cidr (cidr_keep_hostbits written ones) w port) chunks = DOk ip /\
    ~ in_written_net written ones ip /\
    contains (sub_of_cidr (cidr_keep_hostbits written ones) w port) ip = false.
Proof.
  exists 3221226184, 24, 1, 443, [[100]], 3221226284. repeat split; vm_compute; congruence.
Qed.
