(* C12 proofs. *)
From CJ Require Import Common.Base C12.Model.
From Coq Require Import Lia ZifyN ZifyNat ZifyBool.

Ltac inv H := inversion H; subst; clear H.

Lemma register_bd_inv : forall cfg q ca m e rs w,
  register_bd cfg q ca m e = Ok (rs, w) ->
  process_bd_req cfg q e = Ok rs /\ process_c2s_wrapper cfg q (Some rs) ca m = Ok w /\ c_send_ok cfg = true.
Proof.
  unfold register_bd, send. intros cfg q ca m e rs w H.
  destruct (process_bd_req cfg q e) as [r| |] eqn:E1; try discriminate.
  destruct (process_c2s_wrapper cfg q (Some r) ca m) as [f| |] eqn:E2; try discriminate.
  destruct (c_send_ok cfg); try discriminate. inv H. auto.
Qed.

(* the response returned to the client is, as a whole, the response attached to the forwarded
   message, and (when the registrar signs) the signed copy *)
Lemma same_view : forall cfg q ca m e rs w,
  register_bd cfg q ca m e = Ok (rs, w) ->
  f_resp w = Some rs /\ (c_auth cfg = true -> f_signed w = Some rs) /\
  f_payload w = q_payload q /\ f_secret w = q_secret q.
Proof.
  intros. apply register_bd_inv in H. destruct H as [_ [H _]].
  unfold process_c2s_wrapper in H. destruct (blen (q_secret q) <? 8); try discriminate.
  inv H. simpl. repeat split; auto. intros ->. reflexivity.
Qed.
