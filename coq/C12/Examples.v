(* C12 examples: non-vacuity of every theorem's hypotheses, and the loop before the fix. *)
From CJ Require Import Common.Base C12.Model C12.Proofs.

Definition sA := mkSub true 167837696 24 1 443.     (* 10.1.0.0/24   weight 1 *)
Definition sB := mkSub true 184549376 8 5 444.      (* 11.0.0.0/8    weight 2.5 (scaled by 2) *)
Definition sC := mkSub true 2886731014 31 1 445.    (* 172.16.5.6/31 weight 0.5 *)
Definition sD := mkSub true 3325256832 25 2 446.    (* 198.51.100.128/25 weight 1 *)
Definition subs := [sA; sB; sC; sD].
Definition excl := mkSub true 3221225984 24 0 0.    (* 192.0.2.0/24 *)

Definition cfg1 := mkCfg true true [1; 4] true subs subs [excl] 10000 10000 true [].
Example cfg1_accepted : cfg_accepted cfg1 = true. Proof. reflexivity. Qed.
(* a /0 override subnet is fine now (it used to panic), a port above 65535 is refused *)
Example slash0_wf : wf_subnet (mkSub true 0 0 1 443) = true. Proof. reflexivity. Qed.
Example big_port_refused : cfg_accepted (mkCfg true true [1; 4] true [] [mkSub true 167837696 24 1 70000] [] 10000 10000 true []) = false. Proof. reflexivity. Qed.
Example cfg1_wf : wf_cfg cfg1 = true. Proof. reflexivity. Qed.

Definition c_min := mkC2S true true 1 (Some [1]) false 4 1.
Definition c_pre := mkC2S true true 4 (Some [2]) false 4 1.
Definition c_dis := mkC2S true true 4 (Some [2]) true 4 1.
Definition forged := mkResp (Some 16909060) (Some [1; 2]) (Some 22) (Some [9]).
Definition mkq c := mkReq (repeat 7 32) (Some c) (Some forged) (Some [10; 11]) (Some [255]) 4 (Some [1; 2; 3; 4]).

Definition v6a : bytes := [253; 0; 0; 0; 0; 0; 0; 0; 0; 0; 0; 0; 0; 0; 0; 1].
(* draw f = 3/9 = 1/3: cumulative weights 1/9, 6/9, 7/9, 9/9 -> second subnet *)
Definition env1 := mkEnv (Some (151521030, true)) (Some (v6a, true)) true (Some 50000) (Some (Some [3]))
                         [[0; 5]; [0; 0; 1; 7]] 3 9 [Some [21]; Some [22]; Some [23]; Some [24]].
Definition caddr : option bytes := Some [198; 51; 100; 1].

(* Min transport: phantom substituted from the second subnet, port and parameters untouched *)
Example ex_min :
  register_bd cfg1 (mkq c_min) caddr 4 env1 =
  Ok (mkResp (Some (184549376 + 263)) (Some v6a) (Some 50000) (Some [3]),
      mkFwd (repeat 7 32) (Some c_min)
            (Some (mkResp (Some (184549376 + 263)) (Some v6a) (Some 50000) (Some [3])))
            (Some (mkResp (Some (184549376 + 263)) (Some v6a) (Some 50000) (Some [3])))
            4 caddr).
Proof. vm_compute. reflexivity. Qed.

(* Prefix transport: phantom, port and parameters of the chosen subnet *)
Example ex_prefix :
  process_bd_req cfg1 (mkq c_pre) env1 = Ok (mkResp (Some (184549376 + 263)) (Some v6a) (Some 444) (Some [22])).
Proof. vm_compute. reflexivity. Qed.

(* overrides disabled: no parameters, no Prefix substitution *)
Example ex_disabled :
  process_bd_req cfg1 (mkq c_dis) env1 = Ok (mkResp (Some 151521030) (Some v6a) (Some 50000) None).
Proof. vm_compute. reflexivity. Qed.

(* excluded phantom (192.0.2.55): nothing is replaced *)
Definition env_excl := mkEnv (Some (3221226039, true)) (Some (v6a, true)) true (Some 50000) (Some (Some [3]))
                             [[0; 5]; [0; 0; 1; 7]] 3 9 [].
Example ex_excluded_hyp : excluded cfg1 (Some 3221226039) = true. Proof. reflexivity. Qed.
Example ex_excluded :
  process_bd_req cfg1 (mkq c_min) env_excl = Ok (mkResp (Some 3221226039) (Some v6a) (Some 50000) (Some [3])).
Proof. vm_compute. reflexivity. Qed.

(* the station reads exactly that view *)
Definition st1 := mkSt true true (fun v6 p => Some (if v6 then [253; 119] ++ repeat 0 14 else [10; 77; 0; 1], 443, p)).
Example ex_station :
  match register_bd cfg1 (mkq c_pre) caddr 4 env1 with
  | Ok (rs, w) => station st1 w
  | _ => None
  end = Some [mkSV false (be4 (184549376 + 263)) 444 (Some [22]); mkSV true v6a 444 (Some [22])].
Proof. vm_compute. reflexivity. Qed.

(* a unidirectional registration with forged response fields *)
Example ex_uni :
  register_uni cfg1 (mkq c_min) caddr 2 =
  Ok (mkFwd (repeat 7 32) (Some c_min) None None 4 (Some [1; 2; 3; 4])).
Proof. vm_compute. reflexivity. Qed.

(* every subnet of the example is reachable, each by the draw the theorem constructs *)
Example ex_reach_all :
  map (fun k => option_map fst (choose k 9 subs)) [0; 1; 6; 7] = [Some 0; Some 1; Some 2; Some 3]%nat.
Proof. vm_compute. reflexivity. Qed.

(* the loop before the fix: whatever the draw, only the last subnet *)
Example ex_old_loop :
  map (fun k => option_map fst (choose_last k 9 subs)) [0; 1; 3; 6; 7; 8] = [Some 3; Some 3; Some 3; Some 3; Some 3; Some 3]%nat.
Proof. vm_compute. reflexivity. Qed.

Theorem old_loop_uses_only_the_last_subnet : forall fnum fden l s,
  fnum < fden -> 0 < sumw (l ++ [s]) -> choose_last fnum fden (l ++ [s]) = Some (length l, s).
Proof. exact old_loop_only_last. Qed.

(* error paths *)
Example ex_no_payload : register_bd cfg1 (mkReq (repeat 7 32) None None None None 0 None) caddr 4 env1 = Err ENoC2S.
Proof. reflexivity. Qed.
Example ex_short_secret : register_bd cfg1 (mkReq [1; 2; 3] (Some c_min) None None None 0 None) caddr 4 env1 = Err ESecret.
Proof. vm_compute. reflexivity. Qed.
