(* C01: the hypothesis of the library-version-0 agreement theorem is necessary.
   A seed whose varint overflows 64 bits: the version-0 client reads it with
   binary.ReadVarint and fails, while the station (binary.Varint, value 0 on
   overflow) selects a phantom.  The old client cannot connect either way; the
   divergence is recorded as an open known finding. *)
From CJ Require Import Common.Base C14.Model C01.Model.

Definition ov_seed : bytes := [129; 129; 130; 131; 132; 133; 134; 135; 136; 2; 1; 2; 3; 4; 5; 6].
Definition ov_cfg : config := [ {| weight := 1; nets := Some [Some (mk_cidr V4 167772160 8)]; rand_port := true |} ].

Definition C01_legacy_v0_agree_full_statement : Prop :=
  forall seed cfg f ph, select seed (Some cfg) 0 f = Ok ph ->
    exists cp, client_select_v0 alfg alfg_seed alfg_int63 isort_groups seed cfg f = Ok cp.

Lemma C01_legacy_v0_agree_full_statement_refuted : ~ C01_legacy_v0_agree_full_statement.
Proof.
  intros H.
  assert (Hs : exists ph, select ov_seed (Some ov_cfg) 0 V4 = Ok ph) by (vm_compute; eexists; reflexivity).
  destruct Hs as [ph Hs]. destruct (H _ _ _ _ Hs) as [cp Hc].
  vm_compute in Hc. discriminate.
Qed.
