(* C01 property theorems: statements + `exact lemma` only. *)
From CJ Require Import Common.Base C14.Model C01.Model C01.Proofs C01.Main.
From Coq Require Import Permutation.

(* library versions 2-4 (HKDF selection): whatever the station derives from the
   registration -- phantom address, destination port, transport identification
   secret -- is what the client derives from the same shared secret, generation,
   family, transport and the parameters it registered with *)
Theorem C01_station_client_agree_v2plus :
  forall lv secret cfg f t wire d, 2 <= lv ->
    station lv secret cfg f t wire = Ok d -> client lv secret cfg f t wire = Ok d.
Proof. exact station_client_agree. Qed.
Print Assumptions C01_station_client_agree_v2plus.

(* the same for any PRF, math/rand source and sorter *)
Theorem C01_station_client_agree_parametric :
  forall (hm : bytes -> bytes -> bytes) (src : Type) (src_seed : Z -> src) (src_int63 : src -> N * src)
         (sorter : list group -> list group) lv secret cfg f t wire d, 2 <= lv ->
    station_derive hm src src_seed src_int63 sorter lv secret cfg f t wire = Ok d ->
    client_derive hm src src_seed src_int63 sorter lv secret cfg f t wire = Ok d.
Proof. exact station_client_agree_gen. Qed.
Print Assumptions C01_station_client_agree_parametric.

(* library version 1 (internal/compatability/v1): the station's legacy selector returns the
   old client's address; the old client writes it without leading zero bytes *)
Theorem C01_station_legacy_agree_v1 :
  forall seed cfg f ph, select seed (Some cfg) 1 f = Ok ph ->
    exists cp, client_select_v1 alfg alfg_seed alfg_int63 isort_groups seed cfg f = Ok cp /\
               p_bytes cp = legacy_client_ip (p_bytes ph).
Proof. exact station_legacy_agree_v1. Qed.
Print Assumptions C01_station_legacy_agree_v1.

(* library version 0 (internal/compatability/v0), for seeds whose varint does not overflow
   (the hypothesis is necessary: Refuted.v) *)
Theorem C01_station_legacy_agree_v0 :
  forall seed cfg f ph, (0 <= snd (varint seed))%Z ->
    select seed (Some cfg) 0 f = Ok ph ->
    exists cp, client_select_v0 alfg alfg_seed alfg_int63 isort_groups seed cfg f = Ok cp /\
               p_bytes cp = legacy_client_ip (p_bytes ph).
Proof. exact station_legacy_agree_v0. Qed.
Print Assumptions C01_station_legacy_agree_v0.

(* the whole legacy derivation: port 443 on both sides, same identification secret *)
Theorem C01_station_legacy_agree :
  forall lv secret cfg f t wire d, lv < 2 ->
    (forall seed rd, station_keys hmac_sha256 lv secret = Some (seed, rd) -> (0 <= snd (varint seed))%Z) ->
    station lv secret (Some cfg) f t wire = Ok d ->
    exists d', client lv secret (Some cfg) f t wire = Ok d' /\
               d_ip d' = legacy_client_ip (d_ip d) /\ d_port d' = d_port d /\ d_ident d' = d_ident d.
Proof. exact station_legacy_agree. Qed.
Print Assumptions C01_station_legacy_agree.

(* both key schedules read the same positions of the HKDF stream, for every library version *)
Theorem C01_key_schedules_agree :
  forall lv secret, station_keys hmac_sha256 lv secret = client_keys hmac_sha256 lv secret.
Proof. exact (keys_agree hmac_sha256). Qed.
Print Assumptions C01_key_schedules_agree.

Theorem C01_port_in_range :
  forall lv secret cfg f t wire d, station lv secret cfg f t wire = Ok d ->
    (lv < 3 -> d_port d = 443) /\
    (d_port d = 443 \/ d_port d = 0 \/ d_port d = 80 \/ d_port d = 53 \/ d_port d = 22 \/ 22 <= d_port d < 65535).
Proof. exact port_in_range. Qed.
Print Assumptions C01_port_in_range.

Theorem C01_randomised_port_bounds :
  forall pmin pmax seed p, pmin < pmax -> pmax <= 65536 ->
    port_select hmac_sha256 pmin pmax seed = Ok p -> p = 0 \/ pmin <= p < pmax.
Proof. exact randomised_port_bounds. Qed.
Print Assumptions C01_randomised_port_bounds.

(* a port other than 443 is granted only to a new enough client on a phantom whose subnet allows it *)
Theorem C01_randomised_only_if_subnet_allows :
  forall lv secret cfg f t wire d, station lv secret cfg f t wire = Ok d -> d_port d <> 443 ->
    3 <= lv /\ exists c ph, cfg = Some c /\
      (exists seed rd, station_keys hmac_sha256 lv secret = Some (seed, rd) /\ select seed cfg lv f = Ok ph) /\
      p_rand_port ph = true /\ d_ip d = p_bytes ph.
Proof. exact (randomised_only_if_subnet_allows hmac_sha256 alfg alfg_seed alfg_int63 isort_groups). Qed.
Print Assumptions C01_randomised_only_if_subnet_allows.

Theorem C01_station_phantom_is_selection :
  forall lv secret cfg f t wire d, station lv secret (Some cfg) f t wire = Ok d ->
    exists g c, In g cfg /\ In c (group_cidrs g) /\ contains c f (be_to_N (d_ip d)) /\ blen (d_ip d) * 8 = bits f.
Proof. exact station_phantom_is_selection. Qed.
Print Assumptions C01_station_phantom_is_selection.

Theorem C01_station_never_panics : forall lv secret cfg f t wire, station lv secret cfg f t wire <> Panic.
Proof. exact station_never_panics. Qed.
Print Assumptions C01_station_never_panics.

(* one message, several families (parseRegMessage): the registration of a family is the
   derivation for that family from the secret alone, whatever the other families and their order *)
Theorem C01_twin_independent :
  forall lv secret cfg pre post f t wire,
    nth_error (station_message hmac_sha256 alfg alfg_seed alfg_int63 isort_groups lv secret cfg (pre ++ f :: post) t wire) (length pre)
    = Some (station lv secret cfg f t wire).
Proof. exact (twin_independent hmac_sha256 alfg alfg_seed alfg_int63 isort_groups). Qed.
Print Assumptions C01_twin_independent.

(* ... and all of them carry the same identification secret (tag / obfs4 key material) *)
Theorem C01_twins_share_ident :
  forall lv secret cfg f1 f2 t wire d1 d2,
    station lv secret cfg f1 t wire = Ok d1 -> station lv secret cfg f2 t wire = Ok d2 -> d_ident d1 = d_ident d2.
Proof. exact (twins_share_ident hmac_sha256 alfg alfg_seed alfg_int63 isort_groups). Qed.
Print Assumptions C01_twins_share_ident.
