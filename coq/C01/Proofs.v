(* C01 proofs: the station's derivation and the client's agree.  Parametric in
   the PRF, the math/rand source and the sorter. *)
From CJ Require Import Common.Base C14.Model C14.LibProofs C14.Proofs C01.Model.
From Coq Require Import Lia ZifyN ZifyNat ZifyBool.

Section Agree.
  Variable hm : bytes -> bytes -> bytes.
  Variable src : Type.
  Variable src_seed : Z -> src.
  Variable src_int63 : src -> N * src.
  Variable sorter : list group -> list group.

  Notation station_g := (station_derive hm src src_seed src_int63 sorter).
  Notation client_g := (client_derive hm src src_seed src_int63 sorter).

  (* both key schedules read the same stream positions *)
  Lemma keys_agree : forall lv secret, station_keys hm lv secret = client_keys hm lv secret.
  Proof.
    intros lv secret. unfold station_keys, client_keys, client_keys_current.
    destruct (lv <? 4); [|reflexivity].
    change (16 + 12 + 16 + 12 + 48) with 104. reflexivity.
  Qed.

  (* the station's selector is the routine behind the client entry point (libver >= 2) *)
  Lemma phantom_agree_hkdf : forall lv seed cfg f, 2 <= lv ->
    select_gen hm src src_seed src_int63 sorter seed (Some cfg) lv f =
    client_phantom hm src src_seed src_int63 sorter lv seed (Some cfg) f.
  Proof.
    intros lv seed cfg f H. unfold select_gen, client_phantom, select_phantom_gen.
    replace (lv <? 2) with false by lia. replace (lv <? 1) with false by lia. reflexivity.
  Qed.

  (* port gate on the station = dialer policy on the client, parameter defaulting included *)
  Lemma port_agree : forall t lv wire p seed rp port,
    station_parse_params t lv wire = Ok p ->
    station_port hm t p seed lv rp = Ok port ->
    client_port hm t wire seed lv rp = Ok port.
  Proof.
    intros t lv wire p seed rp port Hp Hs. unfold station_port, client_port in *.
    destruct ((lv <? 3) || negb rp) eqn:Eg; [exact Hs|].
    assert (Hlv : (lv <? 3) = false) by (destruct (lv <? 3); [discriminate|reflexivity]).
    unfold station_transport_port, client_transport_port, station_parse_params in *.
    rewrite Hlv in *.
    destruct t; destruct wire as [q|]; try (inversion Hp; subst; exact Hs); try discriminate.
    - (* prefix, params present *)
      destruct (prefix_default_port (tp_prefix q)) as [d|] eqn:Ed; [|discriminate].
      inversion Hp; subst. rewrite Ed in Hs. exact Hs.
    - (* prefix, no params: the station rejects *)
      inversion Hp; subst. discriminate.
  Qed.

  Theorem station_client_agree_gen : forall lv secret cfg f t wire d, 2 <= lv ->
    station_g lv secret cfg f t wire = Ok d -> client_g lv secret cfg f t wire = Ok d.
  Proof.
    intros lv secret cfg f t wire d Hlv H. unfold station_derive in H. unfold client_derive.
    rewrite <- keys_agree. destruct (station_keys hm lv secret) as [[seed rd]|]; [|discriminate].
    destruct cfg as [cfg|]; [|discriminate].
    rewrite <- phantom_agree_hkdf by exact Hlv.
    destruct (lift_sel (select_gen hm src src_seed src_int63 sorter seed (Some cfg) lv f)) as [ph| |]; try discriminate.
    destruct (station_parse_params t lv wire) as [p| |] eqn:Ep; try discriminate.
    destruct (station_port hm t p seed lv (p_rand_port ph)) as [port| |] eqn:Es; try discriminate.
    rewrite (port_agree _ _ _ _ _ _ _ Ep Es). exact H.
  Qed.

  (* ---------- ports ---------- *)
  Lemma port_select_range : forall pmin pmax seed p, pmin < pmax -> pmax <= 65536 ->
    port_select hm pmin pmax seed = Ok p -> p = 0 \/ (pmin <= p < pmax).
  Proof.
    intros pmin pmax seed p H1 H2 H. unfold port_select in H.
    destruct (hk_rand_int hm seed info_port (Z.of_N pmax - Z.of_N pmin)) as [| | |v s] eqn:E; try discriminate;
      try (inversion H; subst; left; reflexivity).
    unfold hk_rand_int in E. apply rand_int_lt in E. inversion H; subst. right.
    rewrite N.mod_small by lia. lia.
  Qed.

  Lemma station_port_range : forall t p seed lv rp port,
    station_port hm t p seed lv rp = Ok port ->
    port = 443 \/ port = 0 \/ port = 80 \/ port = 53 \/ port = 22 \/ (22 <= port < 65535).
  Proof.
    intros t p seed lv rp port H. unfold station_port in H.
    destruct ((lv <? 3) || negb rp); [inversion H; auto|].
    unfold station_transport_port in H.
    assert (Hps : forall a, (a = 22 \/ a = 1024) -> port_select hm a 65535 seed = Ok port ->
                  port = 443 \/ port = 0 \/ port = 80 \/ port = 53 \/ port = 22 \/ (22 <= port < 65535)).
    { intros a Ha Hq. apply port_select_range in Hq; lia. }
    destruct t.
    - destruct (lv <? 3); [inversion H; auto|]. destruct p as [q|]; [|inversion H; auto].
      destruct (tp_rand q); [apply (Hps _ (or_intror eq_refl) H)|inversion H; auto].
    - destruct (lv <? 3); [inversion H; auto|]. destruct p as [q|]; [|inversion H; auto].
      destruct (tp_rand q); [apply (Hps _ (or_introl eq_refl) H)|inversion H; auto].
    - destruct (lv <? 3); [discriminate|]. destruct p as [q|]; [|discriminate].
      destruct (prefix_default_port (tp_prefix q)) as [d|] eqn:Ed; [|discriminate].
      destruct (tp_rand q); [apply (Hps _ (or_intror eq_refl) H)|].
      inversion H; subst. unfold prefix_default_port in Ed.
      repeat (match type of Ed with match ?z with _ => _ end = _ => destruct z; try discriminate end);
        inversion Ed; subst; auto 10.
    - destruct p as [q|]; [|inversion H; auto].
      destruct (tp_rand q); [apply (Hps _ (or_intror eq_refl) H)|inversion H; auto].
  Qed.

  Lemma old_clients_port_443 : forall lv secret cfg f t wire d, lv < 3 ->
    station_g lv secret cfg f t wire = Ok d -> d_port d = 443.
  Proof.
    intros lv secret cfg f t wire d Hlv H. unfold station_derive in H.
    destruct (station_keys hm lv secret) as [[seed rd]|]; [|discriminate].
    destruct (lift_sel _) as [ph| |]; try discriminate.
    destruct (station_parse_params t lv wire) as [p| |]; try discriminate.
    unfold station_port in H. replace (lv <? 3) with true in H by lia. cbn [orb] in H.
    destruct (ident_of hm t secret rd) as [i| |]; try discriminate. inversion H; reflexivity.
  Qed.

  Lemma randomised_only_if_subnet_allows : forall lv secret cfg f t wire d,
    station_g lv secret cfg f t wire = Ok d -> d_port d <> 443 ->
    3 <= lv /\ exists c ph, cfg = Some c /\
      (exists seed rd, station_keys hm lv secret = Some (seed, rd) /\
                       select_gen hm src src_seed src_int63 sorter seed cfg lv f = Ok ph) /\
      p_rand_port ph = true /\ d_ip d = p_bytes ph.
  Proof.
    intros lv secret cfg f t wire d H Hp. unfold station_derive in H.
    destruct (station_keys hm lv secret) as [[seed rd]|] eqn:Ek; [|discriminate].
    destruct (select_gen hm src src_seed src_int63 sorter seed cfg lv f) as [ph| |] eqn:Es; try discriminate.
    cbn [lift_sel] in H.
    destruct (station_parse_params t lv wire) as [p| |]; try discriminate.
    unfold station_port in H.
    destruct ((lv <? 3) || negb (p_rand_port ph)) eqn:Eg.
    - destruct (ident_of hm t secret rd) as [i| |]; try discriminate. inversion H; subst. cbn in Hp. congruence.
    - destruct (station_transport_port hm t lv seed p) as [port| |]; try discriminate.
      destruct (ident_of hm t secret rd) as [i| |]; try discriminate. inversion H; subst. cbn [d_ip].
      split; [lia|]. destruct cfg as [c|]; [|discriminate].
      exists c, ph. split; [reflexivity|]. split; [exists seed, rd; auto|].
      split; [destruct (p_rand_port ph); [reflexivity|]; destruct (lv <? 3); discriminate|reflexivity].
  Qed.

  (* ---------- twins of one message ---------- *)
  (* the registration of one family does not depend on which other families the message asks
     for, nor on their order (nothing is shared between the derivations) *)
  Lemma twin_independent : forall lv secret cfg pre post f t wire,
    nth_error (station_message hm src src_seed src_int63 sorter lv secret cfg (pre ++ f :: post) t wire) (length pre)
    = Some (station_g lv secret cfg f t wire).
  Proof.
    intros. unfold station_message. rewrite map_app, nth_error_app2 by (rewrite map_length; apply le_n).
    rewrite map_length, PeanoNat.Nat.sub_diag. reflexivity.
  Qed.

  (* the identification secret (tag, obfs4 key material) is the same for every family of a message *)
  Lemma twins_share_ident : forall lv secret cfg f1 f2 t wire d1 d2,
    station_g lv secret cfg f1 t wire = Ok d1 -> station_g lv secret cfg f2 t wire = Ok d2 ->
    d_ident d1 = d_ident d2.
  Proof.
    intros lv secret cfg f1 f2 t wire d1 d2 H1 H2. unfold station_derive in *.
    destruct (station_keys hm lv secret) as [[seed rd]|]; [|discriminate].
    destruct (lift_sel (select_gen hm src src_seed src_int63 sorter seed cfg lv f1)) as [ph1| |]; try discriminate.
    destruct (lift_sel (select_gen hm src src_seed src_int63 sorter seed cfg lv f2)) as [ph2| |]; try discriminate.
    destruct (station_parse_params t lv wire) as [p| |]; try discriminate.
    destruct (station_port hm t p seed lv (p_rand_port ph1)) as [port1| |]; try discriminate.
    destruct (station_port hm t p seed lv (p_rand_port ph2)) as [port2| |]; try discriminate.
    destruct (ident_of hm t secret rd) as [i| |]; try discriminate.
    inversion H1; inversion H2; subst. reflexivity.
  Qed.

  (* ---------- no panic ---------- *)
  Lemma port_select_no_panic : forall pmin pmax seed, pmin < pmax -> port_select hm pmin pmax seed <> Panic.
  Proof.
    intros pmin pmax seed H. unfold port_select.
    destruct (hk_rand_int hm seed info_port (Z.of_N pmax - Z.of_N pmin)) eqn:E; try discriminate.
    exfalso. eapply hk_rand_int_no_panic; [|exact E]. lia.
  Qed.

  Lemma station_transport_port_no_panic : forall t lv seed p, station_transport_port hm t lv seed p <> Panic.
  Proof.
    intros t lv seed p. unfold station_transport_port.
    assert (H22 := port_select_no_panic 22 65535 seed ltac:(lia)).
    assert (H1024 := port_select_no_panic 1024 65535 seed ltac:(lia)).
    destruct t.
    - destruct (lv <? 3); [discriminate|]. destruct p as [q|]; [|discriminate]. destruct (tp_rand q); [exact H1024|discriminate].
    - destruct (lv <? 3); [discriminate|]. destruct p as [q|]; [|discriminate]. destruct (tp_rand q); [exact H22|discriminate].
    - destruct (lv <? 3); [discriminate|]. destruct p as [q|]; [|discriminate].
      destruct (prefix_default_port (tp_prefix q)); [|discriminate]. destruct (tp_rand q); [exact H1024|discriminate].
    - destruct p as [q|]; [|discriminate]. destruct (tp_rand q); [exact H1024|discriminate].
  Qed.

  Lemma station_parse_params_no_panic : forall t lv wire, station_parse_params t lv wire <> Panic.
  Proof.
    intros t lv wire. unfold station_parse_params.
    destruct t; destruct wire as [q|]; try discriminate; destruct (lv <? 3); try discriminate.
    destruct (prefix_default_port (tp_prefix q)); discriminate.
  Qed.

  Lemma ident_of_no_panic : forall t secret rd, ident_of hm t secret rd <> Panic.
  Proof. intros t secret rd. destruct t; cbn [ident_of]; try discriminate. destruct (obfs4_keys_from hm rd); discriminate. Qed.

  Lemma station_derive_no_panic : (forall l, Permutation.Permutation (sorter l) l) ->
    forall lv secret cfg f t wire, station_g lv secret cfg f t wire <> Panic.
  Proof.
    intros Hperm lv secret cfg f t wire. unfold station_derive.
    destruct (station_keys hm lv secret) as [[seed rd]|]; [|discriminate].
    destruct (select_gen hm src src_seed src_int63 sorter seed cfg lv f) as [ph| |] eqn:Es.
    - cbn [lift_sel]. destruct (station_parse_params t lv wire) as [p| |] eqn:Ep.
      + destruct (station_port hm t p seed lv (p_rand_port ph)) as [port| |] eqn:Eq.
        * destruct (ident_of hm t secret rd) eqn:Ei; try discriminate. exfalso. eapply ident_of_no_panic; eauto.
        * discriminate.
        * exfalso. unfold station_port in Eq. destruct ((lv <? 3) || negb (p_rand_port ph)); [discriminate|].
          eapply station_transport_port_no_panic; eauto.
      + discriminate.
      + exfalso. eapply station_parse_params_no_panic; eauto.
    - discriminate.
    - exfalso. eapply select_gen_no_panic; eauto.
  Qed.

  (* ---------- legacy clients (library versions 0 and 1) ---------- *)
  Definition strip_ph (ph : phantom) : phantom :=
    {| p_bytes := N_to_be_min (be_to_N (p_bytes ph)); p_rand_port := false |}.

  Lemma select_addr_client : forall seed p ph sv n, varint seed = (sv, n) -> (n =? 0)%Z = false ->
    select_addr_from_subnet src src_seed src_int63 seed p = Ok ph ->
    client_select_addr src src_seed src_int63 (Some sv) p = Ok (strip_ph ph).
  Proof.
    intros seed p ph sv n Hv Hn H. unfold select_addr_from_subnet in H. unfold client_select_addr.
    rewrite Hv, Hn in H.
    destruct (rnd_read src_int63 (rnd_new (src_seed sv)) (bits (fam (fst p)) / 8)) as [rb r'].
    destruct (addr_bytes _ _) as [b| |] eqn:Eb; try discriminate.
    inversion H; subst. destruct (addr_bytes_ok _ _ _ Eb) as [H1 _].
    unfold strip_ph. cbn [p_bytes]. rewrite H1. reflexivity.
  Qed.

  Section Loop.
    Variable hit : N -> N -> bool.
    Variable pick1 pick2 : N -> pnet -> sres phantom.
    Hypothesis picks : forall mn p ph, pick1 mn p = Ok ph -> pick2 mn p = Ok (strip_ph ph).

    Lemma match_loop_rel : forall l acc ph,
      match_loop hit pick1 l acc = Ok (Some ph) ->
      match_loop hit pick2 l (option_map strip_ph acc) = Ok (Some (strip_ph ph)).
    Proof.
      induction l as [|[[mn mx] p] l IH]; intros acc ph H.
      - inversion H; subst. reflexivity.
      - cbn [match_loop] in *. destruct (hit mn mx); [|apply IH; exact H].
        destruct (pick1 mn p) as [ph1| |] eqn:E1; try discriminate.
        rewrite (picks _ _ _ E1). apply (IH (Some ph1)). exact H.
    Qed.
  End Loop.

  Lemma get_subnets_client : forall cfg seed sv n t, varint seed = (sv, n) -> (n =? 0)%Z = false ->
    get_subnets_varint src src_seed src_int63 sorter cfg seed = Ok t ->
    client_get_subnets src src_seed src_int63 sorter (Some sv) cfg = Ok t.
  Proof.
    intros cfg seed sv n t Hv Hn H. unfold get_subnets_varint in H. unfold client_get_subnets, client_groups.
    rewrite Hv, Hn in H. exact H.
  Qed.

  (* library version 1: the station's result is the old client's, byte for byte after
     dropping leading zero bytes (the old client's encoding) *)
  Theorem station_legacy_agree_v1_gen : forall seed cfg f ph,
    select_gen hm src src_seed src_int63 sorter seed (Some cfg) 1 f = Ok ph ->
    client_select_v1 src src_seed src_int63 sorter seed cfg f = Ok (strip_ph ph).
  Proof.
    intros seed cfg f ph H. unfold select_gen in H. cbn [N.ltb N.compare Pos.compare Pos.compare_cont] in H.
    change (1 <? 2) with true in H. change (1 <? 1) with false in H. cbv iota in H.
    destruct (get_subnets_varint src src_seed src_int63 sorter cfg seed) as [subnets| |] eqn:Es; try discriminate.
    unfold client_select_v1.
    destruct (varint seed) as [sv n] eqn:Hv.
    assert (Hn : (n =? 0)%Z = false).
    { unfold get_subnets_varint in Es. rewrite Hv in Es. destruct (n =? 0)%Z; [discriminate|reflexivity]. }
    assert (Hv1 : varint_v1 seed = Some sv) by (unfold varint_v1; rewrite Hv, Hn; reflexivity).
    rewrite Hv1. rewrite (get_subnets_client _ _ _ _ _ Hv Hn Es).
    unfold select_impl_varint in H.
    destruct (id_nets (filter_family f subnets) 0) as [idn total].
    destruct (total =? 0); [discriminate|].
    apply finish_loop_ok in H.
    apply (match_loop_rel _ _ (fun _ p => client_select_addr src src_seed src_int63 (Some sv) p)) in H.
    - cbn [option_map] in H. rewrite H. reflexivity.
    - intros mn p ph' Hp. eapply select_addr_client; eauto.
  Qed.

  (* library version 0: additionally the seed's varint must not overflow (the old client
     reads it with ReadVarint, which fails where Varint yields 0) *)
  Theorem station_legacy_agree_v0_gen : forall seed cfg f ph,
    (0 <= snd (varint seed))%Z ->
    select_gen hm src src_seed src_int63 sorter seed (Some cfg) 0 f = Ok ph ->
    client_select_v0 src src_seed src_int63 sorter seed cfg f = Ok (strip_ph ph).
  Proof.
    intros seed cfg f ph Hov H. unfold select_gen in H.
    change (0 <? 2) with true in H. change (0 <? 1) with true in H. cbv iota in H.
    destruct (get_subnets_varint src src_seed src_int63 sorter cfg seed) as [subnets| |] eqn:Es; try discriminate.
    unfold client_select_v0.
    destruct (varint seed) as [sv n] eqn:Hv. cbn [snd] in Hov.
    assert (Hn : (n =? 0)%Z = false).
    { unfold get_subnets_varint in Es. rewrite Hv in Es. destruct (n =? 0)%Z; [discriminate|reflexivity]. }
    assert (Hv0 : read_varint seed = Some sv).
    { unfold read_varint. rewrite Hv. replace (0 <? n)%Z with true by lia. reflexivity. }
    rewrite Hv0. rewrite (get_subnets_client _ _ _ _ _ Hv Hn Es).
    unfold select_impl_v0 in H.
    destruct (id_nets_v0 (filter_family f subnets) 0) as [idn total].
    destruct (total =? 0); [discriminate|].
    apply finish_loop_ok in H.
    apply (match_loop_rel _ _ (fun _ p => client_select_addr src src_seed src_int63 (Some sv) p)) in H.
    - cbn [option_map] in H. rewrite H. reflexivity.
    - intros mn p ph' Hp. eapply select_addr_client; eauto.
  Qed.
End Agree.
