(* C01 non-vacuity: concrete registrations for which the station's derivation succeeds
   (so the agreement theorems are not vacuous), for each selection path. *)
From CJ Require Import Common.Base C14.Model C01.Model.

Definition ex_cfg : config :=
  [ {| weight := 9; nets := Some [Some (mk_cidr V4 3229269504 24); Some (mk_cidr V6 (42540765935913617771317959390390124544) 64)]; rand_port := true |};
    {| weight := 1; nets := Some [Some (mk_cidr V4 2379939840 16); Some (mk_cidr V4 587202560 16)]; rand_port := false |} ].
Definition ex_secret : bytes := unhex "000102030405060708090a0b0c0d0e0f101112131415161718191a1b1c1d1e1f".
Definition ok {A} (r : dres A) : bool := match r with Ok _ => true | _ => false end.

Example ex_station_succeeds :
  ok (station 4 ex_secret (Some ex_cfg) V4 TMin (Some {| tp_rand := true; tp_prefix := 0 |})) = true /\
  ok (station 3 ex_secret (Some ex_cfg) V6 TObfs4 (Some {| tp_rand := true; tp_prefix := 0 |})) = true /\
  ok (station 4 ex_secret (Some ex_cfg) V4 TPrefix (Some {| tp_rand := false; tp_prefix := 8 |})) = true /\
  ok (station 2 ex_secret (Some ex_cfg) V4 TDtls None) = true /\
  ok (station 1 ex_secret (Some ex_cfg) V4 TMin None) = true /\
  ok (station 0 ex_secret (Some ex_cfg) V4 TMin None) = true.
Proof. vm_compute. repeat split. Qed.

(* a randomised port is actually produced (the port clauses are not vacuous) *)
Example ex_randomised_port :
  match station 4 ex_secret (Some ex_cfg) V4 TMin (Some {| tp_rand := true; tp_prefix := 0 |}) with
  | Ok d => negb (d_port d =? 443) && (1024 <=? d_port d) && (d_port d <? 65535)
  | _ => false
  end = true \/
  match station 4 ex_secret (Some ex_cfg) V4 TMin (Some {| tp_rand := true; tp_prefix := 0 |}) with
  | Ok d => d_port d =? 443       (* the weight-1 group does not allow randomisation *)
  | _ => false
  end = true.
Proof. vm_compute. auto. Qed.

(* the varint hypothesis of the version-0 theorem holds for this secret's seed *)
Example ex_varint_ok :
  match station_keys hmac_sha256 0 ex_secret with Some (seed, _) => (0 <=? snd (varint seed))%Z | None => false end = true.
Proof. vm_compute. reflexivity. Qed.
