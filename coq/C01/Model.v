(* C01 model: what the station derives from a registration (pkg/core/keys.go,
   pkg/station/lib/registration_ingest.go, the transports' station halves) and
   what the client library derives from the same shared secret (pkg/core,
   pkg/phantoms, internal/compatability/v0|v1, the transports' client halves,
   and the modelled behaviour of clients older than this tree).
   Built on the C14 libraries and selectors.  Definitions only; executable. *)
From CJ Require Export Common.Base C14.Model.

Inductive transport := TMin | TObfs4 | TPrefix | TDtls.

(* transport parameters as they travel in ClientToStation.TransportParams:
   GetRandomizeDstPort(), GetPrefixId() *)
Record tparams := { tp_rand : bool; tp_prefix : Z }.

Definition salt_conjure : bytes := unhex "636f6e6a757265636f6e6a757265636f6e6a757265636f6e6a757265". (* "conjure" x 4 *)
Definition info_port : bytes := unhex "7068616e746f6d2d73656c6563742d6473742d706f7274".          (* "phantom-select-dst-port" *)
Definition label_min : bytes := unhex "4d696e54726173706f7274484d4143537472696e67".                (* "MinTrasportHMACString" *)
Definition label_prefix : bytes := unhex "5072656669785472616e73706f7274484d4143537472696e67".    (* "PrefixTransportHMACString" *)
Definition label_dtls : bytes := unhex "64746c7354726173706f7274484d4143537472696e67".            (* "dtlsTrasportHMACString" *)

(* prefix.defaultPrefixes: id -> DefaultDstPort (ids 0..9; Rand = -1 is not a station prefix) *)
Definition prefix_default_port (id : Z) : option N :=
  match id with
  | 0%Z => Some 443 | 1%Z => Some 80 | 2%Z => Some 80 | 3%Z => Some 80 | 4%Z => Some 443
  | 5%Z => Some 443 | 6%Z => Some 443 | 7%Z => Some 443 | 8%Z => Some 53 | 9%Z => Some 22
  | _ => None
  end.

Inductive derr :=
| DKeys            (* HKDF reader error *)
| DPhantom (e : sel_err)
| DParams          (* ParseParams / GetDstPort rejected the parameters *)
| DClientPrefix.   (* client transport has no usable prefix *)

Definition dres := result derr.

(* obfs4 key material drawn from the transport reader: clamped private key, node id *)
Record obfs4_keys := { ok_priv : bytes; ok_node : bytes }.

(* what a side derives: phantom address bytes, destination port, transport identification secret *)
Inductive ident := IdTag (t : bytes) | IdObfs4 (k : obfs4_keys).
Record derived := { d_ip : bytes; d_port : N; d_ident : ident }.

Section Derive.
  Variable hm : bytes -> bytes -> bytes.
  Variable src : Type.
  Variable src_seed : Z -> src.
  Variable src_int63 : src -> N * src.
  Variable sorter : list group -> list group.

  Notation hread := (hkdf_read hm).

  (* ---------- key schedule ---------- *)
  (* core.GenSharedKeys(clientLibVer, sharedSecret, tt): (ConjureSeed, TransportReader) *)
  Definition station_keys (lv : N) (secret : bytes) : option (bytes * hkdf_reader) :=
    let r0 := hkdf_new hm secret (Some salt_conjure) [] in
    match (if lv <? 4 then hread r0 (16 + 12 + 16 + 12 + 48) else Some ([], r0)) with
    | None => None
    | Some (_, r1) => hread r1 16
    end.

  (* core.GenerateClientSharedKeys (this tree's client, library version 4) *)
  Definition client_keys_current (secret : bytes) : option (bytes * hkdf_reader) :=
    hread (hkdf_new hm secret (Some salt_conjure) []) 16.

  (* clients before the shared-keys refactor (library versions 0-3, not in this
     tree): the five decoy-registrar keys are drawn first, then the seed *)
  Definition client_keys (lv : N) (secret : bytes) : option (bytes * hkdf_reader) :=
    if lv <? 4 then
      match hread (hkdf_new hm secret (Some salt_conjure) []) 104 with
      | None => None
      | Some (_, r1) => hread r1 16
      end
    else client_keys_current secret.

  (* ---------- destination port ---------- *)
  (* transports.PortSelectorRange(min, max, seed): an HKDF error yields port 0 and no error *)
  Definition port_select (pmin pmax : N) (seed : bytes) : result derr N :=
    match hk_rand_int hm seed info_port (Z.of_N pmax - Z.of_N pmin) with
    | ROk v _ => Ok ((v + pmin) mod 65536)
    | RPanic => Panic
    | _ => Ok 0
    end.

  (* Transport.ParseParams(libVersion, data) on the station; None = nil params *)
  Definition station_parse_params (t : transport) (lv : N) (wire : option tparams) : dres (option tparams) :=
    match t with
    | TMin | TObfs4 =>
      match wire with
      | None => Ok None
      | Some p => if lv <? 3 then Ok (Some {| tp_rand := false; tp_prefix := 0 |}) else Ok (Some p)
      end
    | TPrefix =>
      match wire with
      | None => Ok None
      | Some p => if lv <? 3 then Err DParams
                  else match prefix_default_port (tp_prefix p) with None => Err DParams | Some _ => Ok (Some p) end
      end
    | TDtls =>
      match wire with
      | None => Ok (Some {| tp_rand := false; tp_prefix := 0 |})
      | Some p => Ok (Some p)
      end
    end.

  (* Transport.GetDstPort(libVersion, seed, params) on the station *)
  Definition station_transport_port (t : transport) (lv : N) (seed : bytes) (p : option tparams) : dres N :=
    match t with
    | TMin | TObfs4 =>
      if lv <? 3 then Ok 443
      else match p with
           | None => Ok 443
           | Some q => if tp_rand q then port_select (match t with TObfs4 => 22 | _ => 1024 end) 65535 seed else Ok 443
           end
    | TPrefix =>
      if lv <? 3 then Err DParams
      else match p with
           | None => Err DParams
           | Some q => match prefix_default_port (tp_prefix q) with
                       | None => Err DParams
                       | Some d => if tp_rand q then port_select 1024 65535 seed else Ok d
                       end
           end
    | TDtls =>
      match p with
      | None => Ok 443
      | Some q => if tp_rand q then port_select 1024 65535 seed else Ok 443
      end
    end.

  (* RegistrationManager.getPhantomDstPort *)
  Definition station_port (t : transport) (p : option tparams) (seed : bytes) (lv : N) (supports_random : bool) : dres N :=
    if (lv <? 3) || negb supports_random then Ok 443 else station_transport_port t lv seed p.

  (* ---------- identification secrets ---------- *)
  (* obfs4.generateObfs4Keys(reader): 32 bytes clamped, then 20 bytes of node id *)
  Definition clamp (k : bytes) : bytes :=
    match k with
    | [] => []
    | b0 :: r =>
      N.land b0 248 ::
      (match rev r with
       | [] => []
       | b31 :: m => rev (N.lor (N.land b31 127) 64 :: m)
       end)
    end.
  Definition obfs4_keys_from (r : hkdf_reader) : option obfs4_keys :=
    match hread r 32 with
    | None => None
    | Some (k, r1) => match hread r1 20 with
                      | None => None
                      | Some (n, _) => Some {| ok_priv := clamp k; ok_node := n |}
                      end
    end.

  Definition ident_of (t : transport) (secret : bytes) (r : hkdf_reader) : dres ident :=
    match t with
    | TMin => Ok (IdTag (hm secret label_min))
    | TPrefix => Ok (IdTag (hm secret label_prefix))
    | TDtls => Ok (IdTag (hm secret label_dtls))
    | TObfs4 => match obfs4_keys_from r with Some k => Ok (IdObfs4 k) | None => Err DKeys end
    end.

  Definition lift_sel {A} (r : sres A) : dres A :=
    match r with Ok a => Ok a | Err e => Err (DPhantom e) | Panic => Panic end.

  (* ---------- the station: NewRegistrationC2SWrapper -> NewRegistration ---------- *)
  Definition station_derive (lv : N) (secret : bytes) (cfg : option config) (f : family)
             (t : transport) (wire : option tparams) : dres derived :=
    match station_keys lv secret with
    | None => Err DKeys
    | Some (seed, rd) =>
      match lift_sel (select_gen hm src src_seed src_int63 sorter seed cfg lv f) with
      | Ok ph =>
        match station_parse_params t lv wire with
        | Ok p =>
          match station_port t p seed lv (p_rand_port ph) with
          | Ok port =>
            match ident_of t secret rd with
            | Ok i => Ok {| d_ip := p_bytes ph; d_port := port; d_ident := i |}
            | Err e => Err e | Panic => Panic
            end
          | Err e => Err e | Panic => Panic
          end
        | Err e => Err e | Panic => Panic
        end
      | Err e => Err e | Panic => Panic
      end
    end.

  (* ---------- the client ---------- *)
  (* legacy client selectors (internal/compatability/v0, v1): groups without
     subnets are skipped before the weighted choice, addresses are the minimal
     big-endian bytes, no port-randomisation flag exists *)
  Definition client_groups (cfg : config) : list group :=
    filter (fun g => match nets g with None => false | Some _ => true end) cfg.

  (* binary.ReadVarint(bytes.NewBuffer(seed)): an error for a truncated or overflowing varint *)
  Definition read_varint (seed : bytes) : option Z :=
    let '(v, n) := varint seed in if (0 <? n)%Z then Some v else None.

  (* getSubnets(sc, seed, weighted = true) followed by parseSubnets *)
  Definition client_get_subnets (sv : option Z) (cfg : config) : sres (list pnet) :=
    match sv with
    | None => Err EVarint
    | Some v =>
      let sorted := sorter (client_groups cfg) in
      let tot := fold_left (fun a g => a + weight g) sorted 0 in
      if tot <? 1 then Err EChooser
      else
        match rnd_intn src_int63 intn_fuel (rnd_new (src_seed v)) (Z.of_N tot) with
        | IntnPanic => Panic
        | IntnFuel => Err EFuel
        | IntnOk x _ =>
          match search_totals sorted 0 (x + 1) with
          | Some g => parse_subnets g
          | None => Panic
          end
        end
    end.

  (* SelectAddrFromSubnet of the old clients: net.IP(ipBigInt.Bytes()) *)
  Definition client_select_addr (sv : option Z) (p : pnet) : sres phantom :=
    let c := fst p in
    match sv with
    | None => Err EVarint
    | Some v =>
      let alen := bits (fam c) in
      let '(rb, _) := rnd_read src_int63 (rnd_new (src_seed v)) (alen / 8) in
      let mask := N.shiftr (2 ^ alen - 1) (ones c) in
      Ok {| p_bytes := N_to_be_min (eff_base c + N.land (be_to_N rb) mask); p_rand_port := false |}
    end.

  Definition varint_v1 (seed : bytes) : option Z :=
    let '(v, n) := varint seed in if (n =? 0)%Z then None else Some v.

  (* internal/compatability/v1.SelectPhantom(seed, list, V4Only|V6Only, true) *)
  Definition client_select_v1 (seed : bytes) (cfg : config) (f : family) : sres phantom :=
    match client_get_subnets (varint_v1 seed) cfg with
    | Ok subnets =>
      let '(idn, total) := id_nets (filter_family f subnets) 0 in
      if total =? 0 then Err ENoAddrs
      else
        let id0 := be_to_N seed in
        let id := if total <=? id0 then id0 mod total else id0 in
        finish_loop (match_loop (fun mn mx => (id <=? mx) && (mn <=? id))
                                (fun _ p => client_select_addr (varint_v1 seed) p) idn None)
    | Err e => Err e
    | Panic => Panic
    end.

  (* internal/compatability/v0.SelectPhantom *)
  Definition client_select_v0 (seed : bytes) (cfg : config) (f : family) : sres phantom :=
    match client_get_subnets (read_varint seed) cfg with
    | Ok subnets =>
      let '(idn, total) := id_nets_v0 (filter_family f subnets) 0 in
      if total =? 0 then Err ENoAddrs
      else
        let id0 := be_to_N seed in
        let id := if total <? id0 then id0 mod total else id0 in
        finish_loop (match_loop (fun mn mx => (id <=? mx) && (mn <? id))
                                (fun _ p => client_select_addr (read_varint seed) p) idn None)
    | Err e => Err e
    | Panic => Panic
    end.

  (* the phantom the client library of version lv connects to (None: no such generation in its ClientConf) *)
  Definition client_phantom (lv : N) (seed : bytes) (cfg : option config) (f : family) : sres phantom :=
    match cfg with
    | None => Err EGeneration
    | Some c =>
      if lv <? 1 then client_select_v0 seed c f
      else if lv <? 2 then client_select_v1 seed c f
      else select_phantom_gen hm sorter seed c (Some f) true
    end.

  (* ClientTransport.GetDstPort(seed) with the session parameters the client registered with *)
  Definition client_transport_port (t : transport) (seed : bytes) (sess : option tparams) : dres N :=
    match t with
    | TMin | TObfs4 | TDtls =>
      match sess with
      | Some q => if tp_rand q then port_select (match t with TObfs4 => 22 | _ => 1024 end) 65535 seed else Ok 443
      | None => Ok 443
      end
    | TPrefix =>
      match sess with
      | None => Err DClientPrefix
      | Some q => match prefix_default_port (tp_prefix q) with
                  | None => Err DClientPrefix
                  | Some d => if tp_rand q then port_select 1024 65535 seed else Ok d
                  end
      end
    end.

  (* the dialer's policy (gotapdance; stated in internal/port_integration_test.go):
     443 unless the client is new enough and the phantom's subnet allows randomisation *)
  Definition client_port (t : transport) (sess : option tparams) (seed : bytes) (lv : N) (supports_random : bool) : dres N :=
    if (lv <? 3) || negb supports_random then Ok 443 else client_transport_port t seed sess.

  Definition client_derive (lv : N) (secret : bytes) (cfg : option config) (f : family)
             (t : transport) (sess : option tparams) : dres derived :=
    match client_keys lv secret with
    | None => Err DKeys
    | Some (seed, rd) =>
      match lift_sel (client_phantom lv seed cfg f) with
      | Ok ph =>
        match client_port t sess seed lv (p_rand_port ph) with
        | Ok port =>
          match ident_of t secret rd with
          | Ok i => Ok {| d_ip := p_bytes ph; d_port := port; d_ident := i |}
          | Err e => Err e | Panic => Panic
          end
        | Err e => Err e | Panic => Panic
        end
      | Err e => Err e | Panic => Panic
      end
    end.
End Derive.

(* ---------- one message, several address families ----------
   parseRegMessage builds one registration per address family the message asks
   for; each is the derivation for that family from the message's secret. *)
Section Message.
  Variable hm : bytes -> bytes -> bytes.
  Variable src : Type.
  Variable src_seed : Z -> src.
  Variable src_int63 : src -> N * src.
  Variable sorter : list group -> list group.
  Definition station_message (lv : N) (secret : bytes) (cfg : option config) (fams : list family)
             (t : transport) (wire : option tparams) : list (dres derived) :=
    map (fun f => station_derive hm src src_seed src_int63 sorter lv secret cfg f t wire) fams.
End Message.

(* ---------- concrete instances ---------- *)
Definition station := station_derive hmac_sha256 alfg alfg_seed alfg_int63 isort_groups.
Definition client := client_derive hmac_sha256 alfg alfg_seed alfg_int63 isort_groups.
