(* C01: the theorems for the concrete model. *)
From CJ Require Import Common.Base C14.Model C14.LibProofs C14.Proofs C14.SurjProofs C14.Main C01.Model C01.Proofs.
From Coq Require Import Lia ZifyN ZifyNat ZifyBool.

Lemma station_client_agree : forall lv secret cfg f t wire d, 2 <= lv ->
  station lv secret cfg f t wire = Ok d -> client lv secret cfg f t wire = Ok d.
Proof. intros. eapply station_client_agree_gen; eauto. Qed.

Definition legacy_client_ip (ip : bytes) : bytes := N_to_be_min (be_to_N ip).

Lemma station_legacy_agree_v1 : forall seed cfg f ph,
  select seed (Some cfg) 1 f = Ok ph ->
  exists cp, client_select_v1 alfg alfg_seed alfg_int63 isort_groups seed cfg f = Ok cp /\
             p_bytes cp = legacy_client_ip (p_bytes ph).
Proof.
  intros seed cfg f ph H. exists (strip_ph ph). split; [|reflexivity].
  exact (station_legacy_agree_v1_gen hmac_sha256 alfg alfg_seed alfg_int63 isort_groups seed cfg f ph H).
Qed.

Lemma station_legacy_agree_v0 : forall seed cfg f ph,
  (0 <= snd (varint seed))%Z ->
  select seed (Some cfg) 0 f = Ok ph ->
  exists cp, client_select_v0 alfg alfg_seed alfg_int63 isort_groups seed cfg f = Ok cp /\
             p_bytes cp = legacy_client_ip (p_bytes ph).
Proof.
  intros seed cfg f ph Hov H. exists (strip_ph ph). split; [|reflexivity].
  exact (station_legacy_agree_v0_gen hmac_sha256 alfg alfg_seed alfg_int63 isort_groups seed cfg f ph Hov H).
Qed.

(* the full legacy derivation: same port (443), same identification secret, same address up to
   the old clients' encoding *)
Lemma station_legacy_agree : forall lv secret cfg f t wire d,
  lv < 2 ->
  (forall seed rd, station_keys hmac_sha256 lv secret = Some (seed, rd) -> (0 <= snd (varint seed))%Z) ->
  station lv secret (Some cfg) f t wire = Ok d ->
  exists d', client lv secret (Some cfg) f t wire = Ok d' /\
             d_ip d' = legacy_client_ip (d_ip d) /\ d_port d' = d_port d /\ d_ident d' = d_ident d.
Proof.
  intros lv secret cfg f t wire d Hlv Hov H. unfold station, station_derive in H. unfold client, client_derive.
  rewrite <- keys_agree. destruct (station_keys hmac_sha256 lv secret) as [[seed rd]|] eqn:Ek; [|discriminate].
  specialize (Hov seed rd eq_refl).
  destruct (select_gen hmac_sha256 alfg alfg_seed alfg_int63 isort_groups seed (Some cfg) lv f) as [ph| |] eqn:Es; try discriminate.
  cbn [lift_sel] in H.
  assert (Hc : client_phantom hmac_sha256 alfg alfg_seed alfg_int63 isort_groups lv seed (Some cfg) f = Ok (strip_ph ph)).
  { unfold client_phantom. assert (lv = 0 \/ lv = 1) as [-> | ->] by lia.
    - change (0 <? 1) with true. cbv iota.
      apply (station_legacy_agree_v0_gen hmac_sha256 alfg alfg_seed alfg_int63 isort_groups); assumption.
    - change (1 <? 1) with false. change (1 <? 2) with true. cbv iota.
      apply (station_legacy_agree_v1_gen hmac_sha256 alfg alfg_seed alfg_int63 isort_groups); assumption. }
  rewrite Hc. cbn [lift_sel].
  destruct (station_parse_params t lv wire) as [p| |]; try discriminate.
  unfold station_port in H. unfold client_port. replace (lv <? 3) with true in * by lia. cbn [orb] in *.
  destruct (ident_of hmac_sha256 t secret rd) as [i| |]; try discriminate.
  inversion H; subst. eexists. split; [reflexivity|]. cbn. repeat split.
Qed.

Lemma port_in_range : forall lv secret cfg f t wire d,
  station lv secret cfg f t wire = Ok d ->
  (lv < 3 -> d_port d = 443) /\
  (d_port d = 443 \/ d_port d = 0 \/ d_port d = 80 \/ d_port d = 53 \/ d_port d = 22 \/ 22 <= d_port d < 65535).
Proof.
  intros lv secret cfg f t wire d H. split.
  - intros Hlv. eapply old_clients_port_443; eauto.
  - unfold station, station_derive in H.
    destruct (station_keys hmac_sha256 lv secret) as [[seed rd]|]; [|discriminate].
    destruct (lift_sel _) as [ph| |]; try discriminate.
    destruct (station_parse_params t lv wire) as [p| |]; try discriminate.
    destruct (station_port hmac_sha256 t p seed lv (p_rand_port ph)) as [port| |] eqn:Ep; try discriminate.
    destruct (ident_of hmac_sha256 t secret rd) as [i| |]; try discriminate.
    inversion H; subst. cbn [d_port]. eapply station_port_range; eauto.
Qed.

Lemma randomised_port_bounds : forall pmin pmax seed p, pmin < pmax -> pmax <= 65536 ->
  port_select hmac_sha256 pmin pmax seed = Ok p -> p = 0 \/ pmin <= p < pmax.
Proof. intros. eapply port_select_range; eauto. Qed.

(* the station's phantom of a registration is a C14 selection: contained, well-formed *)
Lemma station_phantom_is_selection : forall lv secret cfg f t wire d,
  station lv secret (Some cfg) f t wire = Ok d ->
  exists g c, In g cfg /\ In c (group_cidrs g) /\ contains c f (be_to_N (d_ip d)) /\ blen (d_ip d) * 8 = bits f.
Proof.
  intros lv secret cfg f t wire d H. unfold station, station_derive in H.
  destruct (station_keys hmac_sha256 lv secret) as [[seed rd]|]; [|discriminate].
  destruct (select_gen hmac_sha256 alfg alfg_seed alfg_int63 isort_groups seed (Some cfg) lv f) as [ph| |] eqn:Es; try discriminate.
  cbn [lift_sel] in H.
  destruct (station_parse_params t lv wire) as [p| |]; try discriminate.
  destruct (station_port hmac_sha256 t p seed lv (p_rand_port ph)) as [port| |]; try discriminate.
  destruct (ident_of hmac_sha256 t secret rd) as [i| |]; try discriminate.
  inversion H; subst. cbn [d_ip].
  destruct (select_contained _ _ _ _ _ Es) as (g & c & H1 & H2 & H3 & _).
  destruct (select_wellformed _ _ _ _ _ Es) as [H4 _].
  exists g, c. auto.
Qed.

Lemma station_never_panics : forall lv secret cfg f t wire, station lv secret cfg f t wire <> Panic.
Proof. intros. apply station_derive_no_panic, isort_groups_perm. Qed.
