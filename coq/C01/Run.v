(* C01: evaluation of the model on recorded cases (correspondence check). *)
From CJ Require Import Common.Base C14.Model C14.Run C01.Model.

Definition tr_of (n : N) : transport := match n with 0 => TMin | 1 => TObfs4 | 2 => TPrefix | _ => TDtls end.
Definition mk_tp (o : option (bool * Z)) : option tparams :=
  match o with Some (r, p) => Some {| tp_rand := r; tp_prefix := p |} | None => None end.

(* observed derivation of one side: outcome (0 ok / 1 err / 2 panic), address, port, HMAC tag
   (min / prefix / dtls), obfs4 private key and node id *)
Definition oside := (N * bytes * N * bytes * bytes * bytes)%type.

Record vcase := {
  v_secret : bytes; v_lv : N; v_cfg : option (list group); v_fam : N; v_tr : N;
  v_wire : option (bool * Z);
  v_s_seed : bytes; v_s_reader : bytes;          (* GenSharedKeys: seed, next 64 bytes *)
  v_station : oside;
  v_c_keys : option (bytes * bytes);             (* GenerateClientSharedKeys: seed, reader bytes (64, or the 12 after the obfs4 keys) *)
  v_c_phantom : N * bytes * bool * bool;         (* outcome, address, flag, flag observable *)
  v_c_port : N * N;                              (* ClientTransport.GetDstPort: outcome, port *)
  v_c_ident : option (bytes * bytes * bytes)     (* client tag / obfs4 private key / node id, where observable *)
}.

Definition fam_of (n : N) : family := match n with 6 => V6 | _ => V4 end.
Definition hm := hmac_sha256.

Definition ident_matches (i : ident) (tag priv node : bytes) : bool :=
  match i with
  | IdTag t => bytes_eqb t tag
  | IdObfs4 k => bytes_eqb (ok_priv k) priv && bytes_eqb (ok_node k) node
  end.

Definition side_matches (m : dres derived) (o : oside) : bool :=
  let '(k, ip, port, tag, priv, node) := o in
  match m with
  | Ok d => (k =? 0) && bytes_eqb (d_ip d) ip && (d_port d =? port) && ident_matches (d_ident d) tag priv node
  | Err (DPhantom EFuel) => false
  | Err _ => k =? 1
  | Panic => k =? 2
  end.

Definition chk_station_keys (c : vcase) : bool :=
  match station_keys hm (v_lv c) (v_secret c) with
  | Some (seed, r) =>
    bytes_eqb seed (v_s_seed c) &&
    match hkdf_read hm r 64 with Some (b, _) => bytes_eqb b (v_s_reader c) | None => false end
  | None => false
  end.

Definition chk_client_keys (c : vcase) : bool :=
  match v_c_keys c with
  | None => true
  | Some (seed, rb) =>
    match client_keys_current hm (v_secret c) with
    | Some (s, r) =>
      bytes_eqb s seed &&
      (if blen rb =? 64 then match hkdf_read hm r 64 with Some (b, _) => bytes_eqb b rb | None => false end
       else match hkdf_read hm r 52 with
            | Some (_, r') => match hkdf_read hm r' 12 with Some (b, _) => bytes_eqb b rb | None => false end
            | None => false
            end)
    | None => false
    end
  end.

Definition chk_client (c : vcase) : bool :=
  match client_keys hm (v_lv c) (v_secret c) with
  | None => false
  | Some (seed, r) =>
    let '(pk, pip, prp, has_rp) := v_c_phantom c in
    (match client_phantom hm alfg alfg_seed alfg_int63 isort_groups (v_lv c) seed (v_cfg c) (fam_of (v_fam c)) with
     | Ok ph => (pk =? 0) && bytes_eqb (p_bytes ph) pip && (negb has_rp || Bool.eqb (p_rand_port ph) prp)
     | Err EFuel => false
     | Err _ => pk =? 1
     | Panic => pk =? 2
     end) &&
    (let '(ok, port) := v_c_port c in
     match client_transport_port hm (tr_of (v_tr c)) seed (mk_tp (v_wire c)) with
     | Ok p => (ok =? 0) && (p =? port)
     | Err _ => ok =? 1
     | Panic => ok =? 2
     end) &&
    (match v_c_ident c with
     | None => true
     | Some (tag, priv, node) =>
       match ident_of hm (tr_of (v_tr c)) (v_secret c) r with
       | Ok i => ident_matches i tag priv node
       | _ => false
       end
     end)
  end.

Definition chk (c : vcase) : bool :=
  chk_station_keys c &&
  side_matches (station (v_lv c) (v_secret c) (v_cfg c) (fam_of (v_fam c)) (tr_of (v_tr c)) (mk_tp (v_wire c))) (v_station c) &&
  chk_client_keys c && chk_client c.

(* which of the four parts disagree, and what the model derives (for replay files) *)
Definition show (c : vcase) :=
  (chk_station_keys c,
   side_matches (station (v_lv c) (v_secret c) (v_cfg c) (fam_of (v_fam c)) (tr_of (v_tr c)) (mk_tp (v_wire c))) (v_station c),
   chk_client_keys c, chk_client c,
   match station (v_lv c) (v_secret c) (v_cfg c) (fam_of (v_fam c)) (tr_of (v_tr c)) (mk_tp (v_wire c)) with
   | Ok d => (0, d_ip d, d_port d) | Err _ => (1, [], 0) | Panic => (2, [], 0) end,
   match client (v_lv c) (v_secret c) (v_cfg c) (fam_of (v_fam c)) (tr_of (v_tr c)) (mk_tp (v_wire c)) with
   | Ok d => (0, d_ip d, d_port d) | Err _ => (1, [], 0) | Panic => (2, [], 0) end).
