(* C03: evaluation of the handler model and of the clocked runner on recorded probes. *)
From CJ Require Import Common.Base C04.Model C04.Run C03.Model.
Local Open Scope nat_scope.

Record probe_case := {
  q_conn : conn_case;          (* registry view, oracle values, stream, the handler's reads, observed calls *)
  q_script : list (N * N);     (* arrival instant (ms) and length of every chunk of the peer script *)
  q_D : N;                     (* the deadline the handler set, ms after the start *)
  q_total_read : N;            (* bytes the handler read in total *)
  q_quiet : bool;              (* observed: no transport gave a decisive answer *)
  q_slept : bool;              (* observed: the handler returned without a Read having timed out or failed *)
  q_fin : option (N * N);      (* the peer closes (kind 0: FIN) or resets (kind 1) at this instant (ms) *)
  q_peer_close_seen : bool     (* observed: the handler's last Read returned the peer's close / reset *)
}.

Fixpoint mk_script (s : bytes) (sh : list (N * N)) : list (N * bytes) :=
  match sh with
  | [] => []
  | (t, n) :: r => (t, firstn (N.to_nat n) s) :: mk_script (skipn (N.to_nat n) s) r
  end.

Definition is_sleep (a : action) : bool := match a with ASleep _ _ => true | _ => false end.
Definition is_relay (a : action) : bool := match a with ARelay _ _ | AMarkActive _ => true | _ => false end.
Definition ends_with_readerr (tf : N) (tr : list action) : bool :=
  match rev tr with
  | AReturn t :: AReadErr t' _ :: _ => (t =? tf)%N && (t' =? tf)%N
  | _ => false
  end.
Definition ends_with_timeout (D : N) (tr : list action) : bool :=
  match rev tr with
  | AReturn t :: ATimeout t' :: _ => (t =? D)%N && (t' =? D)%N
  | _ => false
  end.

Section WithTable.
  Variable tbl : list pfx.

  Definition chk3 (q : probe_case) : bool :=
    let k := q_conn q in
    let stream := concat (map bspec_val (k_stream k)) in
    let wrap := model_wrap tbl k stream in
    let script := mk_script stream (q_script q) in
    let tr := match q_fin q with
              | None => run wrap (N.to_nat 8192%N) (q_D q) (N.to_nat (k_tracked k)) (map tid_of (k_ts k)) script
              | Some (tf, kind) => run_end wrap (N.to_nat 8192%N) (q_D q) (N.to_nat (k_tracked k)) (map tid_of (k_ts k))
                                           script tf (if (kind =? 0)%N then REof else RReset)
              end in
    let found := is_some (k_found k) in
    chk tbl k &&
    (N.of_nat (read_by tr (q_D q - 1)) =? q_total_read q)%N &&
    Bool.eqb (existsb is_sleep tr) (q_slept q) &&
    Bool.eqb (existsb is_relay tr) found &&
    Bool.eqb (ends_with_timeout (q_D q) tr) (negb (q_slept q) && negb found && negb (q_peer_close_seen q)) &&
    Bool.eqb (match q_fin q with Some (tf, _) => ends_with_readerr tf tr | None => false end) (q_peer_close_seen q) &&
    (* the theorem's hypothesis, decided on this probe, implies what was observed: whenever the
       handler was seen to react, the stream must present a valid tag (only evaluated then) *)
    (if q_quiet q && negb (q_slept q) then true
     else presents_tagb (reveal_of stream (k_revs k)) (mark_of (k_marks k)) tbl
                        (map mk_reg (k_regs k)) (stream_of (heard (q_D q) script))).
End WithTable.
