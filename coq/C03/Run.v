(* C03: evaluation of the handler model and of the clocked runner on recorded probes. *)
From CJ Require Import Common.Base C04.Model C04.Run C03.Model C03.StatsModel C03.ConnModel C03.ReloadModel.
Local Open Scope nat_scope.

Record probe_case := {
  q_conn : conn_case;          (* registry view, oracle values, stream, the handler's reads, observed calls *)
  q_script : list (N * N);     (* arrival instant (ms) and length of every chunk of the peer script *)
  q_D : N;                     (* the deadline the handler set, ms after the start *)
  q_total_read : N;            (* bytes the handler read in total *)
  q_quiet : bool;              (* observed: no transport gave a decisive answer *)
  q_slept : bool;              (* observed: the handler returned without a Read having timed out or failed *)
  q_fin : option (N * N);      (* the peer closes (kind 0: FIN) or resets (kind 1) at this instant (ms) *)
  q_peer_close_seen : bool     (* observed: the handler's last Read returned the peer's close / reset *)
}.

Fixpoint mk_script (s : bytes) (sh : list (N * N)) : list (N * bytes) :=
  match sh with
  | [] => []
  | (t, n) :: r => (t, firstn (N.to_nat n) s) :: mk_script (skipn (N.to_nat n) s) r
  end.

Definition is_sleep (a : action) : bool := match a with ASleep _ _ => true | _ => false end.
Definition is_relay (a : action) : bool := match a with ARelay _ _ | AMarkActive _ => true | _ => false end.
Definition ends_with_readerr (tf : N) (tr : list action) : bool :=
  match rev tr with
  | AReturn t :: AReadErr t' _ :: _ => (t =? tf)%N && (t' =? tf)%N
  | _ => false
  end.
Definition ends_with_timeout (D : N) (tr : list action) : bool :=
  match rev tr with
  | AReturn t :: ATimeout t' :: _ => (t =? D)%N && (t' =? D)%N
  | _ => false
  end.

Section WithTable.
  Variable tbl : list pfx.

  Definition chk3 (q : probe_case) : bool :=
    let k := q_conn q in
    let stream := concat (map bspec_val (k_stream k)) in
    let wrap := model_wrap tbl k stream in
    let script := mk_script stream (q_script q) in
    let tr := match q_fin q with
              | None => run wrap (N.to_nat 8192%N) (q_D q) (N.to_nat (k_tracked k)) (map tid_of (k_ts k)) script
              | Some (tf, kind) => run_end wrap (N.to_nat 8192%N) (q_D q) (N.to_nat (k_tracked k)) (map tid_of (k_ts k))
                                           script tf (if (kind =? 0)%N then REof else RReset)
              end in
    let found := is_some (k_found k) in
    chk tbl k &&
    (N.of_nat (read_by tr (q_D q - 1)) =? q_total_read q)%N &&
    Bool.eqb (existsb is_sleep tr) (q_slept q) &&
    Bool.eqb (existsb is_relay tr) found &&
    Bool.eqb (ends_with_timeout (q_D q) tr) (negb (q_slept q) && negb found && negb (q_peer_close_seen q)) &&
    Bool.eqb (match q_fin q with Some (tf, _) => ends_with_readerr tf tr | None => false end) (q_peer_close_seen q) &&
    (* the theorem's hypothesis, decided on this probe, implies what was observed: whenever the
       handler was seen to react, the stream must present a valid tag (only evaluated then) *)
    (if q_quiet q && negb (q_slept q) then true
     else presents_tagb (reveal_of stream (k_revs k)) (mark_of (k_marks k)) tbl
                        (map mk_reg (k_regs k)) (stream_of (heard (q_D q) script))).
End WithTable.

(* ------------------------------------------------------------------ fourth wave: addresses *)

(* the address objects of a probe, and whether the handler was seen to return at once (no deadline
   set, no Read) *)
Record probe_addr := {
  pa_peer : raddr;
  pa_phantom : bytes;
  pa_at_once : bool
}.

Definition geo_cc_const (ip : bytes) : option bytes := Some [85; 83]%N.   (* the main lane's GeoIP stand-in: "US" *)
Definition geo_asn_const (ip : bytes) : option N := Some 64500%N.

Definition chk3a (tbl : list pfx) (qa : probe_case * probe_addr) : bool :=
  let '(q, a) := qa in
  match conn_entry geo_cc_const geo_asn_const (pa_peer a) (pa_phantom a) with
  | EReject => pa_at_once a                      (* not an IP peer address: the handler returns before anything else *)
  | EAccept _ => negb (pa_at_once a) && chk3 tbl q
  end.

(* ------------------------------------------------------------------ fourth wave: histories *)

Local Open Scope Z_scope.

Definition flat (c : counts) : list Z :=
  map (n_state c) all_states ++ map (n_out c) all_outcomes ++ map (n_tr c) all_trans ++
  [n_total c; n_new c; n_resolved c].

Fixpoint zlist_eqb (a b : list Z) : bool :=
  match a, b with
  | [], [] => true
  | x :: a', y :: b' => (x =? y) && zlist_eqb a' b'
  | _, _ => false
  end.

Definition obs_entry := (N * bytes * list Z)%type.
Definition snapshot := (list Z * list Z * list obs_entry * list obs_entry)%type.

Definition map_matches (m : asnmap) (obs : list obs_entry) : bool :=
  (length m =? length obs)%nat &&
  forallb (fun e => let '(asn, cc, l) := e in
                    match amap_find asn m with
                    | Some (cc', c) => bytes_eqb cc cc' && zlist_eqb (flat c) l
                    | None => false
                    end) obs.

Definition snap_matches (s : cstats) (sn : snapshot) : bool :=
  let '(v4, v6, m4, m6) := sn in
  zlist_eqb (flat (s_v4 s)) v4 && zlist_eqb (flat (s_v6 s)) v6 && map_matches (s_map4 s) m4 && map_matches (s_map6 s) m6.

(* hammer histories: only what no epoch can change - the state counters *)
Definition states_match (s : cstats) (sn : snapshot) : bool :=
  let '(v4, v6, _, _) := sn in
  zlist_eqb (map (n_state (s_v4 s)) all_states) (firstn 4 v4) &&
  zlist_eqb (map (n_state (s_v6 s)) all_states) (firstn 4 v6).

Inductive hrec :=
| ROpen (c : N) (asn : option N) (cc : option bytes) (v4 : bool) (tracked nts : N)   (* what GeoIP answers (None: the lookup fails) *)
| RRead (c : N) (n : N) (calls : list (N * N))   (* transport number, answer: 0 again, 1 not, 2 found, 3 another error *)
| RErr (c : N) (kind : N)                        (* 0 timeout, 1 eof / closed, 2 reset, 3 other *)
| RRead1 (c : N) (n : N)                         (* a Read returned: only the update that ENTERS the check state so far ... *)
| RRead2 (c : N) (calls : list (N * N))          (* ... and the update that leaves it (an epoch was forced in between) *)
| REpoch (sn : snapshot).

Record hist_case := {
  hc_events : list hrec;
  hc_final : snapshot;
  hc_exact : bool;      (* epochs at quiescent points: every snapshot is compared in full *)
  hc_reloads : list (option dbconf * N)   (* the reloads of the history in order: the configuration's GeoIP part, and which kind of
                                             value regManager.GetGeoIP() held afterwards (ReloadModel.geo_kind) *)
}.

(* the GeoIP collaborator over the reloads of a history; the tie starts with a database in place (its stand-in) *)
Definition geo_start : option database := Some (DMax (Some 0%N) (Some 0%N)).
Fixpoint chk_reloads (cur : option database) (l : list (option dbconf * N)) : bool :=
  match l with
  | [] => true
  | (conf, obs) :: l' =>
    (* compared: whether the station holds a collaborator at all (what the property depends on); WHICH database a
       successful reload installed shows in what it answers for the next connections (the ROpen events) *)
    let n := on_reload false cur conf in Bool.eqb (geo_kind n =? 0)%N (obs =? 0)%N && chk_reloads n l'
  end.

Definition rem_tab := list (N * list N).
Fixpoint rem_find (c : N) (r : rem_tab) : list N :=
  match r with [] => [] | (c0, l) :: r' => if (c0 =? c)%N then l else rem_find c r' end.
Fixpoint rem_set (c : N) (l : list N) (r : rem_tab) : rem_tab :=
  match r with
  | [] => [(c, l)]
  | (c0, l0) :: r' => if (c0 =? c)%N then (c0, l) :: r' else (c0, l0) :: rem_set c l r'
  end.

(* what the transports' answers of one loop iteration amount to *)
Fixpoint iter_of_calls (rem : list N) (calls : list (N * N)) : iter_out * list N :=
  match calls with
  | [] => (match rem with [] => IExhausted | _ => IMore end, rem)
  | (t, a) :: cs =>
    if (a =? 2)%N then (IFound, rem)
    else if (a =? 3)%N then (IError, rem)
    else if (a =? 1)%N then iter_of_calls (filter (fun x => negb (x =? t)%N) rem) cs
    else iter_of_calls rem cs
  end.

Definition rkind_of (k : N) : rkind :=
  if (k =? 0)%N then KTimeout else if (k =? 1)%N then KClosed else if (k =? 2)%N then KReset else KOther.

Fixpoint nseq (n : nat) : list N := match n with O => [] | S m => nseq m ++ [N.of_nat m] end.

Fixpoint pend_find (c : N) (p : list (N * N)) : N :=
  match p with [] => 0%N | (c0, n) :: p' => if (c0 =? c)%N then n else pend_find c p' end.

Fixpoint replay (exact : bool) (s : cstats) (tb : conn_tab) (rem : rem_tab) (pend : list (N * N)) (evs : list hrec) : option cstats :=
  match evs with
  | [] => Some s
  | e :: evs' =>
    match e with
    | REpoch sn =>
      if negb exact || snap_matches s sn
      then match run_ops code_guards s [SReset] with Ok s' => replay exact s' tb rem pend evs' | _ => None end
      else None
    | RRead1 c n =>
      (* the first update of the iteration does not depend on the transports' answers *)
      let '(ops, _) := gev_ops tb (GEv c (HRead n IMore)) in
      match run_ops code_guards s (firstn 1 ops) with
      | Ok s' => replay exact s' tb rem ((c, n) :: pend) evs'
      | _ => None
      end
    | RRead2 c calls =>
      let '(o, rem') := iter_of_calls (rem_find c rem) calls in
      let '(ops, tb') := gev_ops tb (GEv c (HRead (pend_find c pend) o)) in
      match run_ops code_guards s (skipn 1 ops) with
      | Ok s' => replay exact s' tb' (rem_set c rem' rem) pend evs'
      | _ => None
      end
    | ROpen c asn cc v4 tracked nts =>
      let '(cc', asn') := geo_lookup (fun _ => cc) (fun _ => asn) [] in
      let g := GOpen c {| k_asn := asn'; k_cc := cc'; k_v4 := v4 |} (tracked <? 1)%N (nts <? 1)%N in
      let '(ops, tb') := gev_ops tb g in
      match run_ops code_guards s ops with
      | Ok s' => replay exact s' tb' (rem_set c (nseq (N.to_nat nts)) rem) pend evs'
      | _ => None
      end
    | RRead c n calls =>
      let '(o, rem') := iter_of_calls (rem_find c rem) calls in
      let '(ops, tb') := gev_ops tb (GEv c (HRead n o)) in
      match run_ops code_guards s ops with
      | Ok s' => replay exact s' tb' (rem_set c rem' rem) pend evs'
      | _ => None
      end
    | RErr c k =>
      let '(ops, tb') := gev_ops tb (GEv c (HReadErr (rkind_of k))) in
      match run_ops code_guards s ops with
      | Ok s' => replay exact s' tb' rem pend evs'
      | _ => None
      end
    end
  end.

Definition chk_hist (h : hist_case) : bool :=
  (* in a hammer history the epochs are not in the log: the model runs without them *)
  chk_reloads geo_start (hc_reloads h) &&
  match replay (hc_exact h) init_stats [] [] [] (hc_events h) with
  | Some s => if hc_exact h then snap_matches s (hc_final h) else states_match s (hc_final h)
  | None => false
  end.
