(* C03 (fourth wave): the statistics footprint of a connection that presents no valid tag, derived
   from the handler model of coq/C04: it is counted once, every step it makes is a non-resolving
   transition, and it is resolved exactly once - by the deadline (Timeout) or by the peer's own close -
   never as Found and never through the transports' error path. *)
From CJ Require Import Common.Base Common.BaseProofs C04.Model C04.Proofs C04.ProofsT C03.Model C03.Proofs C03.StatsModel C03.ConnModel.
From Coq Require Import Lia.
Local Open Scope nat_scope.

Definition benign (e : hev) : Prop := exists n o, e = HRead n o /\ (o = IMore \/ o = IExhausted).

Definition hev_state (p : pstate) (e : hev) : pstate := snd (hev_step p e).
Fixpoint hevs_state (p : pstate) (es : list hev) : pstate :=
  match es with [] => p | e :: es' => hevs_state (hev_state p e) es' end.

Lemma benign_step p e :
  benign e -> p <> PDone ->
  Forall (fun t => resolves t = false) (fst (hev_step p e)) /\ snd (hev_step p e) <> PDone.
Proof.
  intros [n [o [-> Ho]]] Hp. destruct p as [had| |]; [| |contradiction].
  - destruct Ho as [-> | ->]; cbn; split; try discriminate; destruct had; destruct (n =? 0)%N; cbn; repeat constructor.
  - cbn. split; [constructor|discriminate].
Qed.

Lemma hevs_trans_app p es1 es2 :
  hevs_trans p (es1 ++ es2) = hevs_trans p es1 ++ hevs_trans (hevs_state p es1) es2.
Proof.
  revert p. induction es1 as [|e es1 IH]; intros p; cbn [hevs_trans hevs_state app]; [reflexivity|].
  unfold hev_state. destruct (hev_step p e) as [ts p'] eqn:E. cbn [snd]. rewrite IH, app_assoc. reflexivity.
Qed.

Lemma benign_run : forall es p,
  Forall benign es -> p <> PDone ->
  Forall (fun t => resolves t = false) (hevs_trans p es) /\ hevs_state p es <> PDone.
Proof.
  induction es as [|e es IH]; intros p Hb Hp; cbn [hevs_trans hevs_state].
  - split; [constructor|exact Hp].
  - inversion Hb as [|? ? Hbe Hbes]; subst. destruct (benign_step p e Hbe Hp) as [H1 H2].
    unfold hev_state. destruct (hev_step p e) as [ts p'] eqn:E. cbn [fst snd] in *.
    destruct (IH p' Hbes H2) as [H3 H4]. split; [apply Forall_app; split; assumption|exact H4].
Qed.

Lemma final_step p k :
  p <> PDone ->
  exists t, hev_step p (HReadErr k) = ([t], PDone) /\ resolves t = true /\ t <> CheckToFound /\ t <> CheckToError /\
            (k = KTimeout -> dst t = inr OTimeout) /\ (k = KReset -> dst t = inr OReset).
Proof.
  intros Hp. destruct p as [had| |]; [| |contradiction].
  - exists (err_trans_loop had k). cbn. destruct had; destruct k; cbn; repeat split; try discriminate; reflexivity.
  - exists (err_trans_drain k). cbn. destruct k; cbn; repeat split; try discriminate; reflexivity.
Qed.

Section Quiet.
  Variable wrap : tid -> bytes -> wres.
  Variable ts : list tid.
  Variable s : bytes.
  Hypothesis Hq : quiet wrap ts s.

  Lemma feed_hevs_benign : forall reads st k rest,
    inv ts s st k -> concat reads ++ rest = skipn k s -> Forall benign (feed_hevs wrap st reads).
  Proof.
    induction reads as [|c rs IH]; intros st k rest Hinv Hc; cbn [feed_hevs]; [constructor|].
    cbn [concat] in Hc. rewrite <- app_assoc in Hc.
    pose proof (on_read_quiet wrap ts s Hq st k c (concat rs ++ rest) Hinv Hc) as Hinv'.
    assert (Hrest : concat rs ++ rest = skipn (k + length c) s) by (eapply rest_after_chunk; exact Hc).
    assert (Hb : benign (HRead (N.of_nat (length c)) (out_of_state (on_read wrap st c)))).
    { exists (N.of_nat (length c)), (out_of_state (on_read wrap st c)). split; [reflexivity|].
      destruct Hinv' as [-> | [ts' [-> _]]]; [now right|now left]. }
    destruct Hinv as [-> | [ts' [-> _]]].
    - constructor; [exact Hb|]. eapply IH; eauto.
    - constructor; [exact Hb|]. eapply IH; eauto.
  Qed.

  (* the updates of an untagged connection whose Reads returned `reads` and then failed with `kind`
     (the deadline, or the peer's close / reset) *)
  Theorem untagged_footprint :
    forall (key : skey) (tracked : nat) (reads : list bytes) (rest : bytes) (kind : rkind),
      concat reads ++ rest = s ->
      let es := feed_hevs wrap (init tracked ts) reads in
      exists mid tfin,
        conn_ops key (tracked <? 1) (match ts with [] => true | _ => false end) (es ++ [HReadErr kind]) =
        SAdd key :: map (fun t => STrans t key) (mid ++ [tfin]) /\
        Forall (fun t => resolves t = false) mid /\
        resolves tfin = true /\ tfin <> CheckToFound /\ tfin <> CheckToError /\
        (kind = KTimeout -> dst tfin = inr OTimeout) /\ (kind = KReset -> dst tfin = inr OReset).
  Proof.
    intros key tracked reads rest kind Hs es.
    assert (Hinv : inv ts s (init tracked ts) 0).
    { unfold init. destruct (tracked <? 1); [now left|]. destruct ts as [|t l] eqn:E; [now left|].
      right. exists (t :: l). split; [reflexivity|apply incl_refl]. }
    assert (Hb : Forall benign es) by (eapply feed_hevs_benign; [exact Hinv|cbn [skipn]; exact Hs]).
    unfold conn_ops, open_trans.
    set (p0 := if tracked <? 1 then PDrain else if match ts with [] => true | _ => false end then PDrain else PLoop false).
    assert (Hp0 : p0 <> PDone) by (unfold p0; destruct (tracked <? 1); [discriminate|destruct ts; discriminate]).
    destruct (benign_run es p0 Hb Hp0) as [Hmid Hst].
    destruct (final_step (hevs_state p0 es) kind Hst) as [tfin [Ef [R [N1 [N2 [T1 T2]]]]]].
    assert (Hall : hevs_trans p0 (es ++ [HReadErr kind]) = hevs_trans p0 es ++ [tfin]).
    { rewrite hevs_trans_app. cbn [hevs_trans]. rewrite Ef. cbn. reflexivity. }
    destruct (tracked <? 1) eqn:Et.
    - exists (CreatedToDiscard :: hevs_trans p0 es), tfin. unfold p0 in *. rewrite Hall.
      repeat split; auto.
    - destruct ts as [|t l]; exists (hevs_trans p0 es), tfin; unfold p0 in *; rewrite Hall; repeat split; auto.
  Qed.
End Quiet.
