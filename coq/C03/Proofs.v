(* C03: a stream that presents no valid tag keeps every transport undecided; on such a stream
   the handler only ever reads until its deadline. *)
From CJ Require Import Common.Base Common.BaseProofs C04.Model C04.Proofs C04.ProofsT C03.Model.
From Coq Require Import Lia Arith.
Local Open Scope nat_scope.

Lemma firstn_min_len {A} (l : list A) k : firstn k l = firstn (Nat.min k (length l)) l.
Proof.
  destruct (Nat.le_gt_cases k (length l)).
  - now rewrite Nat.min_l.
  - rewrite Nat.min_r by lia. rewrite !firstn_all2; [reflexivity|lia|lia].
Qed.

Lemma window_firstn p (s : bytes) k :
  p_off p + tag_len <= Nat.min k (length s) -> window p (firstn k s) = window p s.
Proof.
  intros H. unfold window. rewrite skipn_firstn_comm, firstn_firstn.
  f_equal. lia.
Qed.

Lemma static_matches_firstn p (s : bytes) k :
  p_off p = length (p_static p) -> p_off p + tag_len <= Nat.min k (length s) ->
  static_matches p (firstn k s) = static_matches p s.
Proof.
  intros Hoff H. unfold static_matches. destruct (p_static p) as [|x st] eqn:E; [reflexivity|].
  rewrite firstn_length.
  replace (Nat.min (length (x :: st)) (Nat.min k (length s))) with (length (x :: st)) by lia.
  replace (Nat.min (length (x :: st)) (length s)) with (length (x :: st)) by lia.
  rewrite firstn_firstn. replace (Nat.min (length (x :: st)) k) with (length (x :: st)) by lia.
  reflexivity.
Qed.

Section NoTag.
  Variable reveal : bytes -> list bytes.
  Variable mark : reginfo -> bytes -> bytes.
  Variable hs_ok : reginfo -> bytes -> bool.

  Lemma min_quiet R s k :
    (min_tag_len <= length s -> lookup (firstn min_tag_len s) R = None) ->
    is_decisive (wrap_min R (firstn k s)) = false.
  Proof.
    intros H. unfold wrap_min.
    destruct (length (firstn k s) <? min_tag_len) eqn:E; [reflexivity|].
    apply Nat.ltb_ge in E. rewrite firstn_length in E.
    rewrite firstn_firstn. replace (Nat.min min_tag_len k) with min_tag_len by lia.
    rewrite H by lia. reflexivity.
  Qed.

  Lemma classify_quiet p R s k :
    pfx_wfb p = true ->
    (p_off p + tag_len <= length s -> static_matches p s = true -> first_reg (reveal (window p s)) R = None) ->
    classify reveal p R (firstn k s) = PSkip \/ classify reveal p R (firstn k s) = PAgain.
  Proof.
    intros Hwf H. destruct (pfx_wfb_spec p Hwf) as [H1 [H2 H3]].
    unfold classify.
    destruct (static_matches p (firstn k s)) eqn:Esm; cbn [negb]; [|now left].
    destruct (length (firstn k s) <? p_min p); [now right|].
    destruct ((length (firstn k s) <? p_off p + tag_len) && (length (firstn k s) <? p_max p)); [now right|].
    destruct (length (firstn k s) <? p_max p) eqn:E3; [now left|].
    apply Nat.ltb_ge in E3. rewrite firstn_length in E3.
    destruct (Nat.min k (length s) <? p_off p + tag_len) eqn:E4.
    - apply Nat.ltb_lt in E4. lia.
    - rewrite firstn_length, E4. rewrite window_firstn by lia.
      rewrite static_matches_firstn in Esm by lia.
      rewrite H by (try lia; assumption). now left.
  Qed.

  Lemma prefix_quiet tbl R s k :
    prefix_table_wfb tbl = true ->
    (forall p, In p tbl -> p_off p + tag_len <= length s -> static_matches p s = true ->
               first_reg (reveal (window p s)) R = None) ->
    is_decisive (wrap_prefix reveal tbl R (firstn k s)) = false.
  Proof.
    intros Hwf H. unfold wrap_prefix.
    destruct (length (firstn k s) <? tag_len); [reflexivity|].
    assert (Hall : forall y, In y (map (fun p => classify reveal p R (firstn k s)) tbl) -> y = PSkip \/ y = PAgain).
    { intros y Hy. apply in_map_iff in Hy as [p [<- Hp]].
      apply classify_quiet; [eapply wf_in; eauto|]. intros. now apply H. }
    rewrite find_none_iff.
    - destruct (existsb pres_again _); [reflexivity|].
      replace (existsb pres_wrong _) with false; [reflexivity|].
      symmetry. apply Bool.not_true_is_false. intros Hex. apply existsb_exists in Hex as [y [Hy Hw]].
      destruct (Hall y Hy) as [-> | ->]; discriminate.
    - intros y Hy. destruct (Hall y Hy) as [-> | ->]; reflexivity.
  Qed.

  Lemma obfs4_quiet R s k :
    (forall j, j <= length s -> obfs4_hit mark R (firstn 32 s) (firstn j s) = None) ->
    is_decisive (wrap_obfs4 mark hs_ok R (firstn k s)) = false.
  Proof.
    intros H. unfold wrap_obfs4.
    destruct (length (firstn k s) <? obfs4_min_handshake) eqn:E; [reflexivity|].
    apply Nat.ltb_ge in E. rewrite firstn_length in E. unfold obfs4_min_handshake in E.
    rewrite firstn_firstn. replace (Nat.min 32 k) with 32 by lia.
    assert (Hh : obfs4_hit mark R (firstn 32 s) (firstn k s) = None).
    { rewrite (firstn_min_len s k). apply H. lia. }
    unfold obfs4_hit in Hh. rewrite Hh.
    destruct (length (firstn k s) <? obfs4_max_handshake); reflexivity.
  Qed.

  Lemma not_none_dec {A} (o : option A) : o = None \/ o <> None.
  Proof. destruct o; [right; discriminate|now left]. Qed.

  Theorem no_tag_quiet tbl R s ts :
    prefix_table_wfb tbl = true ->
    ~ presents_tag reveal mark tbl R s ->
    quiet (cwrap reveal mark hs_ok tbl R) ts s.
  Proof.
    intros Hwf Hno k t _. destruct t; cbn [cwrap].
    - apply min_quiet. intros Hl.
      destruct (not_none_dec (lookup (firstn min_tag_len s) R)) as [E|E]; [exact E|].
      exfalso. apply Hno. left. auto.
    - apply obfs4_quiet. intros j Hj.
      destruct (not_none_dec (obfs4_hit mark R (firstn 32 s) (firstn j s))) as [E|E]; [exact E|].
      exfalso. apply Hno. right. right. exists j. auto.
    - apply prefix_quiet; [assumption|]. intros p Hp Hl Hsm.
      destruct (not_none_dec (first_reg (reveal (window p s)) R)) as [E|E]; [exact E|].
      exfalso. apply Hno. right. left. exists p. auto.
  Qed.

  Lemma is_some_false {A} (o : option A) : is_some o = false -> o = None.
  Proof. destruct o; [discriminate|reflexivity]. Qed.

  Lemma presents_tagb_sound tbl R s :
    presents_tagb reveal mark tbl R s = false -> ~ presents_tag reveal mark tbl R s.
  Proof.
    unfold presents_tagb. intros H.
    apply Bool.orb_false_iff in H as [H H3]. apply Bool.orb_false_iff in H as [H1 H2].
    intros [[Hl Hn] | [[p [Hp [Hl [Hsm Hn]]]] | [k [Hk Hn]]]].
    - apply Nat.leb_le in Hl. rewrite Hl in H1. cbn in H1. apply is_some_false in H1. contradiction.
    - assert (E : existsb (fun p => (p_off p + tag_len <=? length s) && static_matches p s &&
                                    is_some (first_reg (reveal (window p s)) R)) tbl = true).
      { apply existsb_exists. exists p. split; [assumption|].
        apply Nat.leb_le in Hl. rewrite Hl, Hsm. cbn. destruct (first_reg _ _); [reflexivity|contradiction]. }
      congruence.
    - assert (E : existsb (fun k => is_some (obfs4_hit mark R (firstn 32 s) (firstn k s))) (seq 0 (S (length s))) = true).
      { apply existsb_exists. exists k. split; [apply in_seq; lia|].
        destruct (obfs4_hit _ _ _ _); [reflexivity|contradiction]. }
      assert (E2 : existsb obfs4_candidate R = true).
      { unfold obfs4_hit in Hn. destruct (find _ R) as [r|] eqn:Ef; [|contradiction].
        apply find_some in Ef as [Hr Hc]. apply andb_true_iff in Hc as [Hc _].
        apply existsb_exists. now exists r. }
      rewrite E, E2 in H3. discriminate.
  Qed.
End NoTag.

(* ------------------------------------------------------------------ the runner on a quiet stream *)

Lemma read_by_app tr1 tr2 tau : read_by (tr1 ++ tr2) tau = read_by tr1 tau + read_by tr2 tau.
Proof.
  unfold read_by. induction tr1 as [|a tr1 IH]; [reflexivity|]. cbn [app fold_right]. rewrite IH.
  destruct a; try reflexivity. destruct (t <=? tau)%N; lia.
Qed.

Section Runner.
  Variable wrap : tid -> bytes -> wres.
  Variable drain_cap : nat.
  Variable ts : list tid.
  Variable s : bytes.
  Hypothesis Hq : quiet wrap ts s.

  Definition inv (st : hstate) (k : nat) : Prop :=
    st = HDrain \/ exists ts', st = HLoop ts' (firstn k s) /\ incl ts' ts.

  Lemma on_read_quiet st k c rest :
    inv st k -> c ++ rest = skipn k s -> inv (on_read wrap st c) (k + length c).
  Proof.
    intros [-> | [ts' [-> Hincl]]] Hc; [now left|].
    cbn [on_read]. rewrite (firstn_app_skipn_chunk s c rest k Hc).
    rewrite filter_nil_iff.
    - set (ts'' := map fst _). assert (Hi : incl ts'' ts).
      { intros x Hx. unfold ts'' in Hx. apply in_map_iff in Hx as [[x' w] [E Hx]]. cbn in E. subst x'.
        apply filter_In in Hx as [Hx _]. unfold results in Hx. apply in_map_iff in Hx as [y [E Hy]].
        inversion E; subst. now apply Hincl. }
      destruct ts'' as [|a l]; [now left|]. right. eexists. split; [reflexivity|exact Hi].
    - intros [t w] Hy. unfold results in Hy. apply in_map_iff in Hy as [t' [E Hi]]. inversion E; subst.
      cbn. apply Hq. now apply Hincl.
  Qed.

  Lemma cap_pos st : 1 <= cap_of drain_cap st.
  Proof. destruct st; cbn [cap_of]; try apply Nat.le_max_l. apply big_consts. Qed.

  Lemma feed_now_quiet fuel : forall now st k c rest,
    length c <= fuel -> inv st k -> c ++ rest = skipn k s ->
    exists st' tr, feed_now wrap drain_cap fuel now st c = (st', tr, []) /\
                   inv st' (k + length c) /\
                   Forall (fun a => exists n, a = ARead now n) tr /\
                   (forall tau, read_by tr tau = if (now <=? tau)%N then length c else 0).
  Proof.
    induction fuel as [|f IH]; intros now st k c rest Hlen Hinv Hc.
    - destruct c; [|cbn in Hlen; lia]. exists st, []. cbn. rewrite Nat.add_0_r.
      repeat split; [assumption|constructor|]. intros tau. now destruct (now <=? tau)%N.
    - destruct c as [|x c'].
      + exists st, []. cbn. rewrite Nat.add_0_r.
        repeat split; [assumption|constructor|]. intros tau. now destruct (now <=? tau)%N.
      + set (c := x :: c') in *.
        pose proof (cap_pos st) as Hcap.
        set (cap := cap_of drain_cap st) in *.
        assert (Hst : feed_now wrap drain_cap (S f) now st c =
                      let '(st', tr, u) := feed_now wrap drain_cap f now (on_read wrap st (firstn cap c)) (skipn cap c) in
                      (st', ARead now (length (firstn cap c)) :: tr, u)).
        { destruct Hinv as [-> | [ts' [-> _]]]; reflexivity. }
        rewrite Hst. clear Hst.
        assert (Hsplit : firstn cap c ++ (skipn cap c ++ rest) = skipn k s).
        { rewrite app_assoc, firstn_skipn. exact Hc. }
        pose proof (on_read_quiet st k (firstn cap c) (skipn cap c ++ rest) Hinv Hsplit) as Hinv'.
        assert (Hrest : skipn cap c ++ rest = skipn (k + length (firstn cap c)) s).
        { eapply rest_after_chunk. exact Hsplit. }
        assert (Hl2 : length (skipn cap c) <= f).
        { rewrite skipn_length. unfold c in *. cbn [length] in *. lia. }
        destruct (IH now _ _ _ _ Hl2 Hinv' Hrest) as [st' [tr [E [Hi [Hall Hrb]]]]].
        rewrite E. exists st', (ARead now (length (firstn cap c)) :: tr).
        assert (Hsum : length (firstn cap c) + length (skipn cap c) = length c).
        { rewrite <- app_length, firstn_skipn. reflexivity. }
        repeat split.
        * rewrite <- Hsum, Nat.add_assoc. exact Hi.
        * constructor; [eexists; reflexivity|exact Hall].
        * intros tau. cbn [read_by fold_right]. fold (read_by tr tau). rewrite Hrb.
          destruct (now <=? tau)%N; lia.
  Qed.

  Variable D : N.

  Lemma run_script_quiet : forall script now st k,
    inv st k -> stream_of (heard D script) = skipn k s -> paced now script ->
    (exists reads, run_script wrap drain_cap D now st script = reads ++ [ATimeout D; AReturn D] /\
                   Forall (fun a => exists t n, a = ARead t n /\ (t < D)%N) reads) /\
    (forall tau, (tau < D)%N -> read_by (run_script wrap drain_cap D now st script) tau = arrived_by script tau).
  Proof.
    induction script as [|[t c] rest IH]; intros now st k Hinv Hs Hp.
    - split; [exists []; split; [reflexivity|constructor]|]. intros tau _. reflexivity.
    - cbn [run_script]. cbn [paced fst] in Hp. destruct Hp as [Hnow Hp].
      destruct (D <=? t)%N eqn:E.
      + apply N.leb_le in E. split; [exists []; split; [reflexivity|constructor]|].
        intros tau Htau. cbn [read_by fold_right arrived_by fst snd].
        assert (Hz : forall sc u, paced u sc -> (tau < u)%N -> arrived_by sc tau = 0).
        { induction sc as [|[t' c'] sc IHs]; intros u Hpc Hu; [reflexivity|].
          cbn [paced fst] in Hpc. destruct Hpc as [H1 H2]. cbn [arrived_by fold_right fst snd].
          destruct (t' <=? tau)%N eqn:E'; [apply N.leb_le in E'; lia|].
          apply (IHs t'); [assumption|lia]. }
        destruct (t <=? tau)%N eqn:E'; [apply N.leb_le in E'; lia|].
        fold (arrived_by rest tau). symmetry. apply (Hz rest t); [assumption|lia].
      + apply N.leb_gt in E.
        replace (N.max now t) with t by lia.
        cbn [heard fst] in Hs. apply N.leb_gt in E. rewrite E in Hs. apply N.leb_gt in E.
        unfold stream_of in Hs. cbn [map concat snd] in Hs. fold (stream_of (heard D rest)) in Hs.
        destruct (feed_now_quiet (length c) t st k c (stream_of (heard D rest)) (Nat.le_refl _) Hinv Hs)
          as [st' [tr [Ef [Hinv' [Hall Hrb]]]]].
        rewrite Ef.
        assert (Hs' : stream_of (heard D rest) = skipn (k + length c) s) by (eapply rest_after_chunk; exact Hs).
        destruct (IH t st' (k + length c) Hinv' Hs' Hp) as [[reads [Er Hreads]] Hrb'].
        assert (Hnd : match st' with HDecided cs buf => False | _ => True end).
        { destruct Hinv' as [-> | [ts' [-> _]]]; exact I. }
        assert (Erun : (match st' with
                        | HDecided cs buf => tr ++ finish D t cs buf []
                        | _ => tr ++ run_script wrap drain_cap D t st' rest
                        end) = tr ++ run_script wrap drain_cap D t st' rest).
        { destruct st'; [reflexivity|reflexivity|destruct Hnd]. }
        rewrite Erun. split.
        * exists (tr ++ reads). split; [rewrite Er, app_assoc; reflexivity|].
          apply Forall_app. split; [|exact Hreads].
          eapply Forall_impl; [|exact Hall]. intros a [n ->]. exists t, n. split; [reflexivity|lia].
        * intros tau Htau. rewrite read_by_app, Hrb, (Hrb' tau Htau).
          cbn [arrived_by fold_right fst snd]. fold (arrived_by rest tau).
          destruct (t <=? tau)%N; reflexivity.
  Qed.

  Lemma run_script_end_quiet tf e : forall script now st k,
    inv st k -> stream_of script = skipn k s -> paced_until now script tf -> (tf < D)%N ->
    (exists reads, run_script_end wrap drain_cap D now st script tf e = reads ++ [AReadErr tf e; AReturn tf] /\
                   Forall (fun a => exists t n, a = ARead t n /\ (t <= tf)%N) reads) /\
    (forall tau, read_by (run_script_end wrap drain_cap D now st script tf e) tau = arrived_by script tau).
  Proof.
    induction script as [|[t c] rest IH]; intros now st k Hinv Hs Hp Htf.
    - cbn [paced_until] in Hp. cbn [run_script_end].
      destruct (D <=? tf)%N eqn:E; [apply N.leb_le in E; lia|].
      replace (N.max now tf) with tf by lia.
      split; [exists []; split; [reflexivity|constructor]|]. intros tau. reflexivity.
    - cbn [paced_until fst] in Hp. destruct Hp as [Hnow Hp].
      assert (Ht : (t <= tf)%N).
      { clear -Hp. revert t Hp. induction rest as [|[t' c'] rest IHr]; intros t Hp; cbn [paced_until fst] in Hp; [exact Hp|].
        destruct Hp as [H1 H2]. specialize (IHr t' H2). lia. }
      cbn [run_script_end]. destruct (D <=? t)%N eqn:E; [apply N.leb_le in E; lia|].
      replace (N.max now t) with t by lia.
      unfold stream_of in Hs. cbn [map concat snd] in Hs. fold (stream_of rest) in Hs.
      destruct (feed_now_quiet (length c) t st k c (stream_of rest) (Nat.le_refl _) Hinv Hs)
        as [st' [tr [Ef [Hinv' [Hall Hrb]]]]].
      rewrite Ef.
      assert (Hs' : stream_of rest = skipn (k + length c) s) by (eapply rest_after_chunk; exact Hs).
      destruct (IH t st' (k + length c) Hinv' Hs' Hp Htf) as [[reads [Er Hreads]] Hrb'].
      assert (Erun : (match st' with
                      | HDecided cs buf => tr ++ finish D t cs buf []
                      | _ => tr ++ run_script_end wrap drain_cap D t st' rest tf e
                      end) = tr ++ run_script_end wrap drain_cap D t st' rest tf e).
      { destruct Hinv' as [-> | [ts' [-> _]]]; reflexivity. }
      rewrite Erun. split.
      + exists (tr ++ reads). split; [rewrite Er, app_assoc; reflexivity|].
        apply Forall_app. split; [|exact Hreads].
        eapply Forall_impl; [|exact Hall]. intros a [n ->]. exists t, n. split; [reflexivity|exact Ht].
      + intros tau. rewrite read_by_app, Hrb, (Hrb' tau).
        cbn [arrived_by fold_right fst snd]. fold (arrived_by rest tau).
        destruct (t <=? tau)%N; reflexivity.
  Qed.
End Runner.

Lemma arrived_by_shape s1 s2 tau : shape s1 = shape s2 -> arrived_by s1 tau = arrived_by s2 tau.
Proof.
  revert s2; induction s1 as [|[t1 c1] s1 IH]; intros [|[t2 c2] s2] H; try discriminate; [reflexivity|].
  cbn in H. inversion H; subst. cbn [arrived_by fold_right fst snd].
  fold (arrived_by s1 tau) (arrived_by s2 tau). rewrite (IH s2) by assumption. now rewrite H2.
Qed.

Section Final.
  Variable reveal : bytes -> list bytes.
  Variable mark : reginfo -> bytes -> bytes.
  Variable hs_ok : reginfo -> bytes -> bool.

  Theorem no_tag_no_reaction :
    forall tbl R tracked ts drain_cap D script,
      prefix_table_wfb tbl = true ->
      paced 0%N script ->
      ~ presents_tag reveal mark tbl R (stream_of (heard D script)) ->
      let tr := run (cwrap reveal mark hs_ok tbl R) drain_cap D tracked ts script in
      only_reads_until D tr /\
      (forall tau, (tau < D)%N -> read_by tr tau = arrived_by script tau).
  Proof.
    intros tbl R tracked ts drain_cap D script Hwf Hp Hno tr.
    pose proof (no_tag_quiet reveal mark hs_ok tbl R _ ts Hwf Hno) as Hq.
    assert (Hinv : inv ts (stream_of (heard D script)) (init tracked ts) 0).
    { unfold init. destruct (tracked <? 1); [now left|]. destruct ts as [|a l] eqn:E; [now left|].
      right. exists (a :: l). split; [reflexivity|apply incl_refl]. }
    destruct (run_script_quiet _ drain_cap ts _ Hq D script 0%N _ 0 Hinv eq_refl Hp) as [[reads [Er Hreads]] Hrb].
    split.
    - exists reads. unfold tr, run. rewrite Er. split; [reflexivity|exact Hreads].
    - intros tau Htau. unfold tr, run. cbn [read_by fold_right]. apply Hrb, Htau.
  Qed.

  Theorem peer_close_answered_at_once :
    forall tbl R tracked ts drain_cap D script tf e,
      prefix_table_wfb tbl = true ->
      paced_until 0%N script tf -> (tf < D)%N ->
      ~ presents_tag reveal mark tbl R (stream_of script) ->
      let tr := run_end (cwrap reveal mark hs_ok tbl R) drain_cap D tracked ts script tf e in
      only_reads_until_peer_close D tf e tr /\
      (forall tau, read_by tr tau = arrived_by script tau).
  Proof.
    intros tbl R tracked ts drain_cap D script tf e Hwf Hp Htf Hno tr.
    pose proof (no_tag_quiet reveal mark hs_ok tbl R _ ts Hwf Hno) as Hq.
    assert (Hinv : inv ts (stream_of script) (init tracked ts) 0).
    { unfold init. destruct (tracked <? 1); [now left|]. destruct ts as [|a l] eqn:E; [now left|].
      right. exists (a :: l). split; [reflexivity|apply incl_refl]. }
    destruct (run_script_end_quiet _ drain_cap ts _ Hq D tf e script 0%N _ 0 Hinv eq_refl Hp Htf) as [[reads [Er Hreads]] Hrb].
    split.
    - exists reads. unfold tr, run_end. rewrite Er. split; [reflexivity|exact Hreads].
    - intros tau. unfold tr, run_end. cbn [read_by fold_right]. apply Hrb.
  Qed.

  Lemma non_reads_peer_close tr D tf e :
    only_reads_until_peer_close D tf e tr -> non_reads tr = [ASetDeadline D; AReadErr tf e; AReturn tf].
  Proof.
    intros [reads [-> Hall]]. unfold non_reads. cbn [filter is_read negb].
    rewrite filter_app. cbn. f_equal.
    rewrite filter_nil_iff; [reflexivity|].
    intros a Ha. rewrite Forall_forall in Hall. destruct (Hall a Ha) as [t [n [-> _]]]. reflexivity.
  Qed.

  Theorem peer_close_identical :
    forall tbl1 tbl2 R1 R2 tracked1 tracked2 ts1 ts2 cap1 cap2 D script1 script2 tf e,
      prefix_table_wfb tbl1 = true -> prefix_table_wfb tbl2 = true ->
      paced_until 0%N script1 tf -> paced_until 0%N script2 tf -> (tf < D)%N ->
      shape script1 = shape script2 ->
      ~ presents_tag reveal mark tbl1 R1 (stream_of script1) ->
      ~ presents_tag reveal mark tbl2 R2 (stream_of script2) ->
      let tr1 := run_end (cwrap reveal mark hs_ok tbl1 R1) cap1 D tracked1 ts1 script1 tf e in
      let tr2 := run_end (cwrap reveal mark hs_ok tbl2 R2) cap2 D tracked2 ts2 script2 tf e in
      non_reads tr1 = non_reads tr2 /\ (forall tau, read_by tr1 tau = read_by tr2 tau).
  Proof.
    intros tbl1 tbl2 R1 R2 k1 k2 ts1 ts2 cap1 cap2 D s1 s2 tf e Hw1 Hw2 Hp1 Hp2 Htf Hsh Hn1 Hn2 tr1 tr2.
    destruct (peer_close_answered_at_once tbl1 R1 k1 ts1 cap1 D s1 tf e Hw1 Hp1 Htf Hn1) as [Ho1 Hr1].
    destruct (peer_close_answered_at_once tbl2 R2 k2 ts2 cap2 D s2 tf e Hw2 Hp2 Htf Hn2) as [Ho2 Hr2].
    split.
    - unfold tr1, tr2. rewrite (non_reads_peer_close _ D tf e Ho1), (non_reads_peer_close _ D tf e Ho2). reflexivity.
    - intros tau. unfold tr1, tr2. rewrite (Hr1 tau), (Hr2 tau). now apply arrived_by_shape.
  Qed.

  Lemma non_reads_only tr D : only_reads_until D tr -> non_reads tr = [ASetDeadline D; ATimeout D; AReturn D].
  Proof.
    intros [reads [-> Hall]]. unfold non_reads. cbn [filter is_read negb].
    rewrite filter_app. cbn. f_equal.
    rewrite filter_nil_iff; [reflexivity|].
    intros a Ha. rewrite Forall_forall in Hall. destruct (Hall a Ha) as [t [n [-> _]]]. reflexivity.
  Qed.

  Theorem identical_reaction :
    forall tbl1 tbl2 R1 R2 tracked1 tracked2 ts1 ts2 cap1 cap2 D script1 script2,
      prefix_table_wfb tbl1 = true -> prefix_table_wfb tbl2 = true ->
      paced 0%N script1 -> paced 0%N script2 ->
      shape script1 = shape script2 ->
      ~ presents_tag reveal mark tbl1 R1 (stream_of (heard D script1)) ->
      ~ presents_tag reveal mark tbl2 R2 (stream_of (heard D script2)) ->
      let tr1 := run (cwrap reveal mark hs_ok tbl1 R1) cap1 D tracked1 ts1 script1 in
      let tr2 := run (cwrap reveal mark hs_ok tbl2 R2) cap2 D tracked2 ts2 script2 in
      non_reads tr1 = non_reads tr2 /\
      (forall tau, (tau < D)%N -> read_by tr1 tau = read_by tr2 tau).
  Proof.
    intros tbl1 tbl2 R1 R2 tr1' tr2' ts1 ts2 cap1 cap2 D s1 s2 Hw1 Hw2 Hp1 Hp2 Hsh Hn1 Hn2 tr1 tr2.
    destruct (no_tag_no_reaction tbl1 R1 tr1' ts1 cap1 D s1 Hw1 Hp1 Hn1) as [Ho1 Hr1].
    destruct (no_tag_no_reaction tbl2 R2 tr2' ts2 cap2 D s2 Hw2 Hp2 Hn2) as [Ho2 Hr2].
    split.
    - unfold tr1, tr2. rewrite (non_reads_only _ D Ho1), (non_reads_only _ D Ho2). reflexivity.
    - intros tau Htau. unfold tr1, tr2. rewrite (Hr1 tau Htau), (Hr2 tau Htau). now apply arrived_by_shape.
  Qed.
End Final.
