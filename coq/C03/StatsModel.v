(* C03 (fourth wave): the shared station state the connection handler updates on every path - the
   connStats bookkeeping of cmd/application/conns.go - as an executable state machine.

   What is modelled
   - statCounts: four state counters (Created / Reading / Checking / IODiscarding), five outcome
     counters, one counter per transition function (19), totalTransitions, numNewConns, numResolved;
   - connStats: the two overall blocks (ipv4 / ipv6; the family is the PHANTOM's) and the two per-ASN
     maps map[uint]*asnCounts keyed by the GeoIP ASN of the PEER, touched only when the GeoIP country
     code is non-empty (isValidCC);
   - the 20 update functions (addCreated + 19 transitions): unconditional overall update, then - for a
     valid country code - "if the ASN has no entry, create it", then a DEREFERENCE of the entry, which
     in Go is a nil-pointer panic when the entry is missing.  The dereference is modelled as partial
     (result Panic); which functions carry the create-if-missing guard is a parameter (`guards`),
     `code_guards` is the code's shape (every function has it);
   - reset (PrintAndReset / Reset, the statistics epoch): outcome, transition (all but
     numCreatedToClose, which the code never clears), total / new / resolved counters of both overall
     blocks are zeroed, the STATE counters are kept, both maps are replaced by empty maps;
   - the handler's projection onto this machine: which update functions a connection calls, given
     what its Reads return and what the transports answer (handleNewTCPConn).

   int64 overflow is not modelled (counters are Z).  connectingCounts / epochStart are not part of
   the handler's path.  Definitions only. *)
From CJ Require Export Common.Base.
Local Open Scope Z_scope.

Inductive cstate := SCreated | SReading | SChecking | SDiscarding.
Inductive coutcome := OFound | OReset | OTimeout | OClosed | OErr.

Inductive trans :=
| CreatedToDiscard | CreatedToCheck | CreatedToReset | CreatedToTimeout | CreatedToError | CreatedToClose
| ReadToCheck | ReadToTimeout | ReadToReset | ReadToError
| CheckToCreated | CheckToRead | CheckToFound | CheckToError | CheckToDiscard
| DiscardToReset | DiscardToTimeout | DiscardToError | DiscardToClose.

Definition all_states : list cstate := [SCreated; SReading; SChecking; SDiscarding].
Definition all_outcomes : list coutcome := [OFound; OReset; OTimeout; OClosed; OErr].
Definition all_trans : list trans :=
  [CreatedToDiscard; CreatedToCheck; CreatedToReset; CreatedToTimeout; CreatedToError; CreatedToClose;
   ReadToCheck; ReadToTimeout; ReadToReset; ReadToError;
   CheckToCreated; CheckToRead; CheckToFound; CheckToError; CheckToDiscard;
   DiscardToReset; DiscardToTimeout; DiscardToError; DiscardToClose].

Definition cstate_eqb (a b : cstate) : bool :=
  match a, b with
  | SCreated, SCreated | SReading, SReading | SChecking, SChecking | SDiscarding, SDiscarding => true
  | _, _ => false
  end.
Definition coutcome_eqb (a b : coutcome) : bool :=
  match a, b with
  | OFound, OFound | OReset, OReset | OTimeout, OTimeout | OClosed, OClosed | OErr, OErr => true
  | _, _ => false
  end.
Definition trans_idx (t : trans) : N :=
  match t with
  | CreatedToDiscard => 0 | CreatedToCheck => 1 | CreatedToReset => 2 | CreatedToTimeout => 3
  | CreatedToError => 4 | CreatedToClose => 5
  | ReadToCheck => 6 | ReadToTimeout => 7 | ReadToReset => 8 | ReadToError => 9
  | CheckToCreated => 10 | CheckToRead => 11 | CheckToFound => 12 | CheckToError => 13 | CheckToDiscard => 14
  | DiscardToReset => 15 | DiscardToTimeout => 16 | DiscardToError => 17 | DiscardToClose => 18
  end%N.
Definition trans_eqb (a b : trans) : bool := (trans_idx a =? trans_idx b)%N.

(* the state a transition leaves (its counter is decremented) and the state or outcome it enters *)
Definition src (t : trans) : cstate :=
  match t with
  | CreatedToDiscard | CreatedToCheck | CreatedToReset | CreatedToTimeout | CreatedToError | CreatedToClose => SCreated
  | ReadToCheck | ReadToTimeout | ReadToReset | ReadToError => SReading
  | CheckToCreated | CheckToRead | CheckToFound | CheckToError | CheckToDiscard => SChecking
  | DiscardToReset | DiscardToTimeout | DiscardToError | DiscardToClose => SDiscarding
  end.

Definition dst (t : trans) : cstate + coutcome :=
  match t with
  | CreatedToDiscard | CheckToDiscard => inl SDiscarding
  | CreatedToCheck | ReadToCheck => inl SChecking
  | CheckToCreated => inl SCreated
  | CheckToRead => inl SReading
  | CreatedToReset | ReadToReset | DiscardToReset => inr OReset
  | CreatedToTimeout | ReadToTimeout | DiscardToTimeout => inr OTimeout
  | CreatedToError | ReadToError | CheckToError | DiscardToError => inr OErr
  | CreatedToClose | DiscardToClose => inr OClosed
  | CheckToFound => inr OFound
  end.

Definition resolves (t : trans) : bool := match dst t with inr _ => true | inl _ => false end.

(* ------------------------------------------------------------------ statCounts *)

Record counts := {
  n_state : cstate -> Z;
  n_out : coutcome -> Z;
  n_tr : trans -> Z;
  n_total : Z;        (* totalTransitions *)
  n_new : Z;          (* numNewConns *)
  n_resolved : Z      (* numResolved *)
}.

Definition zero_counts : counts :=
  {| n_state := fun _ => 0; n_out := fun _ => 0; n_tr := fun _ => 0; n_total := 0; n_new := 0; n_resolved := 0 |}.

Definition bump {A} (eqb : A -> A -> bool) (f : A -> Z) (a : A) (d : Z) : A -> Z :=
  fun x => if eqb x a then f x + d else f x.

(* addCreated: numCreated++, numNewConns++ *)
Definition add_counts (c : counts) : counts :=
  {| n_state := bump cstate_eqb (n_state c) SCreated 1; n_out := n_out c; n_tr := n_tr c;
     n_total := n_total c; n_new := n_new c + 1; n_resolved := n_resolved c |}.

(* xToY: num<X>--, num<Y>++, num<X>To<Y>++, totalTransitions++, and numResolved++ when Y is an outcome *)
Definition step_counts (t : trans) (c : counts) : counts :=
  {| n_state := match dst t with
                | inl s' => bump cstate_eqb (bump cstate_eqb (n_state c) (src t) (-1)) s' 1
                | inr _ => bump cstate_eqb (n_state c) (src t) (-1)
                end;
     n_out := match dst t with inr o => bump coutcome_eqb (n_out c) o 1 | inl _ => n_out c end;
     n_tr := bump trans_eqb (n_tr c) t 1;
     n_total := n_total c + 1;
     n_new := n_new c;
     n_resolved := if resolves t then n_resolved c + 1 else n_resolved c |}.

(* connStats.reset on an overall block: the state counters are NOT cleared, numCreatedToClose is
   not cleared either (it is missing from the list of stores) *)
Definition reset_counts (c : counts) : counts :=
  {| n_state := n_state c; n_out := fun _ => 0;
     n_tr := fun t => if trans_eqb t CreatedToClose then n_tr c t else 0;
     n_total := 0; n_new := 0; n_resolved := 0 |}.

Definition sum_over {A} (l : list A) (f : A -> Z) : Z := fold_right (fun a acc => f a + acc) 0 l.
Definition sum_state (c : counts) : Z := sum_over all_states (n_state c).
Definition sum_out (c : counts) : Z := sum_over all_outcomes (n_out c).
Definition sum_tr (c : counts) : Z := sum_over all_trans (n_tr c).

(* ------------------------------------------------------------------ per-ASN maps *)

(* map[uint]*asnCounts: association list, newest first; lookup of a missing key = nil pointer *)
Definition asnmap := list (N * (bytes * counts)).

Fixpoint amap_find (asn : N) (m : asnmap) : option (bytes * counts) :=
  match m with
  | [] => None
  | (a, e) :: m' => if (a =? asn)%N then Some e else amap_find asn m'
  end.

Fixpoint amap_set (asn : N) (e : bytes * counts) (m : asnmap) : asnmap :=
  match m with
  | [] => [(asn, e)]
  | (a, e0) :: m' => if (a =? asn)%N then (a, e) :: m' else (a, e0) :: amap_set asn e m'
  end.

(* `if _, ok := m[asn]; !ok { m[asn] = &asnCounts{}; m[asn].cc = cc }` *)
Definition amap_ensure (asn : N) (cc : bytes) (m : asnmap) : asnmap :=
  match amap_find asn m with Some _ => m | None => amap_set asn (cc, zero_counts) m end.

(* the GeoIP part of an update function: [guard] says whether the function creates a missing entry
   first; then the entry is dereferenced (atomic.AddInt64(&m[asn].field, ..)) - nil = panic *)
Definition geo_update (guard : bool) (asn : N) (cc : bytes) (f : counts -> counts) (m : asnmap) : result unit asnmap :=
  let m1 := if guard then amap_ensure asn cc m else m in
  match amap_find asn m1 with
  | None => Panic
  | Some (cc0, c) => Ok (amap_set asn (cc0, f c) m1)
  end.

(* ------------------------------------------------------------------ connStats *)

Record cstats := {
  s_v4 : counts;
  s_v6 : counts;
  s_map4 : asnmap;
  s_map6 : asnmap
}.

Definition init_stats : cstats := {| s_v4 := zero_counts; s_v6 := zero_counts; s_map4 := []; s_map6 := [] |}.

(* what a connection carries into every update: the peer's ASN and country code as GeoIP returned
   them, and whether the PHANTOM (original destination) is an IPv4 address *)
Record skey := { k_asn : N; k_cc : bytes; k_v4 : bool }.

Definition valid_cc (cc : bytes) : bool := match cc with [] => false | _ => true end.   (* isValidCC: cc != "" *)

Inductive sop :=
| SAdd (k : skey)                 (* addCreated *)
| STrans (t : trans) (k : skey)   (* one of the 19 xToY functions *)
| SReset.                         (* PrintAndReset / Reset *)

(* the shape of the code: does the update function (None = addCreated) create a missing entry? *)
Definition guards := option trans -> bool.
Definition code_guards : guards := fun _ => true.

Definition update (g : guards) (fn : option trans) (k : skey) (s : cstats) : result unit cstats :=
  let f := match fn with None => add_counts | Some t => step_counts t end in
  if k_v4 k then
    let o := f (s_v4 s) in
    if valid_cc (k_cc k) then
      match geo_update (g fn) (k_asn k) (k_cc k) f (s_map4 s) with
      | Ok m => Ok {| s_v4 := o; s_v6 := s_v6 s; s_map4 := m; s_map6 := s_map6 s |}
      | Err e => Err e
      | Panic => Panic
      end
    else Ok {| s_v4 := o; s_v6 := s_v6 s; s_map4 := s_map4 s; s_map6 := s_map6 s |}
  else
    let o := f (s_v6 s) in
    if valid_cc (k_cc k) then
      match geo_update (g fn) (k_asn k) (k_cc k) f (s_map6 s) with
      | Ok m => Ok {| s_v4 := s_v4 s; s_v6 := o; s_map4 := s_map4 s; s_map6 := m |}
      | Err e => Err e
      | Panic => Panic
      end
    else Ok {| s_v4 := s_v4 s; s_v6 := o; s_map4 := s_map4 s; s_map6 := s_map6 s |}.

Definition reset_stats (s : cstats) : cstats :=
  {| s_v4 := reset_counts (s_v4 s); s_v6 := reset_counts (s_v6 s); s_map4 := []; s_map6 := [] |}.

Definition apply_op (g : guards) (s : cstats) (o : sop) : result unit cstats :=
  match o with
  | SAdd k => update g None k s
  | STrans t k => update g (Some t) k s
  | SReset => Ok (reset_stats s)
  end.

(* a history of updates and epochs, from state s; a panic ends it (the goroutine - and with it the
   station process - dies) *)
Fixpoint run_ops (g : guards) (s : cstats) (h : list sop) : result unit cstats :=
  match h with
  | [] => Ok s
  | o :: h' => match apply_op g s o with
               | Ok s' => run_ops g s' h'
               | Err e => Err e
               | Panic => Panic
               end
  end.

Definition fam (v4 : bool) (s : cstats) : counts := if v4 then s_v4 s else s_v6 s.
Definition fam_map (v4 : bool) (s : cstats) : asnmap := if v4 then s_map4 s else s_map6 s.

(* ------------------------------------------------------------------ counting a history *)

Definition op_opens (v4 : bool) (o : sop) : Z :=
  match o with SAdd k => if Bool.eqb (k_v4 k) v4 then 1 else 0 | _ => 0 end.
Definition op_resolves (v4 : bool) (o : sop) : Z :=
  match o with STrans t k => if Bool.eqb (k_v4 k) v4 && resolves t then 1 else 0 | _ => 0 end.
Definition op_moves (v4 : bool) (o : sop) : Z :=
  match o with STrans t k => if Bool.eqb (k_v4 k) v4 then 1 else 0 | _ => 0 end.
Definition op_is (v4 : bool) (t0 : trans) (o : sop) : Z :=
  match o with STrans t k => if Bool.eqb (k_v4 k) v4 && trans_eqb t t0 then 1 else 0 | _ => 0 end.

Definition count_ops (f : sop -> Z) (h : list sop) : Z := fold_right (fun o acc => f o + acc) 0 h.

(* the part of a history after its last reset *)
Definition since_reset (h : list sop) : list sop :=
  fold_left (fun acc o => match o with SReset => [] | _ => acc ++ [o] end) h [].

(* ------------------------------------------------------------------ the handler's projection *)

(* what the handler learns from one Read *)
Inductive rkind := KReset | KTimeout | KClosed | KOther.   (* generalizeErr: rst / timeout / closed (EOF, net.ErrClosed, EPIPE) / anything else *)

(* what the transports' answers on the bytes buffered so far amount to *)
Inductive iter_out :=
| IMore         (* some transport still says "try again" *)
| IExhausted    (* every remaining transport said "not this transport": possibleTransports is empty *)
| IFound        (* a transport found the registration *)
| IError.       (* a transport returned another error: the handler sleeps until the deadline and gives up *)

Inductive hev :=
| HRead (n : N) (o : iter_out)    (* a Read returned n bytes (n may be 0); in the drain o is ignored *)
| HReadErr (k : rkind).           (* a Read (or io.Copy) failed; io.Copy's nil error on EOF is KClosed *)

Inductive pstate :=
| PLoop (had : bool)     (* in the read loop; had = received.Len() != 0 *)
| PDrain                 (* io.Copy(io.Discard, conn) *)
| PDone.                 (* the handler left the classification phase *)

(* start of handleNewTCPConn after the GeoIP lookups: addCreated, and with no registration on the
   phantom createdToDiscard; with no wrapping transport enabled the loop drains WITHOUT a transition *)
Definition open_trans (no_regs : bool) (no_transports : bool) : list trans * pstate :=
  if no_regs then ([CreatedToDiscard], PDrain)
  else if no_transports then ([], PDrain)
  else ([], PLoop false).

Definition err_trans_loop (had : bool) (k : rkind) : trans :=
  match k, had with
  | KReset, false => CreatedToReset | KReset, true => ReadToReset
  | KTimeout, false => CreatedToTimeout | KTimeout, true => ReadToTimeout
  | KClosed, false => CreatedToClose | KClosed, true => ReadToError
  | KOther, false => CreatedToError | KOther, true => ReadToError
  end.

Definition err_trans_drain (k : rkind) : trans :=
  match k with
  | KReset => DiscardToReset | KTimeout => DiscardToTimeout | KClosed => DiscardToClose | KOther => DiscardToError
  end.

Definition hev_step (p : pstate) (e : hev) : list trans * pstate :=
  match p, e with
  | PLoop had, HRead n o =>
    let had' := had || negb (n =? 0)%N in
    ((if had then ReadToCheck else CreatedToCheck) ::
     match o with
     | IMore => [if had' then CheckToRead else CheckToCreated]
     | IExhausted => [CheckToDiscard]
     | IFound => [CheckToFound]
     | IError => [CheckToError]
     end,
     match o with IMore => PLoop had' | IExhausted => PDrain | _ => PDone end)
  | PLoop had, HReadErr k => ([err_trans_loop had k], PDone)
  | PDrain, HRead _ _ => ([], PDrain)
  | PDrain, HReadErr k => ([err_trans_drain k], PDone)
  | PDone, _ => ([], PDone)
  end.

Fixpoint hevs_trans (p : pstate) (es : list hev) : list trans :=
  match es with
  | [] => []
  | e :: es' => let '(ts, p') := hev_step p e in ts ++ hevs_trans p' es'
  end.

(* every update one connection makes, in order *)
Definition conn_ops (k : skey) (no_regs no_transports : bool) (es : list hev) : list sop :=
  let '(ts0, p0) := open_trans no_regs no_transports in
  SAdd k :: map (fun t => STrans t k) (ts0 ++ hevs_trans p0 es).

(* ------------------------------------------------------------------ interleaved histories of several connections *)

(* the events of several connections (identified by a number) and the statistics epochs, in the
   order in which they take effect *)
Inductive gev :=
| GOpen (c : N) (k : skey) (no_regs no_transports : bool)
| GEv (c : N) (e : hev)
| GEpoch.

Definition conn_tab := list (N * (skey * pstate)).

Fixpoint ctab_find (c : N) (tb : conn_tab) : option (skey * pstate) :=
  match tb with
  | [] => None
  | (c0, x) :: tb' => if (c0 =? c)%N then Some x else ctab_find c tb'
  end.

Fixpoint ctab_set (c : N) (x : skey * pstate) (tb : conn_tab) : conn_tab :=
  match tb with
  | [] => [(c, x)]
  | (c0, x0) :: tb' => if (c0 =? c)%N then (c0, x) :: tb' else (c0, x0) :: ctab_set c x tb'
  end.

(* the updates one global event causes (events of connections that were never opened cause none) *)
Definition gev_ops (tb : conn_tab) (e : gev) : list sop * conn_tab :=
  match e with
  | GOpen c k nr nt =>
    let '(ts0, p0) := open_trans nr nt in
    (SAdd k :: map (fun t => STrans t k) ts0, ctab_set c (k, p0) tb)
  | GEv c ev =>
    match ctab_find c tb with
    | None => ([], tb)
    | Some (k, p) => let '(ts, p') := hev_step p ev in (map (fun t => STrans t k) ts, ctab_set c (k, p') tb)
    end
  | GEpoch => ([SReset], tb)
  end.

Fixpoint gevs_ops (tb : conn_tab) (es : list gev) : list sop :=
  match es with
  | [] => []
  | e :: es' => let '(ops, tb') := gev_ops tb e in ops ++ gevs_ops tb' es'
  end.

(* connections of a family that are still being classified after a history (state <> PDone) *)
Definition in_flight (v4 : bool) (tb : conn_tab) : Z :=
  fold_right (fun x acc => match x with
                           | (_, (k, p)) => if Bool.eqb (k_v4 k) v4 then match p with PDone => acc | _ => 1 + acc end else acc
                           end) 0 tb.

Fixpoint gevs_tab (tb : conn_tab) (es : list gev) : conn_tab :=
  match es with
  | [] => tb
  | e :: es' => gevs_tab (snd (gev_ops tb e)) es'
  end.

(* connection numbers are opened at most once *)
Fixpoint fresh_opens (tb : conn_tab) (es : list gev) : Prop :=
  match es with
  | [] => True
  | e :: es' => match e with GOpen c _ _ _ => ctab_find c tb = None | _ => True end /\
                fresh_opens (snd (gev_ops tb e)) es'
  end.
